(** Call protocol of the data-drift detectors (17 batch + 2 streaming), transliterated from
      frouros/detectors/base.py                         (BaseDetector._check_array)
      frouros/detectors/data_drift/base.py              (fit, reset, _check_fit_dimensions, _check_is_fitted, X_ref setter)
      frouros/detectors/data_drift/batch/base.py        (compare, _check_compare_dimensions, _specific_checks, _fit)
      frouros/detectors/data_drift/batch/distance_based/base.py, batch/statistical_test/base.py (_compare)
      frouros/detectors/data_drift/batch/statistical_test/cvm.py  (overrides: X_ref setter, _specific_checks)
      frouros/detectors/data_drift/batch/distance_based/mmd.py    (_fit override: kernel precomputation)
      frouros/detectors/data_drift/streaming/base.py    (update, reset)
      frouros/detectors/data_drift/streaming/statistical_test/ks.py, streaming/distance_based/{base,mmd}.py
    Definitions only.  Arrays are abstracted to (is ndarray?, has .shape/.ndim?, shape, payload id);
    everything NumPy/SciPy computes is a Section variable. *)
From Coq Require Import List Bool Arith.
From FV Require Import Py.
Import ListNotations.

(** The 19 concrete classes. *)
Inductive cls :=
| AndersonDarlingTest | BWSTest | ChiSquareTest | CVMTest | KSTest | KuiperTest | MannWhitneyUTest | WelchTTest
| BhattacharyyaDistance | EMD | EnergyDistance | HellingerDistance | HINormalizedComplement | JS | KL | MMD | PSI
| IncrementalKSTest | MMDStreaming.

Definition all_cls : list cls :=
  [AndersonDarlingTest; BWSTest; ChiSquareTest; CVMTest; KSTest; KuiperTest; MannWhitneyUTest; WelchTTest;
   BhattacharyyaDistance; EMD; EnergyDistance; HellingerDistance; HINormalizedComplement; JS; KL; MMD; PSI;
   IncrementalKSTest; MMDStreaming].

Definition cls_eqb (a b : cls) : bool :=
  match a, b with
  | AndersonDarlingTest, AndersonDarlingTest | BWSTest, BWSTest | ChiSquareTest, ChiSquareTest | CVMTest, CVMTest
  | KSTest, KSTest | KuiperTest, KuiperTest | MannWhitneyUTest, MannWhitneyUTest | WelchTTest, WelchTTest
  | BhattacharyyaDistance, BhattacharyyaDistance | EMD, EMD | EnergyDistance, EnergyDistance
  | HellingerDistance, HellingerDistance | HINormalizedComplement, HINormalizedComplement | JS, JS | KL, KL
  | MMD, MMD | PSI, PSI | IncrementalKSTest, IncrementalKSTest | MMDStreaming, MMDStreaming => true
  | _, _ => false
  end.

(** The validation hooks, one constructor per method of the code. *)
Inductive check :=
| ChkFitDims (univariate : bool)  (* BaseDataDrift._check_fit_dimensions with UnivariateData (operator.eq) / MultivariateData (operator.ge) *)
| ChkArray                        (* BaseDetector._check_array, called by the X_ref setter of BaseDataDrift *)
| ChkSamples                      (* CVMTest._check_sufficient_samples *)
| ChkFitted                       (* BaseDataDrift._check_is_fitted (via _common_checks) *)
| ChkCmpDims.                     (* BaseDataDriftBatch._check_compare_dimensions (via _specific_checks) *)

Inductive family := FBatch | FIKS | FMMDs.

(** Which checks the fit / compare / update chain of a class performs, in the order the code performs them.
    [d_kernel]: the class's _fit continues, after storing X_ref, with a library computation that can raise
    (MMD: the k_xx kernel sum). *)
Record desc := { d_family : family; d_fit : list check; d_cmp : list check; d_upd : list check; d_kernel : bool }.

(* BaseDataDriftBatch with the inherited X_ref setter and _specific_checks *)
Definition batch_desc (univariate kernel : bool) : desc :=
  {| d_family := FBatch; d_fit := [ChkFitDims univariate; ChkArray]; d_cmp := [ChkFitted; ChkCmpDims];
     d_upd := []; d_kernel := kernel |}.
Definition stat_test := batch_desc true false.            (* BaseStatisticalTest subclasses: UnivariateData() *)
Definition distance_bins := batch_desc true false.        (* BaseDistanceBasedBins: UnivariateData() *)
Definition distance_prob := batch_desc true false.        (* BaseDistanceBasedProbability: UnivariateData() *)
Definition distance_uni := batch_desc true false.         (* EMD, EnergyDistance: BaseDistanceBased with UnivariateData() *)

Definition describe (c : cls) : desc :=
  match c with
  | AndersonDarlingTest => stat_test
  | BWSTest => stat_test
  | ChiSquareTest => stat_test
  | CVMTest =>   (* X_ref setter overridden: _check_array, then _check_sufficient_samples;
                    _specific_checks overridden: super()._specific_checks, then _check_sufficient_samples *)
      {| d_family := FBatch; d_fit := [ChkFitDims true; ChkArray; ChkSamples]; d_cmp := [ChkFitted; ChkCmpDims; ChkSamples];
         d_upd := []; d_kernel := false |}
  | KSTest => stat_test
  | KuiperTest => stat_test
  | MannWhitneyUTest => stat_test
  | WelchTTest => stat_test
  | BhattacharyyaDistance => distance_bins
  | EMD => distance_uni
  | EnergyDistance => distance_uni
  | HellingerDistance => distance_bins
  | HINormalizedComplement => distance_bins
  | JS => distance_prob
  | KL => distance_prob
  | MMD => batch_desc false true                          (* MultivariateData(); _fit: super()._fit, then kernel sums *)
  | PSI => distance_bins
  | IncrementalKSTest =>                                  (* streaming, UnivariateData(); no compare method *)
      {| d_family := FIKS; d_fit := [ChkFitDims true]; d_cmp := []; d_upd := [ChkFitted]; d_kernel := false |}
  | MMDStreaming =>                                       (* streaming, MultivariateData(); wraps a batch MMD *)
      {| d_family := FMMDs; d_fit := [ChkFitDims false]; d_cmp := []; d_upd := [ChkFitted]; d_kernel := false |}
  end.

Fixpoint list_eqb (a b : list nat) : bool :=
  match a, b with
  | [], [] => true
  | x :: a', y :: b' => (x =? y) && list_eqb a' b'
  | _, _ => false
  end.

Section Batch.
  Variable P : Type.     (* identity of an array's content *)
  Variable Prm : Type.   (* constructor parameters (num_bins, kernel, chunk_size, ...) *)
  Variable V : Type.     (* whatever NumPy/SciPy makes of the arguments: a value or a library exception *)

  (** A Python object handed to fit/compare/update.
      ndarray: a_nd = a_attr = true.  NumPy scalar (np.float64): a_nd = false, a_attr = true, shape [].
      list / None / float / tuple: a_attr = false (reading .shape raises AttributeError).
      Other object exposing .shape/.ndim (a pandas Series would be one): a_nd = false, a_attr = true. *)
  Record arr := { a_nd : bool; a_attr : bool; a_shape : list nat; a_id : P }.

  Record cfg := { c_cls : cls; c_prm : Prm; c_win : nat }.

  Variable lib_cmp : cfg -> arr -> option arr -> arr -> V.
     (* _apply_method(X_ref, X) for the class and parameters; the option is the array MMD._expected_k_xx was
        computed from (None for every other class) *)
  Variable lib_fit_fails : cfg -> arr -> bool.   (* MMD._fit: the kernel computation on X raises *)
  Variable lib_sort : arr -> arr.                (* np.sort(X) *)
  Variable lib_stack : list arr -> option arr.   (* np.array(self.X_queue), oldest first; None: NumPy raises *)

  Inductive out := ONone | OLib (v : V).
  (* ONone: fit / reset / update below the window return nothing of interest.
     OLib v: the call passed every check of the class and reached NumPy/SciPy. *)

  Definition ndim (a : arr) : nat := length (a_shape a).
  Definition shape1 (a : arr) : option nat := nth_error (a_shape a) 1.

  (** _check_fit_dimensions:
        if X.ndim > 2: raise DimensionError
        try:    if not dim_check(X.shape[1], 1): raise DimensionError
        except IndexError: if not dim_check(X.ndim, 1): raise DimensionError *)
  Definition dim_check (univariate : bool) (v : nat) : bool := if univariate then v =? 1 else 1 <=? v.

  Definition chk_fit_dims (univariate : bool) (X : arr) : res unit :=
    if negb (a_attr X) then Raise AttributeError else
    if 2 <? ndim X then Raise DimensionError else
    match shape1 X with
    | Some k => if dim_check univariate k then Ok tt else Raise DimensionError
    | None => if dim_check univariate (ndim X) then Ok tt else Raise DimensionError
    end.

  (** _check_array *)
  Definition chk_array (X : arr) : res unit := if a_nd X then Ok tt else Raise TypeError.

  (** CVMTest._check_sufficient_samples: if X.shape[0] < 2: raise InsufficientSamplesError *)
  Definition chk_samples (X : arr) : res unit :=
    if negb (a_attr X) then Raise AttributeError else
    match nth_error (a_shape X) 0 with
    | None => Raise IndexError
    | Some n => if n <? 2 then Raise InsufficientSamplesError else Ok tt
    end.

  (** _check_is_fitted *)
  Definition chk_fitted (ref : option arr) : res unit :=
    match ref with None => Raise MissingFitError | Some _ => Ok tt end.

  (** _check_compare_dimensions:
        if self.X_ref.ndim != X.ndim or self.X_ref.shape[1:] != X.shape[1:]: raise MismatchDimensionError
      (operands evaluated left to right; a slice never raises IndexError) *)
  Definition chk_cmp_dims (ref : option arr) (X : arr) : res unit :=
    match ref with
    | None => Raise AttributeError
    | Some r =>
      if negb (a_attr r) then Raise AttributeError else
      if negb (a_attr X) then Raise AttributeError else
      if negb (ndim r =? ndim X) then Raise MismatchDimensionError else
      if list_eqb (tl (a_shape r)) (tl (a_shape X)) then Ok tt else Raise MismatchDimensionError
    end.

  Definition run_check (k : check) (ref : option arr) (X : arr) : res unit :=
    match k with
    | ChkFitDims u => chk_fit_dims u X
    | ChkArray => chk_array X
    | ChkSamples => chk_samples X
    | ChkFitted => chk_fitted ref
    | ChkCmpDims => chk_cmp_dims ref X
    end.

  Fixpoint run_checks (ks : list check) (ref : option arr) (X : arr) : res unit :=
    match ks with
    | [] => Ok tt
    | k :: t => match run_check k ref X with Raise e => Raise e | Ok _ => run_checks t ref X end
    end.

  (** Detector state.  s_ref = self.X_ref;  s_aux = the array MMD._expected_k_xx was last computed from;
      s_iref / s_iaux = the same two attributes of the wrapped batch MMD of the streaming MMD;
      s_n = num_instances;  s_win = X_queue contents, oldest first. *)
  Record st := { s_ref : option arr; s_aux : option arr; s_iref : option arr; s_iaux : option arr;
                 s_n : nat; s_win : list arr }.

  Definition init : st := {| s_ref := None; s_aux := None; s_iref := None; s_iaux := None; s_n := 0; s_win := [] |}.

  Inductive op := Fit (X : arr) | Cmp (X : arr) | Upd (v : arr) | Rst.

  (** BaseDataDrift.fit for a batch class: checks (fit dimensions, then the X_ref setter inside _fit), store,
      then the class's extra library work. Returns (X_ref, aux, outcome). *)
  Definition batch_fit (d : desc) (c : cfg) (ref aux : option arr) (X : arr) : option arr * option arr * res out :=
    match run_checks (d_fit d) ref X with
    | Raise e => (ref, aux, Raise e)
    | Ok _ =>
      if d_kernel d then
        if lib_fit_fails c X then (Some X, aux, Raise OtherError)   (* X_ref already assigned *)
        else (Some X, Some X, Ok ONone)
      else (Some X, aux, Ok ONone)
    end.

  (** BaseDataDriftBatch.compare -> _compare: _common_checks, _specific_checks, _get_result *)
  Definition batch_cmp (d : desc) (c : cfg) (ref aux : option arr) (X : arr) : res out :=
    match run_checks (d_cmp d) ref X with
    | Raise e => Raise e
    | Ok _ =>
      match ref with
      | Some r => Ok (OLib (lib_cmp c r aux X))
      | None => Raise AttributeError
      end
    end.

  (** CircularQueue(max_len = window_size).enqueue, on the contents *)
  Definition enqueue (w : nat) (l : list arr) (v : arr) : list arr :=
    let l' := l ++ [v] in if w <? length l' then tl l' else l'.

  Definition inner_cfg (c : cfg) : cfg := {| c_cls := MMD; c_prm := c_prm c; c_win := 0 |}.

  Definition step (c : cfg) (s : st) (o : op) : st * res out :=
    let d := describe (c_cls c) in
    match d_family d with
    | FBatch =>
      match o with
      | Fit X =>
        let '(r, a, o) := batch_fit d c (s_ref s) (s_aux s) X in
        ({| s_ref := r; s_aux := a; s_iref := s_iref s; s_iaux := s_iaux s; s_n := s_n s; s_win := s_win s |}, o)
      | Cmp X => (s, batch_cmp d c (s_ref s) (s_aux s) X)
      | Upd _ => (s, Raise AttributeError)           (* batch detectors have no update method *)
      | Rst =>
        ({| s_ref := None; s_aux := s_aux s; s_iref := s_iref s; s_iaux := s_iaux s; s_n := s_n s; s_win := s_win s |},
         Ok ONone)
      end
    | FIKS =>
      match o with
      | Fit X =>
        match run_checks (d_fit d) (s_ref s) X with
        | Raise e => (s, Raise e)
        | Ok _ =>
          match nth_error (a_shape X) 0 with         (* X.shape[0] for the gcd *)
          | None => (s, Raise IndexError)
          | Some _ =>
            let r := lib_sort X in                   (* self.X_ref = np.sort(X), through the setter *)
            match chk_array r with
            | Raise e => (s, Raise e)
            | Ok _ =>
              ({| s_ref := Some r; s_aux := s_aux s; s_iref := s_iref s; s_iaux := s_iaux s; s_n := s_n s; s_win := s_win s |},
               Ok ONone)
            end
          end
        end
      | Cmp _ => (s, Raise AttributeError)           (* IncrementalKSTest has no compare method *)
      | Upd v =>
        match run_checks (d_upd d) (s_ref s) v with
        | Raise e => (s, Raise e)
        | Ok _ =>
          let n := S (s_n s) in
          let w := enqueue (c_win c) (s_win s) v in
          let s' := {| s_ref := s_ref s; s_aux := s_aux s; s_iref := s_iref s; s_iaux := s_iaux s; s_n := n; s_win := w |} in
          if n <? c_win c then (s', Ok ONone) else
          match lib_stack w, s_ref s with
          | Some W, Some r => (s', Ok (OLib (lib_cmp c r None W)))
          | _, _ => (s', Raise OtherError)
          end
        end
      | Rst =>     (* X_ref = None; num_instances = 0; _reset: gcd = None, X_queue.clear() *)
        ({| s_ref := None; s_aux := s_aux s; s_iref := s_iref s; s_iaux := s_iaux s; s_n := 0; s_win := [] |}, Ok ONone)
      end
    | FMMDs =>
      let di := describe MMD in
      match o with
      | Fit X =>
        match run_checks (d_fit d) (s_ref s) X with
        | Raise e => (s, Raise e)
        | Ok _ =>    (* _fit: self.mmd.fit(X=X); self.X_ref = self.mmd.X_ref *)
          let '(r, a, o) := batch_fit di (inner_cfg c) (s_iref s) (s_iaux s) X in
          match o with
          | Raise e =>
            ({| s_ref := s_ref s; s_aux := s_aux s; s_iref := r; s_iaux := a; s_n := s_n s; s_win := s_win s |}, Raise e)
          | Ok _ =>
            match r with
            | None => ({| s_ref := None; s_aux := s_aux s; s_iref := r; s_iaux := a; s_n := s_n s; s_win := s_win s |}, Ok ONone)
            | Some r' =>
              match chk_array r' with
              | Raise e =>
                ({| s_ref := s_ref s; s_aux := s_aux s; s_iref := r; s_iaux := a; s_n := s_n s; s_win := s_win s |}, Raise e)
              | Ok _ =>
                ({| s_ref := r; s_aux := s_aux s; s_iref := r; s_iaux := a; s_n := s_n s; s_win := s_win s |}, Ok ONone)
              end
            end
          end
        end
      | Cmp X => (s, batch_cmp di (inner_cfg c) (s_iref s) (s_iaux s) X)    (* return self.mmd.compare(X=X) *)
      | Upd v =>
        match run_checks (d_upd d) (s_ref s) v with
        | Raise e => (s, Raise e)
        | Ok _ =>
          let n := S (s_n s) in
          let w := enqueue (c_win c) (s_win s) v in
          let s' := {| s_ref := s_ref s; s_aux := s_aux s; s_iref := s_iref s; s_iaux := s_iaux s; s_n := n; s_win := w |} in
          if n <? c_win c then (s', Ok ONone) else
          match lib_stack w with
          | Some W => (s', batch_cmp di (inner_cfg c) (s_iref s) (s_iaux s) W)
          | None => (s', Raise OtherError)
          end
        end
      | Rst =>     (* X_ref = None; num_instances = 0; _reset: self.mmd.reset(); self.X_queue.clear() *)
        ({| s_ref := None; s_aux := s_aux s; s_iref := None; s_iaux := s_iaux s; s_n := 0; s_win := [] |}, Ok ONone)
      end
    end.

  Fixpoint exec (c : cfg) (s : st) (ops : list op) : st :=
    match ops with [] => s | o :: t => exec c (fst (step c s o)) t end.

  Fixpoint outs (c : cfg) (s : st) (ops : list op) : list (res out) :=
    match ops with [] => [] | o :: t => snd (step c s o) :: outs c (fst (step c s o)) t end.

  (** every intermediate state with the outcome that led to it (for the correspondence check) *)
  Fixpoint trace (c : cfg) (s : st) (ops : list op) : list (res out * st) :=
    match ops with [] => [] | o :: t => (snd (step c s o), fst (step c s o)) :: trace c (fst (step c s o)) t end.

  (** Views used by the statements. *)
  (* the reference compare works against *)
  Definition eff_ref (c : cfg) (s : st) : option arr :=
    match d_family (describe (c_cls c)) with FMMDs => s_iref s | _ => s_ref s end.
  Definition eff_aux (c : cfg) (s : st) : option arr :=
    match d_family (describe (c_cls c)) with FMMDs => s_iaux s | _ => s_aux s end.
  (* X_ref is None (and, for the streaming MMD, so is the wrapped detector's) *)
  Definition unfitted (c : cfg) (s : st) : Prop :=
    s_ref s = None /\ (d_family (describe (c_cls c)) = FMMDs -> s_iref s = None).

  Definition has_compare (c : cls) : bool := match d_family (describe c) with FIKS => false | _ => true end.
  Definition has_update (c : cls) : bool := match d_family (describe c) with FBatch => false | _ => true end.
  Definition uses_kernel (c : cls) : bool := match c with MMD | MMDStreaming => true | _ => false end.
  Definition univariate (c : cls) : bool := match c with MMD | MMDStreaming => false | _ => true end.

  Definition is_cmp (o : op) : bool := match o with Cmp _ => true | _ => false end.
  Definition is_fit (o : op) : bool := match o with Fit _ => true | _ => false end.

  (** "dimensionality" of a sample array: number of axes and the extent of every axis but the first *)
  Definition same_dims (r X : arr) : bool := list_eqb (tl (a_shape r)) (tl (a_shape X)) && (ndim r =? ndim X).
  (* more than one value per sample *)
  Definition multi_column (X : arr) : bool := negb (forallb (fun k => k =? 1) (tl (a_shape X))).
End Batch.

Arguments ONone {V}.
Arguments OLib {V} v.
Arguments Fit {P} X.
Arguments Cmp {P} X.
Arguments Upd {P} v.
Arguments Rst {P}.
Arguments init {P}.
