(** change_detection/{base,cusum,page_hinkley,geometric_moving_average}.py *)
From Coq Require Import ZArith List Bool.
From FV Require Import NumSys Stats Detector.
Import ListNotations.

Section Cusum.
  Context {A : Arith}.
  Local Open Scope arith_scope.

  Inductive cusum_kind := KCusum | KPageHinkley | KGMA.
  Record cusum_cfg := { ck_kind : cusum_kind; ck_min : Z; ck_lambda : num A; ck_delta : num A; ck_alpha : num A }.
  Record cusum_st := { cs_n : Z; cs_mean : mean_st A; cs_sum : num A; cs_drift : bool }.

  Definition cusum_init (c : cusum_cfg) : cusum_st :=
    {| cs_n := 0; cs_mean := mean_init; cs_sum := zero; cs_drift := false |}.

  (** [_update_sum] of the three subclasses; [m] is the running mean including [v] *)
  Definition update_sum (c : cusum_cfg) (g : num A) (v m : num A) : num A :=
    match ck_kind c with
    | KCusum => max0 (((g + v) - m) - ck_delta c)
    | KPageHinkley => ck_alpha c * g + ((v - m) - ck_delta c)
    | KGMA => ck_alpha c * g + (one - ck_alpha c) * (v - m)
    end.

  Definition cusum_step (c : cusum_cfg) (s : cusum_st) (v : num A) : cusum_st :=
    let n := (cs_n s + 1)%Z in
    let m := mean_update (cs_mean s) v in
    let g := update_sum c (cs_sum s) v (m_mean m) in
    {| cs_n := n; cs_mean := m; cs_sum := g;
       cs_drift := (ck_min c <=? n)%Z && (ck_lambda c <? g) |}.

  Definition cusum_reset (c : cusum_cfg) (s : cusum_st) : cusum_st := cusum_init c.

  Definition CusumD : Detector := {|
    d_cfg := cusum_cfg; d_in := num A; d_st := cusum_st;
    d_init := cusum_init; d_step := cusum_step; d_reset := cusum_reset;
    d_drift := cs_drift; d_warning := fun _ => false; d_has_warning_status := false;
    d_ninst := cs_n |}.
End Cusum.
Arguments cusum_cfg : clear implicits.
Arguments cusum_st : clear implicits.
Arguments CusumD : clear implicits.
