(** Two-sample test wrappers
    frouros/detectors/data_drift/batch/statistical_test/{anderson_darling,bws,cvm,
    mann_whitney_u,welch_t_test,kuiper_test,chisquare,base}.py — definitions only.

    Part 1  keyword forwarding: the call that reaches SciPy as a function of the
            keyword dictionary given to [compare] (Python call semantics: a keyword
            given explicitly and through ** raises TypeError; unknown keyword raises
            TypeError; defaults fill the rest).
    Part 2  exact models of the statistics that are functions of ranks / order /
            counts: midranks, Mann-Whitney U, Cramer-von Mises T (as SciPy computes
            them), Welch t, the chi-square contingency table and statistic.
    Part 3  KuiperTest._false_positive_probability transliterated (generic [Arith]).
    SciPy's p-value numerics are NOT modelled. *)
From Coq Require Import ZArith List Bool String.
From FV Require Import NumSys Py KS.
Import ListNotations.
Local Open Scope Z_scope.

(* ====================================================================== *)
(** * Part 1 — keyword forwarding *)

(** parameter / keyword names that occur in the wrappers and the SciPy signatures;
    [Kother] stands for any other name *)
Inductive key :=
| KX | KX_ref | KY | Ksamples | Kx | Ky | Ka | Kb | Kdata1 | Kdata2 | Kobserved
| Kalternative | Kmethod | Kmidrank | Knan_policy | Kequal_var | Kuse_continuity | Kaxis
| Kkeepdims | Kpermutations | Krandom_state | Ktrim | Kcorrection | Klambda_ | Kother.
Scheme Equality for key.

Inductive sample := Ref | Test.

(** argument values: option values are opaque literals; data arguments say which sample *)
Inductive val :=
| VNone | VBool (b : bool) | VStr (s : string) | VInt (z : Z) | VFrac (p q : Z) | VObj (id : Z)
| VSample (s : sample)       (* the array given to fit / compare, as is *)
| VSorted (s : sample)       (* np.sort of it *)
| VCounts (s : sample)       (* its row of category counts (chi-square) *)
| VList (l : list val).

Definition kwargs := list (key * val).
Definition keys (d : kwargs) : list key := map fst d.
Definition memk (k : key) (l : list key) : bool := existsb (key_beq k) l.
Fixpoint lookup (k : key) (d : kwargs) : option val :=
  match d with
  | [] => None
  | (k', v) :: r => if key_beq k k' then Some v else lookup k r
  end.
(** [kwargs.get(k, d)] *)
Definition get (kw : kwargs) (k : key) (d : val) : val :=
  match lookup k kw with Some v => v | None => d end.

(** [f(k1=v1, ..., **kw)]: a name given both ways is a TypeError ("got multiple values
    for keyword argument") raised before [f] runs; otherwise [f] receives the union *)
Definition clash (explicit kw : kwargs) : bool :=
  existsb (fun k => memk k (keys explicit)) (keys kw).
Definition call_merge (explicit kw : kwargs) : res kwargs :=
  if clash explicit kw then Raise TypeError else Ok (explicit ++ kw).

(** binding keyword arguments to a signature without a ** catch-all: unknown name or
    missing required parameter is a TypeError; result = every parameter, in signature
    order, with its argument or default *)
Definition signature := list (key * option val).
Definition bind_sig (s : signature) (args : kwargs) : res kwargs :=
  if existsb (fun k => negb (memk k (map fst s))) (keys args) then Raise TypeError
  else if existsb (fun p => match snd p, lookup (fst p) args with None, None => true | _, _ => false end) s
       then Raise TypeError
  else Ok (map (fun p => (fst p, match lookup (fst p) args with
                                  | Some v => v
                                  | None => match snd p with Some d => d | None => VNone end
                                  end)) s).

(** the dict display [{k1: d1, .., **kw}]: the listed names in order, each with [kw]'s value if
    [kw] has the name, followed by the remaining items of [kw] *)
Definition dict_union (defaults kw : kwargs) : kwargs :=
  map (fun kd => (fst kd, get kw (fst kd) (snd kd))) defaults
  ++ filter (fun kv => negb (memk (fst kv) (keys defaults))) kw.

(** a method [g(self, k1, .., **kwargs)] called as [g(k1=v1, .., **kw)]: its [kwargs] is [kw] *)
Definition hop (explicit kw : kwargs) : res kwargs :=
  if clash explicit kw then Raise TypeError else Ok kw.

Inductive scipyfn :=
| anderson_ksamp | bws_test | cramervonmises_2samp | mannwhitneyu | ttest_ind | ks_2samp | chi2_contingency.

Local Open Scope string_scope.
(** signatures of SciPy 1.14.1 (inspect.signature) *)
Definition sig_of (f : scipyfn) : signature :=
  match f with
  | anderson_ksamp => [(Ksamples, None); (Kmidrank, Some (VBool true)); (Kmethod, Some VNone)]
  | bws_test => [(Kx, None); (Ky, None); (Kalternative, Some (VStr "two-sided")); (Kmethod, Some VNone)]
  | cramervonmises_2samp =>
      [(Kx, None); (Ky, None); (Kmethod, Some (VStr "auto")); (Kaxis, Some (VInt 0));
       (Knan_policy, Some (VStr "propagate")); (Kkeepdims, Some (VBool false))]
  | mannwhitneyu =>
      [(Kx, None); (Ky, None); (Kuse_continuity, Some (VBool true)); (Kalternative, Some (VStr "two-sided"));
       (Kaxis, Some (VInt 0)); (Kmethod, Some (VStr "auto")); (Knan_policy, Some (VStr "propagate"));
       (Kkeepdims, Some (VBool false))]
  | ttest_ind =>
      [(Ka, None); (Kb, None); (Kaxis, Some (VInt 0)); (Kequal_var, Some (VBool true));
       (Knan_policy, Some (VStr "propagate")); (Kpermutations, Some VNone); (Krandom_state, Some VNone);
       (Kalternative, Some (VStr "two-sided")); (Ktrim, Some (VInt 0)); (Kkeepdims, Some (VBool false))]
  | ks_2samp =>
      [(Kdata1, None); (Kdata2, None); (Kalternative, Some (VStr "two-sided")); (Kmethod, Some (VStr "auto"));
       (Kaxis, Some (VInt 0)); (Knan_policy, Some (VStr "propagate")); (Kkeepdims, Some (VBool false))]
  | chi2_contingency => [(Kobserved, None); (Kcorrection, Some (VBool true)); (Klambda_, Some VNone)]
  end.

Record call := { c_fn : scipyfn; c_args : kwargs }.

Definition scipy_call (f : scipyfn) (explicit kw : kwargs) : res call :=
  do args <- call_merge explicit kw;
  do bound <- bind_sig (sig_of f) args;
  Ok {| c_fn := f; c_args := bound |}.

Inductive wrapper := AD | BWS | CVM | MWU | Welch | Kuiper | Chi.

Definition vref := VSample Ref.
Definition vtest := VSample Test.

(** [_statistical_test(X_ref, X, **kwargs)] of each wrapper, as the code is *)
Definition statistical_test (w : wrapper) (kw : kwargs) : res call :=
  match w with
  | AD =>      (* anderson_ksamp(samples=[X_ref, X], **kwargs) *)
      scipy_call anderson_ksamp [(Ksamples, VList [vref; vtest])] kw
  | BWS =>     (* bws_test(x=X_ref, y=X, alternative=kwargs.get(..), method=kwargs.get(..)) *)
      scipy_call bws_test [(Kx, vref); (Ky, vtest);
                           (Kalternative, get kw Kalternative (VStr "two-sided"));
                           (Kmethod, get kw Kmethod VNone)] []
  | CVM =>     (* cramervonmises_2samp(x=X_ref, y=X, **kwargs) *)
      scipy_call cramervonmises_2samp [(Kx, vref); (Ky, vtest)] kw
  | MWU =>     (* mannwhitneyu(x=X_ref, y=X, **{"alternative": "two-sided", "nan_policy": "raise", **kwargs}) *)
      scipy_call mannwhitneyu [(Kx, vref); (Ky, vtest)]
                 (dict_union [(Kalternative, VStr "two-sided"); (Knan_policy, VStr "raise")] kw)
  | Welch =>   (* ttest_ind(a=X_ref, b=X, equal_var=False, **{"alternative": "two-sided", **kwargs}) *)
      scipy_call ttest_ind [(Ka, vref); (Kb, vtest); (Kequal_var, VBool false)]
                 (dict_union [(Kalternative, VStr "two-sided")] kw)
  | Kuiper =>  (* KuiperTest._kuiper(X=X_ref, Y=X, **kwargs); _kuiper(X, Y) has no other parameter;
                  then ks_2samp(data1=np.sort(X), data2=np.sort(Y), alternative="two-sided") *)
      do args <- call_merge [(KX, vref); (KY, vtest)] kw;
      do _ <- bind_sig [(KX, None); (KY, None)] args;
      scipy_call ks_2samp [(Kdata1, VSorted Ref); (Kdata2, VSorted Test); (Kalternative, VStr "two-sided")] []
  | Chi =>     (* chi2_contingency(observed=np.array([f_obs, f_exp]), **kwargs): row 0 = test counts *)
      scipy_call chi2_contingency [(Kobserved, VList [VCounts Test; VCounts Ref])] kw
  end.

(** user: compare(X=test, **kw) -> _compare(X=X, **kwargs) -> _get_result(X=X, **kwargs)
    -> _apply_method(X_ref=self.X_ref, X=X, **kwargs) -> _statistical_test(X_ref=, X=, **kwargs) *)
Definition compare_call (w : wrapper) (kw : kwargs) : res call :=
  do k1 <- hop [(KX, vtest)] kw;
  do k2 <- hop [(KX, vtest)] k1;
  do k3 <- hop [(KX, vtest)] k2;
  do k4 <- hop [(KX_ref, vref); (KX, vtest)] k3;
  do k5 <- hop [(KX_ref, vref); (KX, vtest)] k4;
  statistical_test w k5.

(** ---- what the property asks of the call (specification side) ---- *)
Definition scipy_fn (w : wrapper) : scipyfn :=
  match w with
  | AD => anderson_ksamp | BWS => bws_test | CVM => cramervonmises_2samp | MWU => mannwhitneyu
  | Welch => ttest_ind | Kuiper => ks_2samp | Chi => chi2_contingency
  end.

(** the data arguments: (reference, test) in that order *)
Definition data_spec (w : wrapper) : kwargs :=
  match w with
  | AD => [(Ksamples, VList [vref; vtest])]
  | BWS | CVM | MWU => [(Kx, vref); (Ky, vtest)]
  | Welch => [(Ka, vref); (Kb, vtest)]
  | Kuiper => [(Kdata1, VSorted Ref); (Kdata2, VSorted Test)]
  | Chi => [(Kobserved, VList [VCounts Test; VCounts Ref])]   (* rows (test, reference): see chi2_row_swap *)
  end.

(** option names a user may pass: every non-data parameter of the SciPy function except the
    ones the detector fixes by its very name (Welch: equal_var; Kuiper: none at all) *)
Definition accepted (w : wrapper) : list key :=
  match w with
  | AD => [Kmidrank; Kmethod]
  | BWS => [Kalternative; Kmethod]
  | CVM => [Kmethod; Kaxis; Knan_policy; Kkeepdims]
  | MWU => [Kuse_continuity; Kalternative; Kaxis; Kmethod; Knan_policy; Kkeepdims]
  | Welch => [Kaxis; Knan_policy; Kpermutations; Krandom_state; Kalternative; Ktrim; Kkeepdims]
  | Kuiper => []
  | Chi => [Kcorrection; Klambda_]
  end.

(** every option parameter of the SciPy function (accepted or fixed) *)
Definition option_params (w : wrapper) : list key :=
  match w with
  | Welch => Kequal_var :: accepted Welch
  | Kuiper => [Kalternative; Kmethod; Kaxis; Knan_policy; Kkeepdims]
  | _ => accepted w
  end.

Fixpoint sig_default (k : key) (s : signature) : val :=
  match s with
  | [] => VNone
  | (k', d) :: r => if key_beq k k' then match d with Some v => v | None => VNone end else sig_default k r
  end.

(** value of an option the user did not pass: SciPy's default unless the wrapper sets its own *)
Definition wrapper_default (w : wrapper) (k : key) : val :=
  match w, k with
  | MWU, Knan_policy => VStr "raise"
  | Welch, Kequal_var => VBool false
  | _, _ => sig_default k (sig_of (scipy_fn w))
  end.

Definition forwarded (w : wrapper) (kw : kwargs) (c : call) : Prop :=
  c_fn c = scipy_fn w /\
  (forall k v, In (k, v) (data_spec w) -> lookup k (c_args c) = Some v) /\
  (forall k, In k (option_params w) -> lookup k (c_args c) = Some (get kw k (wrapper_default w k))).

Definition kw_ok (w : wrapper) (kw : kwargs) : Prop := NoDup (keys kw) /\ incl (keys kw) (accepted w).
Local Close Scope string_scope.

(* ====================================================================== *)
(** * Part 2 — statistics that are functions of ranks, order or counts *)

Definition zsum (l : list Z) : Z := fold_right Z.add 0 l.
Definition zlen {T} (l : list T) : Z := Z.of_nat (List.length l).

Section Rank.
  Context {T : Type} (lt : T -> T -> bool).
  Definition eqv (a b : T) : bool := negb (lt a b) && negb (lt b a).
  Definition count_lt (z : T) (l : list T) : Z := zsum (map (fun x => if lt x z then 1 else 0) l).
  Definition count_eq (z : T) (l : list T) : Z := zsum (map (fun x => if eqv x z then 1 else 0) l).
  (** twice the midrank of [z] within [l] (scipy.stats.rankdata, method 'average') *)
  Definition mr2 (z : T) (l : list T) : Z := 2 * count_lt z l + count_eq z l + 1.
  Definition midranks2 (l : list T) : list Z := map (fun z => mr2 z l) l.

  (** Mann-Whitney (scipy.stats.mannwhitneyu): ranks of the pooled sample, R1 = sum of the
      ranks of x, U1 = R1 - n(n+1)/2 is the reported statistic.  [mwu_U2] = 2 U1. *)
  Definition mwu_U2 (X Y : list T) : Z :=
    zsum (map (fun x => mr2 x (X ++ Y)) X) - zlen X * (zlen X + 1).
  (** textbook form: 2 #{(x,y) : y < x} + #{(x,y) : x = y} *)
  Definition pairs2 (X Y : list T) : Z := zsum (map (fun x => 2 * count_lt x Y + count_eq x Y) X).

  (** stable insertion sort (np.sort on the order induced by [lt]) *)
  Fixpoint insert (x : T) (l : list T) : list T :=
    match l with
    | [] => [x]
    | y :: r => if lt y x then y :: insert x r else x :: y :: r
    end.
  Definition isort (l : list T) : list T := fold_right insert [] l.

  (** Cramer-von Mises (scipy.stats.cramervonmises_2samp): xa, ya sorted; r = midranks of
      concat(xa, ya); u = nx sum (rx_i - i)^2 + ny sum (ry_j - j)^2; t = u/(k N) - (4k-1)/(6N).
      [sq_dev rs i] = sum (2 r - 2 i)^2, so [cvm_u4] = 4 u. *)
  Fixpoint sq_dev (rs : list Z) (i : Z) : Z :=
    match rs with [] => 0 | r :: t => (r - 2 * i) * (r - 2 * i) + sq_dev t (i + 1) end.
  Definition cvm_u4 (X Y : list T) : Z :=
    zlen X * sq_dev (map (fun x => mr2 x (X ++ Y)) (isort X)) 1 +
    zlen Y * sq_dev (map (fun y => mr2 y (X ++ Y)) (isort Y)) 1.
  (** T as an exact fraction (numerator, denominator) *)
  Definition cvm_T_frac (X Y : list T) : Z * Z :=
    let k := zlen X * zlen Y in let N := zlen X + zlen Y in
    (3 * cvm_u4 X Y - 2 * k * (4 * k - 1), 12 * k * N).

  (** Kuiper's V = D+ + D- as n m V, next to [KS.ks_H] = n m D (for observation O2) *)
  Definition kuiper_VH (X Y : list T) : Z :=
    let cle z l := count_lt z l + count_eq z l in
    let diff z := cle z X * zlen Y - cle z Y * zlen X in
    fold_left (fun acc z => Z.max acc (diff z)) (X ++ Y) 0 +
    fold_left (fun acc z => Z.max acc (- diff z)) (X ++ Y) 0.
  Definition ks_DH (X Y : list T) : Z :=
    let cle z l := count_lt z l + count_eq z l in
    fold_left (fun acc z => Z.max acc (Z.abs (cle z X * zlen Y - cle z Y * zlen X))) (X ++ Y) 0.
End Rank.

Section Numeric.
  Context {A : Arith}.
  Local Open Scope arith_scope.

  Definition q (a b : Z) : num A := ofZ a / ofZ b.
  Definition half : num A := q 1 2.
  Definition lenA (l : list (num A)) : num A := ofZ (zlen l).

  (** Welch t (scipy.stats.ttest_ind, equal_var=False): means, ddof=1 variances,
      t = (mean a - mean b) / sqrt(va/na + vb/nb) *)
  Definition meanA (l : list (num A)) : num A := sumA l / lenA l.
  Definition var1A (l : list (num A)) : num A :=
    sumA (map (fun x => sqr (x - meanA l)) l) / ofZ (zlen l - 1).
  Definition welch_t (X Y : list (num A)) : num A :=
    (meanA X - meanA Y) / sqrt (var1A X / lenA X + var1A Y / lenA Y).

  (** ---- numpy float64 power  x ** y ---- *)
  Fixpoint int_of_aux (y : num A) (k : Z) (fuel : nat) : option Z :=
    match fuel with
    | O => None
    | S f => if ofZ k =? y then Some k else int_of_aux y (k + 1)%Z f
    end.
  (** [Some k] when [y] is the integer k, |k| <= 64 *)
  Definition int_of (y : num A) : option Z := int_of_aux y (-64)%Z 129.
  Definition powZ (x : num A) (k : Z) : num A :=
    if (0 <=? k)%Z then powN x (Z.to_nat k) else one / powN x (Z.to_nat (- k)).
  (** y = 0 -> 1; integral y -> repeated product (1/0 = inf for 0 ** negative);
      otherwise exp(y ln x): nan for a negative base, 0 / inf for base 0 *)
  Definition fpow (x y : num A) : num A :=
    if y =? zero then one
    else match int_of y with
         | Some k => powZ x k
         | None => exp (y * ln x)
         end.

  (** ---- chi-square statistic of a 2 x c table (scipy.stats.chi2_contingency) ---- *)
  Definition pearson (o e : num A) : num A := sqr (o - e) / e.
  Definition xlogy (x y : num A) : num A := if x =? zero then zero else x * ln y.
  Definition loglik (o e : num A) : num A := two * xlogy o (o / e).
  Definition modloglik (o e : num A) : num A := two * xlogy e (e / o).
  Definition cressie (lam : num A) (o e : num A) : num A :=
    (o * (fpow (o / e) lam - one)) / (half * lam * (lam + one)).

  (** Yates: diff = expected - observed; observed + min(0.5, |diff|) * sign(diff) *)
  Definition yates (o e : num A) : num A :=
    let diff := e - o in
    let mag := if half <? absA diff then half else absA diff in
    if zero <? diff then o + mag else if diff <? zero then o - mag else o.

  (** [cols]: column j = (observed[0][j], observed[1][j]) *)
  Definition chi2_stat (cellf : num A -> num A -> num A) (correction : bool) (cols : list (Z * Z)) : res (num A) :=
    let r0 := zsum (map fst cols) in
    let r1 := zsum (map snd cols) in
    let tot := (r0 + r1)%Z in
    let e0 (c : Z * Z) : num A := ofZ (r0 * (fst c + snd c)) / ofZ tot in
    let e1 (c : Z * Z) : num A := ofZ (r1 * (fst c + snd c)) / ofZ tot in
    match cols with
    | [] => Raise ValueError                         (* "No data; `observed` has size 0." *)
    | _ =>
      if existsb (fun c => (e0 c =? zero) || (e1 c =? zero)) cols then Raise ValueError
      else
        let dof := (zlen cols - 1)%Z in
        if (dof =? 0)%Z then Ok zero
        else
          let adj := (dof =? 1)%Z && correction in
          let ob (o : Z) (e : num A) : num A := if adj then yates (ofZ o) e else ofZ o in
          Ok (sumA (map (fun c => cellf (ob (fst c) (e0 c)) (e0 c) + cellf (ob (snd c) (e1 c)) (e1 c)) cols))
    end.

  (** ---- Part 3: KuiperTest._false_positive_probability(D, N), N = n m / float(n + m) ---- *)

  (** Gamma(x), x > 0: shift to x + 12, Stirling series for ln Gamma.  Stands for
      scipy.special.gamma (compared with a tolerance; nothing is proved about it). *)
  Fixpoint rising (x : num A) (k : nat) : num A :=
    match k with O => one | S k' => x * rising (x + one) k' end.
  Definition gammaA (x : num A) : num A :=
    let xs := x + ofZ 12 in
    let w := one / xs in
    let w2 := w * w in
    let ser := w * (q 1 12 - w2 * (q 1 360 - w2 * (q 1 1260 - w2 * (q 1 1680 - w2 *
               (q 1 1188 - w2 * (q 691 360360 - w2 * q 1 156)))))) in
    let lg := (xs - half) * ln xs - xs + q 9189385332046727 10000000000000000 + ser in
    exp lg / rising x 12.
  (** scipy.special.factorial(x) for a float scalar: 0 for x < 0, else gamma(x + 1) *)
  Definition factorialA (x : num A) : num A := if x <? zero then zero else gammaA (x + one).
  (** scipy.special.comb(N, t) for integral t >= 0 (scipy.special.binom's product formula) *)
  Fixpoint binom_aux (N : num A) (t : Z) (i : Z) (fuel : nat) (nu de : num A) : num A :=
    match fuel with
    | O => nu / de
    | S f => binom_aux N t (i + 1)%Z f (nu * (ofZ i + N - ofZ t)) (de * ofZ i)
    end.
  Definition combA (N : num A) (t : Z) : num A :=
    if (ofZ t <=? N) && (zero <=? N) && (0 <=? t)%Z then binom_aux N t 1 (Z.to_nat t) one one else zero.

  (** np.floor(x) for 0 <= x <= fuel;  the integers 1 <= k < x  (np.arange(1, x)) *)
  Definition floor_small (x : num A) (fuel : nat) : Z :=
    zlen (filter (fun k => ofZ (Z.of_nat k) <=? x) (seq 1 fuel)).
  Definition arange1 (x : num A) (fuel : nat) : list Z :=
    map Z.of_nat (filter (fun k => ofZ (Z.of_nat k) <? x) (seq 1 fuel)).

  Definition kuiper_fpp (D : num A) (n m : Z) : num A :=
    let N : num A := ofZ (n * m) / ofZ (n + m) in
    let fuel := Z.to_nat (8 * (n + m) + 64) in
    if D <=? one / N then one
    else if D <? two / N then
      one - factorialA N * fpow (D - one / N) (N - one)
    else if D <? ofZ 3 / N then
      let k := neg (N * D - one) / two in
      let r := sqrt (fpow k two - fpow (N * D - two) two / two) in
      let a := neg k + r in
      let b := neg k - r in
      one - factorialA (N - one)
            * (fpow b (N - one) * (one - a) - fpow a (N - one) * (one - b))
            / fpow N (N - two)
            / (b - a)
    else if (match int_of N with
             | Some kN => if Z.even kN then half <? D else (N - one) / (two * N) <? D
             | None => false
             end) then
      let tmax := floor_small (N * (one - D)) fuel in
      let term (tz : Z) : num A :=
        let t := ofZ tz in
        let y := D + t / N in
        let c32 := ofZ 3 - two / N in
        let Tt := fpow y (t - ofZ 3) *
                  (fpow y (ofZ 3) * N
                   - fpow y two * t * c32
                   + y * t * (t - one) * c32 / N
                   - t * (t - one) * (t - two) / fpow N two) in
        let term1 := combA N tz in
        let term2 := fpow (one - D - t / N) (N - t - one) in
        (* term1[(term1 == inf) & (term2 == 0)] = 0 *)
        let term1' := if (term1 =? one / zero) && (term2 =? zero) then zero else term1 in
        Tt * term1' * term2 in
      sumA (map term (map Z.of_nat (seq 0 (Z.to_nat (tmax + 1)))))
    else
      let z := D * sqrt N in
      let ms := arange1 (q 1882 100 / z) fuel in
      let z2 := fpow z two in
      let e (mz : Z) := exp (neg two * fpow (ofZ mz) two * z2) in
      let S1 := sumA (map (fun mz => two * (ofZ 4 * fpow (ofZ mz) two * z2 - one) * e mz) ms) in
      let S2 := sumA (map (fun mz => fpow (ofZ mz) two * (ofZ 4 * fpow (ofZ mz) two * z2 - ofZ 3) * e mz) ms) in
      S1 - ofZ 8 * D / ofZ 3 * S2.

  (** KuiperTest._kuiper: the reported statistic is ks_2samp(...).statistic, i.e. the KS D *)
  Definition kuiper_stat (X Y : list (num A)) : num A :=
    ofZ (ks_H X Y) / ofZ (zlen X * zlen Y).
  (** np.clip(x, 0.0, 1.0) = minimum(maximum(x, 0), 1): NaN stays NaN *)
  Definition clip01 (x : num A) : num A := if x <? zero then zero else if one <? x then one else x.
  (** _kuiper returns (statistic, float(np.clip(p_value, 0.0, 1.0))) *)
  Definition kuiper_p (X Y : list (num A)) : num A :=
    clip01 (kuiper_fpp (kuiper_stat X Y) (zlen X) (zlen Y)).
  (** the property's requirement on a p-value *)
  Definition p_valid (p : num A) : bool := (zero <=? p) && (p <=? one).
End Numeric.

(** * chi-square contingency table from the category counts (_calculate_frequencies) *)
Section Table.
  Context {C : Type} (ceq : C -> C -> bool).
  (** collections.Counter(sample).get(c, 0) *)
  Definition countc (c : C) (l : list C) : Z := zsum (map (fun x => if ceq x c then 1 else 0) l).
  (** [pv] = iteration order of  set(keys(X_ref) + keys(X))  (Python does not specify it):
      every category present in either sample exactly once *)
  Definition set_contract (pv Xref X : list C) : Prop :=
    NoDup pv /\ forall c, In c pv <-> In c Xref \/ In c X.
  (** (f_exp_values, f_obs_values) *)
  Definition frequencies (pv Xref X : list C) : list Z * list Z :=
    (map (fun v => countc v Xref) pv, map (fun v => countc v X) pv).
  (** np.array([f_obs, f_exp]) by columns *)
  Definition chi_table (pv Xref X : list C) : list (Z * Z) :=
    combine (snd (frequencies pv Xref X)) (fst (frequencies pv Xref X)).
End Table.
