(** Exact two-sample Kolmogorov-Smirnov statistic and two-sided p-value.
    The samples enter through comparisons only.  Definitions only. *)
From Coq Require Import ZArith List Bool.
From FV Require Import NumSys.
Import ListNotations.
Local Open Scope Z_scope.

(** band test of the lattice-path formulation: the path point (i, j) (i values of X and
    j values of Y consumed) keeps |i/n - j/m| < H/(n m) *)
Definition in_band (n m H i j : Z) : bool := Z.abs (i * m - j * n) <? H.

(** one DP row: [prev] is the row above (i-1), [left] the cell to the left *)
Fixpoint row_next (n m H i : Z) (prev : list Z) (j : Z) (left : Z) : list Z :=
  match prev with
  | [] => []
  | up :: r => let c := if in_band n m H i j then up + left else 0 in
               c :: row_next n m H i r (j + 1) c
  end.

Fixpoint rows (n m H : Z) (k : nat) (i : Z) (prev : list Z) : list Z :=
  match k with
  | O => prev
  | S k' => rows n m H k' (i + 1) (row_next n m H i prev 0 0)
  end.

(** number of monotone lattice paths (0,0) -> (n,m) all of whose points are in the band *)
Definition paths_inside (n m H : Z) : Z :=
  last (rows n m H (S (Z.to_nat n)) 0 (1 :: repeat 0 (Z.to_nat m))) 0.

Definition paths_total (n m : Z) : Z := paths_inside n m (n * m + 1).

Section KS.
  Context {A : Arith}.
  Definition count_le (z : num A) (l : list (num A)) : Z :=
    fold_left (fun acc x => if leb x z then acc + 1 else acc) l 0.
  Definition len (l : list (num A)) : Z := Z.of_nat (length l).

  (** H = n m D: the largest |#{x <= z} m - #{y <= z} n| over the sample points z *)
  Definition ks_H (X Y : list (num A)) : Z :=
    fold_left (fun acc z => Z.max acc (Z.abs (count_le z X * len Y - count_le z Y * len X))) (X ++ Y) 0.

  (** exact p-value P(D >= d) as the fraction (outside, total) of interleavings *)
  Definition ks_p_frac (X Y : list (num A)) : Z * Z :=
    let n := len X in let m := len Y in
    let tot := paths_total n m in
    (tot - paths_inside n m (ks_H X Y), tot).

  (** p <= a/b  (b > 0) *)
  Definition ks_p_le (X Y : list (num A)) (a b : Z) : bool :=
    let '(o, t) := ks_p_frac X Y in o * b <=? a * t.
End KS.
