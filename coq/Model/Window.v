(** window_based/{kswin,stepd}.py transliterated (repaired code).  Definitions only. *)
From Coq Require Import ZArith List Bool.
From FV Require Import NumSys Py Sums Queue Stats Detector KS.
Import ListNotations.

Section Window.
  Context {A : Arith}.
  Local Open Scope arith_scope.

  (* ------------------------------------------------------------------ KSWIN *)
  (** [alpha] is carried as the exact rational value of the binary64 number *)
  Record kswin_cfg := { kw_alpha_num : Z; kw_alpha_den : Z; kw_min : Z; kw_test : Z }.
  Record kswin_st := { kn : Z; kwin : list (num A); kdrift : bool }.
  Definition kswin_init (c : kswin_cfg) : kswin_st := {| kn := 0; kwin := []; kdrift := false |}.

  (** input: the new value and the sample the random generator drew from the older part
      of the window (an oracle: consulted only when the window is full) *)
  Definition kswin_step (c : kswin_cfg) (s : kswin_st) (vi : num A * list (num A)) : kswin_st :=
    let '(v, sample) := vi in
    let w := lastn (Z.to_nat (kw_min c)) (kwin s ++ [v]) in
    let full := (kw_min c <=? Z.of_nat (length w))%Z in
    let recent := lastn (Z.to_nat (kw_test c)) w in
    {| kn := (kn s + 1)%Z; kwin := w;
       kdrift := full && ks_p_le sample recent (kw_alpha_num c) (kw_alpha_den c) |}.
  Definition kswin_reset (c : kswin_cfg) (s : kswin_st) : kswin_st := kswin_init c.

  Definition KSWIND : Detector := {|
    d_cfg := kswin_cfg; d_in := (num A * list (num A))%type; d_st := kswin_st;
    d_init := kswin_init; d_step := kswin_step; d_reset := kswin_reset;
    d_drift := kdrift; d_warning := fun _ => false; d_has_warning_status := false; d_ninst := kn |}.

  (* ------------------------------------------------------------------ STEPD *)
  (** [sp_zd] / [sp_zw] are norm.isf(alpha_d) / norm.isf(alpha_w): the normal quantile is an
      oracle; sf(T) < alpha  <->  T > isf(alpha) for the strictly decreasing sf *)
  Record stepd_cfg := { sp_zd : num A; sp_zw : num A; sp_min : Z }.
  Record stepd_st := { sn : Z; scorrect : Z; swin : aq; sdrift : bool; swarning : bool }.
  Definition stepd_init (c : stepd_cfg) : stepd_st :=
    {| sn := 0; scorrect := 0; swin := aq_init (sp_min c); sdrift := false; swarning := false |}.

  (** [_calculate_statistic]; [None] = -inf (pooled accuracy 0 or 1: no evidence) *)
  Definition stepd_stat (n correct_total n_w correct_w : Z) : option (num A) :=
    let n_o := (n - n_w)%Z in
    let p_hat := ofZ correct_total / ofZ n in
    let inv := one / ofZ n_o + one / ofZ n_w in
    let den := sqrt ((p_hat * (one - p_hat)) * inv) in
    let numr := absA (ofZ (correct_total - correct_w) / ofZ n_o - ofZ correct_w / ofZ n_w)
                - (one / two) * inv in
    if den =? zero then None else Some (numr / den).

  Definition truthy (v : num A) : bool := negb (v =? zero).

  Definition stepd_step (c : stepd_cfg) (s : stepd_st) (v : num A) : stepd_st :=
    let n := (sn s + 1)%Z in
    let ct := (scorrect s + b2z (truthy v))%Z in
    let w := match aq_enqueue (swin s) (truthy v) with Ok a => a | Raise _ => swin s end in
    if (2 * sp_min c <=? n)%Z then
      match stepd_stat n ct (aq_size w) (aq_num_true w) with
      | None => {| sn := n; scorrect := ct; swin := w; sdrift := false; swarning := false |}
      | Some t =>
        if sp_zd c <? t then {| sn := n; scorrect := ct; swin := w; sdrift := true; swarning := false |}
        else {| sn := n; scorrect := ct; swin := w; sdrift := false; swarning := sp_zw c <? t |}
      end
    else {| sn := n; scorrect := ct; swin := w; sdrift := false; swarning := false |}.
  Definition stepd_reset (c : stepd_cfg) (s : stepd_st) : stepd_st := stepd_init c.

  (** STEPD's [status] has no "warning" key (it derives from BaseWindow) *)
  Definition STEPDD : Detector := {|
    d_cfg := stepd_cfg; d_in := num A; d_st := stepd_st;
    d_init := stepd_init; d_step := stepd_step; d_reset := stepd_reset;
    d_drift := sdrift; d_warning := swarning; d_has_warning_status := false; d_ninst := sn |}.
End Window.
Arguments kswin_st : clear implicits. Arguments KSWIND : clear implicits.
Arguments stepd_cfg : clear implicits. Arguments stepd_st : clear implicits. Arguments STEPDD : clear implicits.
