(** statistical_process_control/hddm.py transliterated (repaired code: each two-sided
    A-test is guarded by its own cut point, F04; W-test decrease check uses the decrease
    samples and is a boolean, F01/F11; reset clears the test statistics, F08).
    Definitions only. *)
From Coq Require Import ZArith List Bool.
From FV Require Import NumSys Stats Detector.
Import ListNotations.

Section HDDM.
  Context {A : Arith}.
  Local Open Scope arith_scope.

  (* ------------------------------------------------------------------ HDDM-A *)
  Record hddma_cfg := { ha_alpha_d : num A; ha_alpha_w : num A; ha_two : bool; ha_min : Z }.
  Record hddma_st := { hn : Z; hx : mean_st A; hz : mean_st A; hy : mean_st A;
                       hdrift : bool; hwarning : bool }.

  Definition hddma_init (c : hddma_cfg) : hddma_st :=
    {| hn := 0; hx := mean_init; hz := mean_init; hy := mean_init; hdrift := false; hwarning := false |}.

  (** [hoeffding_error_bound]: sqrt(ln(1/alpha_d) / (2 n)) *)
  Definition hoeff_bound (alpha : num A) (n : Z) : num A :=
    sqrt (ln (one / alpha) / ofZ (2 * n)).

  (** [_check_mean_increase] with cut sample [x] and total sample [z]:
      z.mean - x.mean >= sqrt(m / (2 x.n z.n) * ln(1/alpha)),  m = z.n - x.n *)
  Definition hoeff_thr (xn zn : Z) (alpha : num A) : num A :=
    sqrt ((ofZ (zn - xn) / ofZ (2 * xn * zn)) * ln (one / alpha)).
  Definition check_incr (x z : mean_st A) (alpha : num A) : bool :=
    hoeff_thr (m_n x) (m_n z) alpha <=? m_mean z - m_mean x.
  Definition check_decr (y z : mean_st A) (alpha : num A) : bool :=
    hoeff_thr (m_n y) (m_n z) alpha <=? m_mean y - m_mean z.

  (** one side's (drift, warning); no evidence while the cut sample is the whole sample *)
  Definition side_cases (chk : num A -> bool) (cut_n zn : Z) (c : hddma_cfg) : bool * bool :=
    if (cut_n =? zn)%Z then (false, false)
    else if chk (ha_alpha_d c) then (true, false)
    else if chk (ha_alpha_w c) then (false, true)
    else (false, false).

  Definition hddma_step (c : hddma_cfg) (s : hddma_st) (v : num A) : hddma_st :=
    let n := (hn s + 1)%Z in
    let z := mean_update (hz s) v in
    (* set_initial_cut_mean *)
    let x0 := if (m_n (hx s) =? 0)%Z then z else hx s in
    let y0 := if (m_n (hy s) =? 0)%Z then z else hy s in
    (* update_cut_point *)
    let eps_z := hoeff_bound (ha_alpha_d c) (m_n z) in
    let x := if m_mean z + eps_z <=? m_mean x0 + hoeff_bound (ha_alpha_d c) (m_n x0) then z else x0 in
    let y := if m_mean y0 - hoeff_bound (ha_alpha_d c) (m_n y0) <=? m_mean z - eps_z then z else y0 in
    let y := if ha_two c then y else hy s in
    if (ha_min c <=? n)%Z then
      let '(di, wi) := side_cases (check_incr x z) (m_n x) (m_n z) c in
      let '(dd, wd) := if ha_two c then side_cases (check_decr y z) (m_n y) (m_n z) c else (false, false) in
      if di || dd then
        {| hn := n; hx := mean_init; hz := mean_init; hy := mean_init; hdrift := true; hwarning := false |}
      else
        {| hn := n; hx := x; hz := z; hy := y; hdrift := false; hwarning := wi || wd |}
    else {| hn := n; hx := x; hz := z; hy := y; hdrift := false; hwarning := false |}.

  Definition hddma_reset (c : hddma_cfg) (s : hddma_st) : hddma_st := hddma_init c.

  Definition HDDMAD : Detector := {|
    d_cfg := hddma_cfg; d_in := num A; d_st := hddma_st;
    d_init := hddma_init; d_step := hddma_step; d_reset := hddma_reset;
    d_drift := hdrift; d_warning := hwarning; d_has_warning_status := true; d_ninst := hn |}.

  (* ------------------------------------------------------------------ HDDM-W *)
  (** SampleInfo: EWMA mean and the independent bound condition *)
  Record sinfo := { si_mean : num A; si_ibc : num A }.
  Definition si_init : sinfo := {| si_mean := zero; si_ibc := one |}.
  Definition si_update (lam : num A) (s : sinfo) (v : num A) : sinfo :=
    {| si_mean := lam * v + (one - lam) * si_mean s;
       si_ibc := lam * lam + ((one - lam) * (one - lam)) * si_ibc s |}.

  Record hddmw_cfg := { hw_alpha_d : num A; hw_alpha_w : num A; hw_two : bool; hw_lambda : num A; hw_min : Z }.
  Record hddmw_st := { wn : Z; wtotal : sinfo;
                       winc1 : sinfo; winc2 : sinfo; winc_cut : option (num A); (* None = +inf *)
                       wdec1 : sinfo; wdec2 : sinfo; wdec_cut : option (num A); (* None = -inf *)
                       wdrift : bool; wwarning : bool }.

  Definition hddmw_init (c : hddmw_cfg) : hddmw_st :=
    {| wn := 0; wtotal := si_init; winc1 := si_init; winc2 := si_init; winc_cut := None;
       wdec1 := si_init; wdec2 := si_init; wdec_cut := None; wdrift := false; wwarning := false |}.

  (** [_mcdiarmid_error_bound] *)
  Definition mcd_bound (ibc alpha : num A) : num A := sqrt ((ibc * ln (one / alpha)) / two).
  (** [_check_threshold]: sample_2.mean - sample_1.mean > bound(ibc_1 + ibc_2) *)
  Definition mcd_check (s1 s2 : sinfo) (alpha : num A) : bool :=
    mcd_bound (si_ibc s1 + si_ibc s2) alpha <? si_mean s2 - si_mean s1.

  Definition hddmw_step (c : hddmw_cfg) (s : hddmw_st) (v : num A) : hddmw_st :=
    let n := (wn s + 1)%Z in
    let lam := hw_lambda c in
    (* update_stats(value, alpha = lambda_) *)
    let total := si_update lam (wtotal s) v in
    let eps := mcd_bound (si_ibc total) lam in
    let up := si_mean total + eps in
    let '(i1, i2, icut) :=
      if lt_opt up (winc_cut s) then (total, si_init, Some up)
      else (winc1 s, si_update lam (winc2 s) v, winc_cut s) in
    let lo := si_mean total - eps in
    let '(d1, d2, dcut) :=
      if hw_two c then
        if gt_opt lo (wdec_cut s) then (total, si_init, Some lo)
        else (wdec1 s, si_update lam (wdec2 s) v, wdec_cut s)
      else (wdec1 s, wdec2 s, wdec_cut s) in
    if (hw_min c <=? n)%Z then
      let di := mcd_check i1 i2 (hw_alpha_d c) in
      let wi := if di then false else mcd_check i1 i2 (hw_alpha_w c) in
      let dd := if hw_two c then (if di then false else mcd_check d2 d1 (hw_alpha_d c)) else false in
      let wd := if hw_two c then (if wi || dd then false else mcd_check d2 d1 (hw_alpha_w c)) else false in
      if di || dd then
        {| wn := n; wtotal := si_init; winc1 := si_init; winc2 := si_init; winc_cut := None;
           wdec1 := si_init; wdec2 := si_init; wdec_cut := None; wdrift := true; wwarning := false |}
      else
        {| wn := n; wtotal := total; winc1 := i1; winc2 := i2; winc_cut := icut;
           wdec1 := d1; wdec2 := d2; wdec_cut := dcut; wdrift := false; wwarning := wi || wd |}
    else
      {| wn := n; wtotal := total; winc1 := i1; winc2 := i2; winc_cut := icut;
         wdec1 := d1; wdec2 := d2; wdec_cut := dcut; wdrift := false; wwarning := false |}.

  Definition hddmw_reset (c : hddmw_cfg) (s : hddmw_st) : hddmw_st := hddmw_init c.

  Definition HDDMWD : Detector := {|
    d_cfg := hddmw_cfg; d_in := num A; d_st := hddmw_st;
    d_init := hddmw_init; d_step := hddmw_step; d_reset := hddmw_reset;
    d_drift := wdrift; d_warning := wwarning; d_has_warning_status := true; d_ninst := wn |}.
End HDDM.
Arguments hddma_cfg : clear implicits. Arguments hddma_st : clear implicits. Arguments HDDMAD : clear implicits.
Arguments hddmw_cfg : clear implicits. Arguments hddmw_st : clear implicits. Arguments HDDMWD : clear implicits.
Arguments sinfo : clear implicits.
