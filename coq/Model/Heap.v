(** C16 — an explicit object heap for several detector instances living in one process.

    A pure Gallina [d_step] is isolated by construction; what the Python can get wrong is
    SHARING.  This file makes the sharing explicit.  The heap holds, as separate objects,
      - NumPy's global generator (one object, at the fixed location [rng_loc]),
      - every configuration object ([OCfg]; for BOCD its [model] object is inside it),
      - every detector instance ([OInst]): its private state (instance fields, the statistics
        objects allocated by its constructor, BOCD's deep copy of [config.model]) together with
        the history of the callback attached to it, and a REFERENCE [cl : loc] to its
        configuration object (concept_drift/base.py:85,141 [self._config = value]).
    What each operation of the Python does to which object:
      - [NewCfg k c]   XConfig(...)          allocates a configuration object; KSWINConfig.__init__
                                             first calls np.random.seed(seed): WRITES the generator
                                             (kswin.py:44-47)
      - [New k cl cb]  X(config=cfg, callbacks=...)  allocates an instance that keeps a reference to
                                             an EXISTING configuration object (sharing allowed); the
                                             isinstance check of the config setter fails for another
                                             class' configuration (TypeError: nothing is constructed)
      - [NewD k cb]    X(config=None, ...)   = [self._config = self.config_type()]: a FRESH default
                                             configuration object per call (base.py:143), then as [New]
      - [Update i v]   detector.update(v)    reads its configuration, reads/writes its own object;
                                             KSWIN also reads and writes the generator (kswin.py:182)
      - [Reset i]      detector.reset()      reads its configuration (BOCD: deepcopy(config.model)),
                                             writes its own object (and its callback's history)
    Calls that raise in Python before touching anything (unknown object, wrong class) leave the
    heap unchanged.

    The detector family is a Section variable [fam : nat -> Detector]; objects carry the index
    [k] of their class, and a configuration read is cast along [Nat.eq_dec] (decidable equality
    on nat: no axiom).  The sampler of the generator is abstract ([draw], [reseed]).
    Definitions only. *)
From Coq Require Import Arith ZArith List Bool String.
From FV Require Import NumSys Py Detector Callbacks.
Import ListNotations.

Definition loc := nat.

Section Heap.
  Variable fam : nat -> Detector.
  Variable V : Type.                   (* what the caller hands to update() *)
  Variable W : Type.                   (* snapshot of one tracked variable in a history *)
  Variable vars : forall k, d_st (fam k) -> string -> W.
  Variable rng : Type.                 (* state of numpy.random's global generator *)
  Variable uses_rng : nat -> bool.     (* does update() of class k consume the generator (KSWIN) *)
  Variable inp : forall k, V -> d_in (fam k).
                                       (* input of the model step for classes that do not *)
  Variable draw : forall k, d_cfg (fam k) -> d_st (fam k) -> V -> rng -> d_in (fam k) * rng.
                                       (* ... and for those that do: np.random.choice on the
                                          current window (may leave the generator alone) *)
  Variable seeds : nat -> bool.        (* does constructing a configuration of class k seed (KSWINConfig) *)
  Variable reseed : forall k, d_cfg (fam k) -> rng -> rng.
                                       (* np.random.seed(seed); seed=None draws OS entropy, which is
                                          why the old state is an argument here *)
  Variable dflt : forall k, d_cfg (fam k).   (* config_type() *)

  (** the callback attached at construction: [None] = no callback, [Some levels] = one
      HistoryConceptDrift; the tracked names are whatever the constructor chain registers *)
  Definition cbspec := option (list string).
  Definition tracked_of (cb : cbspec) : list string := match cb with Some tr => tr | None => [] end.

  Inductive obj :=
  | ORng (r : rng)
  | OCfg (k : nat) (c : d_cfg (fam k))
  | OInst (k : nat) (cl : loc) (cb : cbspec) (sh : d_st (fam k) * hist (fam k) W).

  Definition heap := list obj.           (* location = index; allocation appends *)
  Definition rng_loc : loc := 0%nat.

  Definition hget (h : heap) (l : loc) : option obj := nth_error h l.
  Fixpoint hset (h : heap) (l : loc) (o : obj) : heap :=
    match h, l with
    | [], _ => []
    | _ :: t, O => o :: t
    | x :: t, S j => x :: hset t j o
    end.
  Definition alloc (h : heap) (o : obj) : heap := h ++ [o].     (* new location = length h *)

  Definition get_rng (h : heap) : option rng :=
    match hget h rng_loc with Some (ORng r) => Some r | _ => None end.

  Definition cast_cfg (k k' : nat) (c : d_cfg (fam k')) : option (d_cfg (fam k)) :=
    match Nat.eq_dec k' k with
    | left e => Some (eq_rect k' (fun n => d_cfg (fam n)) c k e)
    | right _ => None
    end.
  (** the configuration an instance of class [k] reads through its reference [cl] *)
  Definition get_cfg (h : heap) (cl : loc) (k : nat) : option (d_cfg (fam k)) :=
    match hget h cl with Some (OCfg k' c) => cast_cfg k k' c | _ => None end.

  (** one operation on the instance object itself: detector, then its callback
      (Callbacks.sys_apply); without a callback the history part is never touched *)
  Definition inst_apply (k : nat) (c : d_cfg (fam k)) (cb : cbspec)
      (sh : d_st (fam k) * hist (fam k) W) (o : op (d_in (fam k))) : d_st (fam k) * hist (fam k) W :=
    match cb with
    | Some tr => sys_apply (fam k) W (vars k) c tr sh o
    | None => (apply (fam k) c (fst sh) o, snd sh)
    end.
  Definition inst_init (k : nat) (c : d_cfg (fam k)) (cb : cbspec) : d_st (fam k) * hist (fam k) W :=
    (d_init (fam k) c, hist_init (fam k) W (tracked_of cb)).

  Inductive sysop :=
  | NewCfg (k : nat) (c : d_cfg (fam k))
  | New (k : nat) (cl : loc) (cb : cbspec)
  | NewD (k : nat) (cb : cbspec)
  | Update (i : loc) (v : V)
  | Reset (i : loc).

  Definition do_newcfg (h : heap) (k : nat) (c : d_cfg (fam k)) : heap :=
    let h1 := if seeds k
              then match get_rng h with
                   | Some r => hset h rng_loc (ORng (reseed k c r))
                   | None => h
                   end
              else h in
    alloc h1 (OCfg k c).
  Definition do_new (h : heap) (k : nat) (cl : loc) (cb : cbspec) : heap :=
    match get_cfg h cl k with
    | Some c => alloc h (OInst k cl cb (inst_init k c cb))
    | None => h
    end.

  Definition step (h : heap) (o : sysop) : heap :=
    match o with
    | NewCfg k c => do_newcfg h k c
    | New k cl cb => do_new h k cl cb
    | NewD k cb => do_new (do_newcfg h k (dflt k)) k (List.length h) cb
    | Update i v =>
        match hget h i with
        | Some (OInst k cl cb sh) =>
            match get_cfg h cl k with
            | Some c =>
                if uses_rng k then
                  match get_rng h with
                  | Some r =>
                      let xr := draw k c (fst sh) v r in
                      hset (hset h rng_loc (ORng (snd xr))) i
                          (OInst k cl cb (inst_apply k c cb sh (Upd (fst xr))))
                  | None => h
                  end
                else hset h i (OInst k cl cb (inst_apply k c cb sh (Upd (inp k v))))
            | None => h
            end
        | _ => h
        end
    | Reset i =>
        match hget h i with
        | Some (OInst k cl cb sh) =>
            match get_cfg h cl k with
            | Some c => hset h i (OInst k cl cb (inst_apply k c cb sh Rst))
            | None => h
            end
        | _ => h
        end
    end.

  Definition run_system (sched : list sysop) (h : heap) : heap := fold_left step sched h.

  (** --------------------------------------------------------------- the solo runs *)
  (** the calls addressed to instance [i], in schedule order *)
  Fixpoint ops_of (i : loc) (sched : list sysop) : list (op V) :=
    match sched with
    | [] => []
    | Update j v :: r => if Nat.eqb j i then Upd v :: ops_of i r else ops_of i r
    | Reset j :: r => if Nat.eqb j i then Rst :: ops_of i r else ops_of i r
    | _ :: r => ops_of i r
    end.

  (** a class that does not touch the generator, run alone *)
  Definition op_in (k : nat) (o : op V) : op (d_in (fam k)) :=
    match o with Upd v => Upd (inp k v) | Rst => Rst end.
  Definition inst_exec_from (k : nat) (c : d_cfg (fam k)) (cb : cbspec)
      (sh : d_st (fam k) * hist (fam k) W) (ops : list (op V)) : d_st (fam k) * hist (fam k) W :=
    fold_left (fun s o => inst_apply k c cb s (op_in k o)) ops sh.
  Definition inst_exec (k : nat) (c : d_cfg (fam k)) (cb : cbspec) (ops : list (op V)) :=
    inst_exec_from k c cb (inst_init k c cb) ops.

  (** a class that consumes the generator, run alone with the generator threaded privately *)
  Definition rng_apply (k : nat) (c : d_cfg (fam k)) (cb : cbspec)
      (sr : (d_st (fam k) * hist (fam k) W) * rng) (o : op V) : (d_st (fam k) * hist (fam k) W) * rng :=
    match o with
    | Upd v => let xr := draw k c (fst (fst sr)) v (snd sr) in
               (inst_apply k c cb (fst sr) (Upd (fst xr)), snd xr)
    | Rst => (inst_apply k c cb (fst sr) Rst, snd sr)
    end.
  Definition rng_exec_from (k : nat) (c : d_cfg (fam k)) (cb : cbspec)
      (sr : (d_st (fam k) * hist (fam k) W) * rng) (ops : list (op V)) :=
    fold_left (rng_apply k c cb) ops sr.
  Definition rng_exec (k : nat) (c : d_cfg (fam k)) (cb : cbspec) (r : rng) (ops : list (op V)) :=
    rng_exec_from k c cb (inst_init k c cb, r) ops.

  (** --------------------------------------------------------------- footprints *)
  (** does operation [o], executed in heap [h], write the generator *)
  Definition writes_rng (h : heap) (o : sysop) : bool :=
    match o with
    | NewCfg k _ => seeds k
    | NewD k _ => seeds k
    | Update j _ => match hget h j with Some (OInst k _ _ _) => uses_rng k | _ => false end
    | _ => false
    end.
  Definition targets (i : loc) (o : sysop) : bool :=
    match o with Update j _ => Nat.eqb j i | Reset j => Nat.eqb j i | _ => false end.
  (** no writer of the generator other than instance [i] itself along the schedule *)
  Fixpoint quiet (i : loc) (sched : list sysop) (h : heap) : Prop :=
    match sched with
    | [] => True
    | o :: r => (targets i o = true \/ writes_rng h o = false) /\ quiet i r (step h o)
    end.
  Fixpoint quietb (i : loc) (sched : list sysop) (h : heap) : bool :=
    match sched with
    | [] => true
    | o :: r => (targets i o || negb (writes_rng h o)) && quietb i r (step h o)
    end.

  (** the locations an object refers to (what two instances can have in common) *)
  Definition refs (o : obj) : list loc :=
    match o with
    | OInst k cl _ _ => cl :: (if uses_rng k then [rng_loc] else [])
    | _ => []
    end.

  (** after each call, what the caller can observe on the instance it addressed *)
  Section Observe.
    Variable O : Type.
    Variable ob : forall k, d_st (fam k) -> O.
    Definition observe_at (h : heap) (i : loc) : option O :=
      match hget h i with Some (OInst k _ _ sh) => Some (ob k (fst sh)) | _ => None end.
    Fixpoint sys_trace (sched : list sysop) (h : heap) : list (option O) :=
      match sched with
      | [] => []
      | o :: r =>
          let h' := step h o in
          match o with
          | Update i _ => observe_at h' i :: sys_trace r h'
          | Reset i => observe_at h' i :: sys_trace r h'
          | _ => sys_trace r h'
          end
      end.
  End Observe.
End Heap.
