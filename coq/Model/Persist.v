(** Model of frouros/utils/persistence.py (save / load through pickle), of the object
    kinds it accepts, and of which attributes of each detector / callback class hold a
    callable (the only thing in these object graphs that pickle may refuse).
    Definitions only.  pickle itself, the byte format and the file system are NOT
    modelled: they are Section variables; the assumed contract of pickle is the
    proposition [PickleContract] below (trusted, never proved). *)
From Coq Require Import ZArith List Bool String.
From FV Require Import Py Detector.
Import ListNotations.
Local Open Scope Z_scope.

(* ---------------------------------------------------------------- what is passed to save *)

(** isinstance(obj, (BaseDetector, BaseCallback)) : an int, a dict, a function, an ndarray,
    and also a detector CLASS (its type is ABCMeta) are [KOther]. *)
Inductive kind := KDetector | KCallback | KOther.
Definition is_savable (k : kind) : bool := match k with KOther => false | _ => true end.

Definition HIGHEST_PROTOCOL : Z := 5.      (* pickle.HIGHEST_PROTOCOL, CPython 3.8 .. 3.13 *)
Definition DEFAULT_PROTOCOL : Z := 4.      (* pickle.DEFAULT_PROTOCOL, CPython 3.8 .. 3.13 *)

(** The value passed as [pickle_protocol] (nothing in save() checks its type). *)
Inductive pyproto :=
| PInt (z : Z)                       (* int, numpy integer *)
| PBool (b : bool)                   (* bool is an int: True == 1 *)
| PFloat (ip : Z) (integral : bool)  (* a float; [integral]: it equals the integer [ip] *)
| PNonNumeric.                       (* None, str, list, ... *)

(** [pickle_protocol not in range(pickle.HIGHEST_PROTOCOL + 1)]: for an exact int / bool the
    arithmetic test, for every other type a linear search with [==] (so 2.0 IS in range). *)
Definition proto_in_range (p : pyproto) : bool :=
  match p with
  | PInt z => (0 <=? z) && (z <=? HIGHEST_PROTOCOL)
  | PBool _ => true
  | PFloat ip integral => integral && (0 <=? ip) && (ip <=? HIGHEST_PROTOCOL)
  | PNonNumeric => false
  end.

(** what pickle.dump does with its [protocol] argument (__index__): floats are a TypeError *)
Definition proto_index (p : pyproto) : option Z :=
  match p with
  | PInt z => Some z
  | PBool b => Some (if b then 1 else 0)
  | PFloat _ _ => None
  | PNonNumeric => None
  end.

(* ---------------------------------------------------------------- save / load *)

(** the two ways of getting the pickle into the file (revisions of save()) *)
Inductive write_order := DumpIntoOpenFile | DumpsThenWrite.

Section Persist.
  Variable obj : Type.                       (* Python object graphs *)
  Variable kind_of : obj -> kind.
  Variable picklable : obj -> bool.          (* no non-importable callable is reachable *)
  Variable bytes : Type.                     (* file contents *)
  Variable empty_file : bytes.               (* a file opened with "wb" and closed *)
  Variable dumps : obj -> Z -> bytes.        (* what pickle.dump writes when it succeeds *)
  Variable dump_partial : obj -> Z -> bytes. (* what has reached the file when it raises *)
  Variable loads : bytes -> res obj.         (* pickle.load on a file with that content *)
  Variable dir_exists : string -> bool.      (* can [open(path, "wb")] succeed *)

  Definition fs := string -> option bytes.
  Definition upd (f : fs) (p : string) (b : bytes) : fs :=
    fun q => if String.eqb q p then Some b else f q.

  (** save(obj, filename, pickle_protocol): the file system afterwards and the outcome.
      Order of the code: isinstance check, protocol range check, then
      - [DumpIntoOpenFile] (the code as found): open (creates or truncates), pickle.dump into it;
      - [DumpsThenWrite]: pickle.dumps to memory, then open and write.
      Exceptions other than IOError / PicklingError are not caught at all; the caught ones
      are logged and re-raised: same outcome. *)
  Definition save (w : write_order) (o : obj) (path : string) (pr : pyproto) (f : fs) : fs * res unit :=
    if negb (is_savable (kind_of o)) then (f, Raise TypeError)
    else if negb (proto_in_range pr) then (f, Raise ValueError)
    else
      match w with
      | DumpIntoOpenFile =>
          if negb (dir_exists path) then (f, Raise FileNotFoundError)
          else
            match proto_index pr with
            | None => (upd f path empty_file, Raise TypeError)
            | Some p =>
                if picklable o then (upd f path (dumps o p), Ok tt)
                else (upd f path (dump_partial o p), Raise PicklingError)
            end
      | DumpsThenWrite =>
          match proto_index pr with
          | None => (f, Raise TypeError)
          | Some p =>
              if picklable o then
                if dir_exists path then (upd f path (dumps o p), Ok tt) else (f, Raise FileNotFoundError)
              else (f, Raise PicklingError)
          end
      end.

  (** load(filename) *)
  Definition load (path : string) (f : fs) : res obj :=
    match f path with
    | None => Raise FileNotFoundError
    | Some b => loads b
    end.

  (** The assumed contract of pickle (TRUSTED): a picklable object graph written with a
      valid protocol is read back as an equal graph (same types, same attribute values,
      same sharing); a file that was only opened for writing cannot be read (EOFError,
      rendered OtherError). *)
  Definition PickleContract : Prop :=
    (forall o p, 0 <= p <= HIGHEST_PROTOCOL -> picklable o = true -> loads (dumps o p) = Ok o) /\
    loads empty_file = Raise OtherError.
End Persist.

(* ---------------------------------------------------------------- a detector with a history callback *)

(** HistoryConceptDrift attached to a detector: after every update it appends
    (value, num_instances, drift); detector.reset() clears the lists.  The pair is again a
    [Detector], so every statement made for all [Detector]s covers detector + callback. *)
Definition HistD (D : Detector) : Detector := {|
  d_cfg := d_cfg D;
  d_in := d_in D;
  d_st := (d_st D * list (d_in D * Z * bool))%type;
  d_init := fun c => (d_init D c, []);
  d_step := fun c s v =>
    let s' := d_step D c (fst s) v in (s', snd s ++ [(v, d_ninst D s', d_drift D s')]);
  d_reset := fun c s => (d_reset D c (fst s), []);
  d_drift := fun s => d_drift D (fst s);
  d_warning := fun s => d_warning D (fst s);
  d_has_warning_status := d_has_warning_status D;
  d_ninst := fun s => d_ninst D (fst s);
|}.

(* ---------------------------------------------------------------- which attributes hold callables *)

Inductive cls :=
(* 13 streaming concept-drift detectors *)
| C_ADWIN | C_BOCD | C_CUSUM | C_DDM | C_ECDDWT | C_EDDM | C_GeometricMovingAverage
| C_HDDMA | C_HDDMW | C_KSWIN | C_PageHinkley | C_RDDM | C_STEPD
(* 9 batch distance-based detectors *)
| C_BhattacharyyaDistance | C_EMD | C_EnergyDistance | C_HellingerDistance
| C_HINormalizedComplement | C_JS | C_KL | C_MMD | C_PSI
(* 8 batch statistical tests *)
| C_AndersonDarlingTest | C_BWSTest | C_ChiSquareTest | C_CVMTest | C_KSTest | C_KuiperTest
| C_MannWhitneyUTest | C_WelchTTest
(* 2 streaming data-drift detectors *)
| C_IncrementalKSTest | C_MMDStreaming
(* 3 callbacks *)
| C_HistoryConceptDrift | C_PermutationTestDistanceBased | C_ResetStatisticalTest.

Definition all_classes : list cls :=
  [C_ADWIN; C_BOCD; C_CUSUM; C_DDM; C_ECDDWT; C_EDDM; C_GeometricMovingAverage;
   C_HDDMA; C_HDDMW; C_KSWIN; C_PageHinkley; C_RDDM; C_STEPD;
   C_BhattacharyyaDistance; C_EMD; C_EnergyDistance; C_HellingerDistance;
   C_HINormalizedComplement; C_JS; C_KL; C_MMD; C_PSI;
   C_AndersonDarlingTest; C_BWSTest; C_ChiSquareTest; C_CVMTest; C_KSTest; C_KuiperTest;
   C_MannWhitneyUTest; C_WelchTTest;
   C_IncrementalKSTest; C_MMDStreaming;
   C_HistoryConceptDrift; C_PermutationTestDistanceBased; C_ResetStatisticalTest].

Definition cls_kind (c : cls) : kind :=
  match c with
  | C_HistoryConceptDrift | C_PermutationTestDistanceBased | C_ResetStatisticalTest => KCallback
  | _ => KDetector
  end.

(** how pickle reaches a callable stored in an attribute *)
Inductive ckind :=
| ModuleFunction     (* def at module level (rbf_kernel): pickled by reference module.name *)
| ClassAttrFunction  (* staticmethod read through the instance (MMD._mmd): reference module.Class.name *)
| BuiltinFunction    (* operator.eq / operator.ge *)
| TypeObject         (* numpy.float32 *)
| LibraryObject      (* frozen scipy distribution: pickled by scipy's own __reduce__ / __getstate__ *)
| ClassBodyLambda    (* lambda written inside a class body: __qualname__ = Class.<lambda>, not an attribute of Class *)
| LocalFunction.     (* def / lambda inside a function: __qualname__ contains <locals> *)

(** pickle serialises functions and classes BY REFERENCE: getattr-walk of [__qualname__] from
    [sys.modules[__module__]] must give back the very same object. *)
Definition importable (k : ckind) : bool :=
  match k with ClassBodyLambda | LocalFunction => false | _ => true end.

Definition dd_univariate : list (string * ckind) :=
  [("._data_type.output_type", TypeObject); ("._statistical_type.dim_check", BuiltinFunction)]%string.
Definition dd_distance := dd_univariate ++ [("._statistical_method"%string, ClassAttrFunction)].
Definition mmd_fields (prefix : string) : list (string * ckind) :=
  [((prefix ++ "._data_type.output_type")%string, TypeObject);
   ((prefix ++ "._statistical_type.dim_check")%string, BuiltinFunction);
   ((prefix ++ "._statistical_method")%string, ClassAttrFunction);
   ((prefix ++ "._statistical_kwargs['kernel']")%string, ModuleFunction);
   ((prefix ++ "._kernel")%string, ModuleFunction)].

(** How BaseECDDConfig keeps its control-limit polynomial (the only place where the 35 classes
    differ between revisions of the code as far as pickling goes):
    - [StoresLambda]: [self.control_limit_func = self.average_run_length_map[arl]], a lambda
      written in the class body (the code as found, F25);
    - [StoresKey]: only the key [arl] is stored, the function is looked up at call time;
    - [StoresModuleFunction]: the polynomials are module-level functions.
    The harness determines which revision it is looking at from the real object graph. *)
Inductive revision := StoresLambda | StoresKey | StoresModuleFunction.

(** Every attribute path (from an instance built with the default arguments, after any
    history) whose value is a callable or an opaque library object, as the code is. *)
Definition callable_fields (r : revision) (c : cls) : list (string * ckind) :=
  match c with
  | C_ECDDWT =>
      match r with
      | StoresLambda => [("._config.control_limit_func"%string, ClassBodyLambda)]
      | StoresKey => []
      | StoresModuleFunction => [("._config.control_limit_func"%string, ModuleFunction)]
      end
  | C_STEPD => [("._distribution"%string, LibraryObject)]
  | C_ADWIN | C_BOCD | C_CUSUM | C_DDM | C_EDDM | C_GeometricMovingAverage
  | C_HDDMA | C_HDDMW | C_KSWIN | C_PageHinkley | C_RDDM => []
  | C_BhattacharyyaDistance | C_EMD | C_EnergyDistance | C_HellingerDistance
  | C_HINormalizedComplement | C_JS | C_KL | C_PSI => dd_distance
  | C_MMD => mmd_fields ""
  | C_ChiSquareTest => [("._statistical_type.dim_check"%string, BuiltinFunction)]  (* CategoricalData: output_type None *)
  | C_AndersonDarlingTest | C_BWSTest | C_CVMTest | C_KSTest | C_KuiperTest
  | C_MannWhitneyUTest | C_WelchTTest | C_IncrementalKSTest => dd_univariate
  | C_MMDStreaming => dd_univariate ++ mmd_fields ".mmd"
  | C_HistoryConceptDrift | C_PermutationTestDistanceBased | C_ResetStatisticalTest => []
  end.

Definition picklable_cls (r : revision) (c : cls) : bool :=
  forallb (fun f => importable (snd f)) (callable_fields r c).

(** An object graph holding instances of the classes [cs] (a detector with its callbacks,
    or a callback with its detector: the back-references make both ends reach everything). *)
Definition picklable_graph (r : revision) (cs : list cls) : bool := forallb (picklable_cls r) cs.

(** which callback classes each detector family accepts (check_callbacks) *)
Definition is_concept_drift (c : cls) : bool :=
  match c with
  | C_ADWIN | C_BOCD | C_CUSUM | C_DDM | C_ECDDWT | C_EDDM | C_GeometricMovingAverage
  | C_HDDMA | C_HDDMW | C_KSWIN | C_PageHinkley | C_RDDM | C_STEPD => true
  | _ => false
  end.
