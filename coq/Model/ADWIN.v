(** window_based/adwin.py transliterated (repaired code: drift flag recomputed at every
    update, F12; scan visits every bucket of a row, F13; no sign guard on the float
    total, F14).  Rows are lists (the zero-padded arrays of the code up to [idx]).
    Definitions only. *)
From Coq Require Import ZArith List Bool.
From FV Require Import NumSys Detector.
Import ListNotations.

Section ADWIN.
  Context {A : Arith}.
  Local Open Scope arith_scope.

  Definition bkt := (num A * num A)%type.          (* (total, variance) *)
  Definition row := list bkt.                      (* index 0 = oldest bucket of the row *)

  Record adwin_cfg := { ad_clock : Z; ad_delta : num A; ad_m : Z; ad_mws : Z; ad_min : Z }.
  Record adwin_st := { an : Z; arows : list row;   (* row i holds buckets of 2^i values *)
                       atotal : num A; avar : num A; awidth : Z; adrift : bool }.

  Definition adwin_init (c : adwin_cfg) : adwin_st :=
    {| an := 0; arows := [[]]; atotal := zero; avar := zero; awidth := 0; adrift := false |}.

  Definition pow2 (i : Z) : Z := 2 ^ i.

  (** merge of the two oldest buckets of a full row of level [lvl] *)
  Definition merge2 (lvl : Z) (b1 b2 : bkt) : bkt :=
    let s := pow2 lvl in
    let m1 := fst b1 / ofZ s in
    let m2 := fst b2 / ofZ s in
    let incr := ((ofZ (s * s) * (m1 - m2)) * (m1 - m2)) / ofZ (s * 2) in
    (fst b1 + fst b2, (snd b1 + snd b2) + incr).

  (** [_compress_buckets]: [carry] is the merged bucket pushed up from the row below *)
  Fixpoint compress (m : Z) (lvl : Z) (carry : option bkt) (rows : list row) : list row :=
    match rows with
    | [] => match carry with None => [] | Some b => [[b]] end
    | r :: rest =>
      let r1 := match carry with None => r | Some b => r ++ [b] end in
      if (Z.of_nat (length r1) =? m + 1)%Z then
        match r1 with
        | b1 :: b2 :: r2 => r2 :: compress m (lvl + 1) (Some (merge2 lvl b1 b2)) rest
        | _ => r1 :: rest
        end
      else r1 :: rest
    end.

  (** [_insert_bucket] *)
  Definition adwin_insert (c : adwin_cfg) (s : adwin_st) (v : num A) : adwin_st :=
    let rows1 := match arows s with [] => [[(v, zero)]] | r0 :: rest => (r0 ++ [(v, zero)]) :: rest end in
    let w := (awidth s + 1)%Z in
    let incr := if (1 <? w)%Z then
                  let a := v - atotal s / ofZ (w - 1) in ((ofZ (w - 1) * a) * a) / ofZ w
                else zero in
    {| an := an s; arows := compress (ad_m c) 0 None rows1;
       atotal := atotal s + v; avar := avar s + incr; awidth := w; adrift := adrift s |}.

  (** remove the trailing empty rows (with m = 1 merging leaves intermediate rows empty) *)
  Fixpoint strip_tail (rows : list row) : list row :=
    match rows with
    | [] => []
    | r :: rest => match strip_tail rest with
                   | [] => match r with [] => [] | _ => [r] end
                   | rest' => r :: rest'
                   end
    end.

  (** [_delete_bucket]: drop the oldest bucket (first of the last row) *)
  Definition adwin_delete (s : adwin_st) : adwin_st :=
    let lvl := (Z.of_nat (length (arows s)) - 1)%Z in
    let size := pow2 lvl in
    let lastrow := last (arows s) [] in
    let b := hd (zero, zero) lastrow in
    let w := (awidth s - size)%Z in
    let tot := atotal s - fst b in
    let bm := fst b / ofZ size in
    let wm := tot / ofZ w in
    let incr := snd b + ((ofZ (size * w) * (bm - wm)) * (bm - wm)) / ofZ (size + w) in
    let lastrow' := tl lastrow in
    let rows' := match lastrow' with
                 | [] => strip_tail (removelast (arows s))
                 | _ => removelast (arows s) ++ [lastrow']
                 end in
    {| an := an s; arows := rows'; atotal := tot; avar := avar s - incr; awidth := w; adrift := adrift s |}.

  (** all buckets oldest first, tagged with their size *)
  Fixpoint flat_from (lvl : Z) (rows : list row) : list (Z * bkt) :=
    match rows with
    | [] => []
    | r :: rest => flat_from (lvl + 1) rest ++ map (fun b => (pow2 lvl, b)) r
    end.
  Definition flat (s : adwin_st) : list (Z * bkt) := flat_from 0 (arows s).

  (** [_calculate_threshold]; [None] = +inf (a reciprocal of zero: no cut possible) *)
  Definition eps_cut (c : adwin_cfg) (s : adwin_st) (w0 w1 : Z) : option (num A) :=
    let mws1 := (ad_mws c + 1)%Z in
    if ((w0 =? mws1) || (w1 =? mws1))%Z then None else
    let dp := ln ((two * ln (ofZ (awidth s))) / ad_delta c) in
    let mr := one / ofZ (w0 - mws1) + one / ofZ (w1 - mws1) in
    let vw := avar s / ofZ (awidth s) in
    Some (sqrt (((two * mr) * vw) * dp) + ((two / ofZ 3) * dp) * mr).

  (** does the split after the current bucket exceed the bound? *)
  Definition split_exceeds (c : adwin_cfg) (s : adwin_st) (w0 w1 : Z) (t0 t1 : num A) : bool :=
    ((ad_mws c <? w1) && (ad_mws c <? w0))%Z &&
    match eps_cut c s w0 w1 with
    | None => false
    | Some e => e <? absA (t0 / ofZ w0 - t1 / ofZ w1)
    end.

  (** one pass of the scan: is there a split (oldest first) exceeding the bound? *)
  Fixpoint scan (c : adwin_cfg) (s : adwin_st) (bs : list (Z * bkt)) (w0 w1 : Z) (t0 t1 : num A) : bool :=
    match bs with
    | [] => false
    | (size, b) :: r =>
      let w0' := (w0 + size)%Z in let w1' := (w1 - size)%Z in
      let t0' := t0 + fst b in let t1' := t1 - fst b in
      if split_exceeds c s w0' w1' t0' t1' then true else scan c s r w0' w1' t0' t1'
    end.

  Definition found_cut (c : adwin_cfg) (s : adwin_st) : bool :=
    scan c s (flat s) 0 (awidth s) zero (atotal s).

  (** the [while flag_reduce_width] loop, on fuel (each productive pass deletes a bucket) *)
  Fixpoint shrink (c : adwin_cfg) (fuel : nat) (s : adwin_st) : adwin_st * bool :=
    match fuel with
    | O => (s, false)
    | S k => if found_cut c s then
               let '(s', _) := shrink c k (adwin_delete s) in (s', true)
             else (s, false)
    end.

  Definition is_check (c : adwin_cfg) (n w : Z) : bool :=
    ((n mod ad_clock c =? 0) && (ad_min c <? w))%Z.

  Definition adwin_step (c : adwin_cfg) (s : adwin_st) (v : num A) : adwin_st :=
    let n := (an s + 1)%Z in
    let s1 := adwin_insert c s v in
    if is_check c n (awidth s1) then
      let '(s2, dropped) := shrink c (S (length (flat s1))) s1 in
      {| an := n; arows := arows s2; atotal := atotal s2; avar := avar s2; awidth := awidth s2;
         adrift := dropped |}
    else
      {| an := n; arows := arows s1; atotal := atotal s1; avar := avar s1; awidth := awidth s1;
         adrift := false |}.

  Definition adwin_reset (c : adwin_cfg) (s : adwin_st) : adwin_st := adwin_init c.

  Definition ADWIND : Detector := {|
    d_cfg := adwin_cfg; d_in := num A; d_st := adwin_st;
    d_init := adwin_init; d_step := adwin_step; d_reset := adwin_reset;
    d_drift := adrift; d_warning := fun _ => false; d_has_warning_status := false; d_ninst := an |}.
End ADWIN.
Arguments adwin_cfg : clear implicits. Arguments adwin_st : clear implicits. Arguments ADWIND : clear implicits.
