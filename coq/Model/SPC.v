(** statistical_process_control/{base,ddm,rddm,eddm,ecdd}.py transliterated
    (repaired code: see known_findings.json for the fix commits).  Definitions only. *)
From Coq Require Import ZArith List Bool.
From FV Require Import NumSys Py Queue Stats Detector.
Import ListNotations.

Section SPC.
  Context {A : Arith}.
  Local Open Scope arith_scope.

  (* ------------------------------------------------------------------ BaseSPCError *)
  (** (min_error_rate, min_std); [None] = both still +inf *)
  Definition mins := option (num A * num A).

  (** [_calculate_error_rate_plus_std] *)
  Definition eps_std (p : num A) (n : Z) : num A * num A :=
    let std := sqrt (p * (one - p) / ofZ n) in (p + std, std).

  (** [_update_min_values] *)
  Definition update_mins (m : mins) (p eps std : num A) : mins :=
    match m with
    | None => Some (p, std)                              (* eps < inf *)
    | Some (pm, sm) => if eps <? pm + sm then Some (p, std) else m
    end.

  (** [_check_threshold]; with both minima still +inf the right-hand side is +inf *)
  Definition check_thr (eps : num A) (m : mins) (level : num A) : bool :=
    match m with
    | None => false
    | Some (pm, sm) => pm + level * sm <? eps
    end.

  (* ------------------------------------------------------------------ DDM *)
  Record ddm_cfg := { dd_warn : num A; dd_drift : num A; dd_min : Z }.
  Record ddm_st := { dn : Z; der : mean_st A; dmins : mins; ddrift : bool; dwarning : bool }.

  Definition ddm_init (c : ddm_cfg) : ddm_st :=
    {| dn := 0; der := mean_init; dmins := None; ddrift := false; dwarning := false |}.

  Definition ddm_step (c : ddm_cfg) (s : ddm_st) (v : num A) : ddm_st :=
    let n := (dn s + 1)%Z in
    let er := mean_update (der s) v in
    if (dd_min c <=? n)%Z then
      let '(eps, std) := eps_std (m_mean er) n in
      let m := update_mins (dmins s) (m_mean er) eps std in
      if check_thr eps m (dd_drift c) then
        {| dn := n; der := er; dmins := m; ddrift := true; dwarning := false |}
      else
        {| dn := n; der := er; dmins := m; ddrift := false; dwarning := check_thr eps m (dd_warn c) |}
    else {| dn := n; der := er; dmins := dmins s; ddrift := false; dwarning := false |}.

  Definition ddm_reset (c : ddm_cfg) (s : ddm_st) : ddm_st := ddm_init c.

  Definition DDMD : Detector := {|
    d_cfg := ddm_cfg; d_in := num A; d_st := ddm_st;
    d_init := ddm_init; d_step := ddm_step; d_reset := ddm_reset;
    d_drift := ddrift; d_warning := dwarning; d_has_warning_status := true; d_ninst := dn |}.

  (* ------------------------------------------------------------------ RDDM *)
  Record rddm_cfg := { rd_warn : num A; rd_drift : num A; rd_min : Z;
                       rd_max_concept : Z; rd_min_concept : Z; rd_max_warn : Z }.
  Record rddm_st := { rn : Z; rer : mean_st A; rmins : mins; rdrift : bool; rwarning : bool;
                      rnum_warn : Z; rflag : bool (* rddm_drift *); rpred : cq (num A) }.

  Definition rddm_init (c : rddm_cfg) : rddm_st :=
    {| rn := 0; rer := mean_init; rmins := None; rdrift := false; rwarning := false;
       rnum_warn := 0; rflag := false; rpred := cq_init (rd_min_concept c) |}.

  (** loop body of [_rdd_drift_case]: replay one stored prediction *)
  Definition rebuild_one (c : rddm_cfg) (drift : bool) (acc : Z * mean_st A * mins) (ov : option (num A))
    : Z * mean_st A * mins :=
    let '(n, er, m) := acc in
    match ov with
    | None => acc   (* an empty slot is never read (queue invariant) *)
    | Some v =>
      let n' := (n + 1)%Z in
      let er' := mean_update er v in
      let '(eps, std) := eps_std (m_mean er') n' in
      let m' := if drift && (rd_min c <=? n')%Z then update_mins m (m_mean er') eps std else m in
      (n', er', m')
    end.

  (** [_rdd_drift_case] *)
  Definition rdd_drift_case (c : rddm_cfg) (s : rddm_st) : rddm_st :=
    let '(n, er, m) := fold_left (rebuild_one c (rdrift s)) (cq_abs (rpred s)) (0%Z, mean_init, None) in
    {| rn := n; rer := er; rmins := m; rdrift := false; rwarning := rwarning s;
       rnum_warn := 0; rflag := false; rpred := rpred s |}.

  Definition rddm_step (c : rddm_cfg) (s0 : rddm_st) (v : num A) : rddm_st :=
    let s1 := {| rn := (rn s0 + 1)%Z; rer := rer s0; rmins := rmins s0; rdrift := rdrift s0;
                 rwarning := rwarning s0; rnum_warn := rnum_warn s0; rflag := rflag s0; rpred := rpred s0 |} in
    let s := if rflag s1 then rdd_drift_case c s1 else s1 in
    let pred := match cq_enqueue (rpred s) v with Ok (q, _) => q | Raise _ => rpred s end in
    let er := mean_update (rer s) v in
    let n := rn s in
    if (rd_min c <=? n)%Z then
      let '(eps, std) := eps_std (m_mean er) n in
      let m := update_mins (rmins s) (m_mean er) eps std in
      if check_thr eps m (rd_drift c) then
        {| rn := n; rer := er; rmins := m; rdrift := true; rwarning := false;
           rnum_warn := rnum_warn s; rflag := true;
           rpred := if (rnum_warn s =? 0)%Z then cq_keep_last pred else pred |}
      else if check_thr eps m (rd_warn c) then
        if (rd_max_warn c <=? rnum_warn s)%Z then
          (* warning limit reached: reported as drift (warning cleared: repaired, F03) *)
          {| rn := n; rer := er; rmins := m; rdrift := true; rwarning := false;
             rnum_warn := rnum_warn s; rflag := true; rpred := cq_keep_last pred |}
        else
          {| rn := n; rer := er; rmins := m; rdrift := false; rwarning := true;
             rnum_warn := (rnum_warn s + 1)%Z; rflag := rflag s; rpred := pred |}
      else
        {| rn := n; rer := er; rmins := m; rdrift := false; rwarning := false;
           rnum_warn := 0; rflag := rflag s || (rd_max_concept c <=? n)%Z; rpred := pred |}
    else
      {| rn := n; rer := er; rmins := rmins s; rdrift := false; rwarning := false;
         rnum_warn := rnum_warn s; rflag := rflag s; rpred := pred |}.

  (** repaired [reset] (F09): also clears the stored predictions and the warning counter *)
  Definition rddm_reset (c : rddm_cfg) (s : rddm_st) : rddm_st := rddm_init c.

  Definition RDDMD : Detector := {|
    d_cfg := rddm_cfg; d_in := num A; d_st := rddm_st;
    d_init := rddm_init; d_step := rddm_step; d_reset := rddm_reset;
    d_drift := rdrift; d_warning := rwarning; d_has_warning_status := true; d_ninst := rn |}.

  (* ------------------------------------------------------------------ EDDM *)
  Record eddm_cfg := { ed_alpha : num A; ed_beta : num A; ed_level : num A; ed_min : Z }.
  Record eddm_st := { en : Z; elast : num A; emax : option (num A) (* None = -inf *);
                      emean : num A; enmis : Z; eold : num A; estd : num A; evar : num A;
                      edrift : bool; ewarning : bool }.

  Definition eddm_init (c : eddm_cfg) : eddm_st :=
    {| en := 0; elast := zero; emax := None; emean := zero; enmis := 0; eold := zero;
       estd := zero; evar := zero; edrift := false; ewarning := false |}.

  Definition eddm_step (c : eddm_cfg) (s : eddm_st) (v : num A) : eddm_st :=
    let n := (en s + 1)%Z in
    if v =? one then
      let k := (enmis s + 1)%Z in
      let dist := ofZ n - elast s in
      let old := emean s in
      let mean := emean s + (dist - emean s) / ofZ k in
      let var := evar s + (dist - mean) * (dist - old) in
      let std := sqrt (var / ofZ k) in
      let base := {| en := n; elast := ofZ n; emax := emax s; emean := mean; enmis := k; eold := old;
                     estd := std; evar := var; edrift := edrift s; ewarning := ewarning s |} in
      if (ed_min c <=? n)%Z then
        let thr := mean + ed_level c * std in
        if gt_opt thr (emax s) then
          {| en := n; elast := ofZ n; emax := Some thr; emean := mean; enmis := k; eold := old;
             estd := std; evar := var; edrift := false; ewarning := false |}
        else if (ed_min c <=? k)%Z then
          let p := match emax s with Some mx => thr / mx | None => thr end in
          if p <? ed_beta c then
            {| en := n; elast := ofZ n; emax := emax s; emean := mean; enmis := k; eold := old;
               estd := std; evar := var; edrift := true; ewarning := false |}
          else
            {| en := n; elast := ofZ n; emax := emax s; emean := mean; enmis := k; eold := old;
               estd := std; evar := var; edrift := false; ewarning := p <? ed_alpha c |}
        else base
      else base
    else
      {| en := n; elast := elast s; emax := emax s; emean := emean s; enmis := enmis s; eold := eold s;
         estd := estd s; evar := evar s; edrift := false; ewarning := false |}.

  Definition eddm_reset (c : eddm_cfg) (s : eddm_st) : eddm_st := eddm_init c.

  Definition EDDMD : Detector := {|
    d_cfg := eddm_cfg; d_in := num A; d_st := eddm_st;
    d_init := eddm_init; d_step := eddm_step; d_reset := eddm_reset;
    d_drift := edrift; d_warning := ewarning; d_has_warning_status := true; d_ninst := en |}.

  (* ------------------------------------------------------------------ ECDD-WT *)
  (** control-limit polynomials [average_run_length_map], written as the source writes them (left-associated sums
      and differences of decimal literals times [np.power(p, k)]); a decimal literal d.dd is the correctly rounded
      quotient of two exactly representable integers *)
  Definition lit (a b : Z) : num A := ofZ a / ofZ b.
  Definition control_limit (arl : Z) (p : num A) : num A :=
    if (arl =? 100)%Z then
      (((lit 276 100 - lit 623 100 * p) + lit 1812 100 * powN p 3) - lit 31245 100 * powN p 5) + lit 100218 100 * powN p 7
    else if (arl =? 400)%Z then
      (((lit 397 100 - lit 656 100 * p) + lit 4873 100 * powN p 3) - lit 33013 100 * powN p 5) + lit 84818 100 * powN p 7
    else
      (((lit 117 100 + lit 756 100 * p) - lit 2124 100 * powN p 3) + lit 11212 100 * powN p 5) - lit 98723 100 * powN p 7.

  Record ecdd_cfg := { ec_lambda : num A; ec_arl : Z; ec_warn : num A; ec_min : Z }.
  Record ecdd_st := { cn : Z; cp : mean_st A; cz : ewma_st A; cdrift : bool; cwarning : bool }.

  Definition ecdd_init (c : ecdd_cfg) : ecdd_st :=
    {| cn := 0; cp := mean_init; cz := ewma_init (ec_lambda c); cdrift := false; cwarning := false |}.

  (** z.mean > p.mean + warning_level * control_limit * z_variance *)
  Definition ecdd_check (zm pm cl zv wl : num A) : bool := pm + (wl * cl) * zv <? zm.

  Definition ecdd_zvar (c : ecdd_cfg) (one_minus_alpha : num A) (n : Z) (p : num A) : num A :=
    sqrt (((ec_lambda c / (two - ec_lambda c)) * (one - powN one_minus_alpha (Z.to_nat (2 * n)))) * (p * (one - p))).

  Definition ecdd_step (c : ecdd_cfg) (s : ecdd_st) (v : num A) : ecdd_st :=
    let n := (cn s + 1)%Z in
    let p := mean_update (cp s) v in
    let z := ewma_update (cz s) v in
    if (ec_min c <=? n)%Z then
      let zv := ecdd_zvar c (e_1ma z) n (m_mean p) in
      let cl := control_limit (ec_arl c) (m_mean p) in
      if ecdd_check (e_mean z) (m_mean p) cl zv one then
        {| cn := n; cp := p; cz := z; cdrift := true; cwarning := false |}
      else
        {| cn := n; cp := p; cz := z; cdrift := false;
           cwarning := ecdd_check (e_mean z) (m_mean p) cl zv (ec_warn c) |}
    else {| cn := n; cp := p; cz := z; cdrift := false; cwarning := false |}.

  Definition ecdd_reset (c : ecdd_cfg) (s : ecdd_st) : ecdd_st := ecdd_init c.

  Definition ECDDD : Detector := {|
    d_cfg := ecdd_cfg; d_in := num A; d_st := ecdd_st;
    d_init := ecdd_init; d_step := ecdd_step; d_reset := ecdd_reset;
    d_drift := cdrift; d_warning := cwarning; d_has_warning_status := true; d_ninst := cn |}.
End SPC.
Arguments ddm_cfg : clear implicits. Arguments ddm_st : clear implicits. Arguments DDMD : clear implicits.
Arguments rddm_cfg : clear implicits. Arguments rddm_st : clear implicits. Arguments RDDMD : clear implicits.
Arguments eddm_cfg : clear implicits. Arguments eddm_st : clear implicits. Arguments EDDMD : clear implicits.
Arguments ecdd_cfg : clear implicits. Arguments ecdd_st : clear implicits. Arguments ECDDD : clear implicits.
