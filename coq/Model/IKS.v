(** data_drift/streaming/statistical_test/ks.py (IncrementalKSTest) and the exact branch of
    batch KSTest (scipy.stats.ks_2samp, method exact), over the exact KS model of Model/KS.v.
    Repaired code (F17: asymptotic branch indexes a scalar; F18: exact p-value clipped to [0,1]).
    The asymptotic p-value (kstwo.sf, used when a sample exceeds 10 000 values) is an oracle:
    the model reports the statistic and leaves the p-value to the caller in that regime.
    Definitions only. *)
From Coq Require Import ZArith List Bool.
From FV Require Import NumSys Py Queue KS.
Import ListNotations.

Section IKS.
  Context {A : Arith}.

  Definition MAX_AUTO_N : Z := 10000.

  (** result: H = n m D, and the exact p-value as a fraction (outside, total);
      [None] for the fraction in the asymptotic regime *)
  Definition ks_result := (Z * option (Z * Z))%type.
  Definition ks_test (ref X : list (num A)) : ks_result :=
    (ks_H ref X,
     if (Z.max (len ref) (len X) <=? MAX_AUTO_N)%Z then Some (ks_p_frac ref X) else None).

  Record iks_st := { ik_n : Z; ik_q : cq (num A); ik_ref : option (list (num A)); ik_w : Z }.
  Definition iks_init (w : Z) : iks_st := {| ik_n := 0; ik_q := cq_init w; ik_ref := None; ik_w := w |}.
  (** [fit] stores the (sorted) reference; it neither clears the window nor the counter *)
  Definition iks_fit (s : iks_st) (X : list (num A)) : iks_st :=
    {| ik_n := ik_n s; ik_q := ik_q s; ik_ref := Some X; ik_w := ik_w s |}.
  Definition iks_reset (s : iks_st) : iks_st :=
    {| ik_n := 0; ik_q := cq_clear (ik_q s); ik_ref := None; ik_w := ik_w s |}.

  (** [np.array(queue)]: the ring in STORAGE order (slots 0 .. count-1), not FIFO order *)
  Fixpoint somes (l : list (option (num A))) : list (num A) :=
    match l with [] => [] | Some x :: r => x :: somes r | None :: r => somes r end.
  Definition storage (q : cq (num A)) : list (num A) :=
    somes (firstn (Z.to_nat (q_count q)) (q_slots q)).

  Definition iks_update (s : iks_st) (v : num A) : res (iks_st * option ks_result) :=
    match ik_ref s with
    | None => Raise MissingFitError
    | Some ref =>
      let n := (ik_n s + 1)%Z in
      do (q, _) <- cq_enqueue (ik_q s) v;
      let s' := {| ik_n := n; ik_q := q; ik_ref := ik_ref s; ik_w := ik_w s |} in
      if (n <? ik_w s)%Z then Ok (s', None) else Ok (s', Some (ks_test ref (storage q)))
    end.
End IKS.
Arguments iks_st : clear implicits.
