(** Permutation-test callback (property C13), transliterated.  Definitions only.

    frouros/callbacks/batch/permutation_test.py   (PermutationTestDistanceBased)
    frouros/utils/stats.py:217-275                 (permutation)
    frouros/detectors/data_drift/batch/distance_based/{base,psi,hellinger_distance,
      bhattacharyya_distance,hi_normalized_complement,js,kl,emd,energy_distance,mmd}.py
      (constructor chains down to statistical_kwargs; what _distance_measure passes)

    The code modelled is /repo at 5423711 (after the fixes 0e07408, fd44d2a, 5423711 of the
    findings F21, F39, F22); 'approximate' is modelled as it is (finding F23, known).

    Part 1  keyword dictionaries, the nine constructor chains, the public setters
    Part 2  [permutation]: RNG oracle, enumeration branch, re-split, parallel map
            (+ an explicit model of multiprocessing.Pool's chunked map, [run_parallel])
    Part 3  the four p-value methods, generic over [Arith] (run over Q, proved over R)
    Part 4  MMD: the cached E[k(x,x')] of [_fit] versus the recomputation of [_mmd]  *)
From Coq Require Import ZArith String List Bool QArith Qreduction.
From FV Require Import NumSys Py.
Import ListNotations.
Local Close Scope Q_scope.
Local Open Scope string_scope.

(* ------------------------------------------------------------------------------------ *)
(** * Part 1 — keyword dictionaries, constructor chains *)

(** Values of keyword arguments.  Only what the chains distinguish: ints, [None], the float
    [np.sqrt(2)], callables (by identity), other opaque objects (by identity) and the
    token for "the value [MMD._fit] cached in [self._expected_k_xx]". *)
Inductive pv := VInt (z : Z) | VNone | VSqrt2 | VFun (id : Z) | VOther (id : Z) | VCacheKxx.

Definition pv_eqb (a b : pv) : bool :=
  match a, b with
  | VInt x, VInt y => Z.eqb x y
  | VNone, VNone => true
  | VSqrt2, VSqrt2 => true
  | VFun x, VFun y => Z.eqb x y
  | VOther x, VOther y => Z.eqb x y
  | VCacheKxx, VCacheKxx => true
  | _, _ => false
  end.

(** A Python [dict] with string keys: association list in insertion order. *)
Definition dict := list (string * pv).

Fixpoint dget (k : string) (d : dict) : option pv :=
  match d with
  | [] => None
  | (k', v) :: r => if String.eqb k k' then Some v else dget k r
  end.

Definition dmem (k : string) (d : dict) : bool :=
  match dget k d with Some _ => true | None => false end.

(** [d[k] = v]: replace in place, else append. *)
Fixpoint dset (d : dict) (k : string) (v : pv) : dict :=
  match d with
  | [] => [(k, v)]
  | (k', v') :: r => if String.eqb k k' then (k', v) :: r else (k', v') :: dset r k v
  end.

(** [{**a, **b}] *)
Definition dmerge (a b : dict) : dict := fold_left (fun acc kv => dset acc (fst kv) (snd kv)) b a.

Fixpoint ddel (k : string) (d : dict) : dict :=
  match d with
  | [] => []
  | (k', v) :: r => if String.eqb k k' then ddel k r else (k', v) :: ddel k r
  end.

Definition dkeys (d : dict) : list string := map fst d.

(** Python dict equality ignores insertion order. *)
Definition dict_equiv (a b : dict) : Prop := forall k, dget k a = dget k b.

Definition opt_pv_eqb (a b : option pv) : bool :=
  match a, b with Some x, Some y => pv_eqb x y | None, None => true | _, _ => false end.
Definition dict_eqb (a b : dict) : bool :=
  forallb (fun k => opt_pv_eqb (dget k a) (dget k b)) (dkeys a ++ dkeys b)%list.

Inductive det := PSI | Hellinger | Bhattacharyya | HINC | JS | KL | EMD | Energy | MMD.

Definition binned (d : det) : bool :=
  match d with PSI | Hellinger | Bhattacharyya | HINC => true | _ => false end.

(** Binding of the call [Detector( **user )] to the signature: [named] lists the named
    parameters with their defaults ([callbacks] is not modelled here), [var_kw] says whether
    the signature ends in [**kwargs].  An unexpected keyword is a [TypeError]. *)
Definition bind_kw (named : dict) (var_kw : bool) (user : dict) : res (dict * dict) :=
  let extra := filter (fun kv => negb (dmem (fst kv) named)) user in
  if negb var_kw && negb (match extra with [] => true | _ => false end) then Raise TypeError
  else Ok (map (fun kd => (fst kd, match dget (fst kd) user with Some v => v | None => snd kd end)) named,
           extra).

Definition signature (d : det) : dict * bool :=
  match d with
  | PSI | Hellinger | Bhattacharyya | HINC => ([("num_bins", VInt 10)], false)
  | JS | KL => ([("num_bins", VInt 10)], true)
  | EMD | Energy => ([], true)
  | MMD => ([("kernel", VFun 0); ("chunk_size", VNone)], false)   (* VFun 0 = rbf_kernel *)
  end.

(** The detector object: [statistical_kwargs], the scalar attributes [compare] reads,
    and [self.kwargs]. *)
Record obj := { o_det : det; o_skw : dict; o_attrs : dict; o_kwargs : dict }.

Definition set_attr (o : obj) (k : string) (v : pv) : obj :=
  {| o_det := o_det o; o_skw := o_skw o; o_attrs := dset (o_attrs o) k v; o_kwargs := o_kwargs o |}.
Definition set_kwargs (o : obj) (kw : dict) : obj :=
  {| o_det := o_det o; o_skw := o_skw o; o_attrs := o_attrs o; o_kwargs := kw |}.
Definition attr (o : obj) (k : string) : res pv :=
  match dget k (o_attrs o) with Some v => Ok v | None => Raise AttributeError end.

(** [self.statistical_kwargs[k] = v] (the setters keep the null's keyword arguments in step
    with the attribute; fix commits 0e07408, fd44d2a) *)
Definition set_skw (o : obj) (k : string) (v : pv) : obj :=
  {| o_det := o_det o; o_skw := dset (o_skw o) k v; o_attrs := o_attrs o; o_kwargs := o_kwargs o |}.
Definition set_param (o : obj) (k : string) (v : pv) : obj := set_skw (set_attr o k v) k v.

(** [num_bins] setter (base.py:156-167 and 241-252): [if value < 1: raise ValueError], then
    [self._num_bins = value; self.statistical_kwargs["num_bins"] = value]. *)
Definition set_num_bins (o : obj) (v : pv) : res obj :=
  match v with
  | VInt z => if (z <? 1)%Z then Raise ValueError else Ok (set_param o "num_bins" v)
  | VSqrt2 => Ok (set_param o "num_bins" v)
  | _ => Raise TypeError                         (* '<' not supported *)
  end.
(** mmd.py:102-113 *)
Definition set_kernel (o : obj) (v : pv) : res obj :=
  match v with VFun _ => Ok (set_param o "kernel" v) | _ => Raise TypeError end.
(** mmd.py:76-91 *)
Definition set_chunk_size (o : obj) (v : pv) : res obj :=
  match v with
  | VNone => Ok (set_param o "chunk_size" v)
  | VInt z => if (z <=? 0)%Z then Raise ValueError else Ok (set_param o "chunk_size" v)
  | _ => Raise TypeError
  end.

(** BaseDistanceBased.__init__ (base.py:24-48): stores [statistical_kwargs] as given. *)
Definition base_init (d : det) (skw : dict) : res obj :=
  Ok {| o_det := d; o_skw := skw; o_attrs := []; o_kwargs := [] |}.

(** BaseDistanceBasedBins.__init__ (base.py:121-145), parameter [num_bins: int = 10]:
    [statistical_kwargs={**statistical_kwargs, "num_bins": num_bins}] then [self.num_bins = num_bins]. *)
Definition bins_init (d : det) (skw : dict) (num_bins : pv) : res obj :=
  do o <- base_init d (dset skw "num_bins" num_bins);
  set_num_bins o num_bins.

(** BaseDistanceBasedProbability.__init__ (base.py:205-229): kwargs untouched. *)
Definition prob_init (d : det) (skw : dict) (num_bins : pv) : res obj :=
  do o <- base_init d skw;
  set_num_bins o num_bins.

Definition BINS_DEFAULT : pv := VInt 10.     (* the default of the base classes' own parameter *)

Definition getd (k : string) (d : dict) : pv := match dget k d with Some v => v | None => VNone end.

(** The nine [__init__] bodies, line by line.  None of the four binned subclasses passes
    [num_bins=] to [super().__init__], so the base class first stores ITS default 10; the
    subclass's closing [self.num_bins = num_bins] then overwrites attribute and kwargs entry. *)
Definition construct (d : det) (user : dict) : res obj :=
  do (named, kwargs) <- bind_kw (fst (signature d)) (snd (signature d)) user;
  match d with
  | PSI | Bhattacharyya | HINC =>
      let nb := getd "num_bins" named in
      do o <- bins_init d [("num_bins", nb)] BINS_DEFAULT;       (* psi.py:47-53 *)
      set_num_bins o nb                                           (* psi.py:54 *)
  | Hellinger =>
      let nb := getd "num_bins" named in
      do o <- bins_init d [("num_bins", nb); ("sqrt_div", VSqrt2)] BINS_DEFAULT;
      do o <- set_num_bins o nb;
      Ok (set_attr o "sqrt_div" VSqrt2)
  | JS =>
      let nb := getd "num_bins" named in
      do o <- prob_init d (dmerge [("num_bins", nb)] kwargs) BINS_DEFAULT;   (* js.py:50-57 *)
      do o <- set_num_bins o nb;
      Ok (set_kwargs o kwargs)
  | KL =>
      let nb := getd "num_bins" named in
      do o <- prob_init d (dset kwargs "num_bins" nb) BINS_DEFAULT;          (* kl.py:50-54 *)
      do o <- set_num_bins o nb;
      Ok (set_kwargs o kwargs)
  | EMD | Energy =>
      do o <- base_init d kwargs;
      Ok (set_kwargs o kwargs)
  | MMD =>
      let k := getd "kernel" named in
      let c := getd "chunk_size" named in
      do o <- base_init d [("kernel", k); ("chunk_size", c)];               (* mmd.py:54-62 *)
      do o <- set_kernel o k;
      do o <- set_chunk_size o c;
      Ok o
  end.

(** Python call [f(k1=v1, ..., **kw)]: a repeated keyword is a [TypeError]. *)
Definition call_kw (explicit kw : dict) : res dict :=
  if existsb (fun kv => dmem (fst kv) explicit) kw then Raise TypeError else Ok (explicit ++ kw)%list.

(** The keyword arguments the static statistic receives on [compare]'s own path
    ([_distance_measure] / [_distance_measure_bins] of each class); [extra] are the
    [**kwargs] of [compare(X, **kwargs)], which only MMD forwards. *)
Definition compare_kwargs (o : obj) (extra : dict) : res dict :=
  match o_det o with
  | PSI | Bhattacharyya | HINC =>
      do nb <- attr o "num_bins"; Ok [("num_bins", nb)]
  | Hellinger =>
      do nb <- attr o "num_bins"; do s <- attr o "sqrt_div"; Ok [("num_bins", nb); ("sqrt_div", s)]
  | JS | KL =>
      do nb <- attr o "num_bins"; call_kw [("num_bins", nb)] (o_kwargs o)
  | EMD | Energy => Ok (o_kwargs o)
  | MMD =>
      do k <- attr o "kernel"; do c <- attr o "chunk_size";
      call_kw [("kernel", k); ("chunk_size", c); ("expected_k_xx", VCacheKxx)] extra
  end.

(** What the callback hands to [permutation]: [self.detector.statistical_kwargs]. *)
Definition null_kwargs (o : obj) : dict := o_skw o.

(** Public setter used after construction ([detector.num_bins = v]). *)
Definition assign_num_bins (o : obj) (v : pv) : res obj :=
  match o_det o with
  | EMD | Energy | MMD => Ok (set_attr o "num_bins" v)      (* plain attribute, unused *)
  | _ => set_num_bins o v
  end.

(** [detector.<k> = v] for any attribute; MMD's [kernel] and [chunk_size] have validating setters. *)
Definition assign_attr (o : obj) (k : string) (v : pv) : res obj :=
  if String.eqb k "num_bins" then assign_num_bins o v
  else match o_det o with
       | MMD => if String.eqb k "kernel" then set_kernel o v
                else if String.eqb k "chunk_size" then set_chunk_size o v
                else Ok (set_attr o k v)
       | _ => Ok (set_attr o k v)
       end.

(* ------------------------------------------------------------------------------------ *)
Local Close Scope string_scope.
(** * Part 2 — [permutation] (utils/stats.py:217-275) *)

Fixpoint factZ (n : nat) : Z := match n with O => 1%Z | S k => (Z.of_nat (S k) * factZ k)%Z end.

Section Perm.
  Variable T : Type.        (* one sample (row) *)

  (** [data[-m:]]: the whole array when [m = 0]. *)
  Definition slice_last (m : nat) (l : list T) : list T :=
    match m with O => l | _ => skipn (length l - m) l end.

  (** stats.py:266-267 [(data[:X_num_samples], data[-Y_num_samples:])] *)
  Definition resplit (n m : nat) (data : list T) : list T * list T :=
    (firstn n data, slice_last m data).

  (** [itertools.permutations(data)]: lexicographic in positions. *)
  Fixpoint picks (l : list T) : list (T * list T) :=
    match l with
    | [] => []
    | x :: r => (x, r) :: map (fun yr => (fst yr, x :: snd yr)) (picks r)
    end.
  Fixpoint perms_fuel (k : nat) (l : list T) : list (list T) :=
    match k with
    | O => [[]]
    | S k' => flat_map (fun xr => map (cons (fst xr)) (perms_fuel k' (snd xr))) (picks l)
    end.
  Definition all_perms (l : list T) : list (list T) := perms_fuel (length l) l.

  Variable St : Type.       (* value of the statistic *)

  (** The list of permuted pooled samples: all of them when the request reaches
      [(n+m)!], else the first [num_permutations] draws of the RNG oracle. *)
  Definition perms_used (data : list T) (num_permutations : Z) (draws : nat -> list T) : list (list T) :=
    if (num_permutations >=? factZ (length data))%Z then all_perms data
    else map draws (seq 0 (Z.to_nat num_permutations)).

  Section WithPool.
    (** [np.random.seed(random_state); np.random.permutation(data)] called repeatedly:
        the i-th draw is a function of (seed, data, i).  NumPy's generator is not modelled. *)
    Variable np_permutation : Z -> list T -> nat -> list T.
    (** [Pool(processes=num_jobs).starmap_async(f, iterable).get()]; [sched] stands for
        everything the OS decides (which worker runs which chunk, completion order). *)
    Variable sched : Type.
    Variable starmap : Z -> sched -> (list T -> list T -> St) -> list (list T * list T) -> list St.

    Definition permutation (stat : list T -> list T -> St) (X Y : list T) (num_permutations num_jobs : Z)
               (seed : Z) (sc : sched) : list St * Z :=
      let data := X ++ Y in
      let max_num_permutations := factZ (length data) in
      let permutations := perms_used data num_permutations (np_permutation seed data) in
      let permuted_data := map (resplit (length X) (length Y)) permutations in
      (starmap num_jobs sc stat permuted_data, max_num_permutations).
  End WithPool.
End Perm.
Arguments slice_last {T}. Arguments resplit {T}. Arguments picks {T}. Arguments perms_fuel {T}.
Arguments all_perms {T}. Arguments perms_used {T}. Arguments permutation {T St}.

(** An explicit model of what [multiprocessing.Pool] does with a map job (CPython
    Lib/multiprocessing/pool.py [_map_async], [MapResult._set]): the iterable is cut in
    consecutive chunks of [chunksize = ceil(len / (4 * processes))], chunk [i] is evaluated by
    some worker at some time, and its results are written to [value[i*cs : (i+1)*cs]].
    The schedule is the order in which chunks complete. *)
Section Pool.
  Variables (X R : Type).
  Definition pool_chunksize (len jobs : nat) : nat :=
    let q := Nat.div len (jobs * 4) in if Nat.eqb (Nat.modulo len (jobs * 4)) 0 then q else S q.
  Fixpoint chunks_fuel (fuel cs : nat) (l : list X) : list (list X) :=
    match fuel with
    | O => []
    | S f => match l with [] => [] | _ => firstn cs l :: chunks_fuel f cs (skipn cs l) end
    end.
  Definition chunks (cs : nat) (l : list X) : list (list X) := chunks_fuel (length l) cs l.
  (** [value[lo : lo + length ys] = ys] on a list of the right total length *)
  Definition write_at (lo : nat) (ys : list (option R)) (value : list (option R)) : list (option R) :=
    firstn lo value ++ ys ++ skipn (lo + length ys) value.
  Definition run_parallel (f : X -> R) (cs : nat) (xs : list X) (schedule : list nat) : list (option R) :=
    fold_left (fun value i => write_at (i * cs) (map (fun x => Some (f x)) (nth i (chunks cs xs) [])) value)
              schedule (repeat None (length xs)).
End Pool.
Arguments pool_chunksize : clear implicits.
Arguments chunks {X}. Arguments chunks_fuel {X}. Arguments write_at {R}. Arguments run_parallel {X R}.

(* ------------------------------------------------------------------------------------ *)
(** * Part 3 — p-values (permutation_test.py:201-315) *)

Inductive meth := Auto | Conservative | Exact | Approximate | Estimate.
Definition MAX_NUM_PERM : Z := 1000000.

(** Pascal's triangle by rows (binomial coefficients as integers). *)
Fixpoint zip_add (a b : list Z) : list Z :=
  match a, b with x :: a', y :: b' => (x + y)%Z :: zip_add a' b' | _, _ => [] end.
Definition pascal_next (row : list Z) : list Z := zip_add (0%Z :: row) (row ++ [0%Z]).
Fixpoint pascal_row (n : nat) : list Z := match n with O => [1%Z] | S k => pascal_next (pascal_row k) end.
Definition binomZ (n k : nat) : Z := nth k (pascal_row n) 0%Z.

Section PValues.
  Context {A : Arith}.
  Local Open Scope arith_scope.

  Fixpoint sum_upto (f : nat -> num A) (b : nat) : num A :=
    match b with O => f O | S b' => sum_upto f b' + f (S b') end.

  (** [scipy.stats.binom.cdf(b, m, p)] as the finite sum it denotes (SciPy evaluates it
      through the regularised incomplete beta function; equal up to rounding). *)
  Definition binom_pmf (m k : nat) (p : num A) : num A :=
    ofZ (binomZ m k) * powN p k * powN (one - p) (m - k).
  Definition binom_cdf (b m : nat) (p : num A) : num A := sum_upto (fun k => binom_pmf m k p) b.

  (** [_compute_conservative(num_permutations, ...)]: [(b + 1) / (num_permutations + 1)]. *)
  Definition pv_conservative (b : nat) (num_permutations : Z) : num A :=
    ofZ (Z.of_nat b + 1) / ofZ (num_permutations + 1).

  (** [_compute_estimate]: mean of the boolean array. *)
  Definition pv_estimate (b len : nat) : num A := ofZ (Z.of_nat b) / ofZ (Z.of_nat len).

  (** [_compute_exact]: [np.mean(binom.cdf(b, m, np.arange(1, m_t + 1) / m_t))] *)
  Definition pv_exact (b m : nat) (mt : nat) : num A :=
    match mt with
    | O => zero / zero                                        (* np.mean([]) = nan; unreachable: m_t >= 1 *)
    | S mt' =>
      sum_upto (fun t => binom_cdf b m (ofZ (Z.of_nat (S t)) / ofZ (Z.of_nat mt))) mt' / ofZ (Z.of_nat mt)
    end.

  (** Polynomials, coefficients low degree first. *)
  Definition poly := list (num A).
  Fixpoint peval (p : poly) (x : num A) : num A :=
    match p with [] => zero | c :: r => c + x * peval r x end.
  Fixpoint padd (p q : poly) : poly :=
    match p, q with
    | [], _ => q
    | _, [] => p
    | a :: p', b :: q' => (a + b) :: padd p' q'
    end.
  Definition pscale (c : num A) (p : poly) : poly := map (mul c) p.
  Definition pmulx (p : poly) : poly := zero :: p.                             (* x * p *)
  Definition pmul1mx (p : poly) : poly := padd p (pscale (zero - one) (pmulx p)). (* (1-x) * p *)
  Fixpoint piter (f : poly -> poly) (n : nat) (p : poly) : poly :=
    match n with O => p | S k => f (piter f k p) end.
  Definition pmf_poly (m k : nat) : poly :=
    pscale (ofZ (binomZ m k)) (piter pmulx k (piter pmul1mx (m - k) [one])).
  Fixpoint cdf_poly (b m : nat) : poly :=
    match b with O => pmf_poly m O | S b' => padd (cdf_poly b' m) (pmf_poly m (S b')) end.
  (** antiderivative vanishing at 0 *)
  Fixpoint pint_from (i : Z) (p : poly) : poly :=
    match p with [] => [] | c :: r => (c / ofZ i) :: pint_from (i + 1) r end.
  Definition pint (p : poly) : poly := zero :: pint_from 1 p.

  (** [quad(lambda p: binom.cdf(b, m, p), a=0, b=a)[0]] as the exact integral of the
      polynomial (QUADPACK's error on these tiny smooth integrals is ~1e-16 relative). *)
  Definition cdf_integral (b m : nat) (a : num A) : num A := peval (pint (cdf_poly b m)) a.

  Definition half_over (mt : nat) : num A := (one / two) / ofZ (Z.of_nat mt).  (* 0.5 / m_t *)

  (** [_compute_approximate] AS THE CODE IS: the integral over [0, 0.5/m_t] is multiplied
      by [0.5/m_t] once more. *)
  Definition pv_approximate (b m mt : nat) : num A :=
    ofZ (Z.of_nat b + 1) / ofZ (Z.of_nat m + 1) - half_over mt * cdf_integral b m (half_over mt).

  (** Phipson & Smyth (2010), eq. (2): [(b+1)/(m+1) - int_0^{0.5/m_t} F(b; m, p) dp]. *)
  Definition ps_approximate (b m mt : nat) : num A :=
    ofZ (Z.of_nat b + 1) / ofZ (Z.of_nat m + 1) - cdf_integral b m (half_over mt).

  (** [permuted_statistic >= observed_statistic] then [.sum()] *)
  Definition count_ge (observed : num A) (null : list (num A)) : nat :=
    length (filter (fun s => observed <=? s) null).

  (** [_calculate_p_value] after [permutation] returned [len] statistics of which [b] are
      extreme; [requested] = the callback's [num_permutations], [total] its
      [total_num_permutations], [max_num] = [(n+m)!]. *)
  Definition total_of (total : option Z) (max_num : Z) : nat :=
    Z.to_nat (match total with Some t => t | None => Z.min max_num MAX_NUM_PERM end).
  Definition resolve (method : meth) (requested : Z) : meth :=
    match method with
    | Auto => if (requested >? MAX_NUM_PERM)%Z then Approximate else Exact
    | x => x
    end.
  Definition p_value (method : meth) (requested : Z) (total : option Z) (max_num : Z) (b len : nat) : num A :=
    let mt := total_of total max_num in
    match resolve method requested with
    | Conservative => pv_conservative b (Z.of_nat len)     (* num_permutations=len(permuted_statistic), fix 5423711 *)
    | Exact | Auto => pv_exact b len mt
    | Approximate => pv_approximate b len mt
    | Estimate => pv_estimate b len
    end.
End PValues.

(** The whole of [on_compare_end]: logs = (observed, permuted statistics, p-value). *)
Section Callback.
  Context {A : Arith}.
  Variable T : Type.
  Variable np_permutation : Z -> list T -> nat -> list T.
  Variable sched : Type.
  Variable starmap : Z -> sched -> (list T -> list T -> num A) -> list (list T * list T) -> list (num A).

  Record cb := { cb_num_permutations : Z; cb_total : option Z; cb_num_jobs : Z; cb_method : meth; cb_seed : Z }.

  Definition on_compare_end (c : cb) (stat : list T -> list T -> num A) (observed : num A)
             (X_ref X_test : list T) (sc : sched) : num A * list (num A) * num A :=
    let '(null, max_num) :=
      permutation np_permutation sched starmap stat X_ref X_test (cb_num_permutations c) (cb_num_jobs c) (cb_seed c) sc in
    let b := count_ge observed null in
    (observed, null, p_value (cb_method c) (cb_num_permutations c) (cb_total c) max_num b (length null)).
End Callback.

(** Setters of the callback (permutation_test.py:96-198). *)
Definition check_num_permutations (v : Z) : res Z :=
  if (v <? 1)%Z then Raise ValueError else if (v >? MAX_NUM_PERM)%Z then Raise ValueError else Ok v.
Definition check_total (v : option Z) : res (option Z) :=
  match v with None => Ok None | Some t => do t' <- check_num_permutations t; Ok (Some t') end.
Definition check_num_jobs (cpu_count v : Z) : res Z :=
  if ((v =? 0) || (v <? -1))%Z then Raise ValueError else Ok (if (v =? -1)%Z then cpu_count else v).

(** Exact rationals as an [Arith] (used only to EVALUATE Part 3; [sqrt]/[exp]/[ln] do not
    occur there and are the identity).  Quotients normalise, sums normalise unless the two denominators are
    already equal, products do not (gcds dominate the cost otherwise); [Qpair] normalises the result. *)
Definition qadd (x y : Q) : Q :=
  if Pos.eqb (Qden x) (Qden y) then Qmake (Qnum x + Qnum y) (Qden x) else Qred (Qplus x y).
Definition QA : Arith := {|
  num := Q;
  add := qadd; sub := fun x y => qadd x (Qopp y);
  mul := Qmult; div := fun x y => Qred (Qdiv x y);
  sqrt := fun x => x; exp := fun x => x; ln := fun x => x;
  ltb := fun x y => negb (Qle_bool y x); leb := Qle_bool; eqb := Qeq_bool;
  ofZ := inject_Z;
|}.
Definition Qpair (q : Q) : Z * Z := let r := Qred q in (Qnum r, Zpos (Qden r)).

(* ------------------------------------------------------------------------------------ *)
(** * Part 4 — MMD: compare's cached term vs the null's recomputation (mmd.py:130-266) *)

Section MMDModel.
  Context {A : Arith}.
  Local Open Scope arith_scope.
  Variable row : Type.
  (** [kernel(chunk_a, chunk_b).sum()] and [np.array([...]).sum()]: NumPy reductions, not modelled. *)
  Variable ksum : list row -> list row -> num A.
  Variable asum : list (num A) -> num A.

  (** [data[i : i + chunk_size] for i in range(0, len(data), chunk_size)] *)
  Definition get_chunks (data : list row) (chunk_size : nat) : list (list row) := chunks chunk_size data.
  Definition product {X Y} (a : list X) (b : list Y) : list (X * Y) := flat_map (fun x => map (pair x) b) a.
  Definition compute_kernel (combs : list (list row * list row)) : num A :=
    asum (map (fun ab => ksum (fst ab) (snd ab)) combs).

  Definition nz (l : list row) : Z := Z.of_nat (length l).
  Definition expected_kxx (X : list row) (chunk_size_x : nat) : num A :=
    let ch := get_chunks X chunk_size_x in
    (compute_kernel (product ch ch) - ofZ (nz X)) / ofZ (nz X * (nz X - 1)).

  (** [MMD._fit] with [self.chunk_size = cs] *)
  Definition mmd_fit (X : list row) (cs : option nat) : num A :=
    expected_kxx X (match cs with None => length X | Some c => c end).

  (** [MMD._mmd(X, Y, kernel=, **kwargs)]; [cs] = [kwargs.get("chunk_size")] ([None] also when
      absent), [cache] = [kwargs["expected_k_xx"]] when present. *)
  Definition mmd_static (X Y : list row) (cs : option nat) (cache : option (num A)) : num A :=
    let chunk_size_x := match cs with Some c => c | None => length X end in
    let e_kxx := match cache with Some e => e | None => expected_kxx X chunk_size_x end in
    let chunk_size_y := match cs with Some c => c | None => length Y end in
    let xch := get_chunks X chunk_size_x in
    let ych := get_chunks Y chunk_size_y in
    let k_yy_sum := compute_kernel (product ych ych) - ofZ (nz Y) in
    let k_xy_sum := compute_kernel (product xch ych) in
    (e_kxx + k_yy_sum / ofZ (nz Y * (nz Y - 1))) - (ofZ 2 * k_xy_sum) / ofZ (nz X * nz Y).

  (** [detector.fit(X); detector.compare(Y)] *)
  Definition mmd_compare (X Y : list row) (cs : option nat) : num A :=
    mmd_static X Y cs (Some (mmd_fit X cs)).
  (** what the callback evaluates on a permuted pair: [partial(_mmd, kernel=, chunk_size=)] *)
  Definition mmd_null (X Y : list row) (cs : option nat) : num A := mmd_static X Y cs None.
End MMDModel.
