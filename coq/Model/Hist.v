(** C10 — histogram and transport distances
    (frouros/detectors/data_drift/batch/distance_based/*.py, NumPy 2.1 [np.histogram] /
    [np.linspace] / [np.interp], SciPy 1.14 [rv_histogram], [jensenshannon], [rel_entr],
    [_cdf_distance]).

    Definitions only, generic over [A : Arith].  Samples are non-empty lists (NumPy 1-D
    arrays of finite floats); NaN inputs are outside the property and not modelled.
    IEEE outcomes that have no counterpart in R (+inf from [rel_entr], nan from 0/0 in
    [jensenshannon]) are explicit constructors of [xnum], never [Rinv 0].

    Oracle inputs (not modelled, taken from NumPy by the harness): for JS / KL the result
    [(counts, edges)] of [np.histogram(sample, bins="auto")] for each of the two samples. *)
From Coq Require Import ZArith List Bool.
From FV Require Import NumSys.
Import ListNotations.

Section Hist.
  Context {A : Arith}.
  Local Open Scope arith_scope.
  Local Notation N := (num A).

  Definition ofN (n : nat) : N := ofZ (Z.of_nat n).
  (** 0.5 (exact in binary64) *)
  Definition half : N := one / two.

  Fixpoint map2 {T U V} (f : T -> U -> V) (l : list T) (r : list U) : list V :=
    match l, r with
    | a :: l', b :: r' => f a b :: map2 f l' r'
    | _, _ => []
    end.

  (** [np.min] / [np.max] of a non-empty array (left-to-right reduction) *)
  Fixpoint amin (acc : N) (l : list N) : N :=
    match l with [] => acc | y :: r => amin (if y <? acc then y else acc) r end.
  Fixpoint amax (acc : N) (l : list N) : N :=
    match l with [] => acc | y :: r => amax (if acc <? y then y else acc) r end.
  Definition lmin (l : list N) : N := match l with [] => zero | x :: r => amin x r end.
  Definition lmax (l : list N) : N := match l with [] => zero | x :: r => amax x r end.

  (** [np.linspace(start, stop, n)] (endpoint=True, float64):
      [y = arange(n) * step + start] with [step = (stop-start)/(n-1)],
      ([y = arange(n)/(n-1) * delta + start] when [step == 0]), last element overwritten
      by [stop] when [n > 1]. *)
  Definition linspace (start stop : N) (n : nat) : list N :=
    match n with
    | O => []
    | S O => [zero * (stop - start) + start]
    | S d =>
        let dv := ofN d in
        let delta := stop - start in
        let step := delta / dv in
        map (fun i => if step =? zero then (ofN i / dv) * delta + start
                      else ofN i * step + start) (seq 0 d) ++ [stop]
    end.

  (** [_get_outer_edges]: an empty range is widened by 0.5 on each side *)
  Definition outer_edges (lo hi : N) : N * N :=
    if lo =? hi then (lo - half, hi + half) else (lo, hi).

  (** bin edges of [np.histogram(a, bins=nb, range=(lo,hi))]: [nb+1] points *)
  Definition hist_edges (lo hi : N) (nb : nat) : list N :=
    let '(a, b) := outer_edges lo hi in linspace a b (S nb).

  (** *** [np.histogram(a, bins=<array of edges>)]: the cumulative-count path.
      [cum[j] = sorted(a).searchsorted(e_j, 'left') = #{x < e_j}] for every edge but the
      last, [cum[last] = searchsorted(e_last, 'right') = #{x <= e_last}]; counts = diff. *)
  Definition count_lt (e : N) (xs : list N) : Z :=
    Z.of_nat (length (filter (fun x => x <? e) xs)).
  Definition count_le (e : N) (xs : list N) : Z :=
    Z.of_nat (length (filter (fun x => x <=? e) xs)).
  Fixpoint cum_counts (edges : list N) (xs : list N) : list Z :=
    match edges with
    | [] => []
    | e :: r => match r with
                | [] => [count_le e xs]
                | _ => count_lt e xs :: cum_counts r xs
                end
    end.
  Fixpoint diffZ (l : list Z) : list Z :=
    match l with
    | a :: r => match r with b :: _ => (b - a)%Z :: diffZ r | [] => [] end
    | [] => []
    end.
  Definition edge_counts (edges xs : list N) : list Z := diffZ (cum_counts edges xs).

  (** [counts / a.shape[0]] *)
  Definition proportions (counts : list Z) (n : nat) : list N :=
    map (fun c => ofZ c / ofN n) counts.

  (** [BaseDistanceBasedBins._calculate_bins_values]: edges from the pooled sample, then
      each sample counted against those edges (explicit-edges path) *)
  Definition pooled_edges (X Y : list N) (nb : nat) : list N :=
    hist_edges (lmin (X ++ Y)) (lmax (X ++ Y)) nb.
  Definition bins_values (X Y : list N) (nb : nat) : list N * list N :=
    let e := pooled_edges X Y nb in
    (proportions (edge_counts e X) (length X), proportions (edge_counts e Y) (length Y)).

  (** *** [np.histogram(a, bins=nb, range=(lo,hi))]: the uniform-bins path.
      [indices = ((x - lo)/(hi - lo) * nb).astype(intp)], clipped at [nb-1], then
      corrected by one step against the computed edges. *)
  (** truncation of [0 <= f <= nb] to an integer: the number of [k] in [1..nb] with [k <= f] *)
  Definition trunc_idx (f : N) (nb : nat) : nat :=
    length (filter (fun k => ofN k <=? f) (seq 1 nb)).
  Definition uni_index (lo hi : N) (nb : nat) (edges : list N) (x : N) : nat :=
    let f := ((x - lo) / (hi - lo)) * ofN nb in
    let i0 := trunc_idx f nb in
    let i1 := if Nat.eqb i0 nb then pred i0 else i0 in
    let i2 := if x <? nth i1 edges zero then pred i1 else i1 in
    if (nth (S i2) edges zero <=? x) && negb (Nat.eqb i2 (pred nb)) then S i2 else i2.
  Definition uni_counts (lo0 hi0 : N) (nb : nat) (xs : list N) : list Z :=
    let '(lo, hi) := outer_edges lo0 hi0 in
    let edges := linspace lo hi (S nb) in
    let kept := filter (fun x => (lo <=? x) && (x <=? hi)) xs in
    let idx := map (uni_index lo hi nb edges) kept in
    map (fun j => Z.of_nat (length (filter (Nat.eqb j) idx))) (seq 0 nb).

  (** *** distances on two proportion vectors *)
  Definition sumA2 (f : N -> N -> N) (p q : list N) : N := sumA (map2 f p q).

  (** psi.py: zeros replaced by [tiny = sys.float_info.min], then
      [sum((Y% - X%) * log(Y% / X%))] *)
  Definition floor0 (tiny : N) (l : list N) : list N :=
    map (fun v => if v =? zero then tiny else v) l.
  Definition psi_f (tiny : N) (p q : list N) : N :=
    sumA2 (fun x y => (y - x) * ln (y / x)) (floor0 tiny p) (floor0 tiny q).
  (** hellinger_distance.py: [sqrt(sum((sqrt p - sqrt q)**2)) / sqrt(2)] *)
  Definition hellinger_f (p q : list N) : N :=
    sqrt (sumA2 (fun x y => sqr (sqrt x - sqrt y)) p q) / sqrt two.
  (** bhattacharyya_distance.py: [1 - sum(sqrt(p*q))] *)
  Definition bhattacharyya_f (p q : list N) : N :=
    one - sumA2 (fun x y => sqrt (x * y)) p q.
  (** hi_normalized_complement.py: [1 - sum(minimum(p, q))] *)
  Definition minA (x y : N) : N := if y <? x then y else x.
  Definition hi_f (p q : list N) : N := one - sumA2 minA p q.

  Definition psi_dist (tiny : N) (nb : nat) (X Y : list N) : N :=
    let '(p, q) := bins_values X Y nb in psi_f tiny p q.
  Definition hellinger_dist (nb : nat) (X Y : list N) : N :=
    let '(p, q) := bins_values X Y nb in hellinger_f p q.
  Definition bhattacharyya_dist (nb : nat) (X Y : list N) : N :=
    let '(p, q) := bins_values X Y nb in bhattacharyya_f p q.
  (** HI has its own range handling: [range = (min(min X, min Y), max(max X, max Y))]
      passed to [np.histogram(.., bins=nb, range=..)] (uniform-bins path) *)
  Definition hi_props (nb : nat) (X Y : list N) : list N * list N :=
    let lo := lmin [lmin X; lmin Y] in
    let hi := lmax [lmax X; lmax Y] in
    (proportions (uni_counts lo hi nb X) (length X), proportions (uni_counts lo hi nb Y) (length Y)).
  Definition hi_dist (nb : nat) (X Y : list N) : N :=
    let '(p, q) := hi_props nb X Y in hi_f p q.

  (** *** JS / KL: [rv_histogram] of the auto-binned histogram (oracle [(counts, edges)]) *)
  Fixpoint diffA (l : list N) : list N :=
    match l with
    | a :: r => match r with b :: _ => (b - a) :: diffA r | [] => [] end
    | [] => []
    end.
  Fixpoint cumsumA (acc : N) (l : list N) : list N :=
    match l with [] => [] | x :: r => (acc + x) :: cumsumA (acc + x) r end.
  (** [_hcdf]: [hpdf = counts / widths; hpdf /= sum(hpdf * widths);
      hcdf = hstack([0, cumsum(hpdf * widths)])] *)
  Definition rvh_cdf_table (counts : list Z) (edges : list N) : list N :=
    let w := diffA edges in
    let pdf0 := map2 (fun c wi => ofZ c / wi) counts w in
    let tot := sumA (map2 mul pdf0 w) in
    let pdf := map (fun v => v / tot) pdf0 in
    zero :: match map2 mul pdf w with [] => [] | x :: r => x :: cumsumA x r end.
  (** [rv_continuous.cdf]: 0 for [x <= a], 1 for [x >= b], [np.interp(x, hbins, hcdf)]
      inside; [np.interp]: [j] with [xp[j] <= x < xp[j+1]], [fp[j]] when [x == xp[j]],
      else [slope * (x - xp[j]) + fp[j]] with [slope = (fp[j+1]-fp[j])/(xp[j+1]-xp[j])] *)
  Definition rvh_cdf (edges hcdf : list N) (x : N) : N :=
    let a := hd zero edges in
    let b := last edges zero in
    if x <=? a then zero
    else if b <=? x then one
    else
      let j := pred (length (filter (fun e => e <=? x) edges)) in
      let xj := nth j edges zero in
      let yj := nth j hcdf zero in
      if xj =? x then yj
      else ((nth (S j) hcdf zero - yj) / (nth (S j) edges zero - xj)) * (x - xj) + yj.
  (** [_calculate_probabilities]: masses between consecutive points of
      [bins = linspace(lo, hi, num_bins)] ([num_bins - 1] masses): [cdf(bins[i]) - cdf(bins[i-1])] *)
  Fixpoint diffF (F : N -> N) (pts : list N) : list N :=
    match pts with
    | a :: r => match r with b :: _ => (F b - F a) :: diffF F r | [] => [] end
    | [] => []
    end.
  Definition masses (counts : list Z) (edges : list N) (pts : list N) : list N :=
    diffF (rvh_cdf edges (rvh_cdf_table counts edges)) pts.
  (** discretisation points of [_calculate_probabilities]:
      [linspace(min(ref.a, test.a), max(ref.b, test.b), num_bins)] where [a], [b] are the first
      and last edge of each auto histogram (the support of its [rv_histogram]); Python's
      [min(x, y)] / [max(x, y)] return [y] only when it is strictly smaller / larger *)
  Definition support_points (eX eY : list N) (nb : nat) : list N :=
    linspace (lmin [hd zero eX; hd zero eY]) (lmax [last eX zero; last eY zero]) nb.
  (** BEFORE the repair (frouros <= 5e463cd^): [linspace(min, max, num_bins)] of the pooled sample *)
  Definition pooled_points (X Y : list N) (nb : nat) : list N :=
    linspace (lmin (X ++ Y)) (lmax (X ++ Y)) nb.

  (** values with the two non-finite outcomes that can arise *)
  Inductive xnum := Fin (v : N) | PInf | NaN.
  Definition xadd (a b : xnum) : xnum :=
    match a, b with
    | NaN, _ | _, NaN => NaN
    | PInf, _ | _, PInf => PInf
    | Fin u, Fin v => Fin (u + v)
    end.
  Definition xsum (l : list xnum) : xnum := fold_left xadd l (Fin zero).
  (** [scipy.special.rel_entr(x, y)]: [x*log(x/y)] for [x>0, y>0]; 0 for [x==0, y>=0];
      +inf otherwise *)
  Definition rel_entr (x y : N) : xnum :=
    if (zero <? x) && (zero <? y) then Fin (x * ln (x / y))
    else if (x =? zero) && (zero <=? y) then Fin zero
    else PInf.
  (** kl.py: [np.sum(rel_entr(X_rvs, X_ref_rvs))] = KL(test || reference), NOT normalised *)
  Definition kl_f (Pref Qtest : list N) : xnum := xsum (map2 rel_entr Qtest Pref).
  (** [scipy.spatial.distance.jensenshannon(p, q)] (base e): normalise both, mixture,
      [sqrt((sum rel_entr(p,m) + sum rel_entr(q,m)) / 2)]; a zero total gives 0/0 = nan *)
  Definition jensenshannon (P Q : list N) : xnum :=
    let sP := sumA P in
    let sQ := sumA Q in
    if sP =? zero then NaN
    else if sQ =? zero then NaN
    else
      let p := map (fun v => v / sP) P in
      let q := map (fun v => v / sQ) Q in
      let m := map2 (fun x y => (x + y) / two) p q in
      match xadd (xsum (map2 rel_entr p m)) (xsum (map2 rel_entr q m)) with
      | Fin v => Fin (sqrt (v / two))
      | o => o
      end.
  (** js.py (since f367129): [js = jensenshannon(p, q); if isnan(js) and all masses finite: js = 0.0]
      ([isnan x] is [x != x]; the masses of finite samples are finite) *)
  Definition js_f (P Q : list N) : xnum :=
    match jensenshannon P Q with
    | Fin w => if w =? w then Fin w else Fin zero
    | NaN => Fin zero
    | PInf => PInf
    end.
  (** oracle record for one sample: [np.histogram(sample, bins="auto")] = (counts, edges).
      [hX] belongs to the reference sample, [hY] to the test sample. *)
  Definition js_dist (nb : nat) (hX hY : list Z * list N) : xnum :=
    let pts := support_points (snd hX) (snd hY) nb in
    js_f (masses (fst hX) (snd hX) pts) (masses (fst hY) (snd hY) pts).
  Definition kl_dist (nb : nat) (hX hY : list Z * list N) : xnum :=
    let pts := support_points (snd hX) (snd hY) nb in
    kl_f (masses (fst hX) (snd hX) pts) (masses (fst hY) (snd hY) pts).
  (** the pre-repair definitions (points spanning the pooled sample range, no nan guard) *)
  Definition js_dist_pre (nb : nat) (hX hY : list Z * list N) (X Y : list N) : xnum :=
    let pts := pooled_points X Y nb in
    jensenshannon (masses (fst hX) (snd hX) pts) (masses (fst hY) (snd hY) pts).
  Definition kl_dist_pre (nb : nat) (hX hY : list Z * list N) (X Y : list N) : xnum :=
    let pts := pooled_points X Y nb in
    kl_f (masses (fst hX) (snd hX) pts) (masses (fst hY) (snd hY) pts).

  (** *** EMD / energy distance: SciPy's [_cdf_distance] (the reference definition)
      [all = sort(u ++ v)], [deltas = diff(all)], empirical CDFs at [all[:-1]],
      [W1 = sum |U - V| * deltas], [energy = sqrt 2 * sqrt(sum (U - V)^2 * deltas)] *)
  Fixpoint insert (x : N) (l : list N) : list N :=
    match l with
    | [] => [x]
    | y :: r => if x <=? y then x :: l else y :: insert x r
    end.
  Definition isort (l : list N) : list N := fold_right insert [] l.
  Definition ecdf (xs : list N) (z : N) : N := ofZ (count_le z xs) / ofN (length xs).
  Fixpoint cdf_terms (g : N -> N) (X Y : list N) (all : list N) : list N :=
    match all with
    | z :: r => match r with
                | z' :: _ => g (ecdf X z - ecdf Y z) * (z' - z) :: cdf_terms g X Y r
                | [] => []
                end
    | [] => []
    end.
  Definition emd_dist (X Y : list N) : N := sumA (cdf_terms absA X Y (isort (X ++ Y))).
  Definition energy_dist (X Y : list N) : N :=
    sqrt two * sqrt (sumA (cdf_terms sqr X Y (isort (X ++ Y)))).
End Hist.

Arguments Fin {A}. Arguments PInf {A}. Arguments NaN {A}.
