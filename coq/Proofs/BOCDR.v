(** C08 — BOCD: the log-space recursion of Model/BOCD.v computes the exact Adams-MacKay
    run-length posterior of Spec/BOCDSpec.v (linear space), over the reals.
    Every [ln], [sqrt], [/] below is used inside its domain (positivity lemmas first). *)
From Coq Require Import ZArith List Bool Lra Lia.
From FV Require Import NumSys RealA Sums Detector BOCD BOCDSpec.
From Coq Require Import Reals.
Import ListNotations.
Local Open Scope R_scope.

(** the run of the model over a stream, oldest value first *)
Definition brun (c : bocd_cfg RealA) (vs : list R) : bocd_st RealA :=
  fold_left (bocd_step c) vs (bocd_init c).

Lemma brun_snoc c vs v : brun c (vs ++ [v]) = bocd_step c (brun c vs) v.
Proof. unfold brun. rewrite fold_left_app. reflexivity. Qed.

(** turn the [Arith] operations at [RealA] into the operations of [R] *)
Ltac rn :=
  change (@NumSys.exp RealA) with exp in *;
  change (@NumSys.ln RealA) with ln in *;
  change (@NumSys.sqrt RealA) with sqrt in *;
  change (@NumSys.add RealA) with Rplus in *;
  change (@NumSys.sub RealA) with Rminus in *;
  change (@NumSys.mul RealA) with Rmult in *;
  change (@NumSys.div RealA) with Rdiv in *;
  change (@NumSys.zero RealA) with 0 in *;
  change (@NumSys.one RealA) with 1 in *;
  change (@NumSys.two RealA) with 2 in *;
  change (NumSys.num RealA) with R in *.

(* ------------------------------------------------------------------ *)
(** * Lists *)

Lemma Rsum_nil : Rsum [] = 0. Proof. reflexivity. Qed.
Lemma Rsum_cons x l : Rsum (x :: l) = x + Rsum l. Proof. reflexivity. Qed.

Lemma fold_left_Rplus (l : list R) a : fold_left Rplus l a = a + Rsum l.
Proof.
  revert a; induction l as [|x l IH]; intros a; cbn [fold_left]; [rewrite Rsum_nil; lra|].
  rewrite IH, Rsum_cons. lra.
Qed.

Lemma sumA_Rsum (l : list R) : @NumSys.sumA RealA l = Rsum l.
Proof. unfold NumSys.sumA. rn. rewrite fold_left_Rplus. lra. Qed.

Lemma zip_with_map_same {X Y Z W} (f : Y -> Z -> W) (g : X -> Y) (h : X -> Z) l :
  zip_with f (map g l) (map h l) = map (fun x => f (g x) (h x)) l.
Proof. induction l as [|x l IH]; cbn; [reflexivity|]. rewrite IH. reflexivity. Qed.

Lemma zip_with_map_combine {X1 X2 Y Z W} (f : Y -> Z -> W) (g : X1 -> Y) (h : X2 -> Z) a b :
  zip_with f (map g a) (map h b) = map (fun p => f (g (fst p)) (h (snd p))) (combine a b).
Proof.
  revert b; induction a as [|x a IH]; intros [|y b]; cbn; try reflexivity.
  rewrite IH. reflexivity.
Qed.

Lemma zip_with_nth {X Y W} (f : X -> Y -> W) (a : list X) (b : list Y) dx dy :
  length a = length b ->
  zip_with f a b = map (fun k => f (nth k a dx) (nth k b dy)) (seq 0 (length a)).
Proof.
  revert b; induction a as [|x a IH]; intros [|y b] H; cbn in *; try discriminate; [reflexivity|].
  f_equal. rewrite <- seq_shift, map_map. apply IH. lia.
Qed.

Lemma Rsum_app a b : Rsum (a ++ b) = Rsum a + Rsum b.
Proof. induction a as [|x a IH]; cbn [app]; rewrite ?Rsum_cons, ?Rsum_nil; [lra|]. rewrite IH. lra. Qed.

Lemma Rsum_map_mul_r (l : list R) h : Rsum (map (fun t => t * h) l) = Rsum l * h.
Proof. induction l as [|x l IH]; cbn [map]; rewrite ?Rsum_cons, ?Rsum_nil; [lra|]. rewrite IH. lra. Qed.

Lemma Rsum_map_div (l : list R) e : Rsum (map (fun j => j / e) l) = Rsum l / e.
Proof. unfold Rdiv. apply Rsum_map_mul_r. Qed.

Lemma Rsum_pos (l : list R) : l <> [] -> Forall (fun x => 0 < x) l -> 0 < Rsum l.
Proof.
  intros Hne H. destruct l as [|x l]; [contradiction|]. clear Hne.
  inversion H as [|? ? Hx Hl]; subst. rewrite Rsum_cons.
  assert (0 <= Rsum l); [|lra].
  clear -Hl. induction Hl as [|y l Hy _ IH]; rewrite ?Rsum_cons, ?Rsum_nil; lra.
Qed.

(* ------------------------------------------------------------------ *)
(** * logsumexp *)

Lemma maxl_some (l : list R) : l <> [] -> exists mx, @maxl RealA l = Some mx.
Proof. destruct l; [contradiction|]. intros _. eexists. reflexivity. Qed.

Lemma Rsum_exp_shift (l : list R) mx : Rsum (map (fun a => exp (a - mx)) l) = Rsum (map exp l) / exp mx.
Proof.
  rewrite <- Rsum_map_div, map_map. f_equal. apply map_ext. intros a.
  unfold Rminus. rewrite exp_plus, exp_Ropp. reflexivity.
Qed.

Lemma ln_div_pos x y : 0 < x -> 0 < y -> ln (x / y) = ln x - ln y.
Proof.
  intros Hx Hy. unfold Rdiv. rewrite ln_mult; [|assumption|apply Rinv_0_lt_compat; assumption].
  rewrite ln_Rinv by assumption. lra.
Qed.

(** the model's max-shifted log-sum-exp is ln (sum of exp) (whatever the shift) *)
Lemma logsumexp_exp (l : list R) : l <> [] -> @logsumexp RealA l = ln (Rsum (map exp l)).
Proof.
  intros Hne. unfold logsumexp. destruct (maxl_some l Hne) as [mx Hmx]. rewrite Hmx. rn.
  rewrite sumA_Rsum. change (fun a : R => exp (a - mx)) with (fun a : R => exp (a - mx)).
  rewrite Rsum_exp_shift. rewrite ln_div_pos.
  - rewrite ln_exp. lra.
  - apply Rsum_pos. { destruct l; [contradiction|discriminate]. }
    apply Forall_forall. intros x Hx. apply in_map_iff in Hx. destruct Hx as [a [<- _]]. apply exp_pos.
  - apply exp_pos.
Qed.

Lemma map_exp_ln (l : list R) : Forall (fun x => 0 < x) l -> map exp (map ln l) = l.
Proof.
  intros H. rewrite map_map. rewrite <- (map_id l) at 2. apply map_ext_in.
  intros x Hx. apply exp_ln. rewrite Forall_forall in H. apply H, Hx.
Qed.

Lemma logsumexp_ln (l : list R) : l <> [] -> Forall (fun x => 0 < x) l ->
  @logsumexp RealA (map ln l) = ln (Rsum l).
Proof.
  intros Hne Hpos. rewrite logsumexp_exp. { rewrite map_exp_ln by assumption. reflexivity. }
  destruct l; [contradiction|discriminate].
Qed.

(* ------------------------------------------------------------------ *)
(** * Gaussian log-density *)

Lemma gauss_pdf_pos x mu va : 0 < va -> 0 < gauss_pdf x mu va.
Proof.
  intros Hva. unfold gauss_pdf. rn. apply Rdiv_lt_0_compat; [apply exp_pos|].
  apply sqrt_lt_R0. pose proof PI_RGT_0. nra.
Qed.

Lemma norm_logpdf_ln c x mu va : bo_ln_sqrt_2pi c = ln (sqrt (2 * PI)) -> 0 < va ->
  norm_logpdf c x mu (sqrt va) = ln (gauss_pdf x mu va).
Proof.
  intros Hk Hva. unfold norm_logpdf, gauss_pdf. rn. rewrite Hk.
  pose proof PI_RGT_0 as Hpi.
  assert (Hs : 0 < sqrt va) by (apply sqrt_lt_R0; assumption).
  assert (Hss : sqrt va * sqrt va = va) by (apply sqrt_sqrt; lra).
  assert (H2 : 0 < sqrt (2 * PI)) by (apply sqrt_lt_R0; lra).
  rewrite (sqrt_mult (2 * PI) va) by lra.
  rewrite ln_div_pos; [|apply exp_pos|apply Rmult_lt_0_compat; assumption].
  rewrite ln_exp. rewrite ln_mult by assumption.
  set (s := sqrt va) in *. rewrite <- Hss. field. lra.
Qed.

(* ------------------------------------------------------------------ *)
(** * The specification: positivity (domain safety) and the conjugate update *)

Lemma post_prec_pos c k : cfg_ok c -> 0 < post_prec c k.
Proof.
  intros (Hpv & Hdv & _). unfold post_prec.
  assert (0 < 1 / bo_prior_var c) by (apply Rdiv_lt_0_compat; lra).
  assert (0 <= INR k / bo_data_var c).
  { unfold Rdiv. apply Rmult_le_pos; [apply pos_INR|]. left. apply Rinv_0_lt_compat. assumption. }
  lra.
Qed.

Lemma pred_var_pos c k : cfg_ok c -> 0 < 1 / post_prec c k + bo_data_var c.
Proof.
  intros Hc. pose proof (post_prec_pos c k Hc) as Hp. destruct Hc as (_ & Hdv & _).
  assert (0 < 1 / post_prec c k) by (apply Rdiv_lt_0_compat; lra). lra.
Qed.

Lemma pred_pos c run x : cfg_ok c -> 0 < pred c run x.
Proof. intros Hc. unfold pred. apply gauss_pdf_pos. apply pred_var_pos. assumption. Qed.

Lemma post_prec_0 c : post_prec c 0 = 1 / bo_prior_var c.
Proof. unfold post_prec. cbn [INR]. unfold Rdiv. rewrite Rmult_0_l. lra. Qed.

Lemma post_prec_S c k : cfg_ok c -> post_prec c (S k) = post_prec c k + 1 / bo_data_var c.
Proof. intros (Hpv & Hdv & _). unfold post_prec. rewrite S_INR. field. lra. Qed.

Lemma post_mean_nil c : cfg_ok c -> post_mean c [] = bo_prior_mean c.
Proof.
  intros (Hpv & Hdv & _). unfold post_mean. cbn [length]. rewrite post_prec_0, Rsum_nil.
  field. lra.
Qed.

Lemma post_mean_cons c v run : cfg_ok c ->
  post_mean c (v :: run) =
  (post_mean c run * post_prec c (length run) + v / bo_data_var c) / (post_prec c (length run) + 1 / bo_data_var c).
Proof.
  intros Hc. pose proof (post_prec_pos c (length run) Hc) as Hp.
  pose proof (post_prec_pos c (S (length run)) Hc) as Hp'.
  rewrite (post_prec_S c _ Hc) in Hp'.
  unfold post_mean. cbn [length]. rewrite (post_prec_S c _ Hc), Rsum_cons.
  destruct Hc as (Hpv & Hdv & _).
  set (p := post_prec c (length run)) in *. set (q := p + 1 / bo_data_var c) in *.
  field. repeat split; lra.
Qed.

(** the run-length-indexed parameter tables, entry k = 0..t; entry 0 is the prior *)
Definition means_spec (c : bocd_cfg RealA) (rvs : list R) : list R :=
  map (fun k => post_mean c (firstn k rvs)) (seq 0 (S (length rvs))).
Definition precs_spec (c : bocd_cfg RealA) (n : nat) : list R :=
  map (post_prec c) (seq 0 (S n)).

(** the products J_{t-1}(k) * pred(x_t | run k) of the Adams-MacKay step *)
Definition terms (c : bocd_cfg RealA) (older : list R) (x : R) : list R :=
  map (fun kJ : nat * R => snd kJ * pred c (firstn (fst kJ) older) x)
      (combine (seq 0 (length (joint c older))) (joint c older)).

Lemma joint_cons c x older :
  joint c (x :: older) =
  (bo_hazard c * Rsum (terms c older x)) :: map (fun t => t * (1 - bo_hazard c)) (terms c older x).
Proof. reflexivity. Qed.

Lemma joint_length c rvs : length (joint c rvs) = S (length rvs).
Proof.
  induction rvs as [|x older IH]; [reflexivity|].
  rewrite joint_cons. cbn [length]. f_equal. unfold terms.
  rewrite map_length, map_length, combine_length, seq_length, Nat.min_id. exact IH.
Qed.

Lemma terms_length c older x : length (terms c older x) = S (length older).
Proof. unfold terms. rewrite map_length, combine_length, seq_length, Nat.min_id. apply joint_length. Qed.

Lemma terms_ne c older x : terms c older x <> [].
Proof. intros H. pose proof (terms_length c older x) as L. rewrite H in L. discriminate. Qed.

Lemma terms_pos c older x : cfg_ok c -> Forall (fun j => 0 < j) (joint c older) ->
  Forall (fun j => 0 < j) (terms c older x).
Proof.
  intros Hc HJ. unfold terms. apply Forall_forall. intros y Hy.
  apply in_map_iff in Hy. destruct Hy as [[k J] [<- Hin]]. cbn [fst snd].
  apply in_combine_r in Hin. rewrite Forall_forall in HJ.
  apply Rmult_lt_0_compat; [apply HJ, Hin|apply pred_pos, Hc].
Qed.

(** every joint probability is strictly positive: the logarithms below are in domain *)
Lemma joint_pos c rvs : cfg_ok c -> Forall (fun j => 0 < j) (joint c rvs).
Proof.
  intros Hc. induction rvs as [|x older IH].
  - cbn. constructor; [lra|constructor].
  - rewrite joint_cons. pose proof (terms_pos c older x Hc IH) as HT.
    destruct Hc as (_ & _ & [Hh0 Hh1] & _).
    constructor.
    + apply Rmult_lt_0_compat; [assumption|]. apply Rsum_pos; [apply terms_ne|assumption].
    + apply Forall_forall. intros y Hy. apply in_map_iff in Hy. destruct Hy as [t [<- Hin]].
      rewrite Forall_forall in HT. apply Rmult_lt_0_compat; [apply HT, Hin|lra].
Qed.

Lemma joint_ne c rvs : joint c rvs <> [].
Proof. intros H. pose proof (joint_length c rvs) as L. rewrite H in L. discriminate. Qed.

Lemma evidence_pos c rvs : cfg_ok c -> 0 < evidence c rvs.
Proof. intros Hc. unfold evidence. apply Rsum_pos; [apply joint_ne|apply joint_pos, Hc]. Qed.

Lemma posterior_length c rvs : length (posterior c rvs) = S (length rvs).
Proof. unfold posterior. rewrite map_length. apply joint_length. Qed.

Lemma posterior_pos c rvs : cfg_ok c -> Forall (fun p => 0 < p) (posterior c rvs).
Proof.
  intros Hc. unfold posterior. apply Forall_forall. intros y Hy.
  apply in_map_iff in Hy. destruct Hy as [j [<- Hin]].
  pose proof (joint_pos c rvs Hc) as HJ. rewrite Forall_forall in HJ.
  apply Rdiv_lt_0_compat; [apply HJ, Hin|apply evidence_pos, Hc].
Qed.

(** every row of the run-length posterior sums to one *)
Lemma posterior_sum c rvs : cfg_ok c -> Rsum (posterior c rvs) = 1.
Proof.
  intros Hc. unfold posterior. rewrite Rsum_map_div. pose proof (evidence_pos c rvs Hc) as HE.
  unfold evidence in *. field. lra.
Qed.

(* ------------------------------------------------------------------ *)
(** * The model step, field by field (pure unfolding) *)

Definition lpm_list (c : bocd_cfg RealA) (s : bocd_st RealA) (v : R) : list R :=
  zip_with Rplus
    (zip_with (fun mu va => norm_logpdf c v mu (sqrt va)) (bmeans s) (var_params c (bprecs s)))
    (bmsg s).
Definition mjoint (c : bocd_cfg RealA) (s : bocd_st RealA) (v : R) : list R :=
  @logsumexp RealA (map (fun a => a + ln (bo_hazard c)) (lpm_list c s v))
  :: map (fun a => a + ln (1 - bo_hazard c)) (lpm_list c s v).

Lemma step_bn (c : bocd_cfg RealA) (s : bocd_st RealA) (v : R) : bn (bocd_step c s v) = (bn s + 1)%Z.
Proof. reflexivity. Qed.
Lemma step_bmeans (c : bocd_cfg RealA) (s : bocd_st RealA) (v : R) : bmeans (bocd_step c s v) =
  hd 0 (bmeans s) ::
  zip_with (fun mp np => mp / np)
    (zip_with (fun mu p => mu * p + v / bo_data_var c) (bmeans s) (bprecs s))
    (map (fun p => p + 1 / bo_data_var c) (bprecs s)).
Proof. reflexivity. Qed.
Lemma step_bprecs (c : bocd_cfg RealA) (s : bocd_st RealA) (v : R) : bprecs (bocd_step c s v) =
  hd 0 (bprecs s) :: map (fun p => p + 1 / bo_data_var c) (bprecs s).
Proof. reflexivity. Qed.
Lemma step_bmsg (c : bocd_cfg RealA) (s : bocd_st RealA) (v : R) : bmsg (bocd_step c s v) = mjoint c s v.
Proof. reflexivity. Qed.
Lemma step_brow (c : bocd_cfg RealA) (s : bocd_st RealA) (v : R) : brow (bocd_step c s v) =
  map (fun a => a - @logsumexp RealA (mjoint c s v)) (mjoint c s v).
Proof. reflexivity. Qed.
Lemma step_bpmean (c : bocd_cfg RealA) (s : bocd_st RealA) (v : R) : bpmean (bocd_step c s v) =
  Some (Rsum (zip_with Rmult (map exp (brow (bocd_step c s v))) (bmeans (bocd_step c s v)))).
Proof.
  rewrite <- sumA_Rsum. reflexivity.
Qed.
Lemma step_bpvar (c : bocd_cfg RealA) (s : bocd_st RealA) (v : R) : bpvar (bocd_step c s v) =
  Some (Rsum (zip_with Rmult (map exp (brow (bocd_step c s v)))
                (map (fun p => 1 / p + bo_data_var c) (bprecs (bocd_step c s v))))).
Proof.
  rewrite <- sumA_Rsum. reflexivity.
Qed.
Lemma step_bdrift (c : bocd_cfg RealA) (s : bocd_st RealA) (v : R) : bdrift (bocd_step c s v) =
  if (bo_min c <=? bn s + 1)%Z
  then negb (@argmax RealA (brow (bocd_step c s v)) =? bn s + 1)%Z else bdrift s.
Proof. reflexivity. Qed.

(* ------------------------------------------------------------------ *)
(** * One step of the model against one step of the specification *)

Lemma map_seq_S {X} (f : nat -> X) n :
  map f (seq 0 (S n)) = f 0%nat :: map (fun k => f (S k)) (seq 0 n).
Proof. cbn [seq map]. rewrite <- seq_shift, map_map. reflexivity. Qed.

Lemma step_means c s v rvs : cfg_ok c ->
  bmeans s = means_spec c rvs -> bprecs s = precs_spec c (length rvs) ->
  bmeans (bocd_step c s v) = means_spec c (v :: rvs).
Proof.
  intros Hc Hm Hp. rewrite step_bmeans, Hm, Hp. unfold means_spec, precs_spec.
  rewrite map_map, zip_with_map_same, zip_with_map_same.
  cbn [length]. rewrite (map_seq_S _ (S (length rvs))).
  apply (f_equal2 cons).
  - cbn [seq map hd firstn]. reflexivity.
  - apply map_ext_in. intros k Hk. apply in_seq in Hk.
    cbn [firstn]. rewrite (post_mean_cons c v _ Hc).
    rewrite firstn_length_le by lia. reflexivity.
Qed.

Lemma step_precs c s v n : cfg_ok c ->
  bprecs s = precs_spec c n -> bprecs (bocd_step c s v) = precs_spec c (S n).
Proof.
  intros Hc Hp. rewrite step_bprecs, Hp. unfold precs_spec.
  rewrite (map_seq_S _ (S n)). apply (f_equal2 cons).
  - cbn [seq map hd]. reflexivity.
  - rewrite map_map. apply map_ext. intros k. rewrite (post_prec_S c k Hc). reflexivity.
Qed.

(** log predictive + log message = ln of the linear-space product *)
Lemma step_lpm c s v rvs : cfg_ok c ->
  bmeans s = means_spec c rvs -> bprecs s = precs_spec c (length rvs) ->
  bmsg s = map ln (joint c rvs) ->
  lpm_list c s v = map ln (terms c rvs v).
Proof.
  intros Hc Hm Hp Hmsg. unfold lpm_list, var_params. rewrite Hm, Hp, Hmsg.
  unfold means_spec, precs_spec. rewrite map_map, zip_with_map_same, zip_with_map_combine.
  unfold terms. rewrite joint_length, map_map.
  apply map_ext_in. intros [k J] Hin. cbn [fst snd].
  pose proof (in_combine_l _ _ _ _ Hin) as Hk. apply in_seq in Hk.
  pose proof (in_combine_r _ _ _ _ Hin) as HJ.
  pose proof (joint_pos c rvs Hc) as HP. rewrite Forall_forall in HP. specialize (HP J HJ).
  rn. rewrite norm_logpdf_ln; [|apply Hc|apply pred_var_pos, Hc].
  rewrite ln_mult; [|assumption|apply pred_pos, Hc].
  unfold pred. rewrite firstn_length_le by lia. lra.
Qed.

(** the model's message is the (unnormalised) log joint *)
Lemma step_msg c s v rvs : cfg_ok c ->
  bmeans s = means_spec c rvs -> bprecs s = precs_spec c (length rvs) ->
  bmsg s = map ln (joint c rvs) ->
  bmsg (bocd_step c s v) = map ln (joint c (v :: rvs)).
Proof.
  intros Hc Hm Hp Hmsg. rewrite step_bmsg. unfold mjoint.
  rewrite (step_lpm c s v rvs Hc Hm Hp Hmsg). rewrite joint_cons. cbn [map].
  pose proof (terms_pos c rvs v Hc (joint_pos c rvs Hc)) as HT.
  pose proof HT as HT'. rewrite Forall_forall in HT'.
  destruct Hc as (_ & _ & [Hh0 Hh1] & _).
  f_equal.
  - replace (map (fun a => a + ln (bo_hazard c)) (map ln (terms c rvs v)))
      with (map ln (map (fun t => t * bo_hazard c) (terms c rvs v))).
    + rewrite logsumexp_ln.
      * rewrite Rsum_map_mul_r. f_equal. lra.
      * intros H. apply map_eq_nil in H. exact (terms_ne _ _ _ H).
      * apply Forall_forall. intros y Hy. apply in_map_iff in Hy. destruct Hy as [t [<- Hin]].
        apply Rmult_lt_0_compat; [apply HT', Hin|assumption].
    + rewrite !map_map. apply map_ext_in. intros t Hin. apply ln_mult; [apply HT', Hin|assumption].
  - rewrite !map_map. apply map_ext_in. intros t Hin. symmetry. apply ln_mult; [apply HT', Hin|lra].
Qed.

(** the model's row is the log of the posterior *)
Lemma step_row c s v rvs : cfg_ok c ->
  bmeans s = means_spec c rvs -> bprecs s = precs_spec c (length rvs) ->
  bmsg s = map ln (joint c rvs) ->
  brow (bocd_step c s v) = map ln (posterior c (v :: rvs)).
Proof.
  intros Hc Hm Hp Hmsg. rewrite step_brow. rewrite <- step_bmsg.
  rewrite (step_msg c s v rvs Hc Hm Hp Hmsg).
  pose proof (joint_pos c (v :: rvs) Hc) as HJ.
  rewrite logsumexp_ln; [|apply joint_ne|assumption].
  unfold posterior. rewrite !map_map. apply map_ext_in. intros j Hin.
  rewrite Forall_forall in HJ. symmetry. apply ln_div_pos; [apply HJ, Hin|apply evidence_pos, Hc].
Qed.

(* ------------------------------------------------------------------ *)
(** * The invariant along a run *)

Definition BInv (c : bocd_cfg RealA) (rvs : list R) (s : bocd_st RealA) : Prop :=
  bn s = Z.of_nat (length rvs) /\
  bmeans s = means_spec c rvs /\
  bprecs s = precs_spec c (length rvs) /\
  bmsg s = map ln (joint c rvs) /\
  brow s = map ln (posterior c rvs).

Lemma binv_init c : cfg_ok c -> BInv c [] (bocd_init c).
Proof.
  intros Hc. unfold BInv, bocd_init, means_spec, precs_spec.
  cbn [bn bmeans bprecs bmsg brow length seq map firstn joint]. rn.
  rewrite (post_mean_nil c Hc), post_prec_0.
  repeat split.
  - rewrite ln_1. reflexivity.
  - unfold posterior, evidence. cbn [joint map]. rewrite Rsum_cons, Rsum_nil.
    replace (1 / (1 + 0)) with 1 by (field; lra). rewrite ln_1. reflexivity.
Qed.

Lemma binv_step c rvs s v : cfg_ok c -> BInv c rvs s -> BInv c (v :: rvs) (bocd_step c s v).
Proof.
  intros Hc (Hn & Hm & Hp & Hmsg & _). unfold BInv. repeat split.
  - rewrite step_bn, Hn. cbn [length]. lia.
  - apply step_means; assumption.
  - cbn [length]. apply step_precs; assumption.
  - apply step_msg; assumption.
  - apply step_row; assumption.
Qed.

Lemma binv_run c vs : cfg_ok c -> BInv c (rev vs) (brun c vs).
Proof.
  intros Hc. induction vs as [|v vs IH] using rev_ind.
  - apply binv_init, Hc.
  - rewrite brun_snoc, rev_unit. apply binv_step; assumption.
Qed.

(* ------------------------------------------------------------------ *)
(** * Items 1-4: parameters, message, row, normalisation *)

Lemma bocd_bn c vs : cfg_ok c -> bn (brun c vs) = Z.of_nat (length vs).
Proof. intros Hc. destruct (binv_run c vs Hc) as (H & _). rewrite H, rev_length. reflexivity. Qed.

(** 1. entry k (k = 0..t, entry 0 = the prior) of the parameter lists is the conjugate
    posterior mean / precision of the k NEWEST values *)
Theorem bocd_params c vs : cfg_ok c ->
  bmeans (brun c vs) = map (fun k => post_mean c (firstn k (rev vs))) (seq 0 (S (length vs))) /\
  bprecs (brun c vs) = map (post_prec c) (seq 0 (S (length vs))).
Proof.
  intros Hc. destruct (binv_run c vs Hc) as (_ & Hm & Hp & _).
  rewrite Hm, Hp. unfold means_spec, precs_spec. rewrite rev_length. split; reflexivity.
Qed.

(** 2. the message is the UNNORMALISED log joint, and all joints are positive *)
Theorem bocd_msg_is_ln_joint c vs : cfg_ok c ->
  bmsg (brun c vs) = map ln (joint c (rev vs)) /\ Forall (fun j => 0 < j) (joint c (rev vs)).
Proof.
  intros Hc. destruct (binv_run c vs Hc) as (_ & _ & _ & Hmsg & _).
  split; [exact Hmsg|apply joint_pos, Hc].
Qed.

Theorem bocd_row_is_ln_posterior c vs : cfg_ok c ->
  brow (brun c vs) = map ln (posterior c (rev vs)) /\ Forall (fun p => 0 < p) (posterior c (rev vs)).
Proof.
  intros Hc. destruct (binv_run c vs Hc) as (_ & _ & _ & _ & Hrow).
  split; [exact Hrow|apply posterior_pos, Hc].
Qed.

(** 3. exp of the row is the run-length posterior (also at t = 0: the row [0] = [ln 1]) *)
Theorem bocd_row_is_posterior c vs : cfg_ok c ->
  map exp (brow (brun c vs)) = posterior c (rev vs).
Proof.
  intros Hc. destruct (bocd_row_is_ln_posterior c vs Hc) as [-> Hpos]. apply map_exp_ln, Hpos.
Qed.

(** 4. every row sums to one *)
Theorem bocd_row_normalised c vs : cfg_ok c -> Rsum (map exp (brow (brun c vs))) = 1.
Proof. intros Hc. rewrite (bocd_row_is_posterior c vs Hc). apply posterior_sum, Hc. Qed.

(* ------------------------------------------------------------------ *)
(** * Item 5: the prediction is the posterior-weighted mixture *)

Lemma zip_with_map_seq_r {X Y W} (f : X -> Y -> W) (a : list X) (g : nat -> Y) d :
  zip_with f a (map g (seq 0 (length a))) = map (fun k => f (nth k a d) (g k)) (seq 0 (length a)).
Proof.
  revert g. induction a as [|x a IH]; intros g; [reflexivity|].
  cbn [length]. rewrite !map_seq_S. cbn [zip_with nth]. f_equal. apply IH.
Qed.

Theorem bocd_prediction c vs : cfg_ok c -> vs <> [] ->
  bpmean (brun c vs) =
    Some (Rsum (map (fun k => nth k (posterior c (rev vs)) 0 * post_mean c (firstn k (rev vs)))
                    (seq 0 (S (length vs))))) /\
  bpvar (brun c vs) =
    Some (Rsum (map (fun k => nth k (posterior c (rev vs)) 0 * (1 / post_prec c k + bo_data_var c))
                    (seq 0 (S (length vs))))).
Proof.
  intros Hc Hne.
  pose proof (bocd_row_is_posterior c vs Hc) as Hrow.
  destruct (bocd_params c vs Hc) as [Hm Hp].
  pose proof (posterior_length c (rev vs)) as HL. rewrite rev_length in HL.
  destruct (exists_last Hne) as (vs' & v & ->).
  rewrite brun_snoc in *. rewrite step_bpmean, step_bpvar, Hrow, Hm, Hp, map_map.
  rewrite <- HL. rewrite !zip_with_map_seq_r with (d := 0). split; reflexivity.
Qed.

(** before any update nothing is predicted *)
Lemma bocd_prediction_init c : bpmean (brun c []) = None /\ bpvar (brun c []) = None.
Proof. split; reflexivity. Qed.

(* ------------------------------------------------------------------ *)
(** * Item 6: the verdict *)

(** position of the first maximum of a list of reals (0 for the empty list), defined
    independently of the model's left-to-right scan *)
Fixpoint argmaxR (l : list R) : nat :=
  match l with
  | [] => 0%nat
  | x :: r =>
    match r with
    | [] => 0%nat
    | _ => let j := argmaxR r in if Rlt_dec x (nth j r 0) then S j else 0%nat
    end
  end.

Lemma argmaxR_cons x y r :
  argmaxR (x :: y :: r) = if Rlt_dec x (nth (argmaxR (y :: r)) (y :: r) 0) then S (argmaxR (y :: r)) else 0%nat.
Proof. reflexivity. Qed.

Lemma argmaxR_lt l : l <> [] -> (argmaxR l < length l)%nat.
Proof.
  induction l as [|x [|y r] IH]; intros Hne; [contradiction|cbn; lia|].
  rewrite argmaxR_cons. specialize (IH ltac:(discriminate)).
  destruct (Rlt_dec _ _); cbn [length] in *; lia.
Qed.

(** [argmaxR] really is the first position of a maximum *)
Lemma argmaxR_spec l : l <> [] ->
  let k := argmaxR l in
  (k < length l)%nat /\
  (forall j, (j < length l)%nat -> nth j l 0 <= nth k l 0) /\
  (forall j, (j < k)%nat -> nth j l 0 < nth k l 0).
Proof.
  intros Hne k. split; [apply argmaxR_lt, Hne|]. subst k.
  induction l as [|x [|y r] IH]; [contradiction| |].
  - cbn. split; intros j Hj; [|lia]. destruct j; [lra|lia].
  - specialize (IH ltac:(discriminate)). destruct IH as [IH1 IH2].
    rewrite argmaxR_cons. set (k := argmaxR (y :: r)) in *. set (l := y :: r) in *.
    destruct (Rlt_dec x (nth k l 0)) as [Hlt|Hge].
    + split; intros j Hj.
      * destruct j as [|j]; cbn [nth]; [lra|]. apply IH1. cbn [length] in Hj. lia.
      * destruct j as [|j]; cbn [nth]; [lra|]. apply IH2. lia.
    + split; intros j Hj; [|lia].
      destruct j as [|j]; cbn [nth]; [lra|].
      assert (nth j l 0 <= nth k l 0) by (apply IH1; cbn [length] in Hj; lia). lra.
Qed.

(** the first maximum is unique: any position with the same two properties is [argmaxR] *)
Lemma argmaxR_unique l k : (k < length l)%nat ->
  (forall j, (j < length l)%nat -> nth j l 0 <= nth k l 0) ->
  (forall j, (j < k)%nat -> nth j l 0 < nth k l 0) ->
  argmaxR l = k.
Proof.
  intros Hk Hmax Hfirst.
  assert (Hne : l <> []) by (intros ->; cbn in Hk; lia).
  destruct (argmaxR_spec l Hne) as (Ha & Hamax & Hafirst).
  destruct (lt_eq_lt_dec (argmaxR l) k) as [[Hlt|Heq]|Hgt]; [|assumption|].
  - specialize (Hfirst _ Hlt). specialize (Hamax _ Hk). lra.
  - specialize (Hafirst _ Hgt). specialize (Hmax _ Ha). lra.
Qed.

(** the model's scan, in terms of [argmaxR] *)
Lemma argmax_from_cons (x : R) (r : list R) (i bi : Z) (b : R) :
  @argmax_from RealA (x :: r) i bi b =
  if Rlt_dec b x then @argmax_from RealA r (i + 1) i x else @argmax_from RealA r (i + 1) bi b.
Proof.
  cbn [argmax_from]. change (@ltb RealA b x) with (Rltb b x). unfold Rltb.
  destruct (Rlt_dec b x); reflexivity.
Qed.

Lemma argmax_from_spec (r : list R) (i bi : Z) (b : R) :
  @argmax_from RealA r i bi b =
  match r with
  | [] => bi
  | _ => if Rlt_dec b (nth (argmaxR r) r 0) then (i + Z.of_nat (argmaxR r))%Z else bi
  end.
Proof.
  revert i bi b. induction r as [|x [|y r] IH]; intros i bi b; [reflexivity| |].
  - rewrite argmax_from_cons. cbn [argmax_from argmaxR nth].
    destruct (Rlt_dec b x); cbn; [lia|reflexivity].
  - rewrite argmax_from_cons, argmaxR_cons.
    set (l := y :: r) in *. set (k := argmaxR l) in *.
    destruct (Rlt_dec b x) as [Hbx|Hbx].
    + rewrite IH. unfold l at 1. fold l.
      destruct (Rlt_dec x (nth k l 0)) as [Hx|Hx]; cbn [nth].
      * destruct (Rlt_dec b (nth k l 0)); [lia|lra].
      * destruct (Rlt_dec b x); [lia|lra].
    + rewrite IH. unfold l at 1. fold l.
      destruct (Rlt_dec x (nth k l 0)) as [Hx|Hx]; cbn [nth].
      * destruct (Rlt_dec b (nth k l 0)); [lia|reflexivity].
      * destruct (Rlt_dec b (nth k l 0)); [lra|]. destruct (Rlt_dec b x); [lra|reflexivity].
Qed.

Lemma argmax_argmaxR (l : list R) : @argmax RealA l = Z.of_nat (argmaxR l).
Proof.
  destruct l as [|x [|y r]]; [reflexivity|reflexivity|].
  unfold argmax. rewrite argmax_from_spec. rewrite argmaxR_cons.
  destruct (Rlt_dec _ _); lia.
Qed.

(** a strictly increasing map does not move the first maximum *)
Lemma argmaxR_map_mono (f : R -> R) (l : list R) :
  (forall a b, a < b <-> f a < f b) -> argmaxR (map f l) = argmaxR l.
Proof.
  intros Hf. induction l as [|x [|y r] IH]; [reflexivity|reflexivity|].
  cbn [map] in *. rewrite !argmaxR_cons. rewrite IH.
  set (k := argmaxR (y :: r)).
  assert (Hk : (k < length (y :: r))%nat) by (apply argmaxR_lt; discriminate).
  change (f y :: map f r) with (map f (y :: r)).
  rewrite (nth_indep (map f (y :: r)) 0 (f 0)) by (rewrite map_length; exact Hk).
  rewrite map_nth.
  destruct (Rlt_dec x _) as [H|H], (Rlt_dec (f x) _) as [H'|H']; try reflexivity.
  - apply Hf in H. contradiction.
  - apply Hf in H'. contradiction.
Qed.

Lemma exp_mono_iff a b : a < b <-> exp a < exp b.
Proof. split; [apply exp_increasing|apply exp_lt_inv]. Qed.

(** the model's arg-max on the log row is the first arg-max of the posterior *)
Lemma bocd_argmax_row c vs : cfg_ok c ->
  @argmax RealA (brow (brun c vs)) = Z.of_nat (argmaxR (posterior c (rev vs))).
Proof.
  intros Hc. rewrite argmax_argmaxR. rewrite <- (bocd_row_is_posterior c vs Hc).
  rewrite (argmaxR_map_mono exp _ exp_mono_iff). reflexivity.
Qed.

(** before min_num_instances the flag keeps its initial value *)
Theorem bocd_no_drift_before_min c vs : cfg_ok c ->
  (Z.of_nat (length vs) < bo_min c)%Z -> bdrift (brun c vs) = false.
Proof.
  intros Hc. induction vs as [|v vs IH] using rev_ind; intros Hlt; [reflexivity|].
  rewrite brun_snoc, step_bdrift, (bocd_bn c vs Hc).
  rewrite app_length in Hlt. cbn [length] in Hlt.
  destruct (Z.leb_spec (bo_min c) (Z.of_nat (length vs) + 1)) as [H|H]; [lia|].
  apply IH. lia.
Qed.

(** 6. from min_num_instances on, drift <-> the most probable run length (first maximum of
    the posterior) is not t *)
Theorem bocd_verdict c vs : cfg_ok c ->
  (bo_min c <= Z.of_nat (length vs))%Z ->
  (bdrift (brun c vs) = true <-> argmaxR (posterior c (rev vs)) <> length vs).
Proof.
  intros Hc Hmin.
  destruct vs as [|a vs0].
  { unfold posterior. cbn [rev joint map argmaxR length brun fold_left bocd_init bdrift].
    split; [discriminate|]. intros H. exfalso. apply H. reflexivity. }
  assert (Hne : a :: vs0 <> []) by discriminate. revert Hne Hmin. generalize (a :: vs0) as vs.
  clear a vs0. intros vs Hne Hmin.
  pose proof (bocd_argmax_row c vs Hc) as Harg.
  destruct (exists_last Hne) as (vs' & v & ->).
  rewrite brun_snoc in *. rewrite step_bdrift, (bocd_bn c vs' Hc), Harg.
  rewrite app_length in *. cbn [length] in *.
  destruct (Z.leb_spec (bo_min c) (Z.of_nat (length vs') + 1)) as [H|H]; [|lia].
  rewrite negb_true_iff, Z.eqb_neq. lia.
Qed.

(** the same verdict without the arg-max vocabulary: no drift exactly when run length t
    (no change since the start) is strictly more probable than every shorter run length *)
Corollary bocd_verdict_explicit c vs : cfg_ok c ->
  (bo_min c <= Z.of_nat (length vs))%Z ->
  (bdrift (brun c vs) = false <->
   forall k, (k < length vs)%nat ->
     nth k (posterior c (rev vs)) 0 < nth (length vs) (posterior c (rev vs)) 0).
Proof.
  intros Hc Hmin. pose proof (bocd_verdict c vs Hc Hmin) as HV.
  pose proof (posterior_length c (rev vs)) as HL. rewrite rev_length in HL.
  assert (HPne : posterior c (rev vs) <> []) by (intros E; rewrite E in HL; discriminate).
  destruct (argmaxR_spec _ HPne) as (Ha & Hamax & Hafirst).
  split.
  - intros Hd k Hk.
    assert (E : argmaxR (posterior c (rev vs)) = length vs).
    { destruct (Nat.eq_dec (argmaxR (posterior c (rev vs))) (length vs)) as [E|E]; [exact E|].
      apply HV in E. rewrite E in Hd. discriminate. }
    rewrite E in Hafirst. apply Hafirst, Hk.
  - intros Hall. destruct (bdrift (brun c vs)) eqn:Hd; [|reflexivity].
    exfalso. apply (proj1 HV); [reflexivity|].
    apply argmaxR_unique; [lia| |exact Hall].
    intros j Hj. rewrite HL in Hj.
    destruct (Nat.eq_dec j (length vs)) as [->|Hneq]; [lra|].
    left. apply Hall. lia.
Qed.

(** non-vacuity of [cfg_ok]: the default configuration of the library *)
Definition cfg_default : bocd_cfg RealA :=
  {| bo_prior_mean := 0; bo_prior_var := 1; bo_data_var := 1; bo_hazard := 1 / 100;
     bo_min := 30; bo_ln_sqrt_2pi := ln (sqrt (2 * PI)) |}.
Lemma cfg_default_ok : cfg_ok cfg_default.
Proof. unfold cfg_ok, cfg_default. cbn. repeat split; lra. Qed.
