(* Proofs/SPCR.v *)
(** C03: DDM, ECDD-WT and EDDM over the reals decide by their published non-incremental rules. *)
From Coq Require Import ZArith List Bool Reals Lra Lia.
From FV Require Import NumSys RealA Py Sums Stats Detector SPC StatsR SPCSpec.
Import ListNotations.
Local Open Scope R_scope.

(** * Update-only runs *)

Definition ddm_run (c : ddm_cfg RealA) (vs : list R) : ddm_st RealA := fold_left (ddm_step c) vs (ddm_init c).
Definition ecdd_run (c : ecdd_cfg RealA) (vs : list R) : ecdd_st RealA := fold_left (ecdd_step c) vs (ecdd_init c).
Definition eddm_run (c : eddm_cfg RealA) (vs : list R) : eddm_st RealA := fold_left (eddm_step c) vs (eddm_init c).

Lemma exec_from_upd : forall (D : Detector) (c : d_cfg D) (vs : list (d_in D)) (s : d_st D),
  exec_from D c s (map Upd vs) = fold_left (d_step D c) vs s.
Proof.
  intros D c vs; induction vs as [|v r IH]; intros s; [reflexivity|].
  cbn [map]. unfold exec_from in *. cbn [fold_left apply]. apply IH.
Qed.

Lemma ddm_run_exec : forall c vs, exec (DDMD RealA) c (map Upd vs) = ddm_run c vs.
Proof. intros c vs. unfold exec. rewrite exec_from_upd. reflexivity. Qed.

Lemma ecdd_run_exec : forall c vs, exec (ECDDD RealA) c (map Upd vs) = ecdd_run c vs.
Proof. intros c vs. unfold exec. rewrite exec_from_upd. reflexivity. Qed.

Lemma eddm_run_exec : forall c vs, exec (EDDMD RealA) c (map Upd vs) = eddm_run c vs.
Proof. intros c vs. unfold exec. rewrite exec_from_upd. reflexivity. Qed.

Lemma ddm_run_snoc : forall c vs v, ddm_run c (vs ++ [v]) = ddm_step c (ddm_run c vs) v.
Proof. intros c vs v. unfold ddm_run. rewrite fold_left_app. reflexivity. Qed.

Lemma ecdd_run_snoc : forall c vs v, ecdd_run c (vs ++ [v]) = ecdd_step c (ecdd_run c vs) v.
Proof. intros c vs v. unfold ecdd_run. rewrite fold_left_app. reflexivity. Qed.

Lemma eddm_run_snoc : forall c vs v, eddm_run c (vs ++ [v]) = eddm_step c (eddm_run c vs) v.
Proof. intros c vs v. unfold eddm_run. rewrite fold_left_app. reflexivity. Qed.

(** * Shared arithmetic *)

Lemma Rltb_dec : forall (x y : R) (T : Type) (a b : T),
  (if Rltb x y then a else b) = (if Rlt_dec x y then a else b).
Proof. intros x y T a b. unfold Rltb. destruct (Rlt_dec x y); reflexivity. Qed.

Lemma Zleb_natleb : forall (a : Z) (k : nat), (1 <= a)%Z ->
  (a <=? Z.of_nat k)%Z = (Z.to_nat a <=? k)%nat.
Proof.
  intros a k Ha. destruct (Z.leb_spec a (Z.of_nat k)); destruct (Nat.leb_spec (Z.to_nat a) k); auto; lia.
Qed.

Lemma natltb_leb : forall a k : nat, (k <? a)%nat = negb (a <=? k)%nat.
Proof.
  intros a k. destruct (Nat.ltb_spec k a); destruct (Nat.leb_spec a k); auto; lia.
Qed.

Lemma snoc_len_Z : forall {X} (l : list X) v, (Z.of_nat (length l) + 1 = Z.of_nat (length (l ++ [v])))%Z.
Proof. intros X l v. rewrite app_length. cbn [length]. lia. Qed.

Lemma p_of_rev : forall l, p_of (rev l) = Rmean l.
Proof. intros l. unfold p_of. rewrite rev_involutive. reflexivity. Qed.

Lemma s_of_rev : forall l,
  s_of (rev l) = sqrt (Rmean l * (1 - Rmean l) / IZR (Z.of_nat (length l))).
Proof. intros l. unfold s_of. rewrite p_of_rev, rev_length, <- INR_IZR_INZ. reflexivity. Qed.

(** * DDM *)

Definition ddm_inv (c : ddm_cfg RealA) (vs : list R) (s : ddm_st RealA) : Prop :=
  dn s = Z.of_nat (length vs) /\
  der s = mean_run (A:=RealA) vs /\
  dmins s = ddm_min (Z.to_nat (dd_min c)) (rev vs) /\
  verdict_of (ddrift s) (dwarning s) = ddm_spec (dd_warn c) (dd_drift c) (Z.to_nat (dd_min c)) (rev vs).

Lemma ddm_inv_init : forall c, (1 <= dd_min c)%Z -> ddm_inv c [] (ddm_init c).
Proof.
  intros c Hc. unfold ddm_inv, ddm_init. cbn [dn der dmins ddrift dwarning rev length ddm_min].
  repeat split. unfold ddm_spec. cbn [length ddm_min].
  destruct (0 <? Z.to_nat (dd_min c))%nat; reflexivity.
Qed.

Lemma ddm_inv_step : forall c vs s v, (1 <= dd_min c)%Z ->
  ddm_inv c vs s -> ddm_inv c (vs ++ [v]) (ddm_step c s v).
Proof.
  intros c vs s v Hc (Hn & Her & Hm & _).
  unfold ddm_inv, ddm_step. rewrite Hn, Her, <- mean_run_snoc, Hm, snoc_len_Z with (v := v).
  destruct (mean_run_inv (vs ++ [v])) as [Hmean _].
  rewrite Hmean. unfold eps_std. unfold one. cbn [add sub mul div ofZ sqrt RealA num].
  rewrite <- s_of_rev, <- p_of_rev.
  rewrite (Zleb_natleb _ _ Hc).
  unfold ddm_spec. rewrite natltb_leb. rewrite rev_length.
  assert (Hr : rev (vs ++ [v]) = v :: rev vs) by apply rev_unit.
  set (mn := Z.to_nat (dd_min c)).
  assert (Hmin : ddm_min mn (rev (vs ++ [v])) =
     let prev := ddm_min mn (rev vs) in
     if (mn <=? length (vs ++ [v]))%nat then
       match prev with
       | None => Some (p_of (rev (vs ++ [v])), s_of (rev (vs ++ [v])))
       | Some (pm, sm) =>
           if Rlt_dec (p_of (rev (vs ++ [v])) + s_of (rev (vs ++ [v]))) (pm + sm)
           then Some (p_of (rev (vs ++ [v])), s_of (rev (vs ++ [v]))) else prev
       end
     else prev).
  { rewrite <- (rev_length (vs ++ [v])). rewrite Hr. reflexivity. }
  rewrite Hmin. cbv zeta.
  set (P := p_of (rev (vs ++ [v]))). set (S := s_of (rev (vs ++ [v]))).
  destruct (mn <=? length (vs ++ [v]))%nat eqn:Emn; cbn [negb].
  - unfold update_mins, check_thr. cbn [add mul ltb RealA num].
    destruct (ddm_min mn (rev vs)) as [[pm sm]|] eqn:Eprev.
    + rewrite Rltb_dec.
      destruct (Rlt_dec (P + S) (pm + sm)) as [Hlt|Hge].
      * rewrite !Rltb_dec.
        destruct (Rlt_dec (P + dd_drift c * S) (P + S)); cbn [dn der dmins ddrift dwarning verdict_of];
          repeat split.
        rewrite Rltb_dec.
        destruct (Rlt_dec (P + dd_warn c * S) (P + S)); reflexivity.
      * rewrite !Rltb_dec.
        destruct (Rlt_dec (pm + dd_drift c * sm) (P + S)); cbn [dn der dmins ddrift dwarning verdict_of];
          repeat split.
        rewrite Rltb_dec.
        destruct (Rlt_dec (pm + dd_warn c * sm) (P + S)); reflexivity.
    + rewrite !Rltb_dec.
      destruct (Rlt_dec (P + dd_drift c * S) (P + S)); cbn [dn der dmins ddrift dwarning verdict_of];
        repeat split.
      rewrite Rltb_dec.
      destruct (Rlt_dec (P + dd_warn c * S) (P + S)); reflexivity.
  - cbn [dn der dmins ddrift dwarning verdict_of]. repeat split.
Qed.

Lemma ddm_run_inv : forall c vs, (1 <= dd_min c)%Z -> ddm_inv c vs (ddm_run c vs).
Proof.
  intros c vs Hc; induction vs as [|v vs IH] using rev_ind.
  - apply ddm_inv_init; exact Hc.
  - rewrite ddm_run_snoc. apply ddm_inv_step; assumption.
Qed.

Theorem ddm_refines_spec : forall (c : ddm_cfg RealA) (vs : list R), (1 <= dd_min c)%Z ->
  dn (ddm_run c vs) = Z.of_nat (length vs) /\
  dmins (ddm_run c vs) = ddm_min (Z.to_nat (dd_min c)) (rev vs) /\
  verdict_of (ddrift (ddm_run c vs)) (dwarning (ddm_run c vs)) =
    ddm_spec (dd_warn c) (dd_drift c) (Z.to_nat (dd_min c)) (rev vs).
Proof.
  intros c vs Hc. destruct (ddm_run_inv c vs Hc) as (Hn & _ & Hm & Hv). auto.
Qed.

(** * ECDD-WT *)

Lemma powN_pow : forall (x : R) (n : nat), powN (A:=RealA) x n = x ^ n.
Proof.
  intros x n; induction n as [|n IH]; cbn [powN pow].
  - reflexivity.
  - rewrite IH. reflexivity.
Qed.

Lemma control_limit_ross : forall arl p, control_limit (A:=RealA) arl p = ross_limit arl p.
Proof.
  intros arl p. unfold control_limit, ross_limit.
  destruct (arl =? 100)%Z; [|destruct (arl =? 400)%Z];
    unfold lit; cbn [powN add sub mul div ofZ RealA num]; unfold one; cbn [ofZ RealA];
    unfold Q2R; cbn [QArith_base.Qnum QArith_base.Qden]; field.
Qed.

Lemma ecdd_Z_rev : forall lam l, ecdd_Z lam (rev l) = wsum (fun k => lam * (1 - lam) ^ k) l.
Proof. intros lam l. unfold ecdd_Z. rewrite rev_involutive. reflexivity. Qed.

Lemma ecdd_sigma_rev : forall lam l,
  ecdd_sigma lam (rev l) =
  sqrt (lam / (2 - lam) * (1 - (1 - lam) ^ (Z.to_nat (2 * Z.of_nat (length l)))) * (Rmean l * (1 - Rmean l))).
Proof.
  intros lam l. unfold ecdd_sigma. rewrite p_of_rev, rev_length.
  replace (Z.to_nat (2 * Z.of_nat (length l))) with (2 * length l)%nat by lia. reflexivity.
Qed.

Definition ecdd_inv (c : ecdd_cfg RealA) (vs : list R) (s : ecdd_st RealA) : Prop :=
  cn s = Z.of_nat (length vs) /\
  cp s = mean_run (A:=RealA) vs /\
  cz s = ewma_run (A:=RealA) (ec_lambda c) vs /\
  verdict_of (cdrift s) (cwarning s) =
    ecdd_spec (ec_lambda c) (ec_arl c) (ec_warn c) (Z.to_nat (ec_min c)) (rev vs).

Lemma ecdd_inv_init : forall c, (1 <= ec_min c)%Z -> ecdd_inv c [] (ecdd_init c).
Proof.
  intros c Hc. unfold ecdd_inv, ecdd_init. cbn [cn cp cz cdrift cwarning rev length].
  repeat split. unfold ecdd_spec. cbn [length].
  replace (0 <? Z.to_nat (ec_min c))%nat with true; [reflexivity|].
  symmetry. apply Nat.ltb_lt. lia.
Qed.

Lemma ecdd_inv_step : forall c vs s v, (1 <= ec_min c)%Z ->
  ecdd_inv c vs s -> ecdd_inv c (vs ++ [v]) (ecdd_step c s v).
Proof.
  intros c vs s v Hc (Hn & Hp & Hz & _).
  unfold ecdd_inv, ecdd_step.
  rewrite Hn, Hp, Hz, <- mean_run_snoc, <- ewma_run_snoc, snoc_len_Z with (v := v).
  destruct (mean_run_inv (vs ++ [v])) as [Hmean _].
  destruct (ewma_run_inv (ec_lambda c) (vs ++ [v])) as (_ & H1ma & Hzm).
  rewrite Hmean, H1ma, Hzm.
  unfold ecdd_zvar, ecdd_check. rewrite control_limit_ross, powN_pow.
  unfold one, two. cbn [add sub mul div ofZ sqrt ltb RealA num].
  rewrite <- ecdd_sigma_rev, <- ecdd_Z_rev, <- p_of_rev.
  rewrite (Zleb_natleb _ _ Hc).
  unfold ecdd_spec. rewrite natltb_leb, rev_length. cbv zeta.
  set (P := p_of (rev (vs ++ [v]))).
  set (Zt := ecdd_Z (ec_lambda c) (rev (vs ++ [v]))).
  set (Sg := ecdd_sigma (ec_lambda c) (rev (vs ++ [v]))).
  set (L := ross_limit (ec_arl c) P).
  rewrite Rmult_1_l.
  destruct (Z.to_nat (ec_min c) <=? length (vs ++ [v]))%nat eqn:Emn; cbn [negb].
  - rewrite Rltb_dec.
    destruct (Rlt_dec (P + L * Sg) Zt); cbn [cn cp cz cdrift cwarning verdict_of]; repeat split.
    rewrite Rltb_dec.
    destruct (Rlt_dec (P + ec_warn c * L * Sg) Zt); reflexivity.
  - cbn [cn cp cz cdrift cwarning verdict_of]. repeat split.
Qed.

Lemma ecdd_run_inv : forall c vs, (1 <= ec_min c)%Z -> ecdd_inv c vs (ecdd_run c vs).
Proof.
  intros c vs Hc; induction vs as [|v vs IH] using rev_ind.
  - apply ecdd_inv_init; exact Hc.
  - rewrite ecdd_run_snoc. apply ecdd_inv_step; assumption.
Qed.

Theorem ecdd_refines_spec : forall (c : ecdd_cfg RealA) (vs : list R), (1 <= ec_min c)%Z ->
  verdict_of (cdrift (ecdd_run c vs)) (cwarning (ecdd_run c vs)) =
    ecdd_spec (ec_lambda c) (ec_arl c) (ec_warn c) (Z.to_nat (ec_min c)) (rev vs).
Proof. intros c vs Hc. apply (ecdd_run_inv c vs Hc). Qed.

(** * EDDM *)

(** ** Welford's update of the sum of squared deviations *)

Definition Rsq_about (m : R) (l : list R) : R := Rsum (map (fun x => (x - m) * (x - m)) l).

Lemma Rsq_about_expand : forall m l,
  Rsq_about m l = Rsum (map (fun x => x * x) l) - 2 * m * Rsum l + INR (length l) * m * m.
Proof.
  intros m l; induction l as [|x t IH]; unfold Rsq_about in *.
  - cbn [map length]. unfold Rsum. cbn [fold_right INR]. lra.
  - cbn [map]. rewrite !Rsum_cons, IH.
    change (length (x :: t)) with (S (length t)). rewrite S_INR. lra.
Qed.

Lemma Rsq_about_nonneg : forall m l, 0 <= Rsq_about m l.
Proof.
  intros m l; induction l as [|x t IH]; unfold Rsq_about in *.
  - cbn [map]. unfold Rsum. cbn [fold_right]. lra.
  - cbn [map]. rewrite Rsum_cons. pose proof (Rle_0_sqr (x - m)) as Hs. unfold Rsqr in Hs. lra.
Qed.

Lemma Rssd_about : forall l, Rssd l = Rsq_about (Rmean l) l.
Proof. reflexivity. Qed.

Lemma Rssd_nonneg : forall l, 0 <= Rssd l.
Proof. intros l. rewrite Rssd_about. apply Rsq_about_nonneg. Qed.

Lemma Rssd_nil : Rssd [] = 0.
Proof. reflexivity. Qed.

Lemma Rsum_mean : forall l, Rsum l = INR (length l) * Rmean l.
Proof.
  intros l. destruct l as [|x t].
  - rewrite Rmean_nil. unfold Rsum. cbn [fold_right]. lra.
  - assert (Hpos : 0 < INR (length (x :: t))) by (apply INR_length_pos; discriminate).
    unfold Rmean. field. lra.
Qed.

Lemma Rssd_expand : forall l,
  Rssd l = Rsum (map (fun x => x * x) l) - INR (length l) * Rmean l * Rmean l.
Proof.
  intros l. rewrite Rssd_about, Rsq_about_expand, (Rsum_mean l). ring.
Qed.

Lemma Rssd_snoc : forall l d,
  Rssd (l ++ [d]) = Rssd l + (d - Rmean (l ++ [d])) * (d - Rmean l).
Proof.
  intros l d. rewrite !Rssd_expand, map_app. cbn [map]. rewrite Rsum_snoc, snoc_length_INR.
  rewrite <- (mean_step_R l d), snoc_length_INR.
  assert (Hn : 0 <= INR (length l)) by apply pos_INR.
  set (n := INR (length l)) in *. set (M := Rmean l).
  set (Q := Rsum (map (fun x => x * x) l)).
  field. lra.
Qed.

(** ** Distances between errors *)

(** position (1-based) of the latest error of [vs], scanning from position [pos];
    [last] when there is none *)
Fixpoint last_from (vs : list R) (pos last : nat) : nat :=
  match vs with
  | [] => last
  | x :: r => if Req_EM_T x 1 then last_from r (S pos) (S pos) else last_from r (S pos) last
  end.

Lemma last_from_snoc : forall vs pos last v,
  last_from (vs ++ [v]) pos last =
  if Req_EM_T v 1 then S (pos + length vs) else last_from vs pos last.
Proof.
  intros vs; induction vs as [|x r IH]; intros pos last v.
  - cbn [app last_from length]. destruct (Req_EM_T v 1); [f_equal; lia|reflexivity].
  - cbn [app last_from length]. destruct (Req_EM_T x 1); rewrite IH;
      destruct (Req_EM_T v 1); try reflexivity; f_equal; lia.
Qed.

Lemma last_from_le : forall vs pos last, (last <= pos)%nat ->
  (last_from vs pos last <= pos + length vs)%nat.
Proof.
  intros vs; induction vs as [|x r IH]; intros pos last Hl.
  - cbn [last_from length]. lia.
  - cbn [last_from length]. destruct (Req_EM_T x 1).
    + specialize (IH (S pos) (S pos) (le_n _)). lia.
    + specialize (IH (S pos) last ltac:(lia)). lia.
Qed.

Lemma gaps_from_snoc : forall vs pos last v,
  gaps_from (vs ++ [v]) pos last =
  gaps_from vs pos last ++
  (if Req_EM_T v 1 then [INR (S (pos + length vs) - last_from vs pos last)] else []).
Proof.
  intros vs; induction vs as [|x r IH]; intros pos last v.
  - cbn [app gaps_from last_from length]. destruct (Req_EM_T v 1); [|reflexivity].
    do 3 f_equal. lia.
  - cbn [app gaps_from last_from length]. destruct (Req_EM_T x 1); rewrite IH;
      destruct (Req_EM_T v 1); cbn [app]; try reflexivity.
    + do 5 f_equal. lia.
    + do 4 f_equal. lia.
Qed.

Lemma gaps_rev : forall vs, gaps (rev vs) = gaps_from vs 0 0.
Proof. intros vs. unfold gaps. rewrite rev_involutive. reflexivity. Qed.

(** ** The statistics are the batch statistics of the distances *)

Definition eddm_inv (vs : list R) (s : eddm_st RealA) : Prop :=
  let ds := gaps_from vs 0 0 in
  en s = Z.of_nat (length vs) /\
  elast s = INR (last_from vs 0 0) /\
  enmis s = Z.of_nat (length ds) /\
  emean s = Rmean ds /\
  evar s = Rssd ds /\
  estd s = sqrt (Rssd ds / INR (length ds)).

Lemma eddm_inv_init : forall c, eddm_inv [] (eddm_init c).
Proof.
  intros c. unfold eddm_inv, eddm_init.
  cbn [en elast enmis emean evar estd gaps_from last_from length].
  unfold zero. cbn [ofZ RealA INR]. rewrite Rmean_nil, Rssd_nil.
  repeat split. unfold Rdiv. rewrite Rmult_0_l. cbn [sqrt RealA]. rewrite sqrt_0. reflexivity.
Qed.

(** fields of the state after an error step, whatever the decision branch *)
Lemma eddm_step_err_fields : forall c (s : eddm_st RealA) (v : R), v = 1 ->
  let s' := eddm_step c s v in
  let k := (enmis s + 1)%Z in
  let dist := IZR (en s + 1) - elast s in
  let mean := emean s + (dist - emean s) / IZR k in
  let var := evar s + (dist - mean) * (dist - emean s) in
  en s' = (en s + 1)%Z /\ elast s' = IZR (en s + 1) /\ enmis s' = k /\
  emean s' = mean /\ evar s' = var /\ estd s' = sqrt (var / IZR k).
Proof.
  intros c s v Hv. cbv zeta. unfold eddm_step.
  assert (Hb : eqb (a:=RealA) v one = true) by (apply Reqb_true; exact Hv).
  rewrite Hb. cbv zeta.
  destruct (ed_min c <=? en s + 1)%Z;
    [destruct (gt_opt _ (emax s));
      [|destruct (ed_min c <=? enmis s + 1)%Z; [destruct (ltb _ (ed_beta c))|]]|];
    cbn [en elast enmis emean evar estd]; repeat split.
Qed.

Lemma eddm_step_ok_fields : forall c (s : eddm_st RealA) (v : R), v <> 1 ->
  eddm_step c s v =
  {| en := (en s + 1)%Z; elast := elast s; emax := emax s; emean := emean s; enmis := enmis s;
     eold := eold s; estd := estd s; evar := evar s; edrift := false; ewarning := false |}.
Proof.
  intros c s v Hv. unfold eddm_step.
  assert (Hb : eqb (a:=RealA) v one = false) by (apply Reqb_false; exact Hv).
  rewrite Hb. reflexivity.
Qed.

Lemma eddm_inv_step : forall c vs s v, eddm_inv vs s -> eddm_inv (vs ++ [v]) (eddm_step c s v).
Proof.
  intros c vs s v (Hn & Hl & Hk & Hm & Hv & Hs).
  unfold eddm_inv. cbv zeta.
  rewrite gaps_from_snoc, last_from_snoc. cbn [Nat.add].
  destruct (Req_EM_T v 1) as [E|E].
  - destruct (eddm_step_err_fields c s v E) as (Fn & Fl & Fk & Fm & Fv & Fs).
    rewrite Fn, Fl, Fk, Fm, Fv, Fs. clear Fn Fl Fk Fm Fv Fs.
    rewrite Hn, Hl, Hk, Hm, Hv.
    set (ds := gaps_from vs 0 0).
    pose proof (last_from_le vs 0 0 (le_n _)) as Hle. cbn [Nat.add] in Hle.
    set (d := INR (S (length vs) - last_from vs 0 0)).
    assert (Hnn : IZR (Z.of_nat (length vs) + 1) = INR (S (length vs))).
    { rewrite INR_IZR_INZ. f_equal. lia. }
    assert (Hd : IZR (Z.of_nat (length vs) + 1) - INR (last_from vs 0 0) = d).
    { unfold d. rewrite minus_INR by lia. rewrite Hnn. reflexivity. }
    assert (Hkk : IZR (Z.of_nat (length ds) + 1) = INR (length (ds ++ [d]))).
    { rewrite INR_IZR_INZ. f_equal. rewrite app_length. cbn [length]. lia. }
    rewrite Hd, Hkk, mean_step_R, <- Rssd_snoc.
    repeat split.
    + rewrite app_length. cbn [length]. lia.
    + exact Hnn.
    + rewrite app_length. cbn [length]. lia.
  - rewrite (eddm_step_ok_fields c s v E). cbn [en elast enmis emean evar estd].
    rewrite app_nil_r. repeat split; try assumption.
    rewrite Hn, app_length. cbn [length]. lia.
Qed.

Lemma eddm_run_inv : forall c vs, eddm_inv vs (eddm_run c vs).
Proof.
  intros c vs; induction vs as [|v vs IH] using rev_ind.
  - apply eddm_inv_init.
  - rewrite eddm_run_snoc. apply eddm_inv_step; assumption.
Qed.

Theorem eddm_stats_batch : forall (c : eddm_cfg RealA) (vs : list R),
  let s := eddm_run c vs in let ds := gaps (rev vs) in
  en s = Z.of_nat (length vs) /\ enmis s = Z.of_nat (length ds) /\
  (ds <> [] -> emean s = Rmean ds /\ evar s = Rssd ds /\ estd s = sqrt (Rssd ds / INR (length ds))) /\
  0 <= evar s.
Proof.
  intros c vs. cbv zeta. rewrite gaps_rev.
  destruct (eddm_run_inv c vs) as (Hn & _ & Hk & Hm & Hv & Hs).
  repeat split; try assumption.
  rewrite Hv. apply Rssd_nonneg.
Qed.

(** ** The one-step decision rule *)

(** the rule in terms of the statistics stored after the step *)
Lemma eddm_step_err_rule : forall c (s : eddm_st RealA) (v : R), v = 1 ->
  let s' := eddm_step c s v in
  let thr := emean s' + ed_level c * estd s' in
  ((en s' < ed_min c)%Z -> emax s' = emax s /\ edrift s' = edrift s /\ ewarning s' = ewarning s) /\
  ((ed_min c <= en s')%Z -> gt_opt (A:=RealA) thr (emax s) = true ->
     emax s' = Some thr /\ edrift s' = false /\ ewarning s' = false) /\
  ((ed_min c <= en s')%Z -> gt_opt (A:=RealA) thr (emax s) = false -> emax s' = emax s /\
     ((enmis s' < ed_min c)%Z -> edrift s' = edrift s /\ ewarning s' = ewarning s) /\
     ((ed_min c <= enmis s')%Z -> forall mx, emax s = Some mx ->
        edrift s' = Rltb (thr / mx) (ed_beta c) /\
        ewarning s' = (negb (Rltb (thr / mx) (ed_beta c)) && Rltb (thr / mx) (ed_alpha c)))).
Proof.
  intros c s v Hv. cbv zeta. unfold eddm_step.
  assert (Hb : eqb (a:=RealA) v one = true) by (apply Reqb_true; exact Hv).
  rewrite Hb. cbv zeta.
  destruct (ed_min c <=? en s + 1)%Z eqn:E1.
  - apply Z.leb_le in E1.
    destruct (gt_opt _ (emax s)) eqn:E2.
    + cbn [en emax enmis emean estd edrift ewarning add sub mul div sqrt ofZ ltb RealA num] in *.
      split; [intros; lia|]. split; [intros _ _; repeat split|].
      intros _ H. rewrite E2 in H. discriminate.
    + destruct (ed_min c <=? enmis s + 1)%Z eqn:E3.
      * apply Z.leb_le in E3.
        destruct (ltb _ (ed_beta c)) eqn:E4;
          cbn [en emax enmis emean estd edrift ewarning add sub mul div sqrt ofZ ltb RealA num] in *.
        -- split; [intros; lia|]. split; [intros _ H; rewrite E2 in H; discriminate|].
           intros _ _. split; [reflexivity|]. split; [intros; lia|].
           intros _ mx Hmx. rewrite Hmx in E4. rewrite E4.
           split; reflexivity.
        -- split; [intros; lia|]. split; [intros _ H; rewrite E2 in H; discriminate|].
           intros _ _. split; [reflexivity|]. split; [intros; lia|].
           intros _ mx Hmx. rewrite Hmx in E4. rewrite Hmx, E4.
           split; reflexivity.
      * apply Z.leb_gt in E3.
        cbn [en emax enmis emean estd edrift ewarning add sub mul div sqrt ofZ ltb RealA num] in *.
        split; [intros; lia|]. split; [intros _ H; rewrite E2 in H; discriminate|].
        intros _ _. split; [reflexivity|]. split; [intros _; split; reflexivity|]. intros; lia.
  - apply Z.leb_gt in E1.
    cbn [en emax enmis emean estd edrift ewarning add sub mul div sqrt ofZ ltb RealA num] in *.
    split; [intros _; repeat split|]. split; intros; lia.
Qed.

Lemma gaps_snoc_err : forall vs, gaps (rev (vs ++ [1])) <> [].
Proof.
  intros vs. rewrite gaps_rev, gaps_from_snoc.
  destruct (Req_EM_T 1 1) as [_|E]; [|congruence].
  intros H. apply app_eq_nil in H. destruct H as [_ H]. discriminate.
Qed.

Theorem eddm_rule : forall (c : eddm_cfg RealA) (vs : list R) (v : R),
  let s := eddm_run c vs in let s' := eddm_run c (vs ++ [v]) in
  (v <> 1 -> edrift s' = false /\ ewarning s' = false /\ emax s' = emax s) /\
  (v = 1 -> let ds := gaps (rev (vs ++ [v])) in let thr := eddm_thr (ed_level c) ds in
            let n' := Z.of_nat (S (length vs)) in
     ((n' < ed_min c)%Z -> emax s' = emax s /\ edrift s' = edrift s /\ ewarning s' = ewarning s) /\
     ((ed_min c <= n')%Z -> gt_opt (A:=RealA) thr (emax s) = true ->
        emax s' = Some thr /\ edrift s' = false /\ ewarning s' = false) /\
     ((ed_min c <= n')%Z -> gt_opt (A:=RealA) thr (emax s) = false -> emax s' = emax s /\
         ((Z.of_nat (length ds) < ed_min c)%Z -> edrift s' = edrift s /\ ewarning s' = ewarning s) /\
         ((ed_min c <= Z.of_nat (length ds))%Z -> forall mx, emax s = Some mx ->
             edrift s' = Rltb (thr / mx) (ed_beta c) /\
             ewarning s' = (negb (Rltb (thr / mx) (ed_beta c)) && Rltb (thr / mx) (ed_alpha c))))).
Proof.
  intros c vs v. cbv zeta. split.
  - intros Hv. rewrite eddm_run_snoc, (eddm_step_ok_fields c _ v Hv).
    cbn [edrift ewarning emax]. repeat split.
  - intros Hv.
    destruct (eddm_stats_batch c (vs ++ [v])) as (Hn & Hk & Hst & _). cbv zeta in Hn, Hk, Hst.
    assert (Hne : gaps (rev (vs ++ [v])) <> []) by (rewrite Hv; apply gaps_snoc_err).
    destruct (Hst Hne) as (Hm & _ & Hs). clear Hst.
    assert (Hthr : emean (eddm_run c (vs ++ [v])) + ed_level c * estd (eddm_run c (vs ++ [v]))
                   = eddm_thr (ed_level c) (gaps (rev (vs ++ [v])))).
    { rewrite Hm, Hs. reflexivity. }
    assert (Hn' : en (eddm_run c (vs ++ [v])) = Z.of_nat (S (length vs))).
    { rewrite Hn, app_length. cbn [length]. f_equal. lia. }
    pose proof (eddm_step_err_rule c (eddm_run c vs) v Hv) as Hrule. cbv zeta in Hrule.
    rewrite <- eddm_run_snoc in Hrule. rewrite Hthr, Hn', Hk in Hrule. exact Hrule.
Qed.
