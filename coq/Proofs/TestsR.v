(** Lemmas about the two-sample test wrappers (Model/Tests.v). *)
From Coq Require Import ZArith List Bool String Permutation Lia Reals Lra.
From FV Require Import NumSys RealA Py KS Tests.
Import ListNotations.
Local Open Scope Z_scope.

(* ====================================================================== *)
(** * Part 1 — forwarding *)

Lemma key_beq_eq : forall a b, key_beq a b = true <-> a = b.
Proof. intros a b; split; [apply internal_key_dec_bl | apply internal_key_dec_lb]. Qed.

Lemma memk_In : forall k l, memk k l = true <-> In k l.
Proof.
  intros k l; unfold memk; rewrite existsb_exists; split.
  - intros [x [Hx He]]. apply key_beq_eq in He; subst; exact Hx.
  - intros H; exists k; split; [exact H | apply key_beq_eq; reflexivity].
Qed.

Lemma existsb_false : forall {X} (f : X -> bool) l, (forall x, In x l -> f x = false) -> existsb f l = false.
Proof.
  intros X f l H. induction l as [|a l IH]; [reflexivity|].
  cbn. rewrite (H a (or_introl eq_refl)). cbn. apply IH. intros x Hx; apply H; right; exact Hx.
Qed.

Lemma clash_false : forall explicit kw acc,
  incl (keys kw) acc -> forallb (fun k => negb (memk k (keys explicit))) acc = true ->
  clash explicit kw = false.
Proof.
  intros explicit kw acc Hi Hf. unfold clash. apply existsb_false. intros k Hk.
  rewrite forallb_forall in Hf. specialize (Hf k (Hi k Hk)). destruct (memk k (keys explicit)); [discriminate|reflexivity].
Qed.

Lemma hop_ok : forall explicit kw acc,
  incl (keys kw) acc -> forallb (fun k => negb (memk k (keys explicit))) acc = true ->
  hop explicit kw = Ok kw.
Proof. intros. unfold hop. rewrite (clash_false explicit kw acc); auto. Qed.

Lemma call_merge_ok : forall explicit kw acc,
  incl (keys kw) acc -> forallb (fun k => negb (memk k (keys explicit))) acc = true ->
  call_merge explicit kw = Ok (explicit ++ kw).
Proof. intros. unfold call_merge. rewrite (clash_false explicit kw acc); auto. Qed.

Lemma unknown_none : forall (params : list key) explicit kw acc,
  incl (keys kw) acc -> forallb (fun k => memk k params) acc = true ->
  forallb (fun k => memk k params) (keys explicit) = true ->
  existsb (fun k => negb (memk k params)) (keys (explicit ++ kw)) = false.
Proof.
  intros params explicit kw acc Hi Ha He. apply existsb_false. intros k Hk.
  unfold keys in Hk. rewrite map_app in Hk. apply in_app_or in Hk.
  rewrite forallb_forall in Ha, He.
  destruct Hk as [Hk|Hk]; [rewrite (He k Hk) | rewrite (Ha k (Hi k Hk))]; reflexivity.
Qed.

(** the five method hops above [_statistical_test] pass [kw] through unchanged *)
Lemma hops_ok : forall w kw acc,
  incl (keys kw) acc -> forallb (fun k => negb (memk k [KX_ref; KX])) acc = true ->
  compare_call w kw = statistical_test w kw.
Proof.
  intros w kw acc Hi Hf. unfold compare_call.
  assert (H1 : hop [(KX, vtest)] kw = Ok kw).
  { apply (hop_ok _ _ acc Hi). rewrite forallb_forall in *. intros k Hk. specialize (Hf k Hk).
    cbn in *. destruct (key_beq k KX_ref), (key_beq k KX); cbn in *; congruence. }
  assert (H2 : hop [(KX_ref, vref); (KX, vtest)] kw = Ok kw) by (apply (hop_ok _ _ acc Hi); exact Hf).
  rewrite H1; cbn [bind]. rewrite H1; cbn [bind]. rewrite H1; cbn [bind].
  rewrite H2; cbn [bind]. rewrite H2; cbn [bind]. reflexivity.
Qed.

Ltac in_cases H := repeat (destruct H as [H|H]; [try (inversion H; subst; clear H)|]); try contradiction.

(** generic step: a SciPy call whose explicit names are disjoint from the user's names
    and whose user names are all parameters binds every parameter *)
Lemma scipy_call_ok : forall f explicit kw acc,
  incl (keys kw) acc ->
  forallb (fun k => negb (memk k (keys explicit))) acc = true ->
  forallb (fun k => memk k (map fst (sig_of f))) acc = true ->
  forallb (fun k => memk k (map fst (sig_of f))) (keys explicit) = true ->
  forallb (fun p => match snd p with Some _ => true | None => memk (fst p) (keys explicit) end) (sig_of f) = true ->
  scipy_call f explicit kw =
  Ok {| c_fn := f;
        c_args := map (fun p => (fst p, match lookup (fst p) (explicit ++ kw) with
                                         | Some v => v
                                         | None => match snd p with Some d => d | None => VNone end
                                         end)) (sig_of f) |}.
Proof.
  intros f explicit kw acc Hi Hd Ha He Hr. unfold scipy_call.
  rewrite (call_merge_ok explicit kw acc Hi Hd). cbn [bind]. unfold bind_sig.
  rewrite (unknown_none _ explicit kw acc Hi Ha He).
  replace (existsb _ (sig_of f)) with false; [reflexivity|].
  symmetry. apply existsb_false. intros p Hp. rewrite forallb_forall in Hr. specialize (Hr p Hp).
  destruct (snd p); [reflexivity|]. apply memk_In in Hr.
  assert (Hl : exists v, lookup (fst p) (explicit ++ kw) = Some v).
  { clear -Hr. induction explicit as [|[k v] r IH]; [destruct Hr|]. cbn.
    destruct (key_beq (fst p) k) eqn:E; [eexists; reflexivity|].
    apply IH. destruct Hr as [Hr|Hr]; [|exact Hr]. cbn in Hr. subst k.
    assert (key_beq (fst p) (fst p) = true) by (apply key_beq_eq; reflexivity). congruence. }
  destruct Hl as [v Hl]; rewrite Hl; reflexivity.
Qed.

Lemma incl_nil_keys : forall kw : kwargs, incl (keys kw) [] -> kw = [].
Proof. intros [|[k v] r] H; [reflexivity|]. exfalso. apply (H k). left; reflexivity. Qed.

(** ---- the dict display {k: d, .., **kw} ---- *)
Lemma lookup_app : forall k a b, lookup k (a ++ b) = match lookup k a with Some v => Some v | None => lookup k b end.
Proof.
  intros k a b. induction a as [|[k' v] r IH]; [reflexivity|]. cbn. destruct (key_beq k k'); [reflexivity|exact IH].
Qed.

Lemma lookup_none_notin : forall k d, lookup k d = None -> ~ In k (keys d).
Proof.
  intros k d. induction d as [|[k' v] r IH]; cbn; [tauto|].
  destruct (key_beq k k') eqn:E; [discriminate|]. intros H [G|G]; [|exact (IH H G)].
  subst. assert (key_beq k k = true) by (apply key_beq_eq; reflexivity). congruence.
Qed.

Lemma lookup_some_in : forall k d v, lookup k d = Some v -> In k (keys d).
Proof.
  intros k d v. induction d as [|[k' v'] r IH]; [discriminate|]. cbn.
  destruct (key_beq k k') eqn:E; [intros _; left; symmetry; apply key_beq_eq; exact E|intros H; right; exact (IH H)].
Qed.

Lemma lookup_filter : forall k ks kw, ~ In k ks ->
  lookup k (filter (fun kv => negb (memk (fst kv) ks)) kw) = lookup k kw.
Proof.
  intros k ks kw Hn. induction kw as [|[k' v] r IH]; [reflexivity|]. cbn [filter fst].
  destruct (memk k' ks) eqn:E; cbn [negb lookup].
  - destruct (key_beq k k') eqn:E2; [|exact IH]. apply key_beq_eq in E2. subst. apply memk_In in E. contradiction.
  - rewrite IH. reflexivity.
Qed.

Lemma lookup_dict_union : forall k d kw,
  lookup k (dict_union d kw) = match lookup k d with Some dv => Some (get kw k dv) | None => lookup k kw end.
Proof.
  intros k d kw. unfold dict_union. rewrite lookup_app.
  assert (H : lookup k (map (fun kd => (fst kd, get kw (fst kd) (snd kd))) d) =
              match lookup k d with Some dv => Some (get kw k dv) | None => None end).
  { induction d as [|[k' v] r IH]; [reflexivity|]. cbn. destruct (key_beq k k') eqn:E; [|exact IH].
    apply key_beq_eq in E. subst. reflexivity. }
  rewrite H. destruct (lookup k d) eqn:E; [reflexivity|]. apply lookup_filter, lookup_none_notin, E.
Qed.

Lemma keys_dict_union : forall d kw acc, incl (keys d) acc -> incl (keys kw) acc -> incl (keys (dict_union d kw)) acc.
Proof.
  intros d kw acc Hd Hk k Hin. unfold dict_union, keys in Hin. rewrite map_app, map_map in Hin.
  apply in_app_or in Hin. destruct Hin as [Hin|Hin].
  - apply Hd. exact Hin.
  - apply Hk. apply in_map_iff in Hin. destruct Hin as [kv [E Hf]]. apply filter_In in Hf.
    unfold keys. apply in_map_iff. exists kv. tauto.
Qed.

Ltac fwd_option kw Hl :=
  cbn; try rewrite Hl; cbn; unfold get; try reflexivity;
  match goal with |- context[lookup ?k kw] => destruct (lookup k kw); reflexivity end.

Opaque dict_union.
Theorem forwarding_ok : forall w kw, kw_ok w kw ->
  exists c, compare_call w kw = Ok c /\ forwarded w kw c.
Proof.
  intros w kw [Hnd Hi]. rewrite (hops_ok w kw (accepted w) Hi) by (destruct w; reflexivity).
  destruct w; unfold statistical_test.
  - (* AD *)
    rewrite (scipy_call_ok _ _ kw (accepted AD) Hi) by reflexivity.
    eexists; split; [reflexivity|]. split; [reflexivity|]. split.
    + intros k v Hin. in_cases Hin. reflexivity.
    + intros k Hin. in_cases Hin; reflexivity.
  - (* BWS: only the two names are forwarded *)
    rewrite (scipy_call_ok _ _ [] [] (incl_refl _)) by reflexivity.
    eexists; split; [reflexivity|]. split; [reflexivity|]. split.
    + intros k v Hin. in_cases Hin; reflexivity.
    + intros k Hin. in_cases Hin; reflexivity.
  - (* CVM *)
    rewrite (scipy_call_ok _ _ kw (accepted CVM) Hi) by reflexivity.
    eexists; split; [reflexivity|]. split; [reflexivity|]. split.
    + intros k v Hin. in_cases Hin; reflexivity.
    + intros k Hin. in_cases Hin; reflexivity.
  - (* MWU: defaults merged into the ** dictionary *)
    pose proof (lookup_dict_union) as Hl.
    assert (Hi' : incl (keys (dict_union [(Kalternative, VStr "two-sided"); (Knan_policy, VStr "raise")] kw)) (accepted MWU)).
    { apply keys_dict_union; [|exact Hi]. intros k Hk. cbn in Hk. cbn. tauto. }
    rewrite (scipy_call_ok _ _ _ (accepted MWU) Hi') by reflexivity.
    eexists; split; [reflexivity|]. split; [reflexivity|]. split.
    + intros k v Hin. in_cases Hin; reflexivity.
    + intros k Hin. in_cases Hin; fwd_option kw Hl.
  - (* Welch *)
    pose proof (lookup_dict_union) as Hl.
    assert (Hi' : incl (keys (dict_union [(Kalternative, VStr "two-sided")] kw)) (accepted Welch)).
    { apply keys_dict_union; [|exact Hi]. intros k Hk. cbn in Hk. cbn. tauto. }
    assert (He : lookup Kequal_var kw = None).
    { destruct (lookup Kequal_var kw) eqn:E; [|reflexivity]. exfalso.
      apply lookup_some_in, Hi in E. cbn in E. intuition discriminate. }
    rewrite (scipy_call_ok _ _ _ (accepted Welch) Hi') by reflexivity.
    eexists; split; [reflexivity|]. split; [reflexivity|]. split.
    + intros k v Hin. in_cases Hin; reflexivity.
    + intros k Hin. in_cases Hin; [cbn; unfold get; rewrite He; reflexivity | fwd_option kw Hl ..].
  - (* Kuiper: no option at all *)
    apply incl_nil_keys in Hi. subst kw.
    eexists; split; [reflexivity|]. split; [reflexivity|]. split.
    + intros k v Hin. in_cases Hin; reflexivity.
    + intros k Hin. in_cases Hin; reflexivity.
  - (* Chi *)
    rewrite (scipy_call_ok _ _ kw (accepted Chi) Hi) by reflexivity.
    eexists; split; [reflexivity|]. split; [reflexivity|]. split.
    + intros k v Hin. in_cases Hin; reflexivity.
    + intros k Hin. in_cases Hin; reflexivity.
Qed.

Transparent dict_union.

(** a name the detector fixes itself is still refused (Welch: equal_var), and unknown names are *)
Lemma forwarding_rejects_fixed :
  compare_call Welch [(Kequal_var, VBool true)] = Raise TypeError /\
  compare_call Kuiper [(Kalternative, VStr "less")] = Raise TypeError /\
  compare_call CVM [(Kother, VInt 1)] = Raise TypeError.
Proof. repeat split; reflexivity. Qed.

(* ====================================================================== *)
(** * Part 2 — ranks *)

Lemma zsum_cons : forall x l, zsum (x :: l) = x + zsum l.
Proof. reflexivity. Qed.

Lemma zsum_app : forall a b, zsum (a ++ b) = zsum a + zsum b.
Proof. induction a as [|x a IH]; intros b; [reflexivity|]. rewrite <- app_comm_cons, !zsum_cons, IH. lia. Qed.

Lemma zsum_perm : forall a b, Permutation a b -> zsum a = zsum b.
Proof. induction 1; rewrite ?zsum_cons; lia. Qed.

Lemma zsum_map_perm : forall {X} (f : X -> Z) a b, Permutation a b -> zsum (map f a) = zsum (map f b).
Proof. intros. apply zsum_perm, Permutation_map; assumption. Qed.

Lemma zsum_map_ext : forall {X} (f g : X -> Z) l, (forall x, In x l -> f x = g x) -> zsum (map f l) = zsum (map g l).
Proof.
  induction l as [|a l IH]; intros H; [reflexivity|]. cbn [map]. rewrite !zsum_cons.
  rewrite (H a (or_introl eq_refl)), IH; [reflexivity|]. intros x Hx; apply H; right; exact Hx.
Qed.

Lemma zsum_map_add : forall {X} (f g : X -> Z) l, zsum (map (fun x => f x + g x) l) = zsum (map f l) + zsum (map g l).
Proof. induction l as [|a l IH]; [reflexivity|]. cbn [map]. rewrite !zsum_cons, IH. lia. Qed.

Lemma zlen_cons : forall {X} (a : X) l, zlen (a :: l) = 1 + zlen l.
Proof. intros. unfold zlen. cbn [List.length]. lia. Qed.

Lemma zsum_map_const : forall {X} (c : Z) (l : list X), zsum (map (fun _ => c) l) = c * zlen l.
Proof.
  induction l as [|a l IH]; [unfold zlen; cbn; lia|].
  cbn [map]. rewrite zsum_cons, zlen_cons, IH. lia.
Qed.

Lemma zlen_app : forall {X} (a b : list X), zlen (a ++ b) = zlen a + zlen b.
Proof. intros. unfold zlen. rewrite app_length. lia. Qed.
Lemma zlen_map : forall {X Y} (f : X -> Y) l, zlen (map f l) = zlen l.
Proof. intros. unfold zlen. rewrite map_length. reflexivity. Qed.
Lemma zlen_perm : forall {X} (a b : list X), Permutation a b -> zlen a = zlen b.
Proof. intros. unfold zlen. rewrite (Permutation_length H). reflexivity. Qed.
Section RankR.
  Context {T : Type} (lt : T -> T -> bool).
  Notation count_lt := (count_lt lt). Notation count_eq := (count_eq lt).
  Notation mr2 := (mr2 lt). Notation eqv := (eqv lt).

  Lemma count_lt_cons : forall z x l, count_lt z (x :: l) = (if lt x z then 1 else 0) + count_lt z l.
  Proof. reflexivity. Qed.
  Lemma count_eq_cons : forall z x l, count_eq z (x :: l) = (if eqv x z then 1 else 0) + count_eq z l.
  Proof. reflexivity. Qed.
  Lemma count_lt_app : forall z a b, count_lt z (a ++ b) = count_lt z a + count_lt z b.
  Proof. intros. unfold Tests.count_lt. rewrite map_app, zsum_app. reflexivity. Qed.
  Lemma count_eq_app : forall z a b, count_eq z (a ++ b) = count_eq z a + count_eq z b.
  Proof. intros. unfold Tests.count_eq. rewrite map_app, zsum_app. reflexivity. Qed.
  Lemma count_lt_perm : forall z a b, Permutation a b -> count_lt z a = count_lt z b.
  Proof. intros. unfold Tests.count_lt. apply zsum_map_perm; assumption. Qed.
  Lemma count_eq_perm : forall z a b, Permutation a b -> count_eq z a = count_eq z b.
  Proof. intros. unfold Tests.count_eq. apply zsum_map_perm; assumption. Qed.
  Lemma mr2_perm : forall z a b, Permutation a b -> mr2 z a = mr2 z b.
  Proof. intros. unfold Tests.mr2. rewrite (count_lt_perm z a b), (count_eq_perm z a b); auto. Qed.
  Lemma mr2_app_comm : forall z a b, mr2 z (a ++ b) = mr2 z (b ++ a).
  Proof. intros. apply mr2_perm, Permutation_app_comm. Qed.

  (** ranks depend on the multiset only: reordering the sample permutes the ranks *)
  Theorem midranks_perm : forall a b, Permutation a b -> Permutation (midranks2 lt a) (midranks2 lt b).
  Proof.
    intros a b H. unfold midranks2.
    rewrite (map_ext_in _ (fun z => mr2 z b)); [apply Permutation_map; exact H|].
    intros z _. apply mr2_perm; exact H.
  Qed.

  (** asymmetry is all the pair-counting identity needs *)
  Hypothesis lt_asym : forall a b, lt a b = true -> lt b a = false.

  Lemma pair_two : forall a b,
    (2 * (if lt b a then 1 else 0) + (if eqv b a then 1 else 0)) +
    (2 * (if lt a b then 1 else 0) + (if eqv a b then 1 else 0)) = 2.
  Proof.
    intros a b. unfold Tests.eqv.
    destruct (lt a b) eqn:E1; destruct (lt b a) eqn:E2; cbn; try lia.
    rewrite (lt_asym _ _ E1) in E2; discriminate.
  Qed.

  Lemma pairs2_one : forall a B,
    (2 * count_lt a B + count_eq a B) +
    zsum (map (fun b => 2 * (if lt a b then 1 else 0) + (if eqv a b then 1 else 0)) B) = 2 * zlen B.
  Proof.
    intros a B. induction B as [|b B IH]; [reflexivity|].
    rewrite count_lt_cons, count_eq_cons, zlen_cons. cbn [map]. rewrite zsum_cons.
    pose proof (pair_two a b). lia.
  Qed.

  Lemma pairs2_cons_r : forall a A B,
    pairs2 lt B (a :: A) =
    zsum (map (fun b => 2 * (if lt a b then 1 else 0) + (if eqv a b then 1 else 0)) B) + pairs2 lt B A.
  Proof.
    intros a A B. unfold pairs2. rewrite <- zsum_map_add. apply zsum_map_ext. intros b _.
    rewrite count_lt_cons, count_eq_cons. lia.
  Qed.

  Lemma pairs2_sym : forall A B, pairs2 lt A B + pairs2 lt B A = 2 * zlen A * zlen B.
  Proof.
    induction A as [|a A IH]; intros B.
    - unfold pairs2.
      rewrite (zsum_map_ext _ (fun _ => 0) B); [rewrite zsum_map_const; unfold zlen; cbn; lia|].
      intros; reflexivity.
    - rewrite pairs2_cons_r. unfold pairs2 at 1. cbn [map]. rewrite zsum_cons.
      fold (pairs2 lt A B). rewrite zlen_cons. pose proof (pairs2_one a B). specialize (IH B). lia.
  Qed.

  Lemma pairs2_self : forall A, pairs2 lt A A = zlen A * zlen A.
  Proof. intros A. pose proof (pairs2_sym A A). lia. Qed.

  (** sum of all midranks of a sample of size N is N(N+1)/2 *)
  Lemma midranks_sum : forall Z, zsum (midranks2 lt Z) = zlen Z * (zlen Z + 1).
  Proof.
    intros Z. unfold midranks2, Tests.mr2.
    rewrite (zsum_map_add (fun z => 2 * count_lt z Z + count_eq z Z) (fun _ => 1)).
    fold (pairs2 lt Z Z). rewrite pairs2_self, zsum_map_const. lia.
  Qed.

  (** SciPy's rank-sum form of U equals the textbook pair count *)
  Theorem mwu_U2_pairs : forall X Y, mwu_U2 lt X Y = pairs2 lt X Y.
  Proof.
    intros X Y. unfold mwu_U2.
    rewrite (zsum_map_ext _ (fun x => (2 * count_lt x X + count_eq x X) + ((2 * count_lt x Y + count_eq x Y) + 1))).
    2:{ intros x _. unfold Tests.mr2. rewrite count_lt_app, count_eq_app. lia. }
    rewrite zsum_map_add. fold (pairs2 lt X X). rewrite pairs2_self.
    rewrite (zsum_map_add (fun x => 2 * count_lt x Y + count_eq x Y) (fun _ => 1)).
    fold (pairs2 lt X Y). rewrite zsum_map_const. lia.
  Qed.

  Theorem mwu_sum : forall X Y, mwu_U2 lt X Y + mwu_U2 lt Y X = 2 * (zlen X * zlen Y).
  Proof. intros. rewrite !mwu_U2_pairs. pose proof (pairs2_sym X Y). lia. Qed.
End RankR.

(** no hypothesis on the order is needed for the invariances of U *)
Section RankInv.
  Context {T T' : Type} (lt : T -> T -> bool) (lt' : T' -> T' -> bool).

  Theorem mwu_perm : forall X X' Y Y', Permutation X X' -> Permutation Y Y' ->
    mwu_U2 lt X Y = mwu_U2 lt X' Y'.
  Proof.
    intros X X' Y Y' HX HY. unfold mwu_U2. rewrite (zlen_perm _ _ HX). f_equal.
    rewrite (zsum_map_perm _ _ _ HX). apply zsum_map_ext. intros x _.
    apply mr2_perm, Permutation_app; assumption.
  Qed.

  Variable f : T -> T'.
  Hypothesis f_mono : forall a b, lt' (f a) (f b) = lt a b.

  Lemma count_lt_map : forall z l, count_lt lt' (f z) (map f l) = count_lt lt z l.
  Proof. intros. unfold count_lt. rewrite map_map. f_equal. apply map_ext. intros; rewrite f_mono; reflexivity. Qed.
  Lemma count_eq_map : forall z l, count_eq lt' (f z) (map f l) = count_eq lt z l.
  Proof. intros. unfold count_eq, eqv. rewrite map_map. f_equal. apply map_ext. intros; rewrite !f_mono; reflexivity. Qed.
  Lemma mr2_map : forall z l, mr2 lt' (f z) (map f l) = mr2 lt z l.
  Proof. intros. unfold mr2. rewrite count_lt_map, count_eq_map. reflexivity. Qed.

  Theorem ranks_monotone : forall Z, midranks2 lt' (map f Z) = midranks2 lt Z.
  Proof. intros Z. unfold midranks2. rewrite map_map. apply map_ext. intros; apply mr2_map. Qed.

  Theorem mwu_monotone : forall X Y, mwu_U2 lt' (map f X) (map f Y) = mwu_U2 lt X Y.
  Proof.
    intros. unfold mwu_U2. rewrite zlen_map, map_map, <- map_app. f_equal. f_equal.
    apply map_ext. intros; apply mr2_map.
  Qed.

  Lemma insert_map : forall x l, insert lt' (f x) (map f l) = map f (insert lt x l).
  Proof.
    intros x l. induction l as [|y r IH]; [reflexivity|]. cbn. rewrite f_mono.
    destruct (lt y x); cbn; [rewrite IH|]; reflexivity.
  Qed.
  Lemma isort_map : forall l, isort lt' (map f l) = map f (isort lt l).
  Proof. unfold isort. induction l as [|x l IH]; [reflexivity|]. cbn [map fold_right]. rewrite IH. apply insert_map. Qed.

  Theorem cvm_monotone : forall X Y, cvm_u4 lt' (map f X) (map f Y) = cvm_u4 lt X Y.
  Proof.
    intros. unfold cvm_u4. rewrite !zlen_map, !isort_map, <- map_app, !map_map.
    f_equal; f_equal; f_equal; apply map_ext; intros; apply mr2_map.
  Qed.
End RankInv.

(** ---- Cramer-von Mises: needs the sort to be canonical, i.e. a total order ---- *)
From Coq Require Import Sorted.

Section SortR.
  Context {T : Type} (lt : T -> T -> bool).
  Hypothesis lt_irrefl : forall a, lt a a = false.
  Hypothesis lt_trans : forall a b c, lt a b = true -> lt b c = true -> lt a c = true.
  Hypothesis lt_total : forall a b, lt a b = false -> lt b a = false -> a = b.

  Let le (a b : T) : Prop := lt b a = false.

  Lemma lt_asym' : forall a b, lt a b = true -> lt b a = false.
  Proof.
    intros a b H. destruct (lt b a) eqn:E; [|reflexivity].
    pose proof (lt_trans _ _ _ H E) as C. rewrite lt_irrefl in C. discriminate.
  Qed.

  Lemma le_trans : forall a b c, le a b -> le b c -> le a c.
  Proof.
    unfold le. intros a b c Hab Hbc. destruct (lt c a) eqn:E; [|reflexivity].
    destruct (lt a b) eqn:E2.
    - pose proof (lt_trans _ _ _ E E2) as C. congruence.
    - pose proof (lt_total _ _ E2 Hab). subst. congruence.
  Qed.

  Lemma insert_perm : forall x l, Permutation (insert lt x l) (x :: l).
  Proof.
    intros x l. induction l as [|y r IH]; [apply Permutation_refl|]. cbn.
    destruct (lt y x); [|apply Permutation_refl].
    eapply perm_trans; [apply perm_skip, IH|apply perm_swap].
  Qed.

  Lemma isort_perm : forall l, Permutation (isort lt l) l.
  Proof.
    unfold isort. induction l as [|x l IH]; [apply Permutation_refl|]. cbn [fold_right].
    eapply perm_trans; [apply insert_perm|apply perm_skip, IH].
  Qed.

  Lemma insert_sorted : forall x l, Sorted le l -> Sorted le (insert lt x l).
  Proof.
    intros x l Hs. induction l as [|y r IH]; [repeat constructor|]. cbn.
    destruct (lt y x) eqn:E.
    - inversion Hs as [|? ? Hr Hh]; subst. constructor; [apply IH; exact Hr|].
      destruct r as [|z r']; cbn.
      + constructor. unfold le. apply lt_asym'; exact E.
      + destruct (lt z x); constructor.
        * inversion Hh; assumption.
        * unfold le. apply lt_asym'; exact E.
    - constructor; [exact Hs|]. constructor. exact E.
  Qed.

  Lemma isort_sorted : forall l, Sorted le (isort lt l).
  Proof. unfold isort. induction l as [|x l IH]; [constructor|]. cbn [fold_right]. apply insert_sorted, IH. Qed.

  Lemma sorted_perm_eq : forall l l', StronglySorted le l -> StronglySorted le l' -> Permutation l l' -> l = l'.
  Proof.
    induction l as [|a r IH]; intros l' Hs Hs' Hp.
    - apply Permutation_nil in Hp. subst; reflexivity.
    - destruct l' as [|a' r']; [apply Permutation_sym, Permutation_nil in Hp; discriminate|].
      inversion Hs as [|? ? Hr Hf]; subst. inversion Hs' as [|? ? Hr' Hf']; subst.
      assert (a = a').
      { assert (Ha : In a (a' :: r')) by (eapply Permutation_in; [exact Hp|left; reflexivity]).
        assert (Ha' : In a' (a :: r)) by (eapply Permutation_in; [apply Permutation_sym, Hp|left; reflexivity]).
        destruct Ha as [Ha|Ha]; [symmetry; exact Ha|]. destruct Ha' as [Ha'|Ha']; [exact Ha'|].
        rewrite Forall_forall in Hf, Hf'. pose proof (Hf _ Ha') as L1. pose proof (Hf' _ Ha) as L2.
        unfold le in L1, L2. apply lt_total; assumption. }
      subst a'. f_equal. apply IH; try assumption. eapply Permutation_cons_inv; exact Hp.
  Qed.

  Theorem isort_canonical : forall l l', Permutation l l' -> isort lt l = isort lt l'.
  Proof.
    intros l l' Hp. apply sorted_perm_eq.
    - apply Sorted_StronglySorted; [exact le_trans | apply isort_sorted].
    - apply Sorted_StronglySorted; [exact le_trans | apply isort_sorted].
    - eapply perm_trans; [apply isort_perm|]. eapply perm_trans; [exact Hp|]. apply Permutation_sym, isort_perm.
  Qed.

  Theorem cvm_perm : forall X X' Y Y', Permutation X X' -> Permutation Y Y' ->
    cvm_u4 lt X Y = cvm_u4 lt X' Y'.
  Proof.
    intros X X' Y Y' HX HY. unfold cvm_u4.
    rewrite (zlen_perm _ _ HX), (zlen_perm _ _ HY), (isort_canonical _ _ HX), (isort_canonical _ _ HY).
    assert (Hm : forall z, mr2 lt z (X ++ Y) = mr2 lt z (X' ++ Y')) by (intros; apply mr2_perm, Permutation_app; assumption).
    f_equal; f_equal; f_equal; apply map_ext; intros; apply Hm.
  Qed.
End SortR.

Theorem cvm_swap : forall {T} (lt : T -> T -> bool) X Y, cvm_u4 lt X Y = cvm_u4 lt Y X.
Proof.
  intros T lt X Y. unfold cvm_u4.
  rewrite (map_ext (fun x => mr2 lt x (X ++ Y)) (fun x => mr2 lt x (Y ++ X))) by (intros; apply mr2_app_comm).
  rewrite (map_ext (fun x => mr2 lt x (X ++ Y)) (fun x => mr2 lt x (Y ++ X))) by (intros; apply mr2_app_comm).
  lia.
Qed.

(** the reported statistic T is a function of u, n, m only *)
Lemma cvm_T_of_u4 : forall {T T'} (lt : T -> T -> bool) (lt' : T' -> T' -> bool) X Y X' Y',
  zlen X = zlen X' -> zlen Y = zlen Y' -> cvm_u4 lt X Y = cvm_u4 lt' X' Y' -> cvm_T_frac lt X Y = cvm_T_frac lt' X' Y'.
Proof. intros. unfold cvm_T_frac. rewrite H, H0, H1. reflexivity. Qed.

Theorem cvm_T_swap : forall {T} (lt : T -> T -> bool) X Y, cvm_T_frac lt X Y = cvm_T_frac lt Y X.
Proof.
  intros. unfold cvm_T_frac. rewrite (cvm_swap lt X Y).
  rewrite (Z.mul_comm (zlen X) (zlen Y)), (Z.add_comm (zlen X) (zlen Y)). reflexivity.
Qed.

(** ---- the order of R ---- *)
Lemma Rltb_irrefl : forall a, Rltb a a = false.
Proof. intros. apply Rltb_false. lra. Qed.
Lemma Rltb_trans : forall a b c, Rltb a b = true -> Rltb b c = true -> Rltb a c = true.
Proof. intros a b c H1 H2. apply Rltb_true in H1, H2. apply Rltb_true. lra. Qed.
Lemma Rltb_total : forall a b, Rltb a b = false -> Rltb b a = false -> a = b.
Proof. intros a b H1 H2. apply Rltb_false in H1, H2. lra. Qed.
Lemma Rltb_asym : forall a b, Rltb a b = true -> Rltb b a = false.
Proof. intros a b H. apply Rltb_true in H. apply Rltb_false. lra. Qed.

Definition strictly_increasing (f : R -> R) : Prop := forall a b, (a < b)%R -> (f a < f b)%R.

Lemma increasing_reflects : forall f, strictly_increasing f -> forall a b, Rltb (f a) (f b) = Rltb a b.
Proof.
  intros f Hf a b. destruct (Rltb a b) eqn:E.
  - apply Rltb_true in E. apply Rltb_true. apply Hf; exact E.
  - apply Rltb_false in E. apply Rltb_false. destruct E as [E|E]; [left; apply Hf; exact E|right; subst; reflexivity].
Qed.

(* ====================================================================== *)
(** * Welch t over R *)
Local Open Scope R_scope.

Fixpoint Rsuml (l : list R) : R := match l with [] => 0 | x :: r => x + Rsuml r end.

Lemma fold_left_Rplus : forall l a, fold_left Rplus l a = a + Rsuml l.
Proof. induction l as [|x l IH]; intros a; cbn; [lra|]. rewrite IH. lra. Qed.

Lemma sumA_R : forall l : list R, sumA (A:=RealA) l = Rsuml l.
Proof. intros. unfold sumA. cbn. rewrite fold_left_Rplus. unfold zero; cbn. lra. Qed.

Lemma Rsuml_perm : forall a b, Permutation a b -> Rsuml a = Rsuml b.
Proof. induction 1; cbn; lra. Qed.

Lemma sumA_perm : forall a b : list R, Permutation a b -> sumA (A:=RealA) a = sumA (A:=RealA) b.
Proof. intros. rewrite !sumA_R. apply Rsuml_perm; assumption. Qed.

Lemma lenA_perm : forall a b : list R, Permutation a b -> lenA (A:=RealA) a = lenA (A:=RealA) b.
Proof. intros. unfold lenA. rewrite (zlen_perm (X:=num RealA) _ _ H). reflexivity. Qed.

Lemma meanA_perm : forall a b : list R, Permutation a b -> meanA (A:=RealA) a = meanA (A:=RealA) b.
Proof. intros. unfold meanA. rewrite (sumA_perm _ _ H), (lenA_perm _ _ H). reflexivity. Qed.

Lemma var1A_perm : forall a b : list R, Permutation a b -> var1A (A:=RealA) a = var1A (A:=RealA) b.
Proof.
  intros a b H. unfold var1A. rewrite (meanA_perm _ _ H), (zlen_perm (X:=num RealA) _ _ H).
  rewrite (sumA_perm _ _ (Permutation_map _ H)). reflexivity.
Qed.

Theorem welch_t_perm : forall X X' Y Y' : list R, Permutation X X' -> Permutation Y Y' ->
  welch_t (A:=RealA) X Y = welch_t (A:=RealA) X' Y'.
Proof.
  intros X X' Y Y' HX HY. unfold welch_t.
  rewrite (meanA_perm _ _ HX), (meanA_perm _ _ HY), (var1A_perm _ _ HX), (var1A_perm _ _ HY),
          (lenA_perm _ _ HX), (lenA_perm _ _ HY). reflexivity.
Qed.

Theorem welch_t_swap : forall X Y : list R, welch_t (A:=RealA) X Y = - welch_t (A:=RealA) Y X.
Proof.
  intros X Y. unfold welch_t. cbn [add sub div sqrt RealA num].
  rewrite (Rplus_comm (var1A Y / lenA Y)). unfold Rdiv. ring.
Qed.

(* ====================================================================== *)
(** * chi-square *)
Local Open Scope Z_scope.

Lemma existsb_perm : forall {X} (f : X -> bool) a b, Permutation a b -> existsb f a = existsb f b.
Proof.
  induction 1; cbn; try congruence.
  destruct (f x), (f y); reflexivity.
Qed.

Theorem chi2_stat_perm : forall (cellf : R -> R -> R) corr cols cols', Permutation cols cols' ->
  chi2_stat (A:=RealA) cellf corr cols = chi2_stat (A:=RealA) cellf corr cols'.
Proof.
  intros cellf corr cols cols' H. unfold chi2_stat.
  rewrite (zsum_map_perm fst _ _ H), (zsum_map_perm snd _ _ H), (zlen_perm _ _ H).
  destruct cols as [|c cols]; destruct cols' as [|c' cols'].
  - reflexivity.
  - apply Permutation_nil in H; discriminate.
  - apply Permutation_sym, Permutation_nil in H; discriminate.
  - rewrite (existsb_perm _ _ _ H). rewrite (sumA_perm _ _ (Permutation_map _ H)). reflexivity.
Qed.

Definition swap2 (c : Z * Z) : Z * Z := (snd c, fst c).

Lemma existsb_map_ext : forall {X Y} (f' : Y -> bool) (f : X -> bool) (g : X -> Y) l,
  (forall x, f' (g x) = f x) -> existsb f' (map g l) = existsb f l.
Proof. intros X Y f' f g l H. induction l as [|a l IH]; [reflexivity|]. cbn. rewrite H, IH. reflexivity. Qed.

(** rows (test, reference) or (reference, test): same statistic *)
Theorem chi2_row_swap : forall (cellf : R -> R -> R) corr cols,
  chi2_stat (A:=RealA) cellf corr (map swap2 cols) = chi2_stat (A:=RealA) cellf corr cols.
Proof.
  intros cellf corr cols. unfold chi2_stat.
  rewrite !map_map. cbn [swap2 fst snd]. rewrite zlen_map.
  change (map (fun x => snd x) cols) with (map snd cols). change (map (fun x => fst x) cols) with (map fst cols).
  rewrite (Z.add_comm (zsum (map snd cols)) (zsum (map fst cols))).
  destruct cols as [|c0 cols0]; [reflexivity|].
  change (map swap2 (c0 :: cols0)) with (swap2 c0 :: map swap2 cols0).
  cbv iota. change (swap2 c0 :: map swap2 cols0) with (map swap2 (c0 :: cols0)).
  generalize (c0 :: cols0) as cols. intros cols.
  rewrite (existsb_map_ext _ (fun c : Z * Z =>
     orb (@eqb RealA (@div RealA (@ofZ RealA (zsum (map fst cols) * (fst c + snd c))) (@ofZ RealA (zsum (map fst cols) + zsum (map snd cols)))) (@zero RealA))
         (@eqb RealA (@div RealA (@ofZ RealA (zsum (map snd cols) * (fst c + snd c))) (@ofZ RealA (zsum (map fst cols) + zsum (map snd cols)))) (@zero RealA))) swap2).
  2:{ intros c. cbn [swap2 fst snd]. rewrite (Z.add_comm (snd c) (fst c)). apply orb_comm. }
  destruct (existsb _ cols); [reflexivity|].
  destruct (zlen cols - 1 =? 0); [reflexivity|].
  f_equal. f_equal. apply map_ext. intros c. cbn [swap2 fst snd].
  rewrite (Z.add_comm (snd c) (fst c)). cbn [add RealA]. apply Rplus_comm.
Qed.

(** ---- the contingency table ---- *)
Section TableR.
  Context {C : Type} (ceq : C -> C -> bool).
  Hypothesis ceq_spec : forall a b, ceq a b = true <-> a = b.

  Lemma chi_table_map : forall pv Xref X,
    chi_table ceq pv Xref X = map (fun v => (countc ceq v X, countc ceq v Xref)) pv.
  Proof.
    intros. unfold chi_table, frequencies. cbn [fst snd].
    induction pv as [|v pv IH]; [reflexivity|]. cbn [map combine]. rewrite IH. reflexivity.
  Qed.

  Lemma countc_perm : forall c a b, Permutation a b -> countc ceq c a = countc ceq c b.
  Proof. intros. unfold countc. apply zsum_map_perm; assumption. Qed.

  (** zero-filling: a category absent from a sample gets count 0; present ones a positive count *)
  Lemma countc_absent : forall c l, ~ In c l -> countc ceq c l = 0.
  Proof.
    intros c l. unfold countc. induction l as [|x l IH]; intros H; [reflexivity|].
    cbn [map]. rewrite zsum_cons, IH by (intros G; apply H; right; exact G).
    destruct (ceq x c) eqn:E; [|reflexivity]. apply ceq_spec in E. subst. exfalso; apply H; left; reflexivity.
  Qed.
  Lemma countc_nonneg : forall c l, 0 <= countc ceq c l.
  Proof.
    intros c l. unfold countc. induction l as [|x l IH]; [cbn; lia|]. cbn [map]. rewrite zsum_cons.
    destruct (ceq x c); lia.
  Qed.
  Lemma countc_present : forall c l, In c l -> 0 < countc ceq c l.
  Proof.
    intros c l. unfold countc. induction l as [|x l IH]; intros H; [destruct H|].
    cbn [map]. rewrite zsum_cons. pose proof (countc_nonneg c l) as Hn. unfold countc in Hn.
    destruct H as [H|H].
    - subst. replace (ceq c c) with true by (symmetry; apply ceq_spec; reflexivity). lia.
    - specialize (IH H). destruct (ceq x c); lia.
  Qed.

  (** column sums are positive and the row sums are the sample sizes: the table SciPy receives is valid *)
  Lemma table_rows : forall pv Xref X, set_contract pv Xref X ->
    zsum (map fst (chi_table ceq pv Xref X)) = zlen X /\ zsum (map snd (chi_table ceq pv Xref X)) = zlen Xref.
  Proof.
    intros pv Xref X [Hnd Hin]. rewrite chi_table_map, !map_map. cbn [fst snd].
    assert (G : forall L, (forall c, In c L -> In c pv) -> zsum (map (fun v => countc ceq v L) pv) = zlen L).
    { clear Hin. intros L. revert pv Hnd. induction L as [|x L IH]; intros pv Hnd HL.
      - unfold countc. cbn [map]. rewrite (zsum_map_ext _ (fun _ => 0)) by reflexivity. rewrite zsum_map_const. unfold zlen; cbn; lia.
      - rewrite zlen_cons, <- (IH pv Hnd) by (intros c Hc; apply HL; right; exact Hc).
        unfold countc. cbn [map].
        rewrite (zsum_map_ext _ (fun v => (if ceq x v then 1 else 0) + zsum (map (fun x0 => if ceq x0 v then 1 else 0) L)))
          by (intros; rewrite zsum_cons; reflexivity).
        rewrite zsum_map_add. f_equal.
        (* exactly one v in pv equals x *)
        assert (Hx : In x pv) by (apply HL; left; reflexivity).
        clear HL IH. induction pv as [|v pv IHp]; [destruct Hx|].
        cbn [map]. rewrite zsum_cons. inversion Hnd as [|? ? Hni Hnd']; subst.
        destruct Hx as [Hx|Hx].
        + subst v. replace (ceq x x) with true by (symmetry; apply ceq_spec; reflexivity).
          rewrite (zsum_map_ext _ (fun _ => 0)); [rewrite zsum_map_const; lia|].
          intros v Hv. destruct (ceq x v) eqn:E; [|reflexivity]. apply ceq_spec in E. subst. contradiction.
        + rewrite (IHp Hnd' Hx). destruct (ceq x v) eqn:E; [|lia]. apply ceq_spec in E. subst. contradiction. }
    split; apply G; intros c Hc; apply Hin; [right|left]; exact Hc.
  Qed.

  Theorem chi2_table_perm : forall (pv pv' Xref X : list C), Permutation pv pv' ->
    Permutation (chi_table ceq pv Xref X) (chi_table ceq pv' Xref X).
  Proof. intros. rewrite !chi_table_map. apply Permutation_map; assumption. Qed.

  Theorem chi2_table_sample_order : forall (pv Xref Xref' X X' : list C), Permutation Xref Xref' -> Permutation X X' ->
    chi_table ceq pv Xref X = chi_table ceq pv Xref' X'.
  Proof.
    intros pv Xref Xref' X X' H1 H2. rewrite !chi_table_map. apply map_ext. intros v.
    rewrite (countc_perm v _ _ H1), (countc_perm v _ _ H2). reflexivity.
  Qed.

  (** any two iteration orders Python's set may produce are permutations of one another *)
  Lemma set_contract_perm : forall (pv pv' Xref X : list C), set_contract pv Xref X -> set_contract pv' Xref X -> Permutation pv pv'.
  Proof.
    intros pv pv' Xref X [N1 I1] [N2 I2]. apply NoDup_Permutation; try assumption.
    intros c. rewrite I1, I2. reflexivity.
  Qed.
End TableR.

Section Relabel.
  Context {C C' : Type} (ceq : C -> C -> bool) (ceq' : C' -> C' -> bool).
  Hypothesis ceq_spec : forall a b, ceq a b = true <-> a = b.
  Hypothesis ceq'_spec : forall a b, ceq' a b = true <-> a = b.
  Variable f : C -> C'.
  Hypothesis f_inj : forall a b, f a = f b -> a = b.

  Lemma countc_map : forall c l, countc ceq' (f c) (map f l) = countc ceq c l.
  Proof.
    intros c l. unfold countc. rewrite map_map. f_equal. apply map_ext. intros x.
    destruct (ceq x c) eqn:E.
    - apply ceq_spec in E. subst. replace (ceq' (f c) (f c)) with true by (symmetry; apply ceq'_spec; reflexivity). reflexivity.
    - destruct (ceq' (f x) (f c)) eqn:E'; [|reflexivity]. apply ceq'_spec, f_inj in E'. subst.
      assert (ceq c c = true) by (apply ceq_spec; reflexivity). congruence.
  Qed.

  Theorem chi2_table_relabel : forall pv pv' Xref X,
    set_contract pv Xref X -> set_contract pv' (map f Xref) (map f X) ->
    Permutation (chi_table ceq' pv' (map f Xref) (map f X)) (chi_table ceq pv Xref X).
  Proof.
    intros pv pv' Xref X [N1 I1] [N2 I2].
    assert (Hp : Permutation pv' (map f pv)).
    { apply NoDup_Permutation; [exact N2 | apply FinFun.Injective_map_NoDup; [exact f_inj | exact N1] |].
      intros c'. rewrite I2, !in_map_iff. split.
      - intros [[c [E H]]|[c [E H]]]; exists c; (split; [exact E|]); apply I1; [left|right]; exact H.
      - intros [c [E H]]. apply I1 in H. destruct H as [H|H]; [left|right]; exists c; split; assumption. }
    rewrite (chi_table_map ceq'), (chi_table_map ceq).
    eapply perm_trans; [apply Permutation_map; exact Hp|].
    rewrite map_map. erewrite map_ext; [apply Permutation_refl|].
    intros v. cbn. rewrite !countc_map. reflexivity.
  Qed.
End Relabel.

(** ---- consequences for the statistic (over R, any power-divergence term) ---- *)
Theorem chi2_order_irrelevant : forall {C} (ceq : C -> C -> bool) (cellf : R -> R -> R) corr pv pv' Xref X,
  set_contract pv Xref X -> set_contract pv' Xref X ->
  chi2_stat (A:=RealA) cellf corr (chi_table ceq pv Xref X) = chi2_stat (A:=RealA) cellf corr (chi_table ceq pv' Xref X).
Proof.
  intros. apply chi2_stat_perm. rewrite !chi_table_map. apply Permutation_map.
  eapply set_contract_perm; eassumption.
Qed.

Theorem chi2_relabel_invariant : forall {C C'} (ceq : C -> C -> bool) (ceq' : C' -> C' -> bool)
  (ceq_spec : forall a b, ceq a b = true <-> a = b) (ceq'_spec : forall a b, ceq' a b = true <-> a = b)
  (f : C -> C') (f_inj : forall a b, f a = f b -> a = b) (cellf : R -> R -> R) corr pv pv' Xref X,
  set_contract pv Xref X -> set_contract pv' (map f Xref) (map f X) ->
  chi2_stat (A:=RealA) cellf corr (chi_table ceq' pv' (map f Xref) (map f X)) =
  chi2_stat (A:=RealA) cellf corr (chi_table ceq pv Xref X).
Proof. intros. apply chi2_stat_perm. eapply chi2_table_relabel; eassumption. Qed.

(* ====================================================================== *)
(** * Part 3 — Kuiper: the guard and the clip of the repaired code *)
From Coq Require Import PrimFloat SpecFloat FloatOps FloatAxioms.
From FV Require Import FloatA.

(** for every number system: at or below 1/N the answer is exactly 1 — the power with the
    non-positive base (D - 1/N) ** (N - 1) is never evaluated *)
Theorem kuiper_guard : forall (A : Arith) (D : num A) (n m : Z),
  NumSys.leb D (NumSys.div NumSys.one (NumSys.div (NumSys.ofZ (n * m)) (NumSys.ofZ (n + m)))) = true ->
  kuiper_fpp D n m = NumSys.one.
Proof. intros A D n m H. unfold kuiper_fpp. cbv zeta. rewrite H. reflexivity. Qed.

(** over R: once the guard fails, the base of the first-branch power is positive *)
Theorem kuiper_guard_base_R : forall D N : R,
  @NumSys.leb RealA D (@NumSys.div RealA NumSys.one N) = false ->
  @NumSys.ltb RealA NumSys.zero (@NumSys.sub RealA D (@NumSys.div RealA NumSys.one N)) = true.
Proof.
  intros D N H. unfold NumSys.zero, NumSys.one in *. cbn in *. apply Rleb_false in H. apply Rltb_true. lra.
Qed.

Theorem clip01_valid_R : forall p : R, p_valid (A:=RealA) (clip01 (A:=RealA) p) = true.
Proof.
  intros p. unfold p_valid, clip01, NumSys.zero, NumSys.one. cbn.
  destruct (Rltb p 0) eqn:E1; [|destruct (Rltb 1 p) eqn:E2].
  - apply andb_true_intro; split; apply Rleb_true; lra.
  - apply andb_true_intro; split; apply Rleb_true; lra.
  - apply Rltb_false in E1, E2. apply andb_true_intro; split; apply Rleb_true; lra.
Qed.

(** binary64: comparison of specification floats is antisymmetric *)
Lemma SFcompare_antisym : forall x y, SFcompare y x = option_map CompOpp (SFcompare x y).
Proof.
  intros x y. destruct x as [sx|sx| |sx mx ex], y as [sy|sy| |sy my ey]; cbn; try reflexivity;
    try (destruct sx; reflexivity); try (destruct sy; reflexivity); try (destruct sx, sy; reflexivity).
  destruct sx, sy; cbn; try reflexivity; rewrite (Z.compare_antisym ex ey);
    destruct (ex ?= ey)%Z; cbn; try reflexivity.
  - rewrite (Pos.compare_cont_antisym mx my Eq). cbn. reflexivity.
  - rewrite (Pos.compare_cont_antisym mx my Eq). reflexivity.
Qed.

Lemma SFcompare_some : forall x y, x <> S754_nan -> y <> S754_nan -> SFcompare x y <> None.
Proof. intros x y Hx Hy. destruct x, y; cbn; congruence. Qed.

Lemma SF_not_lt_le : forall x y, SFcompare x y <> None -> SFltb x y = false -> SFleb y x = true.
Proof.
  intros x y Hc Hl. unfold SFltb in Hl. unfold SFleb. rewrite (SFcompare_antisym x y).
  destruct (SFcompare x y) as [[| |]|]; cbn in *; congruence.
Qed.

(** np.clip(p, 0, 1) of any binary64 value that is not NaN lies in [0, 1] *)
Theorem clip01_valid : forall p : float, PrimFloat.is_nan p = false ->
  p_valid (A:=FloatA) (clip01 (A:=FloatA) p) = true.
Proof.
  intros p Hn. unfold clip01, p_valid.
  change (@NumSys.zero FloatA) with 0%float. change (@NumSys.one FloatA) with 1%float.
  cbn [NumSys.ltb NumSys.leb FloatA].
  destruct (PrimFloat.ltb p 0) eqn:E1; [vm_compute; reflexivity|].
  destruct (PrimFloat.ltb 1 p) eqn:E2; [vm_compute; reflexivity|].
  unfold PrimFloat.is_nan in Hn. apply negb_false_iff in Hn.
  rewrite eqb_spec in Hn. rewrite ltb_spec in E1, E2. rewrite !leb_spec.
  assert (H0 : Prim2SF 0 <> S754_nan) by (vm_compute; discriminate).
  assert (H1 : Prim2SF 1 <> S754_nan) by (vm_compute; discriminate).
  assert (Hp : Prim2SF p <> S754_nan) by (intros E; rewrite E in Hn; discriminate).
  apply andb_true_intro; split; apply SF_not_lt_le; try assumption; apply SFcompare_some; assumption.
Qed.

(** _kuiper's p-value: whenever the series value is not NaN, the returned p is in [0,1] *)
Theorem kuiper_p_valid : forall X Y : list float,
  PrimFloat.is_nan (kuiper_fpp (A:=FloatA) (kuiper_stat (A:=FloatA) X Y) (zlen X) (zlen Y)) = false ->
  p_valid (A:=FloatA) (kuiper_p (A:=FloatA) X Y) = true.
Proof. intros X Y H. unfold kuiper_p. apply clip01_valid, H. Qed.

Local Open Scope float_scope.
(** the inputs on which the code before the repair returned NaN, 1.5 and -0.0047 *)
Theorem kuiper_p_former_witnesses :
  kuiper_p (A:=FloatA) [1; 2; 3] [0x1.8p+0; 0x1.4p+1; 0x1.cp+1] = 1 /\
  kuiper_p (A:=FloatA) [1; 3; 5; 7] [2; 4; 6; 8] = 1 /\
  kuiper_p (A:=FloatA) [1; 2; 3; 4; 5] [6; 7; 8; 9; 10; 11; 12; 13] = 0 /\
  kuiper_p (A:=FloatA) [1; 2; 3] [1; 2; 3] = 1.
Proof. vm_compute. repeat split; reflexivity. Qed.

(** O2: the reported statistic is the KS distance D, which differs from Kuiper's V = D+ + D- *)
Theorem kuiper_stat_is_not_V : exists X Y : list float,
  ks_H (A:=FloatA) X Y = ks_DH PrimFloat.ltb X Y /\ ks_H (A:=FloatA) X Y <> kuiper_VH PrimFloat.ltb X Y.
Proof. exists [1; 4], [2; 3]. vm_compute. split; [reflexivity|discriminate]. Qed.
