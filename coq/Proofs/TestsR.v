(** Lemmas about the two-sample test wrappers (Model/Tests.v). *)
From Coq Require Import ZArith List Bool String Permutation Lia Reals Lra.
From FV Require Import NumSys RealA Py KS Tests.
Import ListNotations.
Local Open Scope Z_scope.

(* ====================================================================== *)
(** * Part 1 — forwarding *)

Lemma key_beq_eq : forall a b, key_beq a b = true <-> a = b.
Proof. intros a b; split; [apply internal_key_dec_bl | apply internal_key_dec_lb]. Qed.

Lemma memk_In : forall k l, memk k l = true <-> In k l.
Proof.
  intros k l; unfold memk; rewrite existsb_exists; split.
  - intros [x [Hx He]]. apply key_beq_eq in He; subst; exact Hx.
  - intros H; exists k; split; [exact H | apply key_beq_eq; reflexivity].
Qed.

Lemma existsb_false : forall {X} (f : X -> bool) l, (forall x, In x l -> f x = false) -> existsb f l = false.
Proof.
  intros X f l H. induction l as [|a l IH]; [reflexivity|].
  cbn. rewrite (H a (or_introl eq_refl)). cbn. apply IH. intros x Hx; apply H; right; exact Hx.
Qed.

Lemma clash_false : forall explicit kw acc,
  incl (keys kw) acc -> forallb (fun k => negb (memk k (keys explicit))) acc = true ->
  clash explicit kw = false.
Proof.
  intros explicit kw acc Hi Hf. unfold clash. apply existsb_false. intros k Hk.
  rewrite forallb_forall in Hf. specialize (Hf k (Hi k Hk)). destruct (memk k (keys explicit)); [discriminate|reflexivity].
Qed.

Lemma hop_ok : forall explicit kw acc,
  incl (keys kw) acc -> forallb (fun k => negb (memk k (keys explicit))) acc = true ->
  hop explicit kw = Ok kw.
Proof. intros. unfold hop. rewrite (clash_false explicit kw acc); auto. Qed.

Lemma call_merge_ok : forall explicit kw acc,
  incl (keys kw) acc -> forallb (fun k => negb (memk k (keys explicit))) acc = true ->
  call_merge explicit kw = Ok (explicit ++ kw).
Proof. intros. unfold call_merge. rewrite (clash_false explicit kw acc); auto. Qed.

Lemma unknown_none : forall (params : list key) explicit kw acc,
  incl (keys kw) acc -> forallb (fun k => memk k params) acc = true ->
  forallb (fun k => memk k params) (keys explicit) = true ->
  existsb (fun k => negb (memk k params)) (keys (explicit ++ kw)) = false.
Proof.
  intros params explicit kw acc Hi Ha He. apply existsb_false. intros k Hk.
  unfold keys in Hk. rewrite map_app in Hk. apply in_app_or in Hk.
  rewrite forallb_forall in Ha, He.
  destruct Hk as [Hk|Hk]; [rewrite (He k Hk) | rewrite (Ha k (Hi k Hk))]; reflexivity.
Qed.

(** the five method hops above [_statistical_test] pass [kw] through unchanged *)
Lemma hops_ok : forall w kw acc,
  incl (keys kw) acc -> forallb (fun k => negb (memk k [KX_ref; KX])) acc = true ->
  compare_call w kw = statistical_test w kw.
Proof.
  intros w kw acc Hi Hf. unfold compare_call.
  assert (H1 : hop [(KX, vtest)] kw = Ok kw).
  { apply (hop_ok _ _ acc Hi). rewrite forallb_forall in *. intros k Hk. specialize (Hf k Hk).
    cbn in *. destruct (key_beq k KX_ref), (key_beq k KX); cbn in *; congruence. }
  assert (H2 : hop [(KX_ref, vref); (KX, vtest)] kw = Ok kw) by (apply (hop_ok _ _ acc Hi); exact Hf).
  rewrite H1; cbn [bind]. rewrite H1; cbn [bind]. rewrite H1; cbn [bind].
  rewrite H2; cbn [bind]. rewrite H2; cbn [bind]. reflexivity.
Qed.

Ltac in_cases H := repeat (destruct H as [H|H]; [try (inversion H; subst; clear H)|]); try contradiction.

(** generic step: a SciPy call whose explicit names are disjoint from the user's names
    and whose user names are all parameters binds every parameter *)
Lemma scipy_call_ok : forall f explicit kw acc,
  incl (keys kw) acc ->
  forallb (fun k => negb (memk k (keys explicit))) acc = true ->
  forallb (fun k => memk k (map fst (sig_of f))) acc = true ->
  forallb (fun k => memk k (map fst (sig_of f))) (keys explicit) = true ->
  forallb (fun p => match snd p with Some _ => true | None => memk (fst p) (keys explicit) end) (sig_of f) = true ->
  scipy_call f explicit kw =
  Ok {| c_fn := f;
        c_args := map (fun p => (fst p, match lookup (fst p) (explicit ++ kw) with
                                         | Some v => v
                                         | None => match snd p with Some d => d | None => VNone end
                                         end)) (sig_of f) |}.
Proof.
  intros f explicit kw acc Hi Hd Ha He Hr. unfold scipy_call.
  rewrite (call_merge_ok explicit kw acc Hi Hd). cbn [bind]. unfold bind_sig.
  rewrite (unknown_none _ explicit kw acc Hi Ha He).
  replace (existsb _ (sig_of f)) with false; [reflexivity|].
  symmetry. apply existsb_false. intros p Hp. rewrite forallb_forall in Hr. specialize (Hr p Hp).
  destruct (snd p); [reflexivity|]. apply memk_In in Hr.
  assert (Hl : exists v, lookup (fst p) (explicit ++ kw) = Some v).
  { clear -Hr. induction explicit as [|[k v] r IH]; [destruct Hr|]. cbn.
    destruct (key_beq (fst p) k) eqn:E; [eexists; reflexivity|].
    apply IH. destruct Hr as [Hr|Hr]; [|exact Hr]. cbn in Hr. subst k.
    assert (key_beq (fst p) (fst p) = true) by (apply key_beq_eq; reflexivity). congruence. }
  destruct Hl as [v Hl]; rewrite Hl; reflexivity.
Qed.

Definition sound_wrapper (w : wrapper) : bool :=
  match w with MWU | Welch => false | _ => true end.

Lemma incl_nil_keys : forall kw : kwargs, incl (keys kw) [] -> kw = [].
Proof. intros [|[k v] r] H; [reflexivity|]. exfalso. apply (H k). left; reflexivity. Qed.

Theorem forwarding_ok : forall w kw, sound_wrapper w = true -> kw_ok w kw ->
  exists c, compare_call w kw = Ok c /\ forwarded w kw c.
Proof.
  intros w kw Hs [Hnd Hi]. rewrite (hops_ok w kw (accepted w) Hi) by (destruct w; reflexivity).
  destruct w; try discriminate; unfold statistical_test.
  - (* AD *)
    rewrite (scipy_call_ok _ _ kw (accepted AD) Hi) by reflexivity.
    eexists; split; [reflexivity|]. split; [reflexivity|]. split.
    + intros k v Hin. in_cases Hin. reflexivity.
    + intros k Hin. in_cases Hin; reflexivity.
  - (* BWS: only the two names are forwarded *)
    rewrite (scipy_call_ok _ _ [] [] (incl_refl _)) by reflexivity.
    eexists; split; [reflexivity|]. split; [reflexivity|]. split.
    + intros k v Hin. in_cases Hin; reflexivity.
    + intros k Hin. in_cases Hin; reflexivity.
  - (* CVM *)
    rewrite (scipy_call_ok _ _ kw (accepted CVM) Hi) by reflexivity.
    eexists; split; [reflexivity|]. split; [reflexivity|]. split.
    + intros k v Hin. in_cases Hin; reflexivity.
    + intros k Hin. in_cases Hin; reflexivity.
  - (* Kuiper: no option at all *)
    apply incl_nil_keys in Hi. subst kw.
    eexists; split; [reflexivity|]. split; [reflexivity|]. split.
    + intros k v Hin. in_cases Hin; reflexivity.
    + intros k Hin. in_cases Hin; reflexivity.
  - (* Chi *)
    rewrite (scipy_call_ok _ _ kw (accepted Chi) Hi) by reflexivity.
    eexists; split; [reflexivity|]. split; [reflexivity|]. split.
    + intros k v Hin. in_cases Hin; reflexivity.
    + intros k Hin. in_cases Hin; reflexivity.
Qed.

(** ---- Mann-Whitney and Welch: a name passed explicitly and through ** ---- *)
Definition twice (w : wrapper) : list key :=
  match w with MWU => [Kalternative; Knan_policy] | Welch => [Kalternative] | _ => [] end.

Lemma clash_true : forall explicit kw k, In k (keys kw) -> In k (keys explicit) -> clash explicit kw = true.
Proof.
  intros explicit kw k Hk He. unfold clash. apply existsb_exists. exists k; split; [exact Hk|].
  apply memk_In; exact He.
Qed.

Lemma incl_remove : forall (l acc rm : list key),
  incl l acc -> (forall k, In k rm -> ~ In k l) ->
  incl l (filter (fun k => negb (memk k rm)) acc).
Proof.
  intros l acc rm Hi Hn k Hk. apply filter_In; split; [apply Hi; exact Hk|].
  destruct (memk k rm) eqn:E; [|reflexivity]. apply memk_In in E. exfalso; exact (Hn k E Hk).
Qed.

Theorem forwarding_twice : forall w kw, sound_wrapper w = false -> kw_ok w kw ->
  ((exists k, In k (twice w) /\ In k (keys kw)) -> compare_call w kw = Raise TypeError) /\
  ((forall k, In k (twice w) -> ~ In k (keys kw)) -> exists c, compare_call w kw = Ok c /\ forwarded w kw c).
Proof.
  intros w kw Hs [Hnd Hi]. rewrite (hops_ok w kw (accepted w) Hi) by (destruct w; reflexivity).
  destruct w; try discriminate; unfold statistical_test; split.
  - (* MWU, clash *)
    intros [k [Hk Hin]]. unfold scipy_call, call_merge.
    rewrite (clash_true _ kw k Hin); [reflexivity|]. cbn in Hk. cbn. tauto.
  - intros Hn. pose proof (incl_remove _ _ (twice MWU) Hi Hn) as Hi'. cbn in Hi'.
    rewrite (scipy_call_ok _ _ kw _ Hi') by reflexivity.
    assert (Ha : lookup Kalternative kw = None /\ lookup Knan_policy kw = None).
    { assert (G : forall k, ~ In k (keys kw) -> lookup k kw = None).
      { clear. intros k. induction kw as [|[k' v] r IH]; [reflexivity|]. cbn. intros H.
        destruct (key_beq k k') eqn:E; [apply key_beq_eq in E; subst; tauto|]. apply IH; tauto. }
      split; apply G, Hn; cbn; tauto. }
    destruct Ha as [Ha1 Ha2].
    eexists; split; [reflexivity|]. split; [reflexivity|]. split.
    + intros k v Hin. in_cases Hin; reflexivity.
    + intros k Hin. in_cases Hin; cbn; unfold get; rewrite ?Ha1, ?Ha2; reflexivity.
  - (* Welch, clash *)
    intros [k [Hk Hin]]. unfold scipy_call, call_merge.
    rewrite (clash_true _ kw k Hin); [reflexivity|]. cbn in Hk. cbn. tauto.
  - intros Hn. pose proof (incl_remove _ _ (twice Welch) Hi Hn) as Hi'. cbn in Hi'.
    rewrite (scipy_call_ok _ _ kw _ Hi') by reflexivity.
    assert (Ha1 : lookup Kalternative kw = None).
    { assert (G : forall k, ~ In k (keys kw) -> lookup k kw = None).
      { clear. intros k. induction kw as [|[k' v] r IH]; [reflexivity|]. cbn. intros H.
        destruct (key_beq k k') eqn:E; [apply key_beq_eq in E; subst; tauto|]. apply IH; tauto. }
      apply G, Hn; cbn; tauto. }
    assert (Ha2 : lookup Kequal_var kw = None).
    { assert (G : forall k, ~ In k (keys kw) -> lookup k kw = None).
      { clear. intros k. induction kw as [|[k' v] r IH]; [reflexivity|]. cbn. intros H.
        destruct (key_beq k k') eqn:E; [apply key_beq_eq in E; subst; tauto|]. apply IH; tauto. }
      apply G. intros H. apply Hi' in H. cbn in H. intuition discriminate. }
    eexists; split; [reflexivity|]. split; [reflexivity|]. split.
    + intros k v Hin. in_cases Hin; reflexivity.
    + intros k Hin. in_cases Hin; cbn; unfold get; rewrite ?Ha1, ?Ha2; reflexivity.
Qed.

(** the full statement is false for Mann-Whitney and Welch (F19) *)
Theorem forwarding_refuted : forall w, sound_wrapper w = false ->
  exists kw, kw_ok w kw /\ compare_call w kw = Raise TypeError.
Proof.
  intros w Hs. exists [(Kalternative, VStr "less")].
  destruct w; try discriminate; (split; [split; [repeat constructor; intros []|]|reflexivity]);
    intros k [<-|[]]; cbn; tauto.
Qed.

(* ====================================================================== *)
(** * Part 2 — ranks *)

Lemma zsum_cons : forall x l, zsum (x :: l) = x + zsum l.
Proof. reflexivity. Qed.

Lemma zsum_app : forall a b, zsum (a ++ b) = zsum a + zsum b.
Proof. induction a as [|x a IH]; intros b; [reflexivity|]. rewrite <- app_comm_cons, !zsum_cons, IH. lia. Qed.

Lemma zsum_perm : forall a b, Permutation a b -> zsum a = zsum b.
Proof. induction 1; rewrite ?zsum_cons; lia. Qed.

Lemma zsum_map_perm : forall {X} (f : X -> Z) a b, Permutation a b -> zsum (map f a) = zsum (map f b).
Proof. intros. apply zsum_perm, Permutation_map; assumption. Qed.

Lemma zsum_map_ext : forall {X} (f g : X -> Z) l, (forall x, In x l -> f x = g x) -> zsum (map f l) = zsum (map g l).
Proof.
  induction l as [|a l IH]; intros H; [reflexivity|]. cbn [map]. rewrite !zsum_cons.
  rewrite (H a (or_introl eq_refl)), IH; [reflexivity|]. intros x Hx; apply H; right; exact Hx.
Qed.

Lemma zsum_map_add : forall {X} (f g : X -> Z) l, zsum (map (fun x => f x + g x) l) = zsum (map f l) + zsum (map g l).
Proof. induction l as [|a l IH]; [reflexivity|]. cbn [map]. rewrite !zsum_cons, IH. lia. Qed.

Lemma zlen_cons : forall {X} (a : X) l, zlen (a :: l) = 1 + zlen l.
Proof. intros. unfold zlen. cbn [List.length]. lia. Qed.

Lemma zsum_map_const : forall {X} (c : Z) (l : list X), zsum (map (fun _ => c) l) = c * zlen l.
Proof.
  induction l as [|a l IH]; [unfold zlen; cbn; lia|].
  cbn [map]. rewrite zsum_cons, zlen_cons, IH. lia.
Qed.

Lemma zlen_app : forall {X} (a b : list X), zlen (a ++ b) = zlen a + zlen b.
Proof. intros. unfold zlen. rewrite app_length. lia. Qed.
Lemma zlen_map : forall {X Y} (f : X -> Y) l, zlen (map f l) = zlen l.
Proof. intros. unfold zlen. rewrite map_length. reflexivity. Qed.
Lemma zlen_perm : forall {X} (a b : list X), Permutation a b -> zlen a = zlen b.
Proof. intros. unfold zlen. rewrite (Permutation_length H). reflexivity. Qed.
Section RankR.
  Context {T : Type} (lt : T -> T -> bool).
  Notation count_lt := (count_lt lt). Notation count_eq := (count_eq lt).
  Notation mr2 := (mr2 lt). Notation eqv := (eqv lt).

  Lemma count_lt_cons : forall z x l, count_lt z (x :: l) = (if lt x z then 1 else 0) + count_lt z l.
  Proof. reflexivity. Qed.
  Lemma count_eq_cons : forall z x l, count_eq z (x :: l) = (if eqv x z then 1 else 0) + count_eq z l.
  Proof. reflexivity. Qed.
  Lemma count_lt_app : forall z a b, count_lt z (a ++ b) = count_lt z a + count_lt z b.
  Proof. intros. unfold Tests.count_lt. rewrite map_app, zsum_app. reflexivity. Qed.
  Lemma count_eq_app : forall z a b, count_eq z (a ++ b) = count_eq z a + count_eq z b.
  Proof. intros. unfold Tests.count_eq. rewrite map_app, zsum_app. reflexivity. Qed.
  Lemma count_lt_perm : forall z a b, Permutation a b -> count_lt z a = count_lt z b.
  Proof. intros. unfold Tests.count_lt. apply zsum_map_perm; assumption. Qed.
  Lemma count_eq_perm : forall z a b, Permutation a b -> count_eq z a = count_eq z b.
  Proof. intros. unfold Tests.count_eq. apply zsum_map_perm; assumption. Qed.
  Lemma mr2_perm : forall z a b, Permutation a b -> mr2 z a = mr2 z b.
  Proof. intros. unfold Tests.mr2. rewrite (count_lt_perm z a b), (count_eq_perm z a b); auto. Qed.
  Lemma mr2_app_comm : forall z a b, mr2 z (a ++ b) = mr2 z (b ++ a).
  Proof. intros. apply mr2_perm, Permutation_app_comm. Qed.

  (** ranks depend on the multiset only: reordering the sample permutes the ranks *)
  Theorem midranks_perm : forall a b, Permutation a b -> Permutation (midranks2 lt a) (midranks2 lt b).
  Proof.
    intros a b H. unfold midranks2.
    rewrite (map_ext_in _ (fun z => mr2 z b)); [apply Permutation_map; exact H|].
    intros z _. apply mr2_perm; exact H.
  Qed.

  (** asymmetry is all the pair-counting identity needs *)
  Hypothesis lt_asym : forall a b, lt a b = true -> lt b a = false.

  Lemma pair_two : forall a b,
    (2 * (if lt b a then 1 else 0) + (if eqv b a then 1 else 0)) +
    (2 * (if lt a b then 1 else 0) + (if eqv a b then 1 else 0)) = 2.
  Proof.
    intros a b. unfold Tests.eqv.
    destruct (lt a b) eqn:E1; destruct (lt b a) eqn:E2; cbn; try lia.
    rewrite (lt_asym _ _ E1) in E2; discriminate.
  Qed.

  Lemma pairs2_one : forall a B,
    (2 * count_lt a B + count_eq a B) +
    zsum (map (fun b => 2 * (if lt a b then 1 else 0) + (if eqv a b then 1 else 0)) B) = 2 * zlen B.
  Proof.
    intros a B. induction B as [|b B IH]; [reflexivity|].
    rewrite count_lt_cons, count_eq_cons, zlen_cons. cbn [map]. rewrite zsum_cons.
    pose proof (pair_two a b). lia.
  Qed.

  Lemma pairs2_cons_r : forall a A B,
    pairs2 lt B (a :: A) =
    zsum (map (fun b => 2 * (if lt a b then 1 else 0) + (if eqv a b then 1 else 0)) B) + pairs2 lt B A.
  Proof.
    intros a A B. unfold pairs2. rewrite <- zsum_map_add. apply zsum_map_ext. intros b _.
    rewrite count_lt_cons, count_eq_cons. lia.
  Qed.

  Lemma pairs2_sym : forall A B, pairs2 lt A B + pairs2 lt B A = 2 * zlen A * zlen B.
  Proof.
    induction A as [|a A IH]; intros B.
    - unfold pairs2.
      rewrite (zsum_map_ext _ (fun _ => 0) B); [rewrite zsum_map_const; unfold zlen; cbn; lia|].
      intros; reflexivity.
    - rewrite pairs2_cons_r. unfold pairs2 at 1. cbn [map]. rewrite zsum_cons.
      fold (pairs2 lt A B). rewrite zlen_cons. pose proof (pairs2_one a B). specialize (IH B). lia.
  Qed.

  Lemma pairs2_self : forall A, pairs2 lt A A = zlen A * zlen A.
  Proof. intros A. pose proof (pairs2_sym A A). lia. Qed.

  (** sum of all midranks of a sample of size N is N(N+1)/2 *)
  Lemma midranks_sum : forall Z, zsum (midranks2 lt Z) = zlen Z * (zlen Z + 1).
  Proof.
    intros Z. unfold midranks2, Tests.mr2.
    rewrite (zsum_map_add (fun z => 2 * count_lt z Z + count_eq z Z) (fun _ => 1)).
    fold (pairs2 lt Z Z). rewrite pairs2_self, zsum_map_const. lia.
  Qed.

  (** SciPy's rank-sum form of U equals the textbook pair count *)
  Theorem mwu_U2_pairs : forall X Y, mwu_U2 lt X Y = pairs2 lt X Y.
  Proof.
    intros X Y. unfold mwu_U2.
    rewrite (zsum_map_ext _ (fun x => (2 * count_lt x X + count_eq x X) + ((2 * count_lt x Y + count_eq x Y) + 1))).
    2:{ intros x _. unfold Tests.mr2. rewrite count_lt_app, count_eq_app. lia. }
    rewrite zsum_map_add. fold (pairs2 lt X X). rewrite pairs2_self.
    rewrite (zsum_map_add (fun x => 2 * count_lt x Y + count_eq x Y) (fun _ => 1)).
    fold (pairs2 lt X Y). rewrite zsum_map_const. lia.
  Qed.

  Theorem mwu_sum : forall X Y, mwu_U2 lt X Y + mwu_U2 lt Y X = 2 * (zlen X * zlen Y).
  Proof. intros. rewrite !mwu_U2_pairs. pose proof (pairs2_sym X Y). lia. Qed.
End RankR.

(** no hypothesis on the order is needed for the invariances of U *)
Section RankInv.
  Context {T T' : Type} (lt : T -> T -> bool) (lt' : T' -> T' -> bool).

  Theorem mwu_perm : forall X X' Y Y', Permutation X X' -> Permutation Y Y' ->
    mwu_U2 lt X Y = mwu_U2 lt X' Y'.
  Proof.
    intros X X' Y Y' HX HY. unfold mwu_U2. rewrite (zlen_perm _ _ HX). f_equal.
    rewrite (zsum_map_perm _ _ _ HX). apply zsum_map_ext. intros x _.
    apply mr2_perm, Permutation_app; assumption.
  Qed.

  Variable f : T -> T'.
  Hypothesis f_mono : forall a b, lt' (f a) (f b) = lt a b.

  Lemma count_lt_map : forall z l, count_lt lt' (f z) (map f l) = count_lt lt z l.
  Proof. intros. unfold count_lt. rewrite map_map. f_equal. apply map_ext. intros; rewrite f_mono; reflexivity. Qed.
  Lemma count_eq_map : forall z l, count_eq lt' (f z) (map f l) = count_eq lt z l.
  Proof. intros. unfold count_eq, eqv. rewrite map_map. f_equal. apply map_ext. intros; rewrite !f_mono; reflexivity. Qed.
  Lemma mr2_map : forall z l, mr2 lt' (f z) (map f l) = mr2 lt z l.
  Proof. intros. unfold mr2. rewrite count_lt_map, count_eq_map. reflexivity. Qed.

  Theorem ranks_monotone : forall Z, midranks2 lt' (map f Z) = midranks2 lt Z.
  Proof. intros Z. unfold midranks2. rewrite map_map. apply map_ext. intros; apply mr2_map. Qed.

  Theorem mwu_monotone : forall X Y, mwu_U2 lt' (map f X) (map f Y) = mwu_U2 lt X Y.
  Proof.
    intros. unfold mwu_U2. rewrite zlen_map, map_map, <- map_app. f_equal. f_equal.
    apply map_ext. intros; apply mr2_map.
  Qed.

  Lemma insert_map : forall x l, insert lt' (f x) (map f l) = map f (insert lt x l).
  Proof.
    intros x l. induction l as [|y r IH]; [reflexivity|]. cbn. rewrite f_mono.
    destruct (lt y x); cbn; [rewrite IH|]; reflexivity.
  Qed.
  Lemma isort_map : forall l, isort lt' (map f l) = map f (isort lt l).
  Proof. induction l as [|x l IH]; [reflexivity|]. cbn. rewrite IH. apply insert_map. Qed.

  Theorem cvm_monotone : forall X Y, cvm_u4 lt' (map f X) (map f Y) = cvm_u4 lt X Y.
  Proof.
    intros. unfold cvm_u4. rewrite !zlen_map, !isort_map, <- map_app, !map_map.
    f_equal; f_equal; f_equal; apply map_ext; intros; apply mr2_map.
  Qed.
End RankInv.
