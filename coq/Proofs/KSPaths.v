(** C11: the dynamic program of [Model/KS.v] counts the interleavings (lattice paths)
    that stay inside the band; facts about the statistic [ks_H]. *)
From Coq Require Import ZArith List Bool Lia Permutation.
From FV Require Import NumSys KS.
Import ListNotations.
Local Open Scope Z_scope.

(* ------------------------------------------------------------------ *)
(** * Part 1: the DP counts lattice paths *)

(** all words with [i] trues and [j] falses (last-step decomposition) *)
Fixpoint words (i : nat) : nat -> list (list bool) :=
  fix wj (j : nat) : list (list bool) :=
    match i, j with
    | O, O => [[]]
    | S i', O => map (fun w => w ++ [true]) (words i' O)
    | O, S j' => map (fun w => w ++ [false]) (wj j')
    | S i', S j' => map (fun w => w ++ [true]) (words i' (S j'))
                    ++ map (fun w => w ++ [false]) (wj j')
    end.

Lemma words_00 : words 0 0 = [[]].
Proof. reflexivity. Qed.
Lemma words_S0 : forall i, words (S i) 0 = map (fun w => w ++ [true]) (words i 0).
Proof. reflexivity. Qed.
Lemma words_0S : forall j, words 0 (S j) = map (fun w => w ++ [false]) (words 0 j).
Proof. reflexivity. Qed.
Lemma words_SS : forall i j, words (S i) (S j) =
  map (fun w => w ++ [true]) (words i (S j)) ++ map (fun w => w ++ [false]) (words (S i) j).
Proof. reflexivity. Qed.

Global Opaque words.

(** endpoint after a word, and the band condition on every prefix endpoint *)
Definition endpoint (w : list bool) : Z * Z :=
  (Z.of_nat (count_occ bool_dec w true), Z.of_nat (count_occ bool_dec w false)).
Fixpoint prefixes {T} (w : list T) : list (list T) :=
  match w with [] => [[]] | x :: r => [] :: map (cons x) (prefixes r) end.
Definition inside (n m H : Z) (w : list bool) : bool :=
  forallb (fun p => let '(i, j) := endpoint p in in_band n m H i j) (prefixes w).

(** ** characterisation of [words] *)

Lemma count_snoc_tt : forall w, count_occ bool_dec (w ++ [true]) true = S (count_occ bool_dec w true).
Proof. intros w. rewrite count_occ_app. cbn. lia. Qed.
Lemma count_snoc_tf : forall w, count_occ bool_dec (w ++ [true]) false = count_occ bool_dec w false.
Proof. intros w. rewrite count_occ_app. cbn. lia. Qed.
Lemma count_snoc_ft : forall w, count_occ bool_dec (w ++ [false]) true = count_occ bool_dec w true.
Proof. intros w. rewrite count_occ_app. cbn. lia. Qed.
Lemma count_snoc_ff : forall w, count_occ bool_dec (w ++ [false]) false = S (count_occ bool_dec w false).
Proof. intros w. rewrite count_occ_app. cbn. lia. Qed.

Lemma words_sound : forall i j w, In w (words i j) ->
  count_occ bool_dec w true = i /\ count_occ bool_dec w false = j.
Proof.
  induction i as [|i IHi]; intro j; induction j as [|j IHj]; intros w Hin.
  - rewrite words_00 in Hin. destruct Hin as [<-|[]]. split; reflexivity.
  - rewrite words_0S in Hin. apply in_map_iff in Hin. destruct Hin as [v [<- Hv]].
    apply IHj in Hv. destruct Hv as [Ht Hf].
    rewrite count_snoc_ft, count_snoc_ff. lia.
  - rewrite words_S0 in Hin. apply in_map_iff in Hin. destruct Hin as [v [<- Hv]].
    apply IHi in Hv. destruct Hv as [Ht Hf].
    rewrite count_snoc_tt, count_snoc_tf. lia.
  - rewrite words_SS in Hin. apply in_app_or in Hin. destruct Hin as [Hin|Hin];
      apply in_map_iff in Hin; destruct Hin as [v [<- Hv]].
    + apply IHi in Hv. destruct Hv as [Ht Hf].
      rewrite count_snoc_tt, count_snoc_tf. lia.
    + apply IHj in Hv. destruct Hv as [Ht Hf].
      rewrite count_snoc_ft, count_snoc_ff. lia.
Qed.

Lemma words_complete : forall w,
  In w (words (count_occ bool_dec w true) (count_occ bool_dec w false)).
Proof.
  induction w as [|x w IHw] using rev_ind.
  - cbn. rewrite words_00. left; reflexivity.
  - destruct x.
    + rewrite count_snoc_tt, count_snoc_tf.
      destruct (count_occ bool_dec w false) as [|j] eqn:Ej.
      * rewrite words_S0. apply in_map_iff. exists w. split; [reflexivity|exact IHw].
      * rewrite words_SS. apply in_or_app. left.
        apply in_map_iff. exists w. split; [reflexivity|exact IHw].
    + rewrite count_snoc_ft, count_snoc_ff.
      destruct (count_occ bool_dec w true) as [|i] eqn:Ei.
      * rewrite words_0S. apply in_map_iff. exists w. split; [reflexivity|exact IHw].
      * rewrite words_SS. apply in_or_app. right.
        apply in_map_iff. exists w. split; [reflexivity|exact IHw].
Qed.

Theorem words_spec : forall i j w,
  In w (words i j) <-> count_occ bool_dec w true = i /\ count_occ bool_dec w false = j.
Proof.
  intros i j w. split.
  - apply words_sound.
  - intros [<- <-]. apply words_complete.
Qed.

Lemma snoc_inj : forall (x : bool), FinFun.Injective (fun w : list bool => w ++ [x]).
Proof. intros x a b Hab. apply app_inj_tail in Hab. tauto. Qed.

Lemma NoDup_app_disj : forall {T} (l1 l2 : list T),
  NoDup l1 -> NoDup l2 -> (forall x, In x l1 -> In x l2 -> False) -> NoDup (l1 ++ l2).
Proof.
  intros T l1 l2 H1 H2 Hd. induction H1 as [|a l1 Ha H1 IH]; cbn.
  - exact H2.
  - constructor.
    + intro Hin. apply in_app_or in Hin. destruct Hin as [Hin|Hin].
      * exact (Ha Hin).
      * apply (Hd a); [left; reflexivity|exact Hin].
    + apply IH. intros x Hx1 Hx2. apply (Hd x); [right; exact Hx1|exact Hx2].
Qed.

Theorem words_NoDup : forall i j, NoDup (words i j).
Proof.
  induction i as [|i IHi]; intro j; induction j as [|j IHj].
  - rewrite words_00. constructor; [intros []|constructor].
  - rewrite words_0S. apply FinFun.Injective_map_NoDup; [apply snoc_inj|exact IHj].
  - rewrite words_S0. apply FinFun.Injective_map_NoDup; [apply snoc_inj|apply IHi].
  - rewrite words_SS. apply NoDup_app_disj.
    + apply FinFun.Injective_map_NoDup; [apply snoc_inj|apply IHi].
    + apply FinFun.Injective_map_NoDup; [apply snoc_inj|exact IHj].
    + intros x Hx1 Hx2. apply in_map_iff in Hx1. apply in_map_iff in Hx2.
      destruct Hx1 as [v1 [E1 _]]. destruct Hx2 as [v2 [E2 _]].
      rewrite <- E2 in E1. apply app_inj_tail in E1. destruct E1 as [_ E1]. discriminate.
Qed.

(** ** prefixes and [inside] *)

Lemma prefixes_snoc : forall {T} (w : list T) x, prefixes (w ++ [x]) = prefixes w ++ [w ++ [x]].
Proof.
  intros T w x. induction w as [|a w IHw]; cbn.
  - reflexivity.
  - rewrite IHw, map_app. reflexivity.
Qed.

Lemma prefixes_prefix : forall {T} (w p : list T), In p (prefixes w) -> exists s, w = p ++ s.
Proof.
  intros T w. induction w as [|a w IHw]; intros p Hin; cbn in Hin.
  - destruct Hin as [<-|[]]. exists []. reflexivity.
  - destruct Hin as [<-|Hin].
    + exists (a :: w). reflexivity.
    + apply in_map_iff in Hin. destruct Hin as [q [<- Hq]].
      destruct (IHw q Hq) as [s ->]. exists s. reflexivity.
Qed.

Lemma inside_snoc : forall n m H w x,
  inside n m H (w ++ [x]) =
  inside n m H w && (let '(i, j) := endpoint (w ++ [x]) in in_band n m H i j).
Proof.
  intros n m H w x. unfold inside. rewrite prefixes_snoc, forallb_app. cbn [forallb].
  rewrite andb_true_r. reflexivity.
Qed.

Section Table.
  Context (n m H : Z).

  (** number of inside words ending at (i, j), band (n, m, H) fixed *)
  Definition I (i j : nat) : Z := Z.of_nat (length (filter (inside n m H) (words i j))).

  Lemma filter_snoc_length : forall x (a b : Z) (l : list (list bool)),
    (forall w, In w l -> endpoint (w ++ [x]) = (a, b)) ->
    length (filter (inside n m H) (map (fun w => w ++ [x]) l)) =
    if in_band n m H a b then length (filter (inside n m H) l) else O.
  Proof.
    intros x a b l. induction l as [|w l IHl]; intros Hend.
    - cbn. destruct (in_band n m H a b); reflexivity.
    - cbn [map filter]. rewrite inside_snoc, (Hend w (or_introl eq_refl)).
      assert (IH := IHl (fun v Hv => Hend v (or_intror Hv))).
      destruct (in_band n m H a b) eqn:Eb.
      + rewrite andb_true_r. destruct (inside n m H w); cbn [length]; rewrite IH; reflexivity.
      + rewrite andb_false_r. exact IH.
  Qed.

  Lemma I_00 : I 0 0 = if in_band n m H 0 0 then 1 else 0.
  Proof.
    unfold I. rewrite words_00. cbn. destruct (in_band n m H 0 0); reflexivity.
  Qed.

  Lemma I_S0 : forall i, I (S i) 0 = if in_band n m H (Z.of_nat (S i)) 0 then I i 0 else 0.
  Proof.
    intros i. unfold I. rewrite words_S0.
    rewrite (filter_snoc_length true (Z.of_nat (S i)) 0).
    - destruct (in_band n m H (Z.of_nat (S i)) 0); reflexivity.
    - intros w Hw. apply words_sound in Hw. destruct Hw as [Ht Hf].
      unfold endpoint. rewrite count_snoc_tt, count_snoc_tf, Ht, Hf. reflexivity.
  Qed.

  Lemma I_0S : forall j, I 0 (S j) = if in_band n m H 0 (Z.of_nat (S j)) then I 0 j else 0.
  Proof.
    intros j. unfold I. rewrite words_0S.
    rewrite (filter_snoc_length false 0 (Z.of_nat (S j))).
    - destruct (in_band n m H 0 (Z.of_nat (S j))); reflexivity.
    - intros w Hw. apply words_sound in Hw. destruct Hw as [Ht Hf].
      unfold endpoint. rewrite count_snoc_ft, count_snoc_ff, Ht, Hf. reflexivity.
  Qed.

  Lemma I_SS : forall i j, I (S i) (S j) =
    if in_band n m H (Z.of_nat (S i)) (Z.of_nat (S j)) then I i (S j) + I (S i) j else 0.
  Proof.
    intros i j. unfold I. rewrite words_SS, filter_app, app_length.
    rewrite (filter_snoc_length true (Z.of_nat (S i)) (Z.of_nat (S j))).
    2:{ intros w Hw. apply words_sound in Hw. destruct Hw as [Ht Hf].
        unfold endpoint. rewrite count_snoc_tt, count_snoc_tf, Ht, Hf. reflexivity. }
    rewrite (filter_snoc_length false (Z.of_nat (S i)) (Z.of_nat (S j))).
    2:{ intros w Hw. apply words_sound in Hw. destruct Hw as [Ht Hf].
        unfold endpoint. rewrite count_snoc_ft, count_snoc_ff, Ht, Hf. reflexivity. }
    destruct (in_band n m H (Z.of_nat (S i)) (Z.of_nat (S j))).
    - rewrite Nat2Z.inj_add. reflexivity.
    - reflexivity.
  Qed.

  (** the cell above (row [k] here means DP row [k-1]; row -1 is [1,0,0,...]) and the
      cell to the left (0 in column 0) *)
  Definition J (k j : nat) : Z :=
    match k with O => (match j with O => 1 | S _ => 0 end) | S i => I i j end.
  Definition L (i j : nat) : Z :=
    match j with O => 0 | S j' => I i j' end.

  Lemma I_rec : forall i j,
    I i j = if in_band n m H (Z.of_nat i) (Z.of_nat j) then J i j + L i j else 0.
  Proof.
    intros [|i] [|j]; unfold J, L.
    - rewrite I_00. reflexivity.
    - rewrite I_0S. reflexivity.
    - rewrite I_S0. rewrite Z.add_0_r. reflexivity.
    - rewrite I_SS. reflexivity.
  Qed.

  Lemma row_next_table : forall i len j,
    row_next n m H (Z.of_nat i) (map (J i) (seq j len)) (Z.of_nat j) (L i j) =
    map (I i) (seq j len).
  Proof.
    intros i len. induction len as [|len IH]; intros j.
    - reflexivity.
    - cbn [seq map row_next]. rewrite <- I_rec. f_equal.
      replace (Z.of_nat j + 1) with (Z.of_nat (S j)) by lia.
      change (I i j) with (L i (S j)) at 1. apply IH.
  Qed.

  Lemma rows_table : forall len k i,
    rows n m H k (Z.of_nat i) (map (J i) (seq 0 len)) = map (J (i + k)) (seq 0 len).
  Proof.
    intros len k. induction k as [|k IH]; intros i.
    - cbn [rows]. rewrite Nat.add_0_r. reflexivity.
    - cbn [rows]. change 0 with (Z.of_nat 0) at 1. change 0 with (L i 0) at 1.
      rewrite row_next_table.
      replace (Z.of_nat i + 1) with (Z.of_nat (S i)) by lia.
      change (map (I i) (seq 0 len)) with (map (J (S i)) (seq 0 len)).
      rewrite IH. replace (S i + k)%nat with (i + S k)%nat by lia. reflexivity.
  Qed.

  Lemma J0_zero : forall len s, map (J 0) (seq (S s) len) = repeat 0 len.
  Proof.
    induction len as [|len IH]; intros s; cbn [seq map repeat].
    - reflexivity.
    - rewrite IH. reflexivity.
  Qed.

  Lemma rows_final : forall (nn mm : nat),
    last (rows n m H (S nn) 0 (1 :: repeat 0 mm)) 0 = I nn mm.
  Proof.
    intros nn mm.
    assert (E : 1 :: repeat 0 mm = map (J 0) (seq 0 (S mm))).
    { cbn [seq map]. rewrite J0_zero. reflexivity. }
    rewrite E. change 0 with (Z.of_nat 0) at 1. rewrite rows_table.
    rewrite seq_S, map_app, Nat.add_0_l. cbn [map]. rewrite last_last.
    reflexivity.
  Qed.
End Table.

Theorem ks_dp_is_enumeration : forall (n m : nat) (H : Z),
  paths_inside (Z.of_nat n) (Z.of_nat m) H =
  Z.of_nat (length (filter (inside (Z.of_nat n) (Z.of_nat m) H) (words n m))).
Proof.
  intros n m H. unfold paths_inside. rewrite !Nat2Z.id. apply rows_final.
Qed.

(** ** total count, range, monotonicity *)

Lemma filter_all_true : forall {T} (p : T -> bool) (l : list T),
  (forall x, In x l -> p x = true) -> filter p l = l.
Proof.
  intros T p l. induction l as [|a l IHl]; intros Hp; cbn.
  - reflexivity.
  - rewrite (Hp a (or_introl eq_refl)). f_equal. apply IHl.
    intros x Hx. apply Hp. right. exact Hx.
Qed.

Lemma filter_length_le_gen : forall {T} (p q : T -> bool) (l : list T),
  (forall x, In x l -> p x = true -> q x = true) ->
  (length (filter p l) <= length (filter q l))%nat.
Proof.
  intros T p q l. induction l as [|a l IHl]; intros Hpq; cbn.
  - lia.
  - assert (IH : (length (filter p l) <= length (filter q l))%nat).
    { apply IHl. intros x Hx. apply Hpq. right. exact Hx. }
    destruct (p a) eqn:Ep.
    + rewrite (Hpq a (or_introl eq_refl) Ep). cbn. lia.
    + destruct (q a); cbn; lia.
Qed.

Lemma filter_length_le_all : forall {T} (p : T -> bool) (l : list T),
  (length (filter p l) <= length l)%nat.
Proof.
  intros T p l. induction l as [|a l IHl]; cbn.
  - lia.
  - destruct (p a); cbn; lia.
Qed.

Lemma in_band_full : forall n m i j, 0 <= i <= n -> 0 <= j <= m ->
  in_band n m (n * m + 1) i j = true.
Proof.
  intros n m i j Hi Hj. unfold in_band. apply Z.ltb_lt.
  assert (H1 : 0 <= i * m <= n * m) by nia.
  assert (H2 : 0 <= j * n <= n * m) by nia.
  lia.
Qed.

Lemma inside_full : forall (n m : nat) w, In w (words n m) ->
  inside (Z.of_nat n) (Z.of_nat m) (Z.of_nat n * Z.of_nat m + 1) w = true.
Proof.
  intros n m w Hw. apply words_sound in Hw. destruct Hw as [Ht Hf].
  unfold inside. apply forallb_forall. intros p Hp.
  apply prefixes_prefix in Hp. destruct Hp as [s ->].
  rewrite count_occ_app in Ht, Hf. unfold endpoint.
  apply in_band_full; lia.
Qed.

Theorem words_count : forall n m, Z.of_nat (length (words n m)) = paths_total (Z.of_nat n) (Z.of_nat m).
Proof.
  intros n m. unfold paths_total. rewrite ks_dp_is_enumeration.
  rewrite filter_all_true; [reflexivity|]. intros w Hw. apply inside_full. exact Hw.
Qed.

Lemma words_nonempty : forall n m, (0 < length (words n m))%nat.
Proof.
  intros n m.
  assert (Hin : In (repeat true n ++ repeat false m) (words n m)).
  { apply words_spec. rewrite !count_occ_app.
    rewrite (count_occ_repeat_eq bool_dec (x:=true) (y:=true) n eq_refl).
    rewrite (count_occ_repeat_eq bool_dec (x:=false) (y:=false) m eq_refl).
    rewrite (count_occ_repeat_neq bool_dec (x:=true) (y:=false) m) by discriminate.
    rewrite (count_occ_repeat_neq bool_dec (x:=false) (y:=true) n) by discriminate.
    lia. }
  destruct (words n m); [destruct Hin|cbn; lia].
Qed.

Theorem paths_total_pos : forall n m : nat, 0 < paths_total (Z.of_nat n) (Z.of_nat m).
Proof.
  intros n m. rewrite <- words_count. pose proof (words_nonempty n m). lia.
Qed.

Theorem paths_inside_range : forall (n m : nat) (H : Z),
  0 <= paths_inside (Z.of_nat n) (Z.of_nat m) H <= paths_total (Z.of_nat n) (Z.of_nat m).
Proof.
  intros n m H. rewrite <- words_count, ks_dp_is_enumeration.
  pose proof (filter_length_le_all (inside (Z.of_nat n) (Z.of_nat m) H) (words n m)). lia.
Qed.

Lemma in_band_mono : forall n m H H' i j, H <= H' ->
  in_band n m H i j = true -> in_band n m H' i j = true.
Proof.
  intros n m H H' i j HH. unfold in_band. rewrite !Z.ltb_lt. lia.
Qed.

Lemma inside_mono : forall n m H H' w, H <= H' ->
  inside n m H w = true -> inside n m H' w = true.
Proof.
  intros n m H H' w HH. unfold inside. rewrite !forallb_forall.
  intros Hall p Hp. specialize (Hall p Hp). destruct (endpoint p) as [i j].
  apply (in_band_mono n m H H' i j HH Hall).
Qed.

Theorem paths_inside_mono : forall (n m : nat) (H H' : Z), H <= H' ->
  paths_inside (Z.of_nat n) (Z.of_nat m) H <= paths_inside (Z.of_nat n) (Z.of_nat m) H'.
Proof.
  intros n m H H' HH. rewrite !ks_dp_is_enumeration. apply inj_le.
  apply filter_length_le_gen. intros w _. apply inside_mono. exact HH.
Qed.

(** non-vacuity: concrete values (checked by hand: for n = m = 2 the band H = 3 is
    |i - j| <= 1, which 4 of the 6 paths satisfy; H = 2 forces i = j at every point) *)
Example paths_inside_2_2_3 : paths_inside 2 2 3 = 4.
Proof. vm_compute; reflexivity. Qed.
Example paths_inside_2_2_2 : paths_inside 2 2 2 = 0.
Proof. vm_compute; reflexivity. Qed.
Example paths_total_2_2 : paths_total 2 2 = 6.
Proof. vm_compute; reflexivity. Qed.
Example paths_inside_3_2_4 : paths_inside 3 2 4 = 4.
Proof. vm_compute; reflexivity. Qed.
Example paths_total_3_2 : paths_total 3 2 = 10.
Proof. vm_compute; reflexivity. Qed.
Example paths_inside_3_3_6 : paths_inside 3 3 6 = 8.
Proof. vm_compute; reflexivity. Qed.
Example words_3_2_length : length (words 3 2) = 10%nat.
Proof. vm_compute; reflexivity. Qed.
Example words_2_2_inside_3 :
  length (filter (inside 2 2 3) (words 2 2)) = 4%nat.
Proof. vm_compute; reflexivity. Qed.

(* ------------------------------------------------------------------ *)
(** * Part 2: the statistic *)

Lemma fold_left_perm_comm : forall {S T} (f : S -> T -> S),
  (forall a x y, f (f a x) y = f (f a y) x) ->
  forall l l', Permutation l l' -> forall a, fold_left f l a = fold_left f l' a.
Proof.
  intros S T f Hc l l' HP. induction HP as [|x l l' HP IH|x y l|l l' l'' HP1 IH1 HP2 IH2]; intros a.
  - reflexivity.
  - cbn. apply IH.
  - cbn. rewrite Hc. reflexivity.
  - rewrite IH1. apply IH2.
Qed.

Lemma fold_left_ext_in : forall {S T} (f g : S -> T -> S) (l : list T),
  (forall a x, In x l -> f a x = g a x) -> forall a, fold_left f l a = fold_left g l a.
Proof.
  intros S T f g l. induction l as [|x l IHl]; intros Hfg a; cbn.
  - reflexivity.
  - rewrite (Hfg a x (or_introl eq_refl)). apply IHl.
    intros b y Hy. apply Hfg. right. exact Hy.
Qed.

(** folds of [Z.max] *)
Section MaxFold.
  Context {T : Type} (g : T -> Z).
  Definition maxf (acc : Z) (z : T) : Z := Z.max acc (g z).

  Lemma maxf_ge_init : forall l a, a <= fold_left maxf l a.
  Proof.
    induction l as [|x l IHl]; intros a; cbn.
    - lia.
    - specialize (IHl (maxf a x)). unfold maxf in *. lia.
  Qed.

  Lemma maxf_ge_term : forall l a z, In z l -> g z <= fold_left maxf l a.
  Proof.
    induction l as [|x l IHl]; intros a z Hin; cbn.
    - destruct Hin.
    - destruct Hin as [<-|Hin].
      + pose proof (maxf_ge_init l (maxf a x)). unfold maxf in *. lia.
      + apply IHl. exact Hin.
  Qed.

  Lemma maxf_le_bound : forall l a B, a <= B -> (forall z, In z l -> g z <= B) ->
    fold_left maxf l a <= B.
  Proof.
    induction l as [|x l IHl]; intros a B Ha Hg; cbn.
    - exact Ha.
    - apply IHl.
      + pose proof (Hg x (or_introl eq_refl)). unfold maxf. lia.
      + intros z Hz. apply Hg. right. exact Hz.
  Qed.

  Lemma maxf_attained : forall l a,
    fold_left maxf l a = a \/ exists z, In z l /\ fold_left maxf l a = g z.
  Proof.
    induction l as [|x l IHl]; intros a; cbn.
    - left. reflexivity.
    - destruct (IHl (maxf a x)) as [E|[z [Hz E]]].
      + destruct (Z.max_spec a (g x)) as [[_ Em]|[_ Em]].
        * right. exists x. split; [left; reflexivity|]. rewrite E. unfold maxf. exact Em.
        * left. rewrite E. unfold maxf. exact Em.
      + right. exists z. split; [right; exact Hz|exact E].
  Qed.
End MaxFold.

Section Generic.
  Context {A : Arith}.

  Definition cstep (z : num A) (acc : Z) (x : num A) : Z := if leb x z then acc + 1 else acc.

  Lemma count_le_unfold : forall (z : num A) (l : list (num A)), count_le z l = fold_left (cstep z) l 0.
  Proof. reflexivity. Qed.

  Lemma cstep_shift : forall z l a, fold_left (cstep z) l a = a + fold_left (cstep z) l 0.
  Proof.
    intros z l. induction l as [|x l IHl]; intros a; cbn.
    - lia.
    - rewrite (IHl (cstep z a x)), (IHl (cstep z 0 x)). unfold cstep.
      destruct (leb x z); lia.
  Qed.

  Lemma count_le_nil : forall z : num A, count_le z [] = 0.
  Proof. reflexivity. Qed.

  Lemma count_le_cons : forall (z x : num A) (l : list (num A)),
    count_le z (x :: l) = (if leb x z then 1 else 0) + count_le z l.
  Proof.
    intros z x l. rewrite !count_le_unfold. cbn [fold_left]. rewrite cstep_shift.
    unfold cstep. destruct (leb x z); lia.
  Qed.

  Lemma count_le_app : forall (z : num A) (l1 l2 : list (num A)), count_le z (l1 ++ l2) = count_le z l1 + count_le z l2.
  Proof.
    intros z l1 l2. induction l1 as [|x l1 IH].
    - cbn [app]. rewrite count_le_nil. lia.
    - cbn [app]. rewrite !count_le_cons, IH. lia.
  Qed.

  Lemma len_cons : forall (x : num A) l, len (x :: l) = 1 + len l.
  Proof. intros x l. unfold len. cbn [length]. lia. Qed.

  Lemma count_le_range : forall (z : num A) (l : list (num A)), 0 <= count_le z l <= len l.
  Proof.
    intros z l. induction l as [|x l IH].
    - rewrite count_le_nil. unfold len. cbn. lia.
    - rewrite count_le_cons, len_cons. destruct (leb x z); lia.
  Qed.

  Lemma count_le_ext_in : forall (z z' : num A) (l : list (num A)), (forall x, In x l -> leb x z = leb x z') ->
    count_le z l = count_le z' l.
  Proof.
    intros z z' l. induction l as [|x l IH]; intros Hl.
    - reflexivity.
    - rewrite !count_le_cons, (Hl x (or_introl eq_refl)), IH; [reflexivity|].
      intros y Hy. apply Hl. right. exact Hy.
  Qed.

  (** the term maximised by [ks_H] *)
  Definition ks_term (X Y : list (num A)) (z : num A) : Z :=
    Z.abs (count_le z X * len Y - count_le z Y * len X).

  Lemma ks_H_unfold : forall (X Y : list (num A)), ks_H X Y = fold_left (maxf (ks_term X Y)) (X ++ Y) 0.
  Proof. reflexivity. Qed.

  Lemma ks_term_range : forall X Y z, 0 <= ks_term X Y z <= len X * len Y.
  Proof.
    intros X Y z. unfold ks_term.
    pose proof (count_le_range z X) as HX. pose proof (count_le_range z Y) as HY.
    assert (H1 : 0 <= count_le z X * len Y <= len X * len Y) by nia.
    assert (H2 : 0 <= count_le z Y * len X <= len X * len Y) by nia.
    lia.
  Qed.
End Generic.

Theorem count_le_perm : forall (A : Arith) (z : num A) (l l' : list (num A)),
  Permutation l l' -> count_le z l = count_le z l'.
Proof.
  intros A z l l' HP. unfold count_le. apply fold_left_perm_comm; [|exact HP].
  intros a x y. destruct (leb x z), (leb y z); reflexivity.
Qed.

Lemma len_perm : forall (A : Arith) (l l' : list (num A)), Permutation l l' -> len l = len l'.
Proof. intros A l l' HP. unfold len. rewrite (Permutation_length HP). reflexivity. Qed.

Lemma maxf_comm : forall {T} (g : T -> Z) a x y, maxf g (maxf g a x) y = maxf g (maxf g a y) x.
Proof. intros T g a x y. unfold maxf. lia. Qed.

Theorem ks_H_perm : forall (A : Arith) (X X' Y Y' : list (num A)),
  Permutation X X' -> Permutation Y Y' -> ks_H X Y = ks_H X' Y'.
Proof.
  intros A X X' Y Y' HX HY. rewrite !ks_H_unfold.
  rewrite (fold_left_ext_in (maxf (ks_term X Y)) (maxf (ks_term X' Y'))).
  - apply fold_left_perm_comm; [apply maxf_comm|]. apply Permutation_app; assumption.
  - intros a z _. unfold maxf, ks_term.
    rewrite (count_le_perm A z X X' HX), (count_le_perm A z Y Y' HY).
    rewrite (len_perm A X X' HX), (len_perm A Y Y' HY). reflexivity.
Qed.

Theorem ks_H_sym : forall (A : Arith) (X Y : list (num A)), ks_H X Y = ks_H Y X.
Proof.
  intros A X Y. rewrite !ks_H_unfold.
  rewrite (fold_left_ext_in (maxf (ks_term X Y)) (maxf (ks_term Y X))).
  - apply fold_left_perm_comm; [apply maxf_comm|]. apply Permutation_app_comm.
  - intros a z _. unfold maxf, ks_term. f_equal. lia.
Qed.

Theorem ks_H_bounds : forall (A : Arith) (X Y : list (num A)), 0 <= ks_H X Y <= len X * len Y.
Proof.
  intros A X Y. rewrite ks_H_unfold. split.
  - apply maxf_ge_init.
  - apply maxf_le_bound.
    + pose proof (ks_term_range X Y) as Hr. unfold len. nia.
    + intros z _. apply ks_term_range.
Qed.

(** ** over the reals: the maximum over sample points is the supremum over all thresholds *)
From Coq Require Import Reals Lra.
From FV Require Import RealA.

Lemma RealA_leb_true : forall x z : R, (x <= z)%R -> @NumSys.leb RealA x z = true.
Proof. intros x z Hxz. change (Rleb x z = true). apply Rleb_true. exact Hxz. Qed.
Lemma RealA_leb_false : forall x z : R, (z < x)%R -> @NumSys.leb RealA x z = false.
Proof. intros x z Hxz. change (Rleb x z = false). apply Rleb_false. exact Hxz. Qed.

(** the largest element of [L] below [z], if any *)
Lemma floor_in_list : forall (L : list R) (z : R),
  (forall x, In x L -> (z < x)%R) \/
  (exists z', In z' L /\ (z' <= z)%R /\ forall x, In x L -> (x <= z)%R -> (x <= z')%R).
Proof.
  intros L z. induction L as [|a L IH].
  - left. intros x [].
  - destruct (Rle_dec a z) as [Haz|Haz].
    + right. destruct IH as [Hall|[z' [Hin [Hle Hmax]]]].
      * exists a. split; [left; reflexivity|]. split; [exact Haz|].
        intros x [<-|Hx] Hxz; [lra|]. specialize (Hall x Hx). lra.
      * destruct (Rle_dec a z') as [Haz'|Haz'].
        -- exists z'. split; [right; exact Hin|]. split; [exact Hle|].
           intros x [<-|Hx] Hxz; [exact Haz'|]. apply Hmax; assumption.
        -- exists a. split; [left; reflexivity|]. split; [exact Haz|].
           intros x [<-|Hx] Hxz; [lra|]. specialize (Hmax x Hx Hxz). lra.
    + destruct IH as [Hall|[z' [Hin [Hle Hmax]]]].
      * left. intros x [<-|Hx]; [lra|]. apply Hall. exact Hx.
      * right. exists z'. split; [right; exact Hin|]. split; [exact Hle|].
        intros x [<-|Hx] Hxz; [lra|]. apply Hmax; assumption.
Qed.

Lemma count_le_none : forall (z : R) (l : list R),
  (forall x, In x l -> (z < x)%R) -> count_le (A:=RealA) z l = 0.
Proof.
  intros z l. induction l as [|x l IH]; intros Hl.
  - reflexivity.
  - rewrite (count_le_cons (A:=RealA)).
    rewrite (RealA_leb_false x z (Hl x (or_introl eq_refl))).
    rewrite IH; [reflexivity|]. intros y Hy. apply Hl. right. exact Hy.
Qed.

Lemma count_le_floor : forall (z z' : R) (L l : list R),
  incl l L -> (z' <= z)%R -> (forall x, In x L -> (x <= z)%R -> (x <= z')%R) ->
  count_le (A:=RealA) z l = count_le (A:=RealA) z' l.
Proof.
  intros z z' L l Hincl Hle Hmax. apply (count_le_ext_in (A:=RealA)).
  intros x Hx. destruct (Rle_dec x z) as [Hxz|Hxz].
  - rewrite (RealA_leb_true x z Hxz).
    rewrite (RealA_leb_true x z' (Hmax x (Hincl x Hx) Hxz)). reflexivity.
  - rewrite (RealA_leb_false x z) by lra. rewrite (RealA_leb_false x z') by lra. reflexivity.
Qed.

Theorem ks_H_sup : forall (X Y : list R) (z : R),
  Z.abs (count_le (A:=RealA) z X * len Y - count_le (A:=RealA) z Y * len X) <= ks_H (A:=RealA) X Y.
Proof.
  intros X Y z. destruct (floor_in_list (X ++ Y) z) as [Hall|[z' [Hin [Hle Hmax]]]].
  - rewrite (count_le_none z X), (count_le_none z Y).
    + cbn [Z.mul Z.sub Z.abs Z.add Z.opp]. apply (ks_H_bounds RealA).
    + intros x Hx. apply Hall. apply in_or_app. right. exact Hx.
    + intros x Hx. apply Hall. apply in_or_app. left. exact Hx.
  - rewrite (count_le_floor z z' (X ++ Y) X (incl_appl Y (incl_refl X)) Hle Hmax).
    rewrite (count_le_floor z z' (X ++ Y) Y (incl_appr X (incl_refl Y)) Hle Hmax).
    rewrite (ks_H_unfold (A:=RealA)).
    apply (maxf_ge_term (ks_term (A:=RealA) X Y) (X ++ Y) 0 z' Hin).
Qed.

Theorem ks_H_attained : forall (X Y : list R), X ++ Y <> [] ->
  exists z, In z (X ++ Y) /\
    ks_H (A:=RealA) X Y = Z.abs (count_le (A:=RealA) z X * len Y - count_le (A:=RealA) z Y * len X).
Proof.
  intros X Y Hne. rewrite (ks_H_unfold (A:=RealA)).
  destruct (maxf_attained (ks_term (A:=RealA) X Y) (X ++ Y) 0) as [E|[z [Hz E]]].
  - assert (Hex : exists z0, In z0 (X ++ Y)).
    { destruct (X ++ Y) as [|z0 L]; [contradiction|]. exists z0. left. reflexivity. }
    destruct Hex as [z0 Hz0]. exists z0. split; [exact Hz0|].
    pose proof (maxf_ge_term (ks_term (A:=RealA) X Y) (X ++ Y) 0 z0 Hz0) as Hge.
    pose proof (ks_term_range (A:=RealA) X Y z0) as Hr.
    rewrite E in Hge. refine (eq_trans E _). unfold ks_term in Hge, Hr. lia.
  - exists z. split; [exact Hz|exact E].
Qed.

(* ------------------------------------------------------------------ *)
(** * The p-value is a fraction of all interleavings *)

(** the statistic of an interleaving: largest |i m - j n| over its prefix endpoints *)
Definition band_term (n m : Z) (p : list bool) : Z :=
  let '(i, j) := endpoint p in Z.abs (i * m - j * n).
Definition word_max (n m : Z) (w : list bool) : Z :=
  fold_left (maxf (band_term n m)) (prefixes w) 0.

Lemma nil_in_prefixes : forall {T} (w : list T), In [] (prefixes w).
Proof. intros T [|x w]; left; reflexivity. Qed.

Lemma inside_true_iff : forall n m H w, inside n m H w = true <-> word_max n m w < H.
Proof.
  intros n m H w. unfold inside, word_max. rewrite forallb_forall. split.
  - intros Hall.
    assert (Hb : fold_left (maxf (band_term n m)) (prefixes w) 0 <= H - 1); [|lia].
    apply maxf_le_bound.
    + specialize (Hall [] (nil_in_prefixes w)). unfold endpoint, in_band in Hall.
      cbn in Hall. apply Z.ltb_lt in Hall. lia.
    + intros p Hp. specialize (Hall p Hp). unfold band_term.
      destruct (endpoint p) as [i j]. unfold in_band in Hall. apply Z.ltb_lt in Hall. lia.
  - intros Hlt p Hp.
    pose proof (maxf_ge_term (band_term n m) (prefixes w) 0 p Hp) as Hge.
    unfold band_term at 1 in Hge. destruct (endpoint p) as [i j]. unfold in_band.
    apply Z.ltb_lt. lia.
Qed.

Lemma inside_false_iff : forall n m H w, inside n m H w = false <-> H <= word_max n m w.
Proof.
  intros n m H w. pose proof (inside_true_iff n m H w) as Ht.
  destruct (inside n m H w); split; intros Hx; try discriminate; try reflexivity.
  - assert (word_max n m w < H) by (apply Ht; reflexivity). lia.
  - destruct (Z_lt_le_dec (word_max n m w) H) as [Hlt|Hle]; [|exact Hle].
    apply Ht in Hlt. discriminate.
Qed.

Lemma filter_negb_length : forall {T} (p : T -> bool) (l : list T),
  (length (filter (fun x => negb (p x)) l) + length (filter p l) = length l)%nat.
Proof.
  intros T p l. induction l as [|a l IHl]; cbn.
  - reflexivity.
  - destruct (p a); cbn; lia.
Qed.

(** [ks_p_frac] = (number of interleavings whose statistic is at least the observed one,
    number of all interleavings) *)
Theorem ks_p_frac_is_fraction : forall (A : Arith) (X Y : list (NumSys.num A)),
  ks_p_frac X Y =
  (Z.of_nat (length (filter (fun w => ks_H X Y <=? word_max (len X) (len Y) w)
                            (words (length X) (length Y)))),
   Z.of_nat (length (words (length X) (length Y)))).
Proof.
  intros A X Y. unfold ks_p_frac. unfold len at 1 2 3 4 5 6.
  rewrite <- words_count, ks_dp_is_enumeration. f_equal.
  fold (len X). fold (len Y).
  rewrite (filter_ext (fun w => ks_H X Y <=? word_max (len X) (len Y) w)
                      (fun w => negb (inside (len X) (len Y) (ks_H X Y) w))).
  - pose proof (filter_negb_length (inside (len X) (len Y) (ks_H X Y))
                                   (words (length X) (length Y))). lia.
  - intros w. destruct (inside (len X) (len Y) (ks_H X Y) w) eqn:Ei; cbn [negb].
    + apply inside_true_iff in Ei. apply Z.leb_gt. exact Ei.
    + apply inside_false_iff in Ei. apply Z.leb_le. exact Ei.
Qed.

(* ------------------------------------------------------------------ *)
(** * Part 3: the interleaving of a pair of samples with pairwise distinct values *)
From Coq Require Import Sorted.

(** tag every value with its origin, sort by value, read off the tags *)
Definition tag (X Y : list R) : list (R * bool) :=
  map (fun x => (x, true)) X ++ map (fun y => (y, false)) Y.
Fixpoint insert (a : R * bool) (l : list (R * bool)) : list (R * bool) :=
  match l with
  | [] => [a]
  | b :: r => if Rleb (fst a) (fst b) then a :: l else b :: insert a r
  end.
Fixpoint isort (l : list (R * bool)) : list (R * bool) :=
  match l with [] => [] | a :: r => insert a (isort r) end.
Definition merge_word (X Y : list R) : list bool := map snd (isort (tag X Y)).

Definition leT (a b : R * bool) : Prop := (fst a <= fst b)%R.
Definition ltT (a b : R * bool) : Prop := (fst a < fst b)%R.

Lemma insert_perm : forall a l, Permutation (a :: l) (insert a l).
Proof.
  intros a l. induction l as [|b l IH]; cbn.
  - apply Permutation_refl.
  - destruct (Rleb (fst a) (fst b)).
    + apply Permutation_refl.
    + eapply perm_trans; [apply perm_swap|]. apply perm_skip. exact IH.
Qed.

Lemma isort_perm : forall l, Permutation l (isort l).
Proof.
  induction l as [|a l IH]; cbn.
  - apply perm_nil.
  - eapply perm_trans; [apply perm_skip; exact IH|]. apply insert_perm.
Qed.

Lemma insert_sorted : forall a l, StronglySorted leT l -> StronglySorted leT (insert a l).
Proof.
  intros a l Hs. induction Hs as [|b l Hs IH Hb]; cbn.
  - constructor; [constructor|constructor].
  - destruct (Rleb (fst a) (fst b)) eqn:E.
    + apply Rleb_true in E. constructor.
      * constructor; assumption.
      * constructor; [exact E|]. eapply Forall_impl; [|exact Hb].
        intros c Hc. unfold leT in *. lra.
    + apply Rleb_false in E. constructor; [exact IH|].
      apply Forall_forall. intros c Hc.
      apply (Permutation_in _ (Permutation_sym (insert_perm a l))) in Hc.
      destruct Hc as [<-|Hc].
      * unfold leT. lra.
      * rewrite Forall_forall in Hb. apply Hb. exact Hc.
Qed.

Lemma isort_sorted : forall l, StronglySorted leT (isort l).
Proof.
  induction l as [|a l IH]; cbn.
  - constructor.
  - apply insert_sorted. exact IH.
Qed.

Lemma sorted_strict : forall l, StronglySorted leT l -> NoDup (map fst l) -> StronglySorted ltT l.
Proof.
  intros l Hs. induction Hs as [|a l Hs IH Ha]; intros Hnd.
  - constructor.
  - cbn in Hnd. inversion Hnd as [|? ? Hnin Hnd']; subst. constructor; [apply IH; exact Hnd'|].
    apply Forall_forall. intros c Hc. rewrite Forall_forall in Ha. specialize (Ha c Hc).
    unfold leT in Ha. unfold ltT.
    destruct (Req_dec (fst a) (fst c)) as [Eq|Ne]; [|lra].
    exfalso. apply Hnin. rewrite Eq. apply in_map. exact Hc.
Qed.

Lemma sorted_split : forall (P Q : list (R * bool)) e,
  StronglySorted ltT (P ++ e :: Q) ->
  Forall (fun p => ltT p e) P /\ Forall (ltT e) Q.
Proof.
  induction P as [|a P IH]; intros Q e Hs; cbn in Hs.
  - inversion Hs; subst. split; [constructor|assumption].
  - inversion Hs as [|? ? Hs' Ha]; subst. destruct (IH Q e Hs') as [HP HQ].
    split; [|exact HQ]. constructor; [|exact HP].
    rewrite Forall_forall in Ha. apply Ha. apply in_elt.
Qed.

(** number of values [<= z] with tag [b] in a tagged list *)
Fixpoint cnt (b : bool) (z : R) (S : list (R * bool)) : Z :=
  match S with
  | [] => 0
  | e :: r => (if Rleb (fst e) z && Bool.eqb (snd e) b then 1 else 0) + cnt b z r
  end.

Lemma cnt_app : forall b z S1 S2, cnt b z (S1 ++ S2) = cnt b z S1 + cnt b z S2.
Proof.
  intros b z S1 S2. induction S1 as [|e S1 IH]; cbn [app cnt].
  - lia.
  - rewrite IH. lia.
Qed.

Lemma cnt_perm : forall b z S S', Permutation S S' -> cnt b z S = cnt b z S'.
Proof.
  intros b z S S' HP. induction HP; cbn [cnt]; lia.
Qed.

Lemma cnt_same : forall b z (X : list R),
  cnt b z (map (fun x => (x, b)) X) = count_le (A:=RealA) z X.
Proof.
  intros b z X. induction X as [|x X IH].
  - reflexivity.
  - cbn [map cnt fst snd]. rewrite (count_le_cons (A:=RealA)), IH, eqb_reflx, andb_true_r.
    reflexivity.
Qed.

Lemma cnt_other : forall b z (X : list R),
  cnt b z (map (fun x => (x, negb b)) X) = 0.
Proof.
  intros b z X. induction X as [|x X IH].
  - reflexivity.
  - cbn [map cnt fst snd]. rewrite IH. destruct b; cbn; rewrite andb_false_r; reflexivity.
Qed.

Lemma cnt_tag_true : forall z X Y, cnt true z (tag X Y) = count_le (A:=RealA) z X.
Proof.
  intros z X Y. unfold tag. rewrite cnt_app, cnt_same.
  change false with (negb true). rewrite cnt_other. lia.
Qed.

Lemma cnt_tag_false : forall z X Y, cnt false z (tag X Y) = count_le (A:=RealA) z Y.
Proof.
  intros z X Y. unfold tag. rewrite cnt_app, cnt_same.
  change true with (negb false). rewrite cnt_other. lia.
Qed.

Lemma cnt_below : forall b z P, Forall (fun p => (fst p <= z)%R) P ->
  cnt b z P = Z.of_nat (count_occ bool_dec (map snd P) b).
Proof.
  intros b z P HP. induction HP as [|e P He HP IH].
  - reflexivity.
  - cbn [cnt map count_occ]. rewrite IH. apply Rleb_true in He. rewrite He. cbn [andb].
    destruct (bool_dec (snd e) b) as [Eb|Eb].
    + rewrite Eb, eqb_reflx. lia.
    + destruct (snd e), b; try (exfalso; apply Eb; reflexivity); cbn; lia.
Qed.

Lemma cnt_above : forall b z Q, Forall (fun q => (z < fst q)%R) Q -> cnt b z Q = 0.
Proof.
  intros b z Q HQ. induction HQ as [|e Q He HQ IH].
  - reflexivity.
  - cbn [cnt]. rewrite IH. apply Rleb_false in He. rewrite He. reflexivity.
Qed.

Lemma cnt_sorted_split : forall b P Q e, StronglySorted ltT (P ++ e :: Q) ->
  cnt b (fst e) (P ++ e :: Q) = Z.of_nat (count_occ bool_dec (map snd (P ++ [e])) b).
Proof.
  intros b P Q e Hs. destruct (sorted_split P Q e Hs) as [HP HQ].
  replace (P ++ e :: Q) with ((P ++ [e]) ++ Q) by (rewrite <- app_assoc; reflexivity).
  rewrite cnt_app, (cnt_above b (fst e) Q).
  - rewrite cnt_below; [lia|]. apply Forall_app. split.
    + eapply Forall_impl; [|exact HP]. intros p Hp. unfold ltT in Hp. lra.
    + constructor; [lra|constructor].
  - eapply Forall_impl; [|exact HQ]. intros q Hq. exact Hq.
Qed.

Lemma in_prefixes_app : forall {T} (p s : list T), In p (prefixes (p ++ s)).
Proof.
  intros T p s. induction p as [|x p IH]; cbn [app].
  - apply nil_in_prefixes.
  - cbn [prefixes]. right. apply in_map. exact IH.
Qed.

Lemma maxf_le_maxf : forall {T T'} (g : T -> Z) (g' : T' -> Z) l l' a,
  (forall z, In z l -> g z <= a \/ exists z', In z' l' /\ g z <= g' z') ->
  fold_left (maxf g) l a <= fold_left (maxf g') l' a.
Proof.
  intros T T' g g' l l' a Hd. apply maxf_le_bound.
  - apply maxf_ge_init.
  - intros z Hz. destruct (Hd z Hz) as [Hle|[z' [Hz' Hle]]].
    + pose proof (maxf_ge_init g' l' a). lia.
    + pose proof (maxf_ge_term g' l' a z' Hz'). lia.
Qed.

Lemma map_fst_tag : forall X Y, map fst (tag X Y) = X ++ Y.
Proof.
  intros X Y. unfold tag. rewrite map_app, !map_map. cbn [fst]. rewrite !map_id. reflexivity.
Qed.

Lemma map_snd_tag : forall X Y,
  map snd (tag X Y) = repeat true (length X) ++ repeat false (length Y).
Proof.
  intros X Y. unfold tag. rewrite map_app, !map_map. cbn [snd]. f_equal.
  - induction X as [|x X IH]; cbn; [reflexivity|]. rewrite IH. reflexivity.
  - induction Y as [|y Y IH]; cbn; [reflexivity|]. rewrite IH. reflexivity.
Qed.

(** the merged word is one of the enumerated interleavings *)
Theorem merge_word_in_words : forall X Y, In (merge_word X Y) (words (length X) (length Y)).
Proof.
  intros X Y. apply words_spec. unfold merge_word.
  assert (HP : Permutation (map snd (tag X Y)) (map snd (isort (tag X Y)))).
  { apply Permutation_map. apply isort_perm. }
  rewrite (Permutation_count_occ bool_dec) in HP. rewrite <- !HP, map_snd_tag, !count_occ_app.
  rewrite (count_occ_repeat_eq bool_dec (x:=true) (y:=true) (length X) eq_refl).
  rewrite (count_occ_repeat_eq bool_dec (x:=false) (y:=false) (length Y) eq_refl).
  rewrite (count_occ_repeat_neq bool_dec (x:=true) (y:=false) (length Y)) by discriminate.
  rewrite (count_occ_repeat_neq bool_dec (x:=false) (y:=true) (length X)) by discriminate.
  lia.
Qed.

(** for pairwise distinct values the statistic is the statistic of the merged word *)
Theorem ks_H_word_max : forall X Y : list R, NoDup (X ++ Y) ->
  ks_H (A:=RealA) X Y = word_max (len (A:=RealA) X) (len (A:=RealA) Y) (merge_word X Y).
Proof.
  intros X Y Hnd. rewrite (ks_H_unfold (A:=RealA)). unfold word_max, merge_word.
  set (S := isort (tag X Y)).
  assert (HPS : Permutation (tag X Y) S) by apply isort_perm.
  assert (HPf : Permutation (X ++ Y) (map fst S)).
  { rewrite <- map_fst_tag. apply Permutation_map. exact HPS. }
  assert (Hs : StronglySorted ltT S).
  { apply sorted_strict; [apply isort_sorted|].
    apply (Permutation_NoDup HPf). exact Hnd. }
  assert (Hterm : forall P Q e, S = P ++ e :: Q ->
            ks_term (A:=RealA) X Y (fst e) =
            band_term (len (A:=RealA) X) (len (A:=RealA) Y) (map snd (P ++ [e]))).
  { intros P Q e ES. unfold ks_term, band_term, endpoint.
    rewrite <- (cnt_tag_true (fst e) X Y), <- (cnt_tag_false (fst e) X Y).
    rewrite (cnt_perm true _ _ _ HPS), (cnt_perm false _ _ _ HPS).
    rewrite ES in Hs |- *. rewrite !cnt_sorted_split by exact Hs. reflexivity. }
  apply Z.le_antisymm.
  - apply maxf_le_maxf. intros z Hz. right.
    apply (Permutation_in _ HPf) in Hz. apply in_map_iff in Hz. destruct Hz as [e [<- He]].
    apply in_split in He. destruct He as [P [Q ES]].
    exists (map snd (P ++ [e])). split.
    + rewrite ES. replace (P ++ e :: Q) with ((P ++ [e]) ++ Q) by (rewrite <- app_assoc; reflexivity).
      rewrite (map_app snd (P ++ [e]) Q). apply in_prefixes_app.
    + rewrite (Hterm P Q e ES). lia.
  - apply maxf_le_maxf. intros p Hp.
    apply prefixes_prefix in Hp. destruct Hp as [s Hs'].
    apply map_eq_app in Hs'. destruct Hs' as [P' [Q [ES [<- _]]]].
    destruct P' as [|e0 P0].
    + left. cbn. lia.
    + right. assert (Hne : e0 :: P0 <> []) by discriminate.
      destruct (exists_last Hne) as [P [e EP]]. rewrite EP in *.
      rewrite <- app_assoc in ES. cbn [app] in ES.
      exists (fst e). split.
      * apply (Permutation_in _ (Permutation_sym HPf)). apply in_map. rewrite ES. apply in_elt.
      * rewrite (Hterm P Q e ES). lia.
Qed.

Theorem ks_H_word : forall (X Y : list R) (H : Z), NoDup (X ++ Y) ->
  (H <= ks_H (A:=RealA) X Y <->
   inside (len (A:=RealA) X) (len (A:=RealA) Y) H (merge_word X Y) = false).
Proof.
  intros X Y H Hnd. rewrite inside_false_iff, <- (ks_H_word_max X Y Hnd). reflexivity.
Qed.
