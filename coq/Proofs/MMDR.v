(** Lemmas for C09: chunking, kernel sums, the unbiased MMD estimator, fit cache,
    permutation invariance, ring-buffer storage order, streaming MMD. *)
From Coq Require Import ZArith List Bool Reals Lra Lia Permutation Arith.
From FV Require Import NumSys RealA Py Sums Queue QueueRef MMD.
Import ListNotations.

(** * 1. Chunking ([MMD._get_chunks]) *)
Section ChunksR.
  Context {T : Type}.

  Lemma ceil_div_step : forall n c, (0 < c)%nat -> (0 < n)%nat ->
    Nat.div (n + c - 1) c = S (Nat.div (n - c + c - 1) c).
  Proof.
    intros n c Hc Hn.
    destruct (le_lt_dec c n) as [Hle|Hlt].
    - replace (n + c - 1)%nat with ((n - c + c - 1) + 1 * c)%nat by lia.
      rewrite Nat.div_add by lia. lia.
    - replace (n - c + c - 1)%nat with (c - 1)%nat by lia.
      rewrite (Nat.div_small (c - 1) c) by lia.
      symmetry. apply Nat.div_unique with (r := (n - 1)%nat); lia.
  Qed.

  Lemma range_step_0 : forall c, (0 < c)%nat -> range_step 0 c = [].
  Proof.
    intros c Hc. unfold range_step. replace (0 + c - 1)%nat with (c - 1)%nat by lia.
    rewrite Nat.div_small by lia. reflexivity.
  Qed.

  Lemma range_step_pos : forall n c, (0 < c)%nat -> (0 < n)%nat ->
    range_step n c = O :: map (fun i => (c + i)%nat) (range_step (n - c) c).
  Proof.
    intros n c Hc Hn. unfold range_step.
    rewrite (ceil_div_step n c Hc Hn). cbn [seq map]. f_equal.
    rewrite <- seq_shift, !map_map. apply map_ext. intros j. cbn [Nat.mul]. reflexivity.
  Qed.

  Lemma skipn_add : forall (l : list T) a b, skipn (a + b) l = skipn b (skipn a l).
  Proof.
    intros l a; revert l; induction a as [|a IH]; intros l b; [reflexivity|].
    destruct l as [|x l]; cbn [Nat.add skipn]; [destruct b; reflexivity | apply IH].
  Qed.

  Lemma chunks_nat_nil : forall c, (0 < c)%nat -> chunks_nat c (@nil T) = [].
  Proof. intros c Hc. unfold chunks_nat. cbn [length]. rewrite range_step_0 by exact Hc. reflexivity. Qed.

  (** the range-indexed slices are "take c, drop c, repeat" *)
  Lemma chunks_nat_cons : forall c (l : list T), (0 < c)%nat -> l <> [] ->
    chunks_nat c l = firstn c l :: chunks_nat c (skipn c l).
  Proof.
    intros c l Hc Hl. unfold chunks_nat.
    assert (Hn : (0 < length l)%nat) by (destruct l; [contradiction | cbn [length]; lia]).
    rewrite (range_step_pos _ _ Hc Hn).
    cbn [map skipn]. f_equal. rewrite skipn_length, map_map. apply map_ext.
    intros i. rewrite skipn_add. reflexivity.
  Qed.

  Lemma chunks_concat_len : forall n c (l : list T), (0 < c)%nat -> (length l <= n)%nat ->
    concat (chunks_nat c l) = l.
  Proof.
    induction n as [|n IH]; intros c l Hc Hn.
    - destruct l; [|cbn [length] in Hn; lia]. rewrite chunks_nat_nil by exact Hc. reflexivity.
    - destruct l as [|x l]; [rewrite chunks_nat_nil by exact Hc; reflexivity|].
      rewrite (chunks_nat_cons c (x :: l) Hc) by discriminate.
      cbn [concat]. rewrite IH; [apply firstn_skipn | exact Hc |].
      rewrite skipn_length. cbn [length] in *. lia.
  Qed.

  Theorem chunks_concat : forall c (l : list T), (0 < c)%nat -> concat (chunks_nat c l) = l.
  Proof. intros c l Hc. apply (chunks_concat_len (length l)); [exact Hc | lia]. Qed.

  (** every chunk has at most [c] elements and none is empty *)
  Lemma chunks_sizes_len : forall n c (l : list T), (0 < c)%nat -> (length l <= n)%nat ->
    Forall (fun ch => (1 <= length ch <= c)%nat) (chunks_nat c l).
  Proof.
    induction n as [|n IH]; intros c l Hc Hn.
    - destruct l; [|cbn [length] in Hn; lia]. rewrite chunks_nat_nil by exact Hc. constructor.
    - destruct l as [|x l]; [rewrite chunks_nat_nil by exact Hc; constructor|].
      rewrite (chunks_nat_cons c (x :: l) Hc) by discriminate. constructor.
      + rewrite firstn_length. cbn [length]. lia.
      + apply IH; [exact Hc|]. rewrite skipn_length. cbn [length] in *. lia.
  Qed.
  Theorem chunks_sizes : forall c (l : list T), (0 < c)%nat ->
    Forall (fun ch => (1 <= length ch <= c)%nat) (chunks_nat c l).
  Proof. intros c l Hc. apply (chunks_sizes_len (length l)); [exact Hc | lia]. Qed.

  Lemma get_chunks_pos : forall (l : list T) c, (0 < c)%Z ->
    get_chunks l c = Ok (chunks_nat (Z.to_nat c) l).
  Proof.
    intros l c Hc. unfold get_chunks.
    destruct (c =? 0)%Z eqn:E0; [apply Z.eqb_eq in E0; lia|].
    destruct (c <? 0)%Z eqn:E1; [apply Z.ltb_lt in E1; lia|]. reflexivity.
  Qed.
End ChunksR.

(** * 2. Sums over R *)
Local Open Scope R_scope.

Lemma fold_left_Rplus : forall l a, fold_left Rplus l a = a + Rsum l.
Proof.
  induction l as [|x l IH]; intros a; unfold Rsum in *; cbn [fold_left fold_right]; [lra|].
  rewrite IH. lra.
Qed.

Lemma sumA_Rsum : forall l : list R, sumA (A:=RealA) l = Rsum l.
Proof.
  intros l. unfold sumA. cbn [add RealA]. rewrite fold_left_Rplus.
  unfold zero. cbn [ofZ RealA]. lra.
Qed.

Lemma Rsum_nil : Rsum [] = 0.
Proof. reflexivity. Qed.
Lemma Rsum_cons' : forall x l, Rsum (x :: l) = x + Rsum l.
Proof. reflexivity. Qed.
Lemma Rsum_app' : forall a b, Rsum (a ++ b) = Rsum a + Rsum b.
Proof.
  induction a as [|x a IH]; intros b; cbn [app]; rewrite ?Rsum_cons', ?Rsum_nil; [lra|].
  rewrite IH. lra.
Qed.
Lemma Rsum_flat_map : forall {X} (f : X -> list R) l,
  Rsum (flat_map f l) = Rsum (map (fun x => Rsum (f x)) l).
Proof.
  intros X f l; induction l as [|x l IH]; cbn [flat_map map]; [reflexivity|].
  rewrite Rsum_app', Rsum_cons', IH. reflexivity.
Qed.
Lemma Rsum_map_add : forall {X} (f g : X -> R) l,
  Rsum (map (fun i => f i + g i) l) = Rsum (map f l) + Rsum (map g l).
Proof.
  intros X f g l; induction l as [|x l IH]; cbn [map]; rewrite ?Rsum_cons', ?Rsum_nil; [lra|].
  rewrite IH. lra.
Qed.
Lemma Rsum_map_ext_in : forall {X} (f g : X -> R) l,
  (forall x, In x l -> f x = g x) -> Rsum (map f l) = Rsum (map g l).
Proof. intros X f g l H. f_equal. apply map_ext_in. exact H. Qed.
Lemma Rsum_map_const : forall {X} (l : list X) c, Rsum (map (fun _ => c) l) = INR (length l) * c.
Proof.
  intros X l c; induction l as [|x l IH]; [cbn; lra|].
  cbn [map]. rewrite Rsum_cons', IH. cbn [length]. rewrite S_INR. lra.
Qed.
Lemma Rsum_perm : forall l l', Permutation l l' -> Rsum l = Rsum l'.
Proof.
  intros l l' H; induction H; rewrite ?Rsum_cons' in *; lra.
Qed.

(** Kronecker delta under a sum *)
Lemma Rsum_delta : forall (f : nat -> R) i n a,
  Rsum (map (fun j => if Nat.eqb i j then f j else 0) (seq a n)) =
  if (Nat.leb a i && Nat.ltb i (a + n))%bool then f i else 0.
Proof.
  intros f i n; induction n as [|n IH]; intros a.
  - cbn [seq map]. rewrite Rsum_nil.
    destruct (Nat.leb a i) eqn:E1; destruct (Nat.ltb i (a + 0)) eqn:E2; cbn [andb]; try reflexivity.
    apply Nat.leb_le in E1. apply Nat.ltb_lt in E2. lia.
  - cbn [seq map]. rewrite Rsum_cons', IH.
    destruct (Nat.eqb i a) eqn:Ea.
    + apply Nat.eqb_eq in Ea. subst a.
      replace (Nat.leb (S i) i) with false by (symmetry; apply Nat.leb_gt; lia).
      replace (Nat.leb i i) with true by (symmetry; apply Nat.leb_le; lia).
      replace (Nat.ltb i (i + S n)) with true by (symmetry; apply Nat.ltb_lt; lia).
      cbn [andb]. lra.
    + apply Nat.eqb_neq in Ea.
      destruct (Nat.leb a i) eqn:E1; destruct (Nat.leb (S a) i) eqn:E1';
        destruct (Nat.ltb i (S a + n)) eqn:E2; destruct (Nat.ltb i (a + S n)) eqn:E2'; cbn [andb]; try lra;
        repeat match goal with
        | H : Nat.leb _ _ = true |- _ => apply Nat.leb_le in H
        | H : Nat.leb _ _ = false |- _ => apply Nat.leb_gt in H
        | H : Nat.ltb _ _ = true |- _ => apply Nat.ltb_lt in H
        | H : Nat.ltb _ _ = false |- _ => apply Nat.ltb_ge in H
        end; lia.
Qed.

Lemma map_nth_seq : forall {X Y} (f : X -> Y) (l : list X) (d : X),
  map f l = map (fun i => f (nth i l d)) (seq 0 (length l)).
Proof.
  intros X Y f l d; induction l as [|x l IH]; [reflexivity|].
  cbn [length seq map nth]. f_equal. rewrite <- seq_shift, map_map. exact IH.
Qed.

(** * 3. Kernel sums and the estimator of the property statement *)
Section Spec.
  Context {P : Type}.
  Variable k : P -> P -> R.

  (** sum_{i,j} k(x_i, y_j) *)
  Definition pairsum (X Y : list P) : R := Rsum (map (fun x => Rsum (map (k x) Y)) X).
  (** sum_{i != j} k(x_i, x_j), by indices as in the statement *)
  Definition offdiag (X : list P) (d : P) : R :=
    Rsum (map (fun i => Rsum (map (fun j => if Nat.eqb i j then 0 else k (nth i X d) (nth j X d))
                                  (seq 0 (length X)))) (seq 0 (length X))).
  Definition diagsum (X : list P) : R := Rsum (map (fun x => k x x) X).

  (** the unbiased squared-MMD estimate of the property statement *)
  Definition mmd_u (d : P) (X Y : list P) : R :=
    let n := INR (length X) in
    let m := INR (length Y) in
    offdiag X d / (n * (n - 1)) + offdiag Y d / (m * (m - 1)) - 2 * pairsum X Y / (n * m).

  Lemma pairsum_cons_l : forall x X Y, pairsum (x :: X) Y = Rsum (map (k x) Y) + pairsum X Y.
  Proof. intros; unfold pairsum; cbn [map]; rewrite Rsum_cons'; reflexivity. Qed.
  Lemma pairsum_app_l : forall X1 X2 Y, pairsum (X1 ++ X2) Y = pairsum X1 Y + pairsum X2 Y.
  Proof. intros; unfold pairsum; rewrite map_app, Rsum_app'; reflexivity. Qed.
  Lemma pairsum_nil_r : forall X, pairsum X [] = 0.
  Proof.
    intros X; unfold pairsum. cbn [map]. rewrite Rsum_nil. rewrite Rsum_map_const. lra.
  Qed.
  Lemma pairsum_app_r : forall X Y1 Y2, pairsum X (Y1 ++ Y2) = pairsum X Y1 + pairsum X Y2.
  Proof.
    intros X Y1 Y2; unfold pairsum. rewrite <- Rsum_map_add. apply Rsum_map_ext_in.
    intros x _. rewrite map_app, Rsum_app'. reflexivity.
  Qed.

  (** the full Gram sum splits into off-diagonal and diagonal parts (any kernel) *)
  Lemma pairsum_diag_split : forall X d, pairsum X X = offdiag X d + diagsum X.
  Proof.
    intros X d. unfold pairsum, offdiag, diagsum.
    rewrite (map_nth_seq (fun x => Rsum (map (k x) X)) X d).
    rewrite (map_nth_seq (fun x => k x x) X d).
    rewrite <- Rsum_map_add. apply Rsum_map_ext_in. intros i Hi. apply in_seq in Hi.
    rewrite (map_nth_seq (k (nth i X d)) X d).
    rewrite (Rsum_map_ext_in
      (fun j => k (nth i X d) (nth j X d))
      (fun j => (if Nat.eqb i j then 0 else k (nth i X d) (nth j X d)) +
                (if Nat.eqb i j then k (nth j X d) (nth j X d) else 0))).
    - rewrite Rsum_map_add. f_equal.
      rewrite (Rsum_delta (fun j => k (nth j X d) (nth j X d)) i (length X) 0).
      replace (Nat.leb 0 i) with true by reflexivity.
      replace (Nat.ltb i (0 + length X)) with true by (symmetry; apply Nat.ltb_lt; lia).
      reflexivity.
    - intros j _. destruct (Nat.eqb i j) eqn:E; [apply Nat.eqb_eq in E; subst j|]; lra.
  Qed.

  Lemma diagsum_one : (forall x, k x x = 1) -> forall X, diagsum X = INR (length X).
  Proof.
    intros H X. unfold diagsum.
    rewrite (Rsum_map_ext_in (fun x => k x x) (fun _ => 1)) by (intros; apply H).
    rewrite Rsum_map_const. lra.
  Qed.

  (** ** permutation invariance (no hypothesis on the kernel) *)
  Lemma pairsum_perm_r : forall X Y Y', Permutation Y Y' -> pairsum X Y = pairsum X Y'.
  Proof.
    intros X Y Y' H. unfold pairsum. apply Rsum_map_ext_in. intros x _.
    apply Rsum_perm. apply Permutation_map. exact H.
  Qed.
  Lemma pairsum_perm_l : forall X X' Y, Permutation X X' -> pairsum X Y = pairsum X' Y.
  Proof. intros X X' Y H. unfold pairsum. apply Rsum_perm. apply Permutation_map. exact H. Qed.
  Lemma diagsum_perm : forall X X', Permutation X X' -> diagsum X = diagsum X'.
  Proof. intros X X' H. unfold diagsum. apply Rsum_perm. apply Permutation_map. exact H. Qed.
  Lemma offdiag_perm : forall X X' d, Permutation X X' -> offdiag X d = offdiag X' d.
  Proof.
    intros X X' d H.
    pose proof (pairsum_diag_split X d) as E1. pose proof (pairsum_diag_split X' d) as E2.
    rewrite (pairsum_perm_l X X' X H), (pairsum_perm_r X' X X' H) in E1.
    rewrite (diagsum_perm X X' H) in E1. lra.
  Qed.

  Theorem mmd_u_perm_r : forall d X Y Y', Permutation Y Y' -> mmd_u d X Y = mmd_u d X Y'.
  Proof.
    intros d X Y Y' H. unfold mmd_u.
    rewrite (offdiag_perm Y Y' d H), (pairsum_perm_r X Y Y' H), (Permutation_length H). reflexivity.
  Qed.
  Theorem mmd_u_perm_l : forall d X X' Y, Permutation X X' -> mmd_u d X Y = mmd_u d X' Y.
  Proof.
    intros d X X' Y H. unfold mmd_u.
    rewrite (offdiag_perm X X' d H), (pairsum_perm_l X X' Y H), (Permutation_length H). reflexivity.
  Qed.
End Spec.

(** * 4. The code's chunked computation over R *)
Definition same_shape {A : Arith} (X Y : arr A) : Prop :=
  match X, Y with
  | Arr1 _, Arr1 _ => True
  | Arr2 d _, Arr2 d' _ => d = d'
  | _, _ => False
  end.

(** what the chunk_size setter accepts *)
Definition chunk_ok (chunk : option Z) : Prop :=
  match chunk with Some c => (0 < c)%Z | None => True end.

Lemma chunk_or_pos : forall chunk n, chunk_ok chunk -> (2 <= n)%Z -> (0 < chunk_or chunk n)%Z.
Proof. intros [c|] n H Hn; cbn [chunk_or chunk_ok] in *; lia. Qed.

Section CodeR.
  Notation ptR := (pt RealA).
  Variable k : ptR -> ptR -> R.

  Lemma kernel_sum_pairsum : forall a b, kernel_sum (A:=RealA) k a b = pairsum k a b.
  Proof. intros a b. unfold kernel_sum. rewrite sumA_Rsum, Rsum_flat_map. reflexivity. Qed.

  Lemma compute_kernel_row : forall a ys,
    Rsum (map (fun ab : list ptR * list ptR => pairsum k (fst ab) (snd ab)) (map (pair a) ys)) =
    pairsum k a (concat ys).
  Proof.
    intros a ys; induction ys as [|y ys IH]; cbn [map concat].
    - rewrite Rsum_nil, pairsum_nil_r. reflexivity.
    - rewrite Rsum_cons', IH, pairsum_app_r. reflexivity.
  Qed.

  (** [_compute_kernel] over [itertools.product] of two chunk lists = the full double sum *)
  Lemma compute_kernel_prod : forall xs ys,
    compute_kernel (A:=RealA) k (list_prod xs ys) = pairsum k (concat xs) (concat ys).
  Proof.
    intros xs ys. unfold compute_kernel. rewrite sumA_Rsum.
    rewrite (map_ext _ (fun ab => pairsum k (fst ab) (snd ab))) by (intros; apply kernel_sum_pairsum).
    induction xs as [|x xs IH]; cbn [list_prod concat map].
    - rewrite Rsum_nil. reflexivity.
    - rewrite map_app, Rsum_app', IH, compute_kernel_row, pairsum_app_l. reflexivity.
  Qed.

  Theorem chunked_sum : forall cx cy X Y, (0 < cx)%nat -> (0 < cy)%nat ->
    compute_kernel (A:=RealA) k (list_prod (chunks_nat cx X) (chunks_nat cy Y)) = pairsum k X Y.
  Proof. intros. rewrite compute_kernel_prod, !chunks_concat by assumption. reflexivity. Qed.

  Hypothesis k_diag : forall x, k x x = 1.

  Lemma IZR_zlen : forall {T} (l : list T), IZR (zlen l) = INR (length l).
  Proof. intros. unfold zlen. symmetry. apply INR_IZR_INZ. Qed.

  (** the cached reference term: "(sum - n) / (n(n-1))" is the off-diagonal mean *)
  Lemma expected_kxx_R : forall c X, (0 < c)%nat ->
    expected_kxx (A:=RealA) k (chunks_nat c X) (zlen X) =
    offdiag k X [] / (INR (length X) * (INR (length X) - 1)).
  Proof.
    intros c X Hc. unfold expected_kxx. rewrite chunked_sum by exact Hc.
    cbn [sub div ofZ RealA]. rewrite mult_IZR, minus_IZR, IZR_zlen.
    rewrite (pairsum_diag_split k X []), (diagsum_one k k_diag).
    f_equal. lra.
  Qed.

  Lemma mmd_py_shape : forall X Y : arr RealA, same_shape X Y ->
    match X, Y with
    | Arr1 _, Arr1 _ => Ok tt
    | Arr2 dx _, Arr2 dy _ => if (dx =? dy)%Z then Ok tt else Raise ValueError
    | _, _ => Raise ValueError
    end = Ok tt.
  Proof.
    intros [xs|d xr] [ys|d' yr] H; cbn [same_shape] in H; try contradiction; [reflexivity|].
    subst d'. rewrite Z.eqb_refl. reflexivity.
  Qed.

  (** [_mmd] with the reference term supplied (the [compare] path after [fit]) *)
  Lemma mmd_py_key_R : forall chunk X Y, chunk_ok chunk -> same_shape X Y ->
    (2 <= arr_len X)%Z -> (2 <= arr_len Y)%Z ->
    mmd_py k X Y chunk
      (Key (Some (expected_kxx k (chunks_nat (Z.to_nat (chunk_or chunk (arr_len X))) (expand_dims X)) (arr_len X)))) =
    Ok (mmd_u k [] (expand_dims X) (expand_dims Y)).
  Proof.
    intros chunk X Y Hc Hs Hn Hm. unfold mmd_py, arr_len in *.
    rewrite (mmd_py_shape X Y Hs). cbn [bind].
    pose proof (chunk_or_pos chunk _ Hc Hn) as Hcx. pose proof (chunk_or_pos chunk _ Hc Hm) as Hcy.
    rewrite (get_chunks_pos _ _ Hcx), (get_chunks_pos _ _ Hcy). cbn [bind].
    rewrite expected_kxx_R by lia.
    rewrite !chunked_sum by lia.
    f_equal. unfold mmd_u. cbn [add sub mul div ofZ RealA]. unfold two. cbn [ofZ RealA].
    rewrite !mult_IZR, !minus_IZR, !IZR_zlen.
    rewrite (pairsum_diag_split k (expand_dims Y) []), (diagsum_one k k_diag).
    replace (offdiag k (expand_dims Y) [] + INR (length (expand_dims Y)) - INR (length (expand_dims Y)))
      with (offdiag k (expand_dims Y) []) by lra.
    reflexivity.
  Qed.

  (** [_mmd] computing everything itself (the stand-alone statistic) *)
  Lemma mmd_py_nokey_R : forall chunk X Y, chunk_ok chunk -> same_shape X Y ->
    (2 <= arr_len X)%Z -> (2 <= arr_len Y)%Z ->
    mmd_py k X Y chunk NoKey = Ok (mmd_u k [] (expand_dims X) (expand_dims Y)).
  Proof.
    intros chunk X Y Hc Hs Hn Hm.
    rewrite <- (mmd_py_key_R chunk X Y Hc Hs Hn Hm).
    unfold mmd_py, arr_len in *. rewrite (mmd_py_shape X Y Hs). cbn [bind].
    pose proof (chunk_or_pos chunk _ Hc Hn) as Hcx.
    rewrite (get_chunks_pos _ _ Hcx). cbn [bind]. reflexivity.
  Qed.
End CodeR.

(** * 5. RBF kernel over R *)
Lemma sqeuclid_self : forall (x : pt RealA) s, sqeuclid x x s = s.
Proof.
  induction x as [|a x IH]; intros s; cbn [sqeuclid]; [reflexivity|].
  rewrite IH. cbn [add sub mul RealA]. lra.
Qed.

Lemma rbf_diag : forall (sigma : R) (x : pt RealA), sigma <> 0 -> rbf (A:=RealA) sigma x x = 1.
Proof.
  intros sigma x _. unfold rbf. rewrite sqeuclid_self.
  unfold neg, zero, two. cbn [sub mul div exp ofZ RealA].
  replace ((0 - 0) / (2 * (sigma * sigma))) with 0 by (unfold Rdiv; lra).
  apply exp_0.
Qed.

Lemma sqeuclid_sym : forall (x y : pt RealA) s, sqeuclid x y s = sqeuclid y x s.
Proof.
  induction x as [|a x IH]; intros [|b y] s; cbn [sqeuclid]; try reflexivity.
  rewrite IH. f_equal. cbn [add sub mul RealA]. lra.
Qed.
Lemma rbf_sym : forall (sigma : R) (x y : pt RealA), rbf (A:=RealA) sigma x y = rbf sigma y x.
Proof. intros. unfold rbf. rewrite sqeuclid_sym. reflexivity. Qed.

(** * 6. The reference term cached at fit = the recomputed one (every number system) *)
Section CacheA.
  Context {A : Arith}.
  Variable k : pt A -> pt A -> num A.

  (** If [fit X] succeeds and Y passes [compare]'s dimension check, [compare] performs
      exactly the operations of the stand-alone statistic: the two results are the same
      value (bit for bit in binary64), or the same exception. *)
  Theorem mmd_fit_cache : forall chunk s X Y s',
    mb_fit k chunk s X = (s', Ok tt) -> check_compare_dims X Y = Ok tt ->
    mb_compare k chunk s' Y = mb_statistic k chunk X Y.
  Proof.
    intros chunk s X Y s' Hfit Hd. unfold mb_fit in Hfit.
    destruct (check_fit_dims X) as [u|e]; [|discriminate].
    destruct (get_chunks (expand_dims X) (chunk_or chunk (zlen (expand_dims X)))) as [xch|e] eqn:Ech;
      [|discriminate].
    inversion Hfit; subst s'; clear Hfit.
    unfold mb_compare, mb_statistic. cbn [mb_ref mb_exp]. rewrite Hd. cbn [bind].
    unfold mmd_py.
    destruct X as [xs|d xr], Y as [ys|d' yr]; cbn [check_compare_dims] in Hd; try discriminate.
    - cbn [bind]. rewrite Ech. cbn [bind]. reflexivity.
    - destruct (d =? d')%Z; [|discriminate]. cbn [bind]. rewrite Ech. cbn [bind]. reflexivity.
  Qed.
End CacheA.

(** * 7. Ring buffer read in storage order *)
Section Storage.
  Context {T : Type}.

  Lemma NoDup_map_inj_in : forall {X Y} (f : X -> Y) (l : list X),
    (forall x y, In x l -> In y l -> f x = f y -> x = y) -> NoDup l -> NoDup (map f l).
  Proof.
    intros X Y f l; induction l as [|a l IH]; intros Hinj Hnd; cbn [map]; [constructor|].
    inversion Hnd as [|a' l' Hnin Hnd']; subst. constructor.
    - intros Hin. apply in_map_iff in Hin as (b & Hfb & Hb).
      assert (b = a) by (apply Hinj; [right; exact Hb | left; reflexivity | exact Hfb]).
      subst b. contradiction.
    - apply IH; [|exact Hnd']. intros x y Hx Hy. apply Hinj; right; assumption.
  Qed.

  (** the positions first, first+1, ... (mod M) of a full ring are all the slots *)
  Lemma rot_perm : forall M f, (1 <= M)%Z -> (0 <= f < M)%Z ->
    Permutation (map (fun i => Z.to_nat ((f + Z.of_nat i) mod M)) (seq 0 (Z.to_nat M)))
                (seq 0 (Z.to_nat M)).
  Proof.
    intros M f HM Hf. apply NoDup_Permutation_bis.
    - apply NoDup_map_inj_in; [|apply seq_NoDup].
      intros i j Hi Hj E. apply in_seq in Hi. apply in_seq in Hj.
      assert (Hpi := Z.mod_pos_bound (f + Z.of_nat i) M ltac:(lia)).
      assert (Hpj := Z.mod_pos_bound (f + Z.of_nat j) M ltac:(lia)).
      assert (E' : ((f + Z.of_nat i) mod M = (f + Z.of_nat j) mod M)%Z) by lia.
      destruct (le_lt_dec i j) as [Hij|Hij].
      + assert (f + Z.of_nat i = f + Z.of_nat j)%Z by (apply (mod_window_inj M); lia). lia.
      + symmetry in E'.
        assert (f + Z.of_nat j = f + Z.of_nat i)%Z by (apply (mod_window_inj M); lia). lia.
    - rewrite map_length. lia.
    - intros x Hin. apply in_map_iff in Hin as (i & Hx & Hi). subst x. apply in_seq.
      assert (Hp := Z.mod_pos_bound (f + Z.of_nat i) M ltac:(lia)). lia.
  Qed.

  Lemma list_map_nth_seq : forall {X} (l : list X) (d : X),
    l = map (fun i => nth i l d) (seq 0 (length l)).
  Proof. intros X l d. rewrite <- (map_nth_seq (fun x => x) l d). symmetry. apply map_id. Qed.

  (** a FULL ring, read slot by slot, is a permutation of its FIFO contents *)
  Theorem full_slots_perm : forall M (q : cq T) d, cq_rel M q d -> length d = Z.to_nat M ->
    Permutation (q_slots q) (map Some d).
  Proof.
    intros M q d Hrel Hlen.
    pose proof (cq_rel_count _ _ _ Hrel) as Hcnt.
    pose proof (cq_rel_max _ _ _ Hrel) as Hmax.
    pose proof (cq_rel_abs _ _ _ Hrel) as Habs.
    destruct (cq_rel_inv _ _ _ Hrel) as (HM & Hsl & Hc & Hf & _).
    unfold cq_abs in Habs. rewrite read_from_closed in Habs by assumption.
    rewrite <- Habs.
    rewrite (list_map_nth_seq (q_slots q) None) at 1.
    replace (map (rdf (q_max q) (q_slots q) (q_first q)) (seq 0 (Z.to_nat (q_count q))))
      with (map (fun j => nth j (q_slots q) None)
                (map (fun i => Z.to_nat ((q_first q + Z.of_nat i) mod q_max q)) (seq 0 (Z.to_nat (q_max q))))).
    - apply Permutation_map. rewrite Hsl. apply Permutation_sym. apply rot_perm; assumption.
    - rewrite map_map. replace (Z.to_nat (q_count q)) with (Z.to_nat (q_max q)) by lia. reflexivity.
  Qed.

  (** ** [lastn] facts *)
  Lemma lastn_snoc : forall n (l : list T) v, (1 <= n)%nat -> lastn n (l ++ [v]) = lastn (n - 1) l ++ [v].
  Proof.
    intros n l v Hn. unfold lastn. rewrite app_length. cbn [length].
    rewrite skipn_app.
    replace (length l + 1 - n - length l)%nat with 0%nat by lia. cbn [skipn].
    replace (length l + 1 - n)%nat with (length l - (n - 1))%nat by lia. reflexivity.
  Qed.
  Lemma lastn_lastn : forall m n (l : list T), (m <= n)%nat -> lastn m (lastn n l) = lastn m l.
  Proof.
    intros m n l H. unfold lastn. rewrite skipn_length, <- skipn_add. f_equal. lia.
  Qed.
  Lemma lastn_app_ge : forall n (a b : list T), (n <= length b)%nat -> lastn n (a ++ b) = lastn n b.
  Proof.
    intros n a b H. unfold lastn. rewrite app_length, skipn_app.
    rewrite skipn_all2 by lia. cbn [app]. f_equal. lia.
  Qed.
  Lemma lastn_nil : forall n, lastn n (@nil T) = [].
  Proof. intros n. apply lastn_all. cbn [length]. lia. Qed.

  Lemma enqueue_lastn : forall M (l : list T) v, (1 <= M)%Z ->
    fst (dq_enqueue M (lastn (Z.to_nat M) l) v) = lastn (Z.to_nat M) (l ++ [v]).
  Proof.
    intros M l v HM.
    assert (Hd : (length (lastn (Z.to_nat M) l) <= Z.to_nat M)%nat) by (rewrite lastn_length; lia).
    pose proof (lastn_enq M (lastn (Z.to_nat M) l) v [] HM Hd) as E.
    rewrite app_nil_r in E.
    rewrite lastn_all in E by (apply dq_enqueue_length; assumption).
    rewrite E. rewrite !lastn_snoc by lia. rewrite lastn_lastn by lia. reflexivity.
  Qed.

  Lemma Forall_lastn : forall (Pr : T -> Prop) n l, Forall Pr l -> Forall Pr (lastn n l).
  Proof.
    intros Pr n l H. unfold lastn.
    rewrite <- (firstn_skipn (length l - n) l) in H. apply Forall_app in H. apply H.
  Qed.
End Storage.

(** * 8. Streaming MMD *)
Inductive shape := Sh1 | Sh2 (d : nat).

Section StreamInv.
  Context {A : Arith}.
  Variable k : pt A -> pt A -> num A.
  Variable chunk : option Z.
  Variable w : Z.
  Hypothesis Hw : (1 <= w)%Z.
  Hypothesis Hchunk : chunk_ok chunk.
  Variable sh : shape.

  (** references and stream values of one shape: 1-D samples with scalar updates, or
      (n, d) samples with d-vector updates; references have at least two points *)
  Definition arr_good (X : arr A) : Prop :=
    match sh, X with
    | Sh1, Arr1 xs => (2 <= length xs)%nat
    | Sh2 d, Arr2 d' rows => d' = Z.of_nat d /\ (1 <= d)%nat /\ (2 <= length rows)%nat
    | _, _ => False
    end.
  Definition sval_good (v : sval A) : Prop :=
    match sh, v with
    | Sh1, VS _ => True
    | Sh2 d, VV p => length p = d
    | _, _ => False
    end.
  Definition ev_good (e : sev A) : Prop :=
    match e with SFit X => arr_good X | SReset => True | SUpd v => sval_good v end.
  Definition arr_shape (a : arr A) : Prop :=
    match sh, a with
    | Sh1, Arr1 _ => True
    | Sh2 d, Arr2 d' _ => d' = Z.of_nat d
    | _, _ => False
    end.

  Definition sval_pt (v : sval A) : pt A := match v with VS x => [x] | VV p => p end.
  Definition opt_pt (o : option (sval A)) : pt A := match o with Some v => sval_pt v | None => [] end.
  Definition slot_good (o : option (sval A)) : Prop := match o with Some v => sval_good v | None => False end.

  (** state of the batch detector after a successful [fit R] *)
  Definition fitted (R : arr A) : mb_st A :=
    {| mb_ref := Some R;
       mb_exp := Some (expected_kxx k (chunks_nat (Z.to_nat (chunk_or chunk (arr_len R))) (expand_dims R))
                                    (arr_len R)) |}.

  Lemma arr_good_len : forall X, arr_good X -> (2 <= arr_len X)%Z.
  Proof.
    intros X H. unfold arr_good in H. unfold arr_len, zlen.
    destruct sh, X; try contradiction; cbn [expand_dims]; rewrite ?map_length; lia.
  Qed.
  Lemma arr_good_fit_dims : forall X, arr_good X -> check_fit_dims X = Ok tt.
  Proof.
    intros X H. unfold arr_good in H. destruct sh, X; try contradiction; cbn [check_fit_dims]; [reflexivity|].
    destruct H as (-> & Hd & _). destruct (1 <=? Z.of_nat d)%Z eqn:E; [reflexivity|].
    apply Z.leb_gt in E. lia.
  Qed.

  Lemma mb_fit_good : forall s X, arr_good X -> mb_fit k chunk s X = (fitted X, Ok tt).
  Proof.
    intros s X H. unfold mb_fit. rewrite (arr_good_fit_dims X H).
    fold (arr_len X).
    rewrite get_chunks_pos by (apply chunk_or_pos; [exact Hchunk | apply arr_good_len; exact H]).
    reflexivity.
  Qed.

  Lemma ms_fit_good : forall s X, arr_good X ->
    ms_fit k chunk s X =
    ({| ms_n := ms_n s; ms_q := ms_q s; ms_ref := Some X; ms_mmd := fitted X; ms_w := ms_w s |}, Ok tt).
  Proof.
    intros s X H. unfold ms_fit. rewrite (arr_good_fit_dims X H), (mb_fit_good _ X H). reflexivity.
  Qed.

  (** ** [np.array(queue)] on a homogeneous full ring *)
  Lemma all_scalars_good : forall l, sh = Sh1 -> Forall slot_good l ->
    exists xs, all_scalars l = Some xs /\ map (fun x => [x]) xs = map opt_pt l.
  Proof.
    intros l Hsh H; induction H as [|o l Ho Hl IH]; [exists []; split; reflexivity|].
    destruct IH as (xs & E1 & E2).
    unfold slot_good, sval_good in Ho. rewrite Hsh in Ho.
    destruct o as [[x|p]|]; try contradiction.
    exists (x :: xs). cbn [all_scalars map opt_pt sval_pt]. rewrite E1, E2. split; reflexivity.
  Qed.
  Lemma all_vectors_good : forall d l, sh = Sh2 d -> Forall slot_good l ->
    all_vectors d l = Some (map opt_pt l).
  Proof.
    intros d l Hsh H; induction H as [|o l Ho Hl IH]; [reflexivity|].
    unfold slot_good, sval_good in Ho. rewrite Hsh in Ho.
    destruct o as [[x|p]|]; try contradiction.
    cbn [all_vectors map opt_pt sval_pt]. rewrite Ho, Nat.eqb_refl, IH. reflexivity.
  Qed.

  Lemma np_array_homog : forall l, Forall slot_good l -> l <> [] ->
    exists a, np_array l = Ok a /\ arr_shape a /\ expand_dims a = map opt_pt l.
  Proof.
    intros l H Hne. destruct l as [|o r]; [contradiction|].
    pose proof (Forall_inv H) as Ho. unfold slot_good, sval_good in Ho. unfold arr_shape.
    destruct sh as [|d] eqn:Esh.
    - destruct o as [[x|p]|]; try contradiction.
      destruct (all_scalars_good (Some (VS x) :: r) Esh H) as (xs & E1 & E2).
      exists (Arr1 xs). unfold np_array. rewrite E1. cbn [expand_dims]. auto.
    - destruct o as [[x|p]|]; try contradiction.
      pose proof (all_vectors_good d (Some (VV p) :: r) Esh H) as E.
      exists (Arr2 (zlen p) (map opt_pt (Some (VV p) :: r))). unfold np_array. rewrite Ho, E.
      cbn [expand_dims]. unfold zlen. rewrite Ho. auto.
  Qed.

  (** ** abstract history state: the reference in force and the values since the last reset *)
  Record absst := { a_ref : option (arr A); a_since : list (sval A) }.
  Definition abs0 : absst := {| a_ref := None; a_since := [] |}.
  Definition abs_step (a : absst) (e : sev A) : absst :=
    match e with
    | SFit X => {| a_ref := Some X; a_since := a_since a |}
    | SReset => {| a_ref := None; a_since := [] |}
    | SUpd v => match a_ref a with
                | None => a
                | Some _ => {| a_ref := a_ref a; a_since := a_since a ++ [v] |}
                end
    end.
  (** the values accepted since the ring was last cleared (reset clears it) *)
  Definition all_step (a : absst) (all : list (sval A)) (e : sev A) : list (sval A) :=
    match e with
    | SUpd v => match a_ref a with None => all | Some _ => all ++ [v] end
    | SReset => []
    | SFit _ => all
    end.

  Definition Inv (s : ms_st A) (a : absst) (all : list (sval A)) : Prop :=
    ms_w s = w /\ ms_ref s = a_ref a /\
    (forall R, a_ref a = Some R -> arr_good R /\ ms_mmd s = fitted R) /\
    ms_n s = zlen (a_since a) /\
    cq_rel w (ms_q s) (lastn (Z.to_nat w) all) /\
    (exists pre, all = pre ++ a_since a) /\
    Forall sval_good all.

  Lemma ms_new_inv : exists s0, ms_new w chunk = Ok s0 /\ Inv s0 abs0 [].
  Proof.
    unfold ms_new.
    assert (Hv : valid_chunk chunk = Ok tt).
    { unfold valid_chunk. destruct chunk as [c|]; [|reflexivity]. cbn [chunk_ok] in Hchunk.
      destruct (c <=? 0)%Z eqn:E; [apply Z.leb_le in E; lia | reflexivity]. }
    rewrite Hv. cbn [bind].
    destruct (w <? 1)%Z eqn:E; [apply Z.ltb_lt in E; lia|].
    eexists. split; [reflexivity|].
    unfold Inv, abs0. cbn [ms_w ms_ref ms_mmd ms_n ms_q a_ref a_since].
    split; [reflexivity|]. split; [reflexivity|]. split; [intros R E'; discriminate|].
    split; [reflexivity|]. split; [rewrite lastn_nil; apply cq_init_rel; exact Hw|].
    split; [exists []; reflexivity | constructor].
  Qed.

  (** shape of an accepted update *)
  Lemma ms_update_fitted : forall s v R q' el, ms_ref s = Some R ->
    cq_enqueue (ms_q s) v = Ok (q', el) ->
    ms_update k chunk s v =
    ({| ms_n := ms_n s + 1; ms_q := q'; ms_ref := ms_ref s; ms_mmd := ms_mmd s; ms_w := ms_w s |},
     if (ms_n s + 1 <? ms_w s)%Z then Ok None
     else do a <- np_array (q_slots q'); do d <- mb_compare k chunk (ms_mmd s) a; Ok (Some d)).
  Proof.
    intros s v R q' el Hr He. unfold ms_update. rewrite Hr, He.
    destruct (ms_n s + 1 <? ms_w s)%Z; reflexivity.
  Qed.

  Lemma inv_step : forall s a all e, Inv s a all -> ev_good e ->
    Inv (fst (ms_step k chunk s e)) (abs_step a e) (all_step a all e).
  Proof.
    intros s a all e (Hww & Hr & Hf & Hn & Hq & (pre & Hpre) & Hall) He.
    destruct e as [X| |v]; cbn [ms_step abs_step all_step ev_good] in *.
    - rewrite (ms_fit_good s X He). cbn [fst]. unfold Inv. cbn [ms_w ms_ref ms_mmd ms_n ms_q a_ref a_since].
      split; [exact Hww|]. split; [reflexivity|].
      split; [intros R E; inversion E; subst R; split; [exact He | reflexivity]|].
      split; [exact Hn|]. split; [exact Hq|]. split; [exists pre; exact Hpre | exact Hall].
    - unfold Inv, ms_reset. cbn [fst ms_w ms_ref ms_mmd ms_n ms_q a_ref a_since].
      split; [exact Hww|]. split; [reflexivity|]. split; [intros R E; discriminate|].
      split; [reflexivity|].
      split; [rewrite lastn_nil; unfold cq_clear; rewrite (cq_rel_max _ _ _ Hq); apply cq_init_rel; exact Hw|].
      split; [exists []; reflexivity | constructor].
    - destruct (a_ref a) as [R|] eqn:Ea; try rewrite Ea in Hr.
      + destruct (cq_enqueue_rel w (ms_q s) _ v Hw Hq) as (q' & Heq & Hq').
        rewrite (ms_update_fitted s v R q' _ Hr Heq). cbn [fst].
        unfold Inv. cbn [ms_w ms_ref ms_mmd ms_n ms_q a_ref a_since].
        split; [exact Hww|]. split; [exact Hr|]. split; [exact Hf|].
        split; [rewrite Hn; unfold zlen; rewrite app_length; cbn [length]; lia|].
        split; [rewrite enqueue_lastn in Hq' by exact Hw; exact Hq'|].
        split; [exists pre; rewrite Hpre, app_assoc; reflexivity|].
        apply Forall_app. split; [exact Hall | constructor; [exact He | constructor]].
      + unfold ms_update. rewrite Hr. cbn [fst].
        unfold Inv. rewrite Ea.
        split; [exact Hww|]. split; [exact Hr|]. split; [intros R E; discriminate|].
        split; [exact Hn|]. split; [exact Hq|]. split; [exists pre; exact Hpre | exact Hall].
  Qed.

  (** the array handed to the batch detector once [window_size] values have arrived since
      the last reset: well-formed, of the reference's shape, and a permutation of the
      last [window_size] values *)
  Lemma window_array : forall s a all, Inv s a all -> (w <= zlen (a_since a))%Z ->
    exists ar, np_array (q_slots (ms_q s)) = Ok ar /\ arr_shape ar /\
      Permutation (expand_dims ar) (map sval_pt (lastn (Z.to_nat w) (a_since a))).
  Proof.
    intros s a all (Hww & Hr & Hf & Hn & Hq & (pre & Hpre) & Hall) Hlen.
    unfold zlen in Hlen.
    assert (Hlast : lastn (Z.to_nat w) all = lastn (Z.to_nat w) (a_since a)).
    { rewrite Hpre. apply lastn_app_ge. lia. }
    assert (Hl : length (lastn (Z.to_nat w) all) = Z.to_nat w).
    { rewrite lastn_length, Hpre, app_length. lia. }
    pose proof (full_slots_perm w (ms_q s) _ Hq Hl) as Hperm.
    assert (Hgood : Forall slot_good (q_slots (ms_q s))).
    { eapply Permutation_Forall; [apply Permutation_sym; exact Hperm|].
      apply Forall_forall. intros o Ho. apply in_map_iff in Ho as (v & <- & Hv).
      cbn [slot_good]. revert v Hv. apply Forall_forall. apply Forall_lastn. exact Hall. }
    assert (Hne : q_slots (ms_q s) <> []).
    { intros E. apply Permutation_length in Hperm. rewrite E, map_length, Hl in Hperm.
      cbn [length] in Hperm. lia. }
    destruct (np_array_homog _ Hgood Hne) as (ar & E1 & E2 & E3).
    exists ar. split; [exact E1|]. split; [exact E2|].
    rewrite E3, <- Hlast.
    replace (map sval_pt (lastn (Z.to_nat w) all)) with (map opt_pt (map Some (lastn (Z.to_nat w) all)))
      by (rewrite map_map; reflexivity).
    apply Permutation_map. exact Hperm.
  Qed.

  Lemma good_shapes : forall R ar, arr_good R -> arr_shape ar ->
    same_shape R ar /\ check_compare_dims R ar = Ok tt.
  Proof.
    intros R ar HR Har. unfold arr_good in HR. unfold arr_shape in Har.
    destruct sh, R, ar; try contradiction; cbn [same_shape check_compare_dims]; [auto|].
    destruct HR as (-> & _). subst. rewrite Z.eqb_refl. auto.
  Qed.
End StreamInv.

Section StreamR.
  Notation ptR := (pt RealA).
  Variable k : ptR -> ptR -> R.
  Hypothesis k_diag : forall x, k x x = 1.
  Variable chunk : option Z.
  Variable w : Z.
  Hypothesis Hw : (2 <= w)%Z.
  Hypothesis Hchunk : chunk_ok chunk.
  Variable sh : shape.

  Let Hw1 : (1 <= w)%Z. Proof. lia. Qed.

  (** what one call returns, in terms of the history before it: [a] holds the reference in
      force and the values accepted since the last reset *)
  Definition spec_out (a : absst (A:=RealA)) (e : sev RealA) : sout RealA :=
    match e with
    | SFit _ => OFit (Ok tt)
    | SReset => OReset
    | SUpd v =>
      match a_ref a with
      | None => OUpd (Raise MissingFitError)
      | Some R =>
        let l := a_since a ++ [v] in
        if (zlen l <? w)%Z then OUpd (Ok None)
        else OUpd (Ok (Some (mmd_u k [] (expand_dims R) (map sval_pt (lastn (Z.to_nat w) l)))))
      end
    end.
  Fixpoint spec_run (a : absst (A:=RealA)) (h : list (sev RealA)) : list (sout RealA) :=
    match h with
    | [] => []
    | e :: r => spec_out a e :: spec_run (abs_step a e) r
    end.

  Lemma out_step : forall s a all e, Inv k chunk w sh s a all -> ev_good sh e ->
    snd (ms_step k chunk s e) = spec_out a e.
  Proof.
    intros s a all e HI He.
    pose proof (inv_step k chunk w Hw1 Hchunk sh s a all e HI He) as HI'.
    destruct HI as (Hww & Hr & Hf & Hn & Hq & (pre & Hpre) & Hall).
    destruct e as [X| |v]; cbn [ms_step spec_out ev_good] in *.
    - rewrite (ms_fit_good k chunk Hchunk sh s X He). reflexivity.
    - reflexivity.
    - destruct (a_ref a) as [R|] eqn:Ea; try rewrite Ea in Hr.
      + destruct (cq_enqueue_rel w (ms_q s) _ v Hw1 Hq) as (q' & Heq & Hq').
        cbn [abs_step all_step] in HI'. rewrite Ea in HI'.
        rewrite (ms_update_fitted k chunk s v R q' _ Hr Heq) in *.
        cbn [fst snd] in *. f_equal.
        assert (Hz : zlen (a_since a ++ [v]) = (ms_n s + 1)%Z).
        { rewrite Hn. unfold zlen. rewrite app_length. cbn [length]. lia. }
        rewrite Hz, Hww.
        destruct (ms_n s + 1 <? w)%Z eqn:E; [reflexivity|]. apply Z.ltb_ge in E.
        destruct (window_array k chunk w Hw1 sh _ _ _ HI') as (ar & E1 & E2 & E3).
        { cbn [a_since]. rewrite Hz. exact E. }
        cbn [ms_q a_since] in E1, E3. rewrite E1. cbn [bind].
        destruct (Hf R eq_refl) as (HR & Hm).
        destruct (good_shapes sh R ar HR E2) as (Hss & Hcd).
        rewrite Hm. unfold mb_compare. cbn [mb_ref mb_exp fitted]. rewrite Hcd. cbn [bind].
        assert (Hlen_ar : (2 <= arr_len ar)%Z).
        { unfold arr_len, zlen. rewrite (Permutation_length E3), map_length, lastn_length, app_length.
          unfold zlen in Hn. cbn [length]. lia. }
        rewrite (mmd_py_key_R k k_diag chunk R ar Hchunk Hss (arr_good_len sh R HR) Hlen_ar).
        cbn [bind]. rewrite (mmd_u_perm_r k [] _ _ _ E3). reflexivity.
      + unfold ms_update. rewrite Hr. reflexivity.
  Qed.

  Theorem ms_run_spec : forall h s a all, Inv k chunk w sh s a all -> Forall (ev_good sh) h ->
    snd (ms_run k chunk s h) = spec_run a h.
  Proof.
    induction h as [|e r IH]; intros s a all HI Hh; [reflexivity|].
    inversion Hh as [|e' r' He Hr']; subst.
    cbn [ms_run spec_run].
    pose proof (out_step s a all e HI He) as Ho.
    pose proof (inv_step k chunk w Hw1 Hchunk sh s a all e HI He) as HI'.
    destruct (ms_step k chunk s e) as [s1 o]. cbn [fst snd] in *.
    specialize (IH s1 _ _ HI' Hr').
    destruct (ms_run k chunk s1 r) as [s2 os]. cbn [snd] in *. rewrite Ho, IH. reflexivity.
  Qed.

  (** the streaming detector over any history of well-shaped calls *)
  Theorem mmd_streaming : forall h, Forall (ev_good sh) h ->
    exists s0, ms_new w chunk = Ok s0 /\ snd (ms_run k chunk s0 h) = spec_run abs0 h.
  Proof.
    intros h Hh. destruct (ms_new_inv k chunk w Hw1 Hchunk sh) as (s0 & E & HI).
    exists s0. split; [exact E|]. apply (ms_run_spec h s0 abs0 [] HI Hh).
  Qed.

  (** the plain use: fit once, then a stream of updates *)
  Definition out_at (R : arr RealA) (l : list (sval RealA)) : sout RealA :=
    OUpd (if (zlen l <? w)%Z then Ok None
          else Ok (Some (mmd_u k [] (expand_dims R) (map sval_pt (lastn (Z.to_nat w) l))))).

  Lemma spec_run_updates : forall R vs since,
    spec_run {| a_ref := Some R; a_since := since |} (map (@SUpd RealA) vs) =
    map (fun t => out_at R (since ++ firstn t vs)) (seq 1 (length vs)).
  Proof.
    intros R vs; induction vs as [|v r IH]; intros since; [reflexivity|].
    cbn [map spec_run spec_out a_ref a_since abs_step length seq].
    f_equal.
    - unfold out_at. cbn [firstn]. destruct (zlen (since ++ [v]) <? w)%Z; reflexivity.
    - rewrite IH. rewrite <- (seq_shift (length r) 1), map_map. apply map_ext. intros t.
      cbn [firstn]. rewrite <- app_assoc. reflexivity.
  Qed.

  Theorem mmd_streaming_simple : forall R vs, arr_good sh R -> Forall (sval_good sh) vs ->
    exists s0, ms_new w chunk = Ok s0 /\
      snd (ms_run k chunk s0 (SFit R :: map (@SUpd RealA) vs)) =
      OFit (Ok tt) :: map (fun t => out_at R (firstn t vs)) (seq 1 (length vs)).
  Proof.
    intros R vs HR Hvs.
    destruct (mmd_streaming (SFit R :: map (@SUpd RealA) vs)) as (s0 & E & Hrun).
    { constructor; [exact HR|]. apply Forall_forall. intros e He.
      apply in_map_iff in He as (v & <- & Hv). cbn [ev_good].
      revert v Hv. apply Forall_forall. exact Hvs. }
    exists s0. split; [exact E|]. rewrite Hrun.
    cbn [spec_run spec_out abs_step abs0 a_since]. f_equal.
    apply (spec_run_updates R vs []).
  Qed.
End StreamR.

(** * 9. The batch detector end to end over R *)
Section BatchTop.
  Notation ptR := (pt RealA).
  Variable k : ptR -> ptR -> R.
  Hypothesis k_diag : forall x, k x x = 1.

  Lemma same_shape_compare_dims : forall X Y : arr RealA, same_shape X Y -> check_compare_dims X Y = Ok tt.
  Proof.
    intros [xs|d xr] [ys|d' yr] H; cbn [same_shape check_compare_dims] in *; try contradiction; [reflexivity|].
    subst d'. rewrite Z.eqb_refl. reflexivity.
  Qed.

  (** For every accepted chunk_size (None or > 0), every prior detector state, every reference
      X (n >= 2 points; 2-D with at least one column, or 1-D) and every test sample Y of the
      same shape (m >= 2): [fit] succeeds, [compare] returns the unbiased estimate, and so does
      the stand-alone statistic. *)
  Theorem mmd_any_chunking : forall chunk s (X Y : arr RealA),
    chunk_ok chunk -> check_fit_dims X = Ok tt -> same_shape X Y ->
    (2 <= arr_len X)%Z -> (2 <= arr_len Y)%Z ->
    exists s', mb_fit k chunk s X = (s', Ok tt) /\
      mb_compare k chunk s' Y = Ok (mmd_u k [] (expand_dims X) (expand_dims Y)) /\
      mb_statistic k chunk X Y = Ok (mmd_u k [] (expand_dims X) (expand_dims Y)).
  Proof.
    intros chunk s X Y Hc Hfd Hs Hn Hm.
    pose proof (chunk_or_pos chunk _ Hc Hn) as Hcx.
    eexists. split; [|split].
    - unfold mb_fit. rewrite Hfd. fold (arr_len X). rewrite (get_chunks_pos _ _ Hcx). reflexivity.
    - unfold mb_compare. cbn [mb_ref mb_exp]. rewrite (same_shape_compare_dims X Y Hs). cbn [bind].
      apply (mmd_py_key_R k k_diag chunk X Y Hc Hs Hn Hm).
    - apply (mmd_py_nokey_R k k_diag chunk X Y Hc Hs Hn Hm).
  Qed.
End BatchTop.

(** * 10. reset = new instance, exactly, in every number system *)
Section ResetFresh.
  Context {A : Arith}.
  Variable k : pt A -> pt A -> num A.
  Variable chunk : option Z.

  (** two detector states that differ at most in the cached reference term of an UNFITTED
      batch detector (the only thing reset leaves behind) *)
  Definition st_sim (s t : ms_st A) : Prop :=
    ms_n s = ms_n t /\ ms_q s = ms_q t /\ ms_ref s = ms_ref t /\ ms_w s = ms_w t /\
    (ms_ref s <> None -> ms_mmd s = ms_mmd t).

  Lemma mb_fit_indep : forall b1 b2 X,
    snd (mb_fit k chunk b1 X) = snd (mb_fit k chunk b2 X) /\
    (snd (mb_fit k chunk b1 X) = Ok tt -> fst (mb_fit k chunk b1 X) = fst (mb_fit k chunk b2 X)).
  Proof.
    intros b1 b2 X. unfold mb_fit.
    destruct (check_fit_dims X) as [u|e]; cbn [fst snd]; [|split; [reflexivity | discriminate]].
    destruct (get_chunks (expand_dims X) (chunk_or chunk (zlen (expand_dims X)))) as [xch|e];
      cbn [fst snd]; split; try reflexivity; discriminate.
  Qed.

  Lemma st_sim_step : forall s t e, st_sim s t ->
    snd (ms_step k chunk s e) = snd (ms_step k chunk t e) /\
    st_sim (fst (ms_step k chunk s e)) (fst (ms_step k chunk t e)).
  Proof.
    intros s t e H. pose proof H as (Hn & Hq & Hr & Hw & Hm). destruct e as [X| |v]; cbn [ms_step].
    - unfold ms_fit. destruct (check_fit_dims X) as [u|e]; cbn [fst snd].
      + destruct (mb_fit_indep (ms_mmd s) (ms_mmd t) X) as (Ho & Hs).
        destruct (mb_fit k chunk (ms_mmd s) X) as [b1 r1] eqn:E1.
        destruct (mb_fit k chunk (ms_mmd t) X) as [b2 r2] eqn:E2.
        cbn [fst snd] in Ho, Hs. subst r2.
        destruct r1 as [u1|e1]; cbn [fst snd].
        * destruct u1. specialize (Hs eq_refl). subst b2.
          split; [reflexivity|]. unfold st_sim. cbn [ms_n ms_q ms_ref ms_w ms_mmd]. auto.
        * split; [reflexivity|]. unfold st_sim. cbn [ms_n ms_q ms_ref ms_w ms_mmd].
          repeat (split; [assumption|]). intros Hne.
          specialize (Hm Hne). rewrite Hm in E1. rewrite E1 in E2. inversion E2. reflexivity.
      + split; [reflexivity | exact H].
    - split; [reflexivity|]. unfold ms_reset, st_sim. cbn [fst ms_n ms_q ms_ref ms_w ms_mmd].
      rewrite Hq, Hw. repeat (split; [reflexivity|]). intros Hne. contradiction.
    - unfold ms_update. rewrite <- Hr.
      destruct (ms_ref s) as [R|] eqn:Er.
      + assert (Hmm : ms_mmd s = ms_mmd t) by (apply Hm; discriminate).
        rewrite <- Hn, <- Hq, <- Hw, <- Hmm.
        destruct (cq_enqueue (ms_q s) v) as [[q el]|e]; cbn [fst snd].
        * destruct (ms_n s + 1 <? ms_w s)%Z; cbn [fst snd]; (split; [reflexivity|]);
            unfold st_sim; cbn [ms_n ms_q ms_ref ms_w ms_mmd]; auto.
        * split; [reflexivity|]. unfold st_sim. cbn [ms_n ms_q ms_ref ms_w ms_mmd]. auto.
      + cbn [fst snd]. split; [reflexivity | exact H].
  Qed.

  Lemma st_sim_run : forall h s t, st_sim s t ->
    snd (ms_run k chunk s h) = snd (ms_run k chunk t h).
  Proof.
    induction h as [|e r IH]; intros s t H; [reflexivity|]. cbn [ms_run].
    destruct (st_sim_step s t e H) as (Ho & Hs).
    destruct (ms_step k chunk s e) as [s1 o1]. destruct (ms_step k chunk t e) as [t1 o2].
    cbn [fst snd] in *. subst o2. specialize (IH s1 t1 Hs).
    destruct (ms_run k chunk s1 r) as [s2 os1]. destruct (ms_run k chunk t1 r) as [t2 os2].
    cbn [snd] in *. rewrite IH. reflexivity.
  Qed.

  (** capacity and window size never change *)
  Lemma cq_enqueue_max : forall {T} (q q' : cq T) v el, cq_enqueue q v = Ok (q', el) -> q_max q' = q_max q.
  Proof.
    intros T q q' v el. unfold cq_enqueue, cq_dequeue.
    destruct (cq_is_full q); [destruct (cq_is_empty q); [discriminate|]; destruct (q_max q =? 0)%Z eqn:E0; [discriminate|]|];
      cbn [bind q_max]; try rewrite E0; destruct (q_max q =? 0)%Z; try discriminate;
      intros H; inversion H; reflexivity.
  Qed.

  Definition wq_inv (w : Z) (s : ms_st A) : Prop := ms_w s = w /\ q_max (ms_q s) = w.

  Lemma wq_inv_step : forall w s e, wq_inv w s -> wq_inv w (fst (ms_step k chunk s e)).
  Proof.
    intros w s e (Hw & Hq). destruct e as [X| |v]; cbn [ms_step].
    - unfold ms_fit. destruct (check_fit_dims X); cbn [fst]; [|split; assumption].
      destruct (mb_fit k chunk (ms_mmd s) X) as [b [u|e]]; cbn [fst]; split; assumption.
    - cbn [fst]. unfold ms_reset, wq_inv, cq_clear, cq_init. cbn [ms_w ms_q q_max]. split; assumption.
    - unfold ms_update. destruct (ms_ref s); cbn [fst]; [|split; assumption].
      destruct (cq_enqueue (ms_q s) v) as [[q el]|e] eqn:E; cbn [fst].
      + apply cq_enqueue_max in E.
        destruct (ms_n s + 1 <? ms_w s)%Z; cbn [fst]; unfold wq_inv; cbn [ms_w ms_q]; split; congruence.
      + unfold wq_inv. cbn [ms_w ms_q]. split; assumption.
  Qed.
  Lemma wq_inv_run : forall w h s, wq_inv w s -> wq_inv w (fst (ms_run k chunk s h)).
  Proof.
    intros w h; induction h as [|e r IH]; intros s H; [exact H|]. cbn [ms_run].
    pose proof (wq_inv_step w s e H) as H1.
    destruct (ms_step k chunk s e) as [s1 o]. cbn [fst] in H1. specialize (IH s1 H1).
    destruct (ms_run k chunk s1 r) as [s2 os]. exact IH.
  Qed.

  Lemma ms_run_app : forall h1 h2 s,
    snd (ms_run k chunk s (h1 ++ h2)) =
    snd (ms_run k chunk s h1) ++ snd (ms_run k chunk (fst (ms_run k chunk s h1)) h2).
  Proof.
    induction h1 as [|e r IH]; intros h2 s; [reflexivity|]. cbn [app ms_run].
    destruct (ms_step k chunk s e) as [s1 o]. specialize (IH h2 s1).
    destruct (ms_run k chunk s1 (r ++ h2)) as [s2 os]. destruct (ms_run k chunk s1 r) as [s3 os3].
    cbn [fst snd app] in *. rewrite IH. reflexivity.
  Qed.
  Lemma ms_run_out_length : forall h s, length (snd (ms_run k chunk s h)) = length h.
  Proof.
    induction h as [|e r IH]; intros s; [reflexivity|]. cbn [ms_run].
    destruct (ms_step k chunk s e) as [s1 o]. specialize (IH s1).
    destruct (ms_run k chunk s1 r) as [s2 os]. cbn [snd length] in *. rewrite IH. reflexivity.
  Qed.

  (** After ANY history [pre] (no hypothesis on shapes, kernels or exceptions raised on the
      way), [reset] leaves a detector that answers every later sequence of calls exactly as a
      newly constructed detector does — the same values bit for bit in binary64, the same
      exceptions.  (Holds because the repaired reset also clears the ring.) *)
  Theorem mmd_reset_fresh_exact : forall w s0 pre post, ms_new w chunk = Ok s0 ->
    skipn (S (length pre)) (snd (ms_run k chunk s0 (pre ++ SReset :: post))) =
    snd (ms_run k chunk s0 post).
  Proof.
    intros w s0 pre post Hnew.
    assert (H0 : wq_inv w s0 /\ s0 = {| ms_n := 0; ms_q := cq_init w; ms_ref := None; ms_mmd := mb_new; ms_w := w |}).
    { unfold ms_new in Hnew. destruct (valid_chunk chunk); [|discriminate]. cbn [bind] in Hnew.
      destruct (w <? 1)%Z; [discriminate|]. inversion Hnew. split; [split|]; reflexivity. }
    destruct H0 as (Hi0 & Es0).
    rewrite ms_run_app. cbn [ms_run ms_step]. 
    set (s := fst (ms_run k chunk s0 pre)).
    assert (Hs : wq_inv w s) by (apply wq_inv_run; exact Hi0).
    assert (Hsim : st_sim (ms_reset s) s0).
    { destruct Hs as (Hw & Hq). rewrite Es0. unfold st_sim, ms_reset, cq_clear.
      cbn [ms_n ms_q ms_ref ms_w ms_mmd]. rewrite Hq, Hw.
      repeat (split; [reflexivity|]). intros Hne. contradiction. }
    pose proof (st_sim_run post _ _ Hsim) as Hrun.
    destruct (ms_run k chunk (ms_reset s) post) as [s2 os]. cbn [snd] in *.
    replace (S (length pre)) with (length (snd (ms_run k chunk s0 pre) ++ [OReset (A:=A)]))
      by (rewrite app_length, ms_run_out_length; cbn [length]; lia).
    change (OReset :: os) with ([OReset (A:=A)] ++ os). rewrite app_assoc.
    rewrite skipn_app, skipn_all, Nat.sub_diag. cbn [app skipn]. exact Hrun.
  Qed.

  (** the state itself: reset gives [ms_new]'s state except for the dead cached term *)
  Theorem mmd_reset_state : forall w s0 pre, ms_new w chunk = Ok s0 ->
    let s := ms_reset (fst (ms_run k chunk s0 pre)) in
    ms_n s = ms_n s0 /\ ms_q s = ms_q s0 /\ ms_ref s = ms_ref s0 /\ ms_w s = ms_w s0 /\
    mb_ref (ms_mmd s) = mb_ref (ms_mmd s0).
  Proof.
    intros w s0 pre Hnew.
    assert (H0 : wq_inv w s0 /\ s0 = {| ms_n := 0; ms_q := cq_init w; ms_ref := None; ms_mmd := mb_new; ms_w := w |}).
    { unfold ms_new in Hnew. destruct (valid_chunk chunk); [|discriminate]. cbn [bind] in Hnew.
      destruct (w <? 1)%Z; [discriminate|]. inversion Hnew. split; [split|]; reflexivity. }
    destruct H0 as (Hi0 & Es0).
    destruct (wq_inv_run w pre s0 Hi0) as (Hw & Hq).
    cbn zeta. unfold ms_reset, cq_clear, mb_reset.
    cbn [ms_n ms_q ms_ref ms_w ms_mmd mb_ref]. rewrite Hq, Hw. rewrite Es0.
    cbn [ms_n ms_q ms_ref ms_w ms_mmd mb_ref mb_new]. repeat split; reflexivity.
  Qed.
End ResetFresh.
