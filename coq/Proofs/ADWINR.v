(** ADWIN (window_based/adwin.py model, [Model/ADWIN.v]).
    Part A (every number system): shape invariant, drift <-> data dropped, drops only at checks.
    Part C (reals): the scan finds a cut iff some bucket-boundary split exceeds the bound;
            the shrink loop ends quiet and every deletion is justified by an exceeding split.
    Part B (reals): the window is an exact suffix of the stream, the buckets partition it into
            consecutive segments of sizes 2^i carrying their sums and sums of squared deviations. *)
From Coq Require Import ZArith List Bool Reals Lra Lia.
From FV Require Import NumSys RealA Py Sums Detector ADWIN Structural.
Import ListNotations.

(* ====================================================================== Part A: shape *)

Section Shape.
  Context {A : Arith}.
  Local Open Scope Z_scope.

  Notation tbkt := (Z * @bkt A)%type.

  (** number of stream values covered by a tagged bucket list *)
  Definition sumsz (l : list tbkt) : Z := fold_right (fun e a => fst e + a) 0 l.

  Lemma sumsz_app a b : sumsz (a ++ b) = sumsz a + sumsz b.
  Proof.
    unfold sumsz. induction a as [|x a IH]; cbn [app fold_right]; [lia | rewrite IH; lia].
  Qed.

  Lemma pow2_succ l : 0 <= l -> pow2 (l + 1) = 2 * pow2 l.
  Proof. intros H. unfold pow2. rewrite Z.add_1_r. apply Z.pow_succ_r. exact H. Qed.

  Lemma pow2_pos l : 0 <= l -> 0 < pow2 l.
  Proof. intros H. unfold pow2. apply Z.pow_pos_nonneg; lia. Qed.

  (** the list of rows is empty or its last row is non-empty *)
  Definition lastne (rows : list (@row A)) : Prop := rows = [] \/ last rows [] <> [].

  (** Shape invariant: the width is the number of values covered by the buckets, and the last
      row is non-empty as soon as there are at least two rows (the single row of the initial
      state is empty; with [m = 1] intermediate rows may be empty). *)
  Definition AShape (s : adwin_st A) : Prop :=
    awidth s = sumsz (flat s) /\ lastne (tl (arows s)).

  Lemma lastne_tl rows : lastne rows -> lastne (tl rows).
  Proof.
    intros [H|H]; [subst; left; reflexivity|].
    destruct rows as [|r [|x rest]]; cbn [tl]; [left; reflexivity | left; reflexivity | right; exact H].
  Qed.

  Lemma last_cons_ne (r r1 : @row A) rest : r1 <> [] -> lastne (r :: rest) -> last (r1 :: rest) [] <> [].
  Proof.
    intros H1 [H|H]; [discriminate|].
    destruct rest as [|x rest]; [exact H1 | exact H].
  Qed.

  (* ---------------------------------------------------------------- flat_from *)

  Lemma flat_from_app lvl (a b : list (@row A)) :
    flat_from lvl (a ++ b) = flat_from (lvl + Z.of_nat (length a)) b ++ flat_from lvl a.
  Proof.
    revert lvl. induction a as [|r a IH]; intros lvl.
    - cbn [app length flat_from Z.of_nat]. rewrite Z.add_0_r, app_nil_r. reflexivity.
    - cbn [app flat_from]. rewrite IH.
      replace (lvl + Z.of_nat (length (r :: a))) with (lvl + 1 + Z.of_nat (length a))
        by (cbn [length]; lia).
      rewrite app_assoc. reflexivity.
  Qed.

  Lemma flat_from_single lvl (r : @row A) : flat_from lvl [r] = map (fun b => (pow2 lvl, b)) r.
  Proof. reflexivity. Qed.

  Lemma flat_from_pos (rows : list (@row A)) : forall lvl, 0 <= lvl -> Forall (fun e : tbkt => 0 < fst e) (flat_from lvl rows).
  Proof.
    induction rows as [|r rest IH]; intros lvl Hl; cbn [flat_from]; [constructor|].
    apply Forall_app. split; [apply IH; lia|].
    apply Forall_forall. intros e He. apply in_map_iff in He. destruct He as (b & <- & _).
    cbn [fst]. apply pow2_pos. exact Hl.
  Qed.

  (** every bucket size of a state is a positive power of two *)
  Lemma flat_sizes_pos (s : adwin_st A) : Forall (fun e : tbkt => 0 < fst e) (flat s).
  Proof. apply flat_from_pos. lia. Qed.

  Lemma flat_from_strip_tail (rows : list (@row A)) : forall lvl, flat_from lvl (strip_tail rows) = flat_from lvl rows.
  Proof.
    induction rows as [|r rest IH]; intros lvl; [reflexivity|].
    cbn [strip_tail flat_from]. specialize (IH (lvl + 1)).
    destruct (strip_tail rest) as [|x rest'] eqn:E.
    - rewrite <- IH. destruct r; reflexivity.
    - cbn [flat_from] in *. rewrite IH. reflexivity.
  Qed.

  Lemma strip_tail_lastne (rows : list (@row A)) : lastne (strip_tail rows).
  Proof.
    induction rows as [|r rest IH]; [left; reflexivity|].
    cbn [strip_tail]. destruct (strip_tail rest) as [|x rest'] eqn:E.
    - destruct r; [left; reflexivity | right; cbn; discriminate].
    - right. destruct IH as [IH|IH]; [discriminate | exact IH].
  Qed.

  (* ---------------------------------------------------------------- compress as merge steps *)

  (** one merge: two adjacent buckets of size [2^l] replaced by one of size [2^(l+1)] *)
  Inductive mstep : list tbkt -> list tbkt -> Prop :=
  | mstep_intro l pre b1 b2 post : 0 <= l ->
      mstep (pre ++ (pow2 l, b1) :: (pow2 l, b2) :: post)
            (pre ++ (pow2 (l + 1), merge2 l b1 b2) :: post).
  Inductive msteps : list tbkt -> list tbkt -> Prop :=
  | ms_refl a : msteps a a
  | ms_step a b c : mstep a b -> msteps b c -> msteps a c.

  Lemma mstep_app_r a b c : mstep a b -> mstep (a ++ c) (b ++ c).
  Proof.
    intros H. destruct H as [l pre b1 b2 post Hl].
    rewrite <- !app_assoc. cbn [app]. constructor. exact Hl.
  Qed.

  Lemma msteps_app_r a b c : msteps a b -> msteps (a ++ c) (b ++ c).
  Proof.
    induction 1 as [a | a b d Hs _ IH]; [apply ms_refl|].
    eapply ms_step; [apply mstep_app_r; exact Hs | exact IH].
  Qed.

  Lemma mstep_sumsz a b : mstep a b -> sumsz b = sumsz a.
  Proof.
    intros H. destruct H as [l pre b1 b2 post Hl].
    rewrite !sumsz_app. cbn [sumsz fold_right fst]. rewrite pow2_succ by exact Hl. lia.
  Qed.

  Lemma msteps_sumsz a b : msteps a b -> sumsz b = sumsz a.
  Proof. induction 1 as [a | a b d Hs _ IH]; [reflexivity | rewrite IH; apply mstep_sumsz; exact Hs]. Qed.

  Definition carryl (lvl : Z) (carry : option (@bkt A)) : list tbkt :=
    match carry with None => [] | Some b => [(pow2 lvl, b)] end.

  (** [compress] only merges adjacent equal-sized buckets, in place *)
  Lemma compress_msteps m (rows : list (@row A)) : forall lvl carry, 0 <= lvl ->
    msteps (flat_from lvl rows ++ carryl lvl carry) (flat_from lvl (compress m lvl carry rows)).
  Proof.
    induction rows as [|r rest IH]; intros lvl carry Hl.
    - destruct carry; cbn; apply ms_refl.
    - cbn [compress].
      set (r1 := match carry with None => r | Some b => r ++ [b] end).
      assert (E : flat_from lvl (r :: rest) ++ carryl lvl carry = flat_from lvl (r1 :: rest)).
      { subst r1; destruct carry; cbn [flat_from carryl].
        - rewrite map_app, <- app_assoc. reflexivity.
        - rewrite app_nil_r. reflexivity. }
      rewrite E. clearbody r1. clear E.
      destruct (Z.of_nat (length r1) =? m + 1); [| apply ms_refl].
      destruct r1 as [|b1 [|b2 r2]]; try apply ms_refl.
      cbn [flat_from map].
      eapply ms_step.
      + apply (mstep_intro lvl (flat_from (lvl + 1) rest) b1 b2); exact Hl.
      + specialize (IH (lvl + 1) (Some (merge2 lvl b1 b2))). cbn [carryl] in IH.
        match goal with |- msteps (?X ++ ?e :: ?R) _ => change (X ++ e :: R) with (X ++ [e] ++ R) end.
        rewrite app_assoc. apply msteps_app_r. apply IH. lia.
  Qed.

  Lemma compress_last m (rest : list (@row A)) : forall lvl b, lastne rest ->
    last (compress m lvl (Some b) rest) [] <> [].
  Proof.
    induction rest as [|r rest' IH]; intros lvl b HL.
    - cbn. discriminate.
    - cbn [compress].
      assert (Hne : r ++ [b] <> []) by (intros E; apply app_eq_nil in E; destruct E; discriminate).
      destruct (Z.of_nat (length (r ++ [b])) =? m + 1).
      + destruct (r ++ [b]) as [|b1 [|b2 r2]] eqn:E.
        * contradiction.
        * eapply last_cons_ne; [discriminate | exact HL].
        * specialize (IH (lvl + 1) (merge2 lvl b1 b2) (lastne_tl _ HL)).
          destruct (compress m (lvl + 1) (Some (merge2 lvl b1 b2)) rest') as [|x l] eqn:Ec;
            [contradiction IH; reflexivity | exact IH].
      + eapply last_cons_ne; [exact Hne | exact HL].
  Qed.

  Lemma compress_none_lastne m lvl (r1 : @row A) rest : r1 <> [] -> lastne rest ->
    lastne (tl (compress m lvl None (r1 :: rest))).
  Proof.
    intros Hne HL. cbn [compress].
    destruct (Z.of_nat (length r1) =? m + 1); [| exact HL].
    destruct r1 as [|b1 [|b2 r2]]; [contradiction | exact HL |].
    cbn [tl]. right. apply compress_last. exact HL.
  Qed.

  (* ---------------------------------------------------------------- insert *)

  Definition rows1 (s : adwin_st A) (v : num A) : list (@row A) :=
    match arows s with [] => [[(v, zero)]] | r0 :: rest => (r0 ++ [(v, zero)]) :: rest end.

  Lemma arows_insert c s v : arows (adwin_insert c s v) = compress (ad_m c) 0 None (rows1 s v).
  Proof. reflexivity. Qed.

  Lemma flat_rows1 s v : flat_from 0 (rows1 s v) = flat s ++ [(pow2 0, (v, zero))].
  Proof.
    unfold flat, rows1. destruct (arows s) as [|r0 rest]; [reflexivity|].
    cbn [flat_from]. rewrite map_app, app_assoc. reflexivity.
  Qed.

  (** the bucket list after an insert: the old one plus a size-1 bucket, then merges *)
  Lemma insert_msteps c s v :
    msteps (flat s ++ [(pow2 0, (v, zero))]) (flat (adwin_insert c s v)).
  Proof.
    unfold flat at 2. rewrite arows_insert, <- flat_rows1.
    pose proof (compress_msteps (ad_m c) (rows1 s v) 0 None (Z.le_refl 0)) as H.
    cbn [carryl] in H. rewrite app_nil_r in H. exact H.
  Qed.

  Lemma insert_shape c s v : AShape s -> AShape (adwin_insert c s v).
  Proof.
    intros [Hw HL]. split.
    - rewrite (msteps_sumsz _ _ (insert_msteps c s v)), sumsz_app.
      cbn [sumsz fold_right fst]. rewrite adwin_insert_width, Hw.
      change (pow2 0) with 1. lia.
    - rewrite arows_insert. unfold rows1.
      destruct (arows s) as [|r0 rest].
      + apply compress_none_lastne; [discriminate | left; reflexivity].
      + apply compress_none_lastne; [| exact HL].
        intros E; apply app_eq_nil in E; destruct E; discriminate.
  Qed.

  (* ---------------------------------------------------------------- delete *)

  Lemma shape_last_ne s : AShape s -> flat s <> [] -> last (arows s) [] <> [].
  Proof.
    intros [_ HL] Hf. unfold flat in Hf.
    destruct (arows s) as [|r0 rest]; [contradiction Hf; reflexivity|].
    cbn [tl] in HL. destruct HL as [HL|HL].
    - subst rest. cbn in *. intros E; subst r0. apply Hf; reflexivity.
    - destruct rest as [|x rest]; [contradiction HL; reflexivity | exact HL].
  Qed.

  (** deleting removes exactly the head of [flat], whose size is the one [adwin_delete] uses *)
  Lemma delete_flat s b r' : last (arows s) [] = b :: r' ->
    flat s = (pow2 (Z.of_nat (length (arows s)) - 1), b) :: flat (adwin_delete s) /\
    lastne (arows (adwin_delete s)).
  Proof.
    intros Hlast.
    assert (Hne : arows s <> []) by (intros E; rewrite E in Hlast; discriminate).
    pose proof (app_removelast_last (@nil (@bkt A)) Hne) as Hsplit.
    change (list (@bkt A)) with (@row A) in Hsplit. rewrite Hlast in Hsplit.
    unfold flat, adwin_delete. cbn [arows]. rewrite Hlast. cbn [tl].
    set (ini := removelast (arows s)) in *.
    rewrite Hsplit at 1 2. rewrite flat_from_app, flat_from_single, app_length.
    cbn [length map app].
    replace (Z.of_nat (length ini + 1) - 1) with (0 + Z.of_nat (length ini)) by lia.
    destruct r' as [|b' r''].
    - cbn [map app]. rewrite flat_from_strip_tail. split; [reflexivity | apply strip_tail_lastne].
    - rewrite flat_from_app, flat_from_single. split; [reflexivity|].
      right. rewrite last_last. discriminate.
  Qed.

  Lemma awidth_delete (s : adwin_st A) :
    awidth (adwin_delete s) = awidth s - pow2 (Z.of_nat (length (arows s)) - 1).
  Proof. reflexivity. Qed.

  Lemma delete_shape s : AShape s -> flat s <> [] ->
    AShape (adwin_delete s) /\ awidth (adwin_delete s) < awidth s /\
    length (flat s) = S (length (flat (adwin_delete s))).
  Proof.
    intros HS Hf. pose proof (shape_last_ne s HS Hf) as Hl.
    destruct (last (arows s) []) as [|b r'] eqn:Hlast; [contradiction Hl; reflexivity|].
    destruct (delete_flat s b r' Hlast) as [Hflat HL].
    destruct HS as [Hw _].
    pose proof (flat_sizes_pos s) as Hpos. rewrite Hflat in Hpos.
    apply Forall_inv in Hpos. cbn [fst] in Hpos.
    rewrite Hflat in Hw. cbn [sumsz fold_right fst] in Hw. fold (sumsz (flat (adwin_delete s))) in Hw.
    split; [split|split].
    - rewrite awidth_delete. lia.
    - apply lastne_tl. exact HL.
    - rewrite awidth_delete. lia.
    - rewrite Hflat. reflexivity.
  Qed.

  (* ---------------------------------------------------------------- shrink *)

  Lemma found_cut_flat_ne c (s : adwin_st A) : found_cut c s = true -> flat s <> [].
  Proof. unfold found_cut. intros H E. rewrite E in H. cbn in H. discriminate. Qed.

  Lemma shrink_shape c fuel : forall s, AShape s ->
    AShape (fst (shrink c fuel s)) /\
    (snd (shrink c fuel s) = true -> awidth (fst (shrink c fuel s)) < awidth s) /\
    (snd (shrink c fuel s) = false -> fst (shrink c fuel s) = s).
  Proof.
    induction fuel as [|k IH]; intros s HS; cbn [shrink].
    - cbn [fst snd]. split; [exact HS | split; [discriminate | reflexivity]].
    - destruct (found_cut c s) eqn:F.
      + destruct (delete_shape s HS (found_cut_flat_ne c s F)) as (HS' & Hlt & _).
        specialize (IH _ HS'). destruct (shrink c k (adwin_delete s)) as [s' d]. cbn [fst snd] in *.
        destruct IH as (IH1 & IH2 & IH3).
        split; [exact IH1 | split; [intros _ | discriminate]].
        destruct d; [specialize (IH2 eq_refl); lia | rewrite (IH3 eq_refl); exact Hlt].
      + cbn [fst snd]. split; [exact HS | split; [discriminate | reflexivity]].
  Qed.

  (* ---------------------------------------------------------------- step *)

  Lemma step_fields (c : adwin_cfg A) (s : adwin_st A) v :
    let s1 := adwin_insert c s v in
    let s' := adwin_step c s v in
    (is_check c (an s + 1) (awidth s + 1) = true ->
       arows s' = arows (fst (shrink c (S (length (flat s1))) s1)) /\
       atotal s' = atotal (fst (shrink c (S (length (flat s1))) s1)) /\
       avar s' = avar (fst (shrink c (S (length (flat s1))) s1)) /\
       awidth s' = awidth (fst (shrink c (S (length (flat s1))) s1)) /\
       adrift s' = snd (shrink c (S (length (flat s1))) s1)) /\
    (is_check c (an s + 1) (awidth s + 1) = false ->
       arows s' = arows s1 /\ atotal s' = atotal s1 /\ avar s' = avar s1 /\
       awidth s' = awidth s1 /\ adrift s' = false).
  Proof.
    cbv zeta. unfold adwin_step. cbv zeta. rewrite adwin_insert_width.
    destruct (is_check c (an s + 1) (awidth s + 1)).
    - split; [intros _ | discriminate].
      destruct (shrink c (S (length (flat (adwin_insert c s v)))) (adwin_insert c s v)) as [s2 d].
      cbn [arows atotal avar awidth adrift fst snd]. repeat split.
    - split; [discriminate | intros _]. cbn [arows atotal avar awidth adrift]. repeat split.
  Qed.

  Lemma shape_ext (s s' : adwin_st A) :
    arows s' = arows s -> awidth s' = awidth s -> AShape s -> AShape s'.
  Proof. unfold AShape, flat. intros -> ->. exact (fun H => H). Qed.

  Lemma adwin_init_shape (c : adwin_cfg A) : AShape (adwin_init c).
  Proof. split; [reflexivity | left; reflexivity]. Qed.

  (** the shape is preserved by every update, whatever [ad_m] *)
  Lemma adwin_step_shape_gen c s v : AShape s -> AShape (adwin_step c s v).
  Proof.
    intros HS. pose proof (insert_shape c s v HS) as HS1.
    destruct (step_fields c s v) as [Ht Hf].
    destruct (is_check c (an s + 1) (awidth s + 1)).
    - destruct (Ht eq_refl) as (Hr & _ & _ & Hw & _).
      eapply shape_ext; [exact Hr | exact Hw |]. apply shrink_shape. exact HS1.
    - destruct (Hf eq_refl) as (Hr & _ & _ & Hw & _).
      eapply shape_ext; [exact Hr | exact Hw | exact HS1].
  Qed.
End Shape.

Lemma adwin_step_shape : forall (A : Arith) (c : adwin_cfg A) (s : adwin_st A) (v : num A),
  AShape s -> (1 <= ad_m c)%Z -> AShape (adwin_step c s v).
Proof. intros A c s v HS _. apply adwin_step_shape_gen. exact HS. Qed.

Lemma adwin_shape_reachable : forall (A : Arith) (c : adwin_cfg A) ops,
  (1 <= ad_m c)%Z -> AShape (exec (ADWIND A) c ops).
Proof.
  intros A c ops Hm.
  apply (exec_invariant (ADWIND A) c (fun _ s => AShape s)).
  - apply adwin_init_shape.
  - intros u s v _ HS. apply adwin_step_shape; assumption.
  - intros u s _. apply adwin_init_shape.
Qed.

(* data was dropped at this update  <->  drift *)
Lemma adwin_drift_iff_dropped : forall (A : Arith) (c : adwin_cfg A) (s : adwin_st A) (v : num A),
  AShape s -> (adrift (adwin_step c s v) = true <-> (awidth (adwin_step c s v) < awidth s + 1)%Z).
Proof.
  intros A c s v HS. pose proof (insert_shape c s v HS) as HS1.
  destruct (step_fields c s v) as [Ht Hf].
  destruct (is_check c (an s + 1) (awidth s + 1))%Z.
  - destruct (Ht eq_refl) as (_ & _ & _ & Hw & Hd). rewrite Hw, Hd.
    destruct (shrink_shape c (S (length (flat (adwin_insert c s v)))) _ HS1) as (_ & H2 & H3).
    rewrite adwin_insert_width in H2.
    split; [exact H2|]. intros Hlt.
    destruct (snd (shrink c (S (length (flat (adwin_insert c s v)))) (adwin_insert c s v)));
      [reflexivity|].
    rewrite (H3 eq_refl), adwin_insert_width in Hlt. lia.
  - destruct (Hf eq_refl) as (_ & _ & _ & Hw & Hd). rewrite Hw, Hd, adwin_insert_width.
    split; [discriminate | lia].
Qed.

(* data is dropped only at a check *)
Lemma adwin_shrinks_only_at_checks : forall (A : Arith) (c : adwin_cfg A) (s : adwin_st A) (v : num A),
  (awidth (adwin_step c s v) < awidth s + 1)%Z -> is_check c (an s + 1) (awidth s + 1) = true.
Proof.
  intros A c s v Hlt. destruct (step_fields c s v) as [_ Hf].
  destruct (is_check c (an s + 1) (awidth s + 1))%Z; [reflexivity|].
  destruct (Hf eq_refl) as (_ & _ & _ & Hw & _). rewrite Hw, adwin_insert_width in Hlt. lia.
Qed.

(* ====================================================================== Part C: cuts *)

(* a split of the bucket list after its first j buckets *)
Definition split_at (s : adwin_st RealA) (j : nat) : Z * Z * R * R :=
  let pre := firstn j (flat s) in
  let w0 := fold_left (fun a b => (a + fst b)%Z) pre 0%Z in
  let t0 := fold_left (fun a b => (a + fst (snd b))%R) pre 0%R in
  (w0, (awidth s - w0)%Z, t0, (atotal s - t0)%R).

Lemma scan_iff (c : adwin_cfg RealA) (s : adwin_st RealA) (W : Z) (T : R) :
  forall (bs : list (Z * @bkt RealA)) (w0 w1 : Z) (t0 t1 : R),
  w1 = (W - w0)%Z -> t1 = (T - t0)%R ->
  (scan c s bs w0 w1 t0 t1 = true <->
   exists j, (1 <= j <= length bs)%nat /\
     split_exceeds c s
       (fold_left (fun a b => (a + fst b)%Z) (firstn j bs) w0)
       (W - fold_left (fun a b => (a + fst b)%Z) (firstn j bs) w0)%Z
       (fold_left (fun a b => (a + fst (snd b))%R) (firstn j bs) t0)
       (T - fold_left (fun a b => (a + fst (snd b))%R) (firstn j bs) t0)%R = true).
Proof.
  induction bs as [|[size b] r IH]; intros w0 w1 t0 t1 Hw Ht.
  - cbn [scan length]. split; [discriminate | intros (j & Hj & _); lia].
  - cbn [scan]. cbv zeta. cbn [add sub RealA].
    replace (w1 - size)%Z with (W - (w0 + size))%Z by lia.
    replace (t1 - fst b)%R with (T - (t0 + fst b))%R by lra.
    destruct (split_exceeds c s (w0 + size) (W - (w0 + size)) (t0 + fst b)%R (T - (t0 + fst b))%R) eqn:E.
    + split; [intros _ | reflexivity].
      exists 1%nat. split; [cbn [length]; lia|]. cbn [firstn fold_left fst snd]. exact E.
    + rewrite (IH (w0 + size)%Z (W - (w0 + size))%Z (t0 + fst b)%R (T - (t0 + fst b))%R eq_refl eq_refl).
      split.
      * intros (j & Hj & H). exists (S j). split; [cbn [length]; lia|].
        cbn [firstn fold_left fst snd]. exact H.
      * intros (j & Hj & H). destruct j as [|j]; [lia|].
        cbn [firstn fold_left fst snd] in H. destruct j as [|j].
        -- cbn [firstn fold_left] in H. exfalso. exact (Bool.diff_false_true (eq_trans (eq_sym E) H)).
        -- exists (S j). split; [cbn [length] in Hj; lia | exact H].
Qed.

Lemma found_cut_iff : forall (c : adwin_cfg RealA) (s : adwin_st RealA),
  found_cut c s = true <-> exists j, (1 <= j <= length (flat s))%nat /\
     let '(w0, w1, t0, t1) := split_at s j in split_exceeds c s w0 w1 t0 t1 = true.
Proof.
  intros c s. unfold found_cut.
  rewrite (scan_iff c s (awidth s) (atotal s) (flat s) 0%Z (awidth s) zero (atotal s));
    [| lia | unfold zero; cbn [ofZ RealA]; lra].
  split; intros (j & Hj & H); exists j; (split; [exact Hj|]);
    unfold split_at in *; cbv beta iota zeta in *; exact H.
Qed.

(* every deletion performed by shrink was preceded by an exceeding split of the window
   before that deletion *)
Lemma shrink_justified : forall (c : adwin_cfg RealA) (fuel : nat) (s : adwin_st RealA),
  snd (shrink c fuel s) = true -> found_cut c s = true.
Proof.
  intros c [|k] s; cbn [shrink snd]; [discriminate|].
  destruct (found_cut c s); [reflexivity | cbn [snd]; discriminate].
Qed.

Lemma shrink_quiet_gen (c : adwin_cfg RealA) : forall (fuel : nat) (s : adwin_st RealA),
  AShape s -> (length (flat s) < fuel)%nat -> found_cut c (fst (shrink c fuel s)) = false.
Proof.
  induction fuel as [|k IH]; intros s HS Hlen; [lia|].
  cbn [shrink]. destruct (found_cut c s) eqn:F; [| exact F].
  destruct (delete_shape s HS (found_cut_flat_ne c s F)) as (HS' & _ & Hl).
  specialize (IH (adwin_delete s) HS'). 
  destruct (shrink c k (adwin_delete s)) as [s' d]. cbn [fst] in *. apply IH. lia.
Qed.

(* after the shrink loop no bucket-boundary split of the final window exceeds the bound *)
Lemma shrink_quiet : forall (c : adwin_cfg RealA) (s : adwin_st RealA), AShape s ->
  found_cut c (fst (shrink c (S (length (flat s))) s)) = false.
Proof. intros c s HS. apply shrink_quiet_gen; [exact HS | lia]. Qed.

(* ====================================================================== Part B: algebra *)

Section Algebra.
  Local Open Scope R_scope.

  Definition Rsq (l : list R) : R := Rsum (map (fun x => x * x) l).

  Lemma Rsum_app a b : Rsum (a ++ b) = Rsum a + Rsum b.
  Proof.
    unfold Rsum. induction a as [|x a IH]; cbn [app fold_right]; [ring | rewrite IH; ring].
  Qed.

  Lemma Rsq_app a b : Rsq (a ++ b) = Rsq a + Rsq b.
  Proof. unfold Rsq. rewrite map_app. apply Rsum_app. Qed.

  Lemma Rssd_nil : Rssd [] = 0.
  Proof. reflexivity. Qed.

  Lemma INR_len_pos (l : list R) : l <> [] -> 0 < INR (length l).
  Proof.
    intros H. apply lt_0_INR. destruct l; [contradiction H; reflexivity | cbn [length]; lia].
  Qed.

  Lemma Rsum_dev l mu :
    Rsum (map (fun x => (x - mu) * (x - mu)) l) = Rsq l - 2 * mu * Rsum l + INR (length l) * mu * mu.
  Proof.
    unfold Rsq, Rsum. induction l as [|x l IH].
    - cbn [map fold_right length]. change (INR 0) with 0. ring.
    - cbn [map fold_right length]. rewrite S_INR, IH. ring.
  Qed.

  Lemma Rssd_alt l : l <> [] -> Rssd l = Rsq l - Rsum l * Rsum l / INR (length l).
  Proof.
    intros H. pose proof (INR_len_pos l H) as Hn.
    unfold Rssd. rewrite Rsum_dev. unfold Rmean. field. lra.
  Qed.

  (** Chan, Golub, LeVeque: pairwise combination of sums of squared deviations *)
  Lemma Rssd_app a b : a <> [] -> b <> [] ->
    Rssd (a ++ b) = Rssd a + Rssd b +
      INR (length a) * INR (length b) / INR (length a + length b) * (Rmean a - Rmean b) ^ 2.
  Proof.
    intros Ha Hb.
    assert (Hab : a ++ b <> []) by (intros E; apply app_eq_nil in E; destruct E; contradiction).
    pose proof (INR_len_pos a Ha) as Hna. pose proof (INR_len_pos b Hb) as Hnb.
    rewrite !Rssd_alt by assumption. unfold Rmean.
    rewrite Rsq_app, Rsum_app, app_length, plus_INR.
    field. repeat split; lra.
  Qed.

  (** Welford: appending one value *)
  Lemma Rssd_snoc w v : w <> [] ->
    Rssd (w ++ [v]) = Rssd w +
      INR (length w) * (v - Rsum w / INR (length w)) ^ 2 / INR (length w + 1).
  Proof.
    intros Hw.
    assert (Hwv : w ++ [v] <> []) by (intros E; apply app_eq_nil in E; destruct E; discriminate).
    pose proof (INR_len_pos w Hw) as Hn.
    rewrite !Rssd_alt by assumption.
    rewrite Rsq_app, Rsum_app, app_length, plus_INR.
    unfold Rsq, Rsum. cbn [map fold_right length]. rewrite !plus_INR. change (INR 1) with 1.
    field. split; lra.
  Qed.

  Lemma Rssd_single v : Rssd [v] = 0.
  Proof. unfold Rssd, Rmean, Rsum. cbn [map fold_right length]. change (INR 1) with 1. field. Qed.

  Lemma len_ne (l : list R) n : Z.of_nat (length l) = n -> (0 < n)%Z -> l <> [].
  Proof. intros H Hn E. subst l. cbn in H. lia. Qed.

  (** the increment of [merge2]: two adjacent segments of equal length [n] *)
  Lemma merge_alg a b n : Z.of_nat (length a) = n -> Z.of_nat (length b) = n -> (0 < n)%Z ->
    Rssd (a ++ b) = (Rssd a + Rssd b) +
      ((IZR (n * n) * (Rsum a / IZR n - Rsum b / IZR n)) * (Rsum a / IZR n - Rsum b / IZR n))
      / IZR (n * 2).
  Proof.
    intros Ha Hb Hn.
    pose proof (len_ne a n Ha Hn) as Hane. pose proof (len_ne b n Hb Hn) as Hbne.
    rewrite Rssd_app by assumption. unfold Rmean.
    assert (Hlb : length b = length a) by lia. rewrite Hlb.
    rewrite plus_INR, !mult_IZR. rewrite <- Ha, <- INR_IZR_INZ.
    pose proof (INR_len_pos a Hane) as Hp.
    field. lra.
  Qed.

  (** the downdate of [adwin_delete]: dropping the oldest segment [a] of the window [a ++ b];
      [x] stands for whatever the model computes as the mean of an empty remainder *)
  Lemma delete_alg a b size w' x : Z.of_nat (length a) = size -> Z.of_nat (length b) = w' ->
    (0 < size)%Z -> (b <> [] -> x = Rsum b / IZR w') ->
    Rssd (a ++ b) - (Rssd a + ((IZR (size * w') * (Rsum a / IZR size - x)) * (Rsum a / IZR size - x))
                               / IZR (size + w')) = Rssd b.
  Proof.
    intros Ha Hb Hs Hx. pose proof (len_ne a size Ha Hs) as Hane.
    destruct b as [|y b'].
    - cbn [length Z.of_nat] in Hb. subst w'. rewrite app_nil_r, Z.mul_0_r, Rssd_nil.
      unfold Rdiv. ring.
    - set (b := y :: b') in *. assert (Hbne : b <> []) by discriminate.
      rewrite (Hx Hbne). rewrite Rssd_app by assumption. unfold Rmean.
      rewrite plus_IZR, mult_IZR, plus_INR. rewrite <- Ha, <- Hb, <- !INR_IZR_INZ.
      pose proof (INR_len_pos a Hane) as Hp. pose proof (INR_len_pos b Hbne) as Hq.
      field. repeat split; lra.
  Qed.
End Algebra.

(* ====================================================================== Part B: the window *)

(* Rep bs w : the bucket list bs (oldest first, (size, (total, variance))) summarises the
   value list w (oldest first) *)
Inductive Rep : list (Z * (R * R)) -> list R -> Prop :=
| Rep_nil : Rep [] []
| Rep_cons : forall size tot var seg bs rest,
    Z.of_nat (length seg) = size -> (0 < size)%Z -> tot = Rsum seg -> var = Rssd seg -> Rep bs rest ->
    Rep ((size, (tot, var)) :: bs) (seg ++ rest).

Definition AWin (s : adwin_st RealA) (w : list R) : Prop :=
  Rep (flat s) w /\ awidth s = Z.of_nat (length w) /\ atotal s = Rsum w /\ avar s = Rssd w.

Definition arun (c : adwin_cfg RealA) (vs : list R) : adwin_st RealA :=
  fold_left (adwin_step c) vs (adwin_init c).

Section Window.
  Local Open Scope R_scope.

  Lemma Rep_inv size (b : R * R) bs w : Rep ((size, b) :: bs) w ->
    exists seg rest, w = seg ++ rest /\ Z.of_nat (length seg) = size /\ (0 < size)%Z /\
      fst b = Rsum seg /\ snd b = Rssd seg /\ Rep bs rest.
  Proof.
    intros H. inversion H as [| ? ? ? seg ? rest H1 H2 H3 H4 H5]; subst.
    exists seg, rest. cbn [fst snd]. auto 10.
  Qed.

  Lemma Rep_cons' size (b : R * R) bs w seg rest : w = seg ++ rest ->
    Z.of_nat (length seg) = size -> (0 < size)%Z -> fst b = Rsum seg -> snd b = Rssd seg ->
    Rep bs rest -> Rep ((size, b) :: bs) w.
  Proof.
    destruct b as [tot var]. cbn [fst snd]. intros -> H1 H2 H3 H4 H5. constructor; assumption.
  Qed.

  Lemma Rep_app a b wa wb : Rep a wa -> Rep b wb -> Rep (a ++ b) (wa ++ wb).
  Proof.
    induction 1 as [| size tot var seg bs rest H1 H2 H3 H4 H5 IH]; intros Hb; [exact Hb|].
    cbn [app]. rewrite <- app_assoc. constructor; auto.
  Qed.

  Lemma Rep_single (v : R) : Rep [(pow2 0, (v, @zero RealA))] [v].
  Proof.
    apply (Rep_cons' _ _ _ _ [v] []); [reflexivity | reflexivity | reflexivity | | | constructor].
    - cbn [fst]. unfold Rsum. cbn [fold_right]. ring.
    - cbn [snd]. rewrite Rssd_single. reflexivity.
  Qed.

  (** a merge step keeps the summarised value list *)
  Lemma Rep_mstep a b w : @mstep RealA a b -> Rep a w -> Rep b w.
  Proof.
    intros H. destruct H as [l pre [t1 v1] [t2 v2] post Hl]. revert w.
    induction pre as [|[size b] pre IH]; intros w HR; cbn [app] in *.
    - destruct (Rep_inv _ _ _ _ HR) as (seg1 & rest1 & -> & L1 & P1 & T1 & V1 & HR1).
      destruct (Rep_inv _ _ _ _ HR1) as (seg2 & rest2 & -> & L2 & _ & T2 & V2 & HR2).
      cbn [fst snd] in T1, V1, T2, V2. subst t1 v1 t2 v2.
      apply (Rep_cons' _ _ _ _ (seg1 ++ seg2) rest2).
      + apply app_assoc.
      + rewrite app_length, Nat2Z.inj_add, L1, L2, pow2_succ by exact Hl. lia.
      + apply pow2_pos. lia.
      + unfold merge2. cbn [fst snd]. cbn [add RealA]. rewrite Rsum_app. reflexivity.
      + unfold merge2. cbn [fst snd]. cbn [add sub mul div ofZ RealA].
        symmetry. apply merge_alg; assumption.
      + exact HR2.
    - destruct (Rep_inv _ _ _ _ HR) as (seg & rest & -> & L & P & T & V & HR').
      apply (Rep_cons' _ _ _ _ seg rest); auto.
  Qed.

  Lemma Rep_msteps a b w : @msteps RealA a b -> Rep a w -> Rep b w.
  Proof.
    induction 1 as [a | a b d Hs _ IH]; intros HR; [exact HR|].
    apply IH. eapply Rep_mstep; eassumption.
  Qed.

  Lemma AWin_ext (s s' : adwin_st RealA) w :
    arows s' = arows s -> atotal s' = atotal s -> avar s' = avar s -> awidth s' = awidth s ->
    AWin s w -> AWin s' w.
  Proof. unfold AWin, flat. intros -> -> -> ->. exact (fun H => H). Qed.

  (** insert: the window grows by the new value *)
  Lemma insert_AWin c s v w : AWin s w -> AWin (adwin_insert c s v) (w ++ [v]).
  Proof.
    intros (HR & Hw & Ht & Hv). unfold AWin. cbn [num RealA] in *. split; [|split; [|split]].
    - eapply Rep_msteps; [apply insert_msteps|]. apply Rep_app; [exact HR | apply Rep_single].
    - rewrite adwin_insert_width, Hw, app_length. cbn [length]. lia.
    - unfold adwin_insert. cbn [atotal]. cbn [add RealA].
      rewrite Ht, Rsum_app. unfold Rsum. cbn [fold_right]. ring.
    - unfold adwin_insert. cbv zeta. cbn [avar]. rewrite Hw, Ht, Hv.
      destruct (1 <? Z.of_nat (length w) + 1)%Z eqn:E.
      + assert (Hne : w <> []) by (intros ->; cbn in E; discriminate).
        pose proof (INR_len_pos w Hne) as Hp.
        cbn [add sub mul div ofZ RealA]. rewrite Rssd_snoc by exact Hne.
        replace (Z.of_nat (length w) + 1 - 1)%Z with (Z.of_nat (length w)) by lia.
        rewrite plus_IZR, <- INR_IZR_INZ, plus_INR. change (INR 1) with 1. field. split; lra.
      + assert (Hnil : w = []) by (destruct w; [reflexivity | cbn [length] in E; lia]).
        subst w. cbn [app]. rewrite Rssd_single, Rssd_nil. unfold zero. cbn [add ofZ RealA]. lra.
  Qed.

  (** delete: the window loses its oldest segment *)
  Lemma delete_AWin s w : AShape s -> flat s <> [] -> AWin s w ->
    exists seg w', w = seg ++ w' /\ AWin (adwin_delete s) w'.
  Proof.
    intros HS Hf (HR & Hw & Ht & Hv).
    pose proof (shape_last_ne s HS Hf) as Hl.
    destruct (last (arows s) []) as [|[tb vb] r'] eqn:Hlast; [contradiction Hl; reflexivity|].
    destruct (delete_flat s (tb, vb) r' Hlast) as [Hflat _].
    rewrite Hflat in HR.
    destruct (Rep_inv _ _ _ _ HR) as (seg & rest & -> & L & P & T1 & V1 & HR').
    cbn [fst snd] in T1, V1. subst tb vb.
    exists seg, rest. split; [reflexivity|].
    unfold AWin. split; [exact HR'|].
    rewrite app_length, Nat2Z.inj_add in Hw.
    unfold adwin_delete. cbv zeta. rewrite Hlast. cbn [awidth atotal avar hd fst snd].
    set (size := pow2 (Z.of_nat (length (arows s)) - 1)) in *.
    cbn [num RealA] in *.
    split; [|split].
    - lia.
    - cbn [sub RealA]. rewrite Ht, Rsum_app. ring.
    - cbn [add sub mul div ofZ RealA]. rewrite Hv, Ht.
      apply (delete_alg seg rest size (awidth s - size)%Z); [exact L | lia | exact P |].
      intros _. rewrite Rsum_app. f_equal. ring.
  Qed.

  Lemma shrink_AWin c fuel : forall s w, AShape s -> AWin s w ->
    exists pre w', w = pre ++ w' /\ AWin (fst (shrink c fuel s)) w'.
  Proof.
    induction fuel as [|k IH]; intros s w HS HW; cbn [shrink].
    - exists [], w. split; [reflexivity | exact HW].
    - destruct (found_cut c s) eqn:F; [| exists [], w; split; [reflexivity | exact HW]].
      pose proof (found_cut_flat_ne c s F) as Hf.
      destruct (delete_shape s HS Hf) as (HS' & _ & _).
      destruct (delete_AWin s w HS Hf HW) as (seg & w1 & -> & HW1).
      destruct (IH _ _ HS' HW1) as (pre & w' & -> & HW').
      destruct (shrink c k (adwin_delete s)) as [s' d]. cbn [fst] in *.
      exists (seg ++ pre), w'. split; [apply app_assoc | exact HW'].
  Qed.

  Lemma step_AWin c s v w : AShape s -> AWin s w ->
    exists pre w', w ++ [v] = pre ++ w' /\ AWin (adwin_step c s v) w'.
  Proof.
    intros HS HW. pose proof (insert_shape c s v HS) as HS1.
    pose proof (insert_AWin c s v w HW) as HW1.
    destruct (step_fields c s v) as [Ht Hf].
    destruct (is_check c (an s + 1) (awidth s + 1))%Z.
    - destruct (Ht eq_refl) as (Hr & Hto & Hv & Hw & _).
      destruct (shrink_AWin c (S (length (flat (adwin_insert c s v)))) _ _ HS1 HW1)
        as (pre & w' & E & HW').
      exists pre, w'. split; [exact E|]. eapply AWin_ext; eassumption.
    - destruct (Hf eq_refl) as (Hr & Hto & Hv & Hw & _).
      exists [], (w ++ [v]). split; [reflexivity|]. eapply AWin_ext; eassumption.
  Qed.

  Lemma init_AWin c : AWin (adwin_init c) [].
  Proof. split; [constructor | repeat split]. Qed.

  Lemma arun_snoc c vs v : arun c (vs ++ [v]) = adwin_step c (arun c vs) v.
  Proof. unfold arun. rewrite fold_left_app. reflexivity. Qed.

  Lemma arun_inv c vs : AShape (arun c vs) /\ exists pre w, vs = pre ++ w /\ AWin (arun c vs) w.
  Proof.
    induction vs as [|v vs IH] using rev_ind.
    - split; [apply adwin_init_shape|]. exists [], []. split; [reflexivity | apply init_AWin].
    - destruct IH as (HS & pre & w & -> & HW). rewrite arun_snoc.
      split; [apply adwin_step_shape_gen; exact HS|].
      destruct (step_AWin c _ v w HS HW) as (pre' & w' & E & HW').
      exists (pre ++ pre'), w'. split; [| exact HW'].
      rewrite <- !app_assoc. f_equal. exact E.
  Qed.

  Lemma lastn_app_r {T} (a b : list T) : lastn (length b) (a ++ b) = b.
  Proof.
    unfold lastn. rewrite app_length.
    replace (length a + length b - length b)%nat with (length a) by lia.
    rewrite skipn_app, skipn_all, Nat.sub_diag. reflexivity.
  Qed.
End Window.

(* after every update, the window is an exact suffix of the stream *)
Theorem adwin_window_is_suffix : forall (c : adwin_cfg RealA) (vs : list R), (1 <= ad_m c)%Z ->
  exists k, (k <= length vs)%nat /\ AWin (arun c vs) (lastn k vs).
Proof.
  intros c vs _. destruct (arun_inv c vs) as (_ & pre & w & -> & HW).
  exists (length w). split; [rewrite app_length; lia|].
  rewrite lastn_app_r. exact HW.
Qed.

(* ====================================================================== Parts B + C combined *)

(** the first [j] buckets summarise a prefix [wa] of the window: the accumulators of the scan
    are its length and its sum *)
Lemma Rep_split bs w : Rep bs w -> forall (j : nat) (z0 : Z) (t0 : R),
  exists wa wb, w = wa ++ wb /\
    fold_left (fun a b => (a + fst b)%Z) (firstn j bs) z0 = (z0 + Z.of_nat (length wa))%Z /\
    fold_left (fun a b => (a + fst (snd b))%R) (firstn j bs) t0 = (t0 + Rsum wa)%R /\
    Rep (firstn j bs) wa /\ Rep (skipn j bs) wb.
Proof.
  induction 1 as [| size tot var seg bs rest H1 H2 H3 H4 H5 IH]; intros j z0 t0.
  - exists [], []. destruct j; cbn [firstn skipn fold_left length Z.of_nat]; unfold Rsum; cbn [fold_right].
    + repeat split; try constructor; try lia; lra.
    + repeat split; try constructor; try lia; lra.
  - destruct j as [|j].
    + exists [], (seg ++ rest). cbn [firstn skipn fold_left length Z.of_nat]. unfold Rsum; cbn [fold_right].
      repeat split; try lia; try lra; constructor; assumption.
    + destruct (IH j (z0 + size)%Z (t0 + tot)%R) as (wa & wb & -> & Ez & Et & Ra & Rb).
      exists (seg ++ wa), wb. cbn [firstn skipn fold_left fst snd].
      rewrite Ez, Et, app_length, Nat2Z.inj_add, Rsum_app, app_assoc.
      repeat split; try lia; try lra; try assumption. constructor; assumption.
Qed.

(** meaning of the four numbers compared by [split_exceeds] at the split after bucket [j]:
    lengths and sums of an older part [wa] and a newer part [wb] of the window *)
Lemma split_at_meaning (s : adwin_st RealA) (w : list R) (j : nat) : AWin s w ->
  exists wa wb, w = wa ++ wb /\ Rep (firstn j (flat s)) wa /\ Rep (skipn j (flat s)) wb /\
    split_at s j = (Z.of_nat (length wa), Z.of_nat (length wb), Rsum wa, Rsum wb).
Proof.
  intros (HR & Hw & Ht & Hv).
  destruct (Rep_split _ _ HR j 0%Z 0%R) as (wa & wb & -> & Ez & Et & Ra & Rb).
  exists wa, wb. split; [reflexivity|]. split; [exact Ra|]. split; [exact Rb|].
  unfold split_at. cbv zeta.
  set (F := fold_left _ _ 0%Z). set (G := fold_left _ _ 0%R).
  assert (HF : F = (0 + Z.of_nat (length wa))%Z) by exact Ez.
  assert (HG : G = (0 + Rsum wa)%R) by exact Et.
  rewrite HF, HG, Hw, Ht, app_length, Nat2Z.inj_add, Rsum_app.
  repeat f_equal; try lia; lra.
Qed.
