(** C06: KSWIN (window = last min_num_instances inputs, verdict = exact KS p-value of the drawn
    sample vs the newest values <= alpha, verdict forced when every / no sub-sample is
    rejected) and STEPD (window counts via the AccuracyQueue refinement, decision rule). *)
From Coq Require Import ZArith List Bool Lia Permutation.
From FV Require Import NumSys Py Sums Queue Stats Detector KS Window QueueRef KSPaths Structural IKSR.
Import ListNotations.
Local Open Scope Z_scope.

(* ====================================================================== histories *)

(** the inputs of the updates since the last reset (or construction), oldest first *)
Fixpoint inputs_since_reset {I : Type} (ops : list (op I)) (acc : list I) : list I :=
  match ops with
  | [] => acc
  | Upd v :: r => inputs_since_reset r (acc ++ [v])
  | Rst :: r => inputs_since_reset r []
  end.

Lemma inputs_snoc : forall {I} (ops : list (op I)) acc v,
  inputs_since_reset (ops ++ [Upd v]) acc = inputs_since_reset ops acc ++ [v].
Proof.
  intros I ops; induction ops as [|[x|] r IH]; intros acc v; cbn [app inputs_since_reset].
  - reflexivity.
  - apply IH.
  - apply IH.
Qed.

Lemma inputs_length : forall (D : Detector) (ops : list (op (d_in D))) acc,
  Z.of_nat (length (inputs_since_reset ops acc)) = since_reset D ops (Z.of_nat (length acc)).
Proof.
  intros D ops; induction ops as [|[x|] r IH]; intros acc; cbn [inputs_since_reset since_reset].
  - reflexivity.
  - rewrite IH, app_length. cbn [length]. f_equal. lia.
  - rewrite IH. reflexivity.
Qed.

Lemma inputs_length0 : forall (D : Detector) (ops : list (op (d_in D))),
  Z.of_nat (length (inputs_since_reset ops [])) = updates_since_reset D ops.
Proof. intros D ops. apply (inputs_length D ops []). Qed.

Lemma exec_snoc : forall (D : Detector) c ops o, exec D c (ops ++ [o]) = apply D c (exec D c ops) o.
Proof. intros D c ops o. unfold exec. rewrite exec_from_app. reflexivity. Qed.

(* ====================================================================== KSWIN: window *)

Section KSWIN.
  Context {A : Arith}.
  Notation kin := (num A * list (num A))%type.

  Lemma kswin_window_from : forall (c : kswin_cfg) (ops : list (op kin)) (s : kswin_st A) (acc : list kin),
    kwin s = lastn (Z.to_nat (kw_min c)) (map fst acc) ->
    kwin (exec_from (KSWIND A) c s ops) =
    lastn (Z.to_nat (kw_min c)) (map fst (inputs_since_reset ops acc)).
  Proof.
    intros c ops; induction ops as [|[[v smp]|] r IH]; intros s acc Hs.
    - exact Hs.
    - rewrite exec_from_cons. cbn [inputs_since_reset]. apply IH.
      cbn [apply d_step KSWIND kswin_step kwin]. rewrite Hs, map_app. cbn [map fst].
      apply lastn_lastn_snoc.
    - rewrite exec_from_cons. cbn [inputs_since_reset]. apply IH.
      cbn [apply d_reset KSWIND kswin_reset kswin_init kwin map]. rewrite lastn_nil. reflexivity.
  Qed.

  (** (e) the window holds exactly the last min_num_instances values since the last reset *)
  Theorem kswin_window : forall (c : kswin_cfg) (ops : list (op kin)),
    kwin (exec (KSWIND A) c ops) =
    lastn (Z.to_nat (kw_min c)) (map fst (inputs_since_reset ops [])).
  Proof.
    intros c ops. unfold exec. apply kswin_window_from.
    cbn [d_init KSWIND kswin_init kwin map]. rewrite lastn_nil. reflexivity.
  Qed.

  Lemma kswin_window_length : forall (c : kswin_cfg) (ops : list (op kin)),
    Z.of_nat (length (kwin (exec (KSWIND A) c ops))) =
    Z.min (updates_since_reset (KSWIND A) ops) (Z.max 0 (kw_min c)).
  Proof.
    intros c ops. rewrite kswin_window, lastn_length, map_length.
    rewrite <- (inputs_length0 (KSWIND A) ops). cbn [d_in KSWIND]. lia.
  Qed.

  (** (f) the verdict of an update: before the window is full no drift; once full, the exact
      two-sample KS p-value between the supplied draw and the newest kw_test values <= alpha *)
  Theorem kswin_rule : forall (c : kswin_cfg) (ops : list (op kin)) (v : num A) (sample : list (num A)),
    let ops' := ops ++ [Upd (v, sample)] in
    let s' := exec (KSWIND A) c ops' in
    kdrift s' =
    if kw_min c <=? updates_since_reset (KSWIND A) ops'
    then ks_p_le sample (lastn (Z.to_nat (kw_test c)) (kwin s')) (kw_alpha_num c) (kw_alpha_den c)
    else false.
  Proof.
    intros c ops v sample ops' s'.
    pose proof (kswin_window_length c ops') as Hlen. fold s' in Hlen.
    pose proof (updates_since_reset_nonneg (KSWIND A) ops') as Hnn.
    assert (Hpos : 1 <= updates_since_reset (KSWIND A) ops').
    { rewrite <- (inputs_length0 (KSWIND A) ops'). unfold ops'. rewrite inputs_snoc, app_length.
      cbn [length]. lia. }
    assert (Hk : kdrift s' = (kw_min c <=? Z.of_nat (length (kwin s'))) &&
                 ks_p_le sample (lastn (Z.to_nat (kw_test c)) (kwin s')) (kw_alpha_num c) (kw_alpha_den c)).
    { unfold s', ops'. rewrite exec_snoc. reflexivity. }
    rewrite Hk, Hlen.
    destruct (kw_min c <=? updates_since_reset (KSWIND A) ops') eqn:E.
    - apply Z.leb_le in E.
      replace (kw_min c <=? Z.min (updates_since_reset (KSWIND A) ops') (Z.max 0 (kw_min c))) with true
        by (symmetry; apply Z.leb_le; lia).
      reflexivity.
    - apply Z.leb_gt in E.
      replace (kw_min c <=? Z.min (updates_since_reset (KSWIND A) ops') (Z.max 0 (kw_min c))) with false
        by (symmetry; apply Z.leb_gt; lia).
      reflexivity.
  Qed.

  (** the same, phrased on the window *)
  Lemma kswin_rule_window : forall (c : kswin_cfg) (ops : list (op kin)) (v : num A) (sample : list (num A)),
    let s' := exec (KSWIND A) c (ops ++ [Upd (v, sample)]) in
    kdrift s' = (kw_min c <=? Z.of_nat (length (kwin s'))) &&
                ks_p_le sample (lastn (Z.to_nat (kw_test c)) (kwin s')) (kw_alpha_num c) (kw_alpha_den c).
  Proof. intros c ops v sample s'. unfold s'. rewrite exec_snoc. reflexivity. Qed.
End KSWIN.

(* ====================================================================== KSWIN: seeded runs *)

(** The random draw is an oracle input of [kswin_step].  With the generator made explicit
    (abstract state [G], abstract [draw] standing for np.random.choice without replacement,
    consulted only when the window is full, on the older part of the window) the whole run is
    a Gallina function of (config, seed state, stream) - so two runs from the same seed agree -
    and it IS an oracle run whose samples are the recorded draws. *)
Section Seeded.
  Context {A : Arith} {G : Type}.
  Variable draw : G -> list (num A) -> nat -> list (num A) * G.

  Fixpoint kswin_run_g (c : kswin_cfg) (s : kswin_st A) (g : G) (vs : list (num A))
    : kswin_st A * G * list (list (num A)) :=
    match vs with
    | [] => (s, g, [])
    | v :: r =>
      let w := lastn (Z.to_nat (kw_min c)) (kwin s ++ [v]) in
      let '(smp, g') :=
        if kw_min c <=? Z.of_nat (length w)
        then draw g (firstn (length w - Z.to_nat (kw_test c)) w) (Z.to_nat (kw_test c))
        else ([], g) in
      let '(s2, g2, smps) := kswin_run_g c (kswin_step c s (v, smp)) g' r in
      (s2, g2, smp :: smps)
    end.

  Theorem kswin_seeded_is_oracle_run : forall (c : kswin_cfg) (vs : list (num A)) (s : kswin_st A) (g : G),
    let '(s2, _, smps) := kswin_run_g c s g vs in
    length smps = length vs /\
    s2 = exec_from (KSWIND A) c s (map Upd (combine vs smps)).
  Proof.
    intros c vs; induction vs as [|v r IH]; intros s g.
    - cbn. auto.
    - cbn [kswin_run_g]. cbv zeta.
      destruct (if kw_min c <=? Z.of_nat (length (lastn (Z.to_nat (kw_min c)) (kwin s ++ [v])))
                then draw g (firstn (length (lastn (Z.to_nat (kw_min c)) (kwin s ++ [v])) - Z.to_nat (kw_test c))
                                    (lastn (Z.to_nat (kw_min c)) (kwin s ++ [v]))) (Z.to_nat (kw_test c))
                else ([], g)) as [smp g'].
      specialize (IH (kswin_step c s (v, smp)) g').
      destruct (kswin_run_g c (kswin_step c s (v, smp)) g' r) as [[s2 g2] smps].
      destruct IH as [Hl He]. split.
      + cbn [length]. rewrite Hl. reflexivity.
      + cbn [combine map]. rewrite exec_from_cons. exact He.
  Qed.
End Seeded.

(* ====================================================================== p-value vs H *)

(** "p-value at statistic H is <= a/b" for sample sizes n, m *)
Definition p_le_at (n m H a b : Z) : bool :=
  (paths_total n m - paths_inside n m H) * b <=? a * paths_total n m.

Lemma ks_p_le_at : forall (A : Arith) (X Y : list (num A)) a b,
  ks_p_le X Y a b = p_le_at (len X) (len Y) (ks_H X Y) a b.
Proof. reflexivity. Qed.

(** the p-value is antitone in the statistic *)
Theorem p_le_at_antitone : forall (n m : nat) (H H' a b : Z), 0 <= b -> H <= H' ->
  p_le_at (Z.of_nat n) (Z.of_nat m) H a b = true -> p_le_at (Z.of_nat n) (Z.of_nat m) H' a b = true.
Proof.
  intros n m H H' a b Hb HH. unfold p_le_at. rewrite !Z.leb_le.
  pose proof (paths_inside_mono n m H H' HH) as Hm. nia.
Qed.

Theorem ks_p_antitone : forall (A : Arith) (X X' Y : list (num A)) (a b : Z), 0 <= b ->
  len X = len X' -> ks_H X Y <= ks_H X' Y ->
  ks_p_le X Y a b = true -> ks_p_le X' Y a b = true.
Proof.
  intros A X X' Y a b Hb Hl HH. rewrite !ks_p_le_at, <- Hl. unfold len.
  apply p_le_at_antitone; assumption.
Qed.

(* ====================================================================== sub-sample bounds *)

Section SubSample.
  Context {A : Arith}.

  (** [S] is a sub-multiset of [old]:  exists rest, Permutation old (S ++ rest).
      Every threshold count of S is squeezed by the counts of old. *)
  Theorem sub_count_bounds : forall (old S rest : list (num A)) (z : num A),
    Permutation old (S ++ rest) ->
    Z.max 0 (len S - (len old - count_le z old)) <= count_le z S <= Z.min (len S) (count_le z old).
  Proof.
    intros old S rest z HP.
    rewrite (count_le_perm A z _ _ HP), (len_perm A _ _ HP), count_le_app.
    unfold len at 2. rewrite app_length, Nat2Z.inj_add. fold (len S). fold (len rest).
    pose proof (count_le_range z S). pose proof (count_le_range z rest). lia.
  Qed.

  (** the bounds on the count of a size-n sub-sample at threshold z, and the resulting
      smallest / largest possible |count_S - count_recent| (harness/c06.py, [d_bounds]) *)
  Definition fs_lo (old : list (num A)) (n : Z) (z : num A) : Z := Z.max 0 (n - (len old - count_le z old)).
  Definition fs_hi (old : list (num A)) (n : Z) (z : num A) : Z := Z.min n (count_le z old).
  Definition lo_term (old recent : list (num A)) (n : Z) (z : num A) : Z :=
    let fr := count_le z recent in
    if (fs_lo old n z <=? fr) && (fr <=? fs_hi old n z) then 0
    else Z.min (Z.abs (fs_lo old n z - fr)) (Z.abs (fs_hi old n z - fr)).
  Definition hi_term (old recent : list (num A)) (n : Z) (z : num A) : Z :=
    let fr := count_le z recent in
    Z.max (Z.abs (fs_lo old n z - fr)) (Z.abs (fs_hi old n z - fr)).
  Definition H_lo (old recent : list (num A)) (n : Z) : Z :=
    fold_left (maxf (fun z => lo_term old recent n z * n)) (old ++ recent) 0.
  Definition H_hi (old recent : list (num A)) (n : Z) : Z :=
    fold_left (maxf (fun z => hi_term old recent n z * n)) (old ++ recent) 0.

  Lemma term_squeeze : forall (old S rest recent : list (num A)) (z : num A),
    Permutation old (S ++ rest) -> len recent = len S ->
    lo_term old recent (len S) z * len S <= ks_term S recent z <= hi_term old recent (len S) z * len S.
  Proof.
    intros old S rest recent z HP Hr.
    pose proof (sub_count_bounds old S rest z HP) as Hb.
    unfold ks_term. rewrite Hr.
    replace (count_le z S * len S - count_le z recent * len S)
      with ((count_le z S - count_le z recent) * len S) by ring.
    assert (Hn : 0 <= len S) by (unfold len; lia).
    rewrite Z.abs_mul, (Z.abs_eq (len S)) by exact Hn.
    unfold lo_term, hi_term, fs_lo, fs_hi. cbv zeta.
    set (a := Z.max 0 (len S - (len old - count_le z old))) in *.
    set (b := Z.min (len S) (count_le z old)) in *.
    set (fr := count_le z recent). set (cS := count_le z S) in *.
    split.
    - apply Z.mul_le_mono_nonneg_r; [exact Hn|].
      destruct (a <=? fr) eqn:E1; destruct (fr <=? b) eqn:E2; cbn [andb];
        try apply Z.leb_le in E1; try apply Z.leb_gt in E1;
        try apply Z.leb_le in E2; try apply Z.leb_gt in E2; lia.
    - apply Z.mul_le_mono_nonneg_r; [exact Hn|]. lia.
  Qed.

  (** every size-n sub-sample has H <= H_hi (any number system) *)
  Theorem sub_H_upper : forall (old S rest recent : list (num A)) (n : Z),
    Permutation old (S ++ rest) -> len S = n -> len recent = n ->
    ks_H S recent <= H_hi old recent n.
  Proof.
    intros old S rest recent n HP HS HR. subst n.
    rewrite ks_H_unfold. apply maxf_le_bound.
    - unfold H_hi. apply maxf_ge_init.
    - intros z Hz.
      assert (Hin : In z (old ++ recent)).
      { apply in_app_or in Hz. apply in_or_app. destruct Hz as [Hz|Hz]; [left|right; exact Hz].
        apply (Permutation_in _ (Permutation_sym HP)). apply in_or_app. left. exact Hz. }
      pose proof (term_squeeze old S rest recent z HP HR) as [_ Hu].
      eapply Z.le_trans; [exact Hu|].
      unfold H_hi.
      apply (maxf_ge_term (fun z => hi_term old recent (len S) z * len S) (old ++ recent) 0 z Hin).
  Qed.

  Lemma H_lo_nonneg : forall old recent n, 0 <= H_lo old recent n.
  Proof. intros. unfold H_lo. apply maxf_ge_init. Qed.
End SubSample.

From Coq Require Import Reals Lra.
From FV Require Import RealA.

(** every size-n sub-sample has H >= H_lo (over the reals: uses that H bounds the CDF
    difference at EVERY threshold, not only at the points of S and recent) *)
Theorem sub_H_lower : forall (old S rest recent : list R) (n : Z),
  Permutation old (S ++ rest) -> len (A:=RealA) S = n -> len (A:=RealA) recent = n ->
  H_lo (A:=RealA) old recent n <= ks_H (A:=RealA) S recent.
Proof.
  intros old S rest recent n HP HS HR. subst n.
  unfold H_lo. apply maxf_le_bound.
  - apply (ks_H_bounds RealA).
  - intros z _.
    pose proof (term_squeeze (A:=RealA) old S rest recent z HP HR) as [Hl _].
    eapply Z.le_trans; [exact Hl|]. unfold ks_term. apply ks_H_sup.
Qed.

Theorem sub_H_bounds : forall (old S rest recent : list R) (n : Z),
  Permutation old (S ++ rest) -> len (A:=RealA) S = n -> len (A:=RealA) recent = n ->
  H_lo (A:=RealA) old recent n <= ks_H (A:=RealA) S recent <= H_hi (A:=RealA) old recent n.
Proof.
  intros old S rest recent n HP HS HR. split.
  - apply (sub_H_lower old S rest recent n); assumption.
  - apply (sub_H_upper (A:=RealA) old S rest recent n); assumption.
Qed.

(** if the p-value at H_lo is already <= a/b, every sub-sample is rejected ... *)
Theorem sub_forced_reject : forall (old S rest recent : list R) (n a b : Z), 0 <= b ->
  Permutation old (S ++ rest) -> len (A:=RealA) S = n -> len (A:=RealA) recent = n ->
  p_le_at n n (H_lo (A:=RealA) old recent n) a b = true ->
  ks_p_le (A:=RealA) S recent a b = true.
Proof.
  intros old S rest recent n a b Hb HP HS HR Hp.
  rewrite ks_p_le_at, HS, HR.
  pose proof (sub_H_lower old S rest recent n HP HS HR) as Hl.
  assert (En : n = Z.of_nat (length S)) by (rewrite <- HS; reflexivity).
  rewrite En in Hp, Hl |- *.
  apply (p_le_at_antitone (length S) (length S) _ _ a b Hb Hl Hp).
Qed.

(** ... and if it is still > a/b at H_hi, none is. *)
Theorem sub_forced_accept : forall (old S rest recent : list R) (n a b : Z), 0 <= b ->
  Permutation old (S ++ rest) -> len (A:=RealA) S = n -> len (A:=RealA) recent = n ->
  p_le_at n n (H_hi (A:=RealA) old recent n) a b = false ->
  ks_p_le (A:=RealA) S recent a b = false.
Proof.
  intros old S rest recent n a b Hb HP HS HR Hp.
  destruct (ks_p_le (A:=RealA) S recent a b) eqn:E; [|reflexivity].
  rewrite ks_p_le_at, HS, HR in E.
  pose proof (sub_H_upper (A:=RealA) old S rest recent n HP HS HR) as Hu.
  assert (En : n = Z.of_nat (length S)) by (rewrite <- HS; reflexivity).
  rewrite En in Hp, Hu, E.
  rewrite (p_le_at_antitone (length S) (length S) _ _ a b Hb Hu E) in Hp. discriminate.
Qed.

(** (g) on the detector: window full, [old] = everything but the newest kw_test values,
    the oracle's draw a size-kw_test sub-multiset of [old] *)
Section Forced.
  Variable c : kswin_cfg.
  Variable ops : list (op (R * list R)).
  Variable v : R.
  Variable sample : list R.
  Let s' := exec (KSWIND RealA) c (ops ++ [Upd (v, sample)]).
  Let W := kwin s'.
  Let recent := lastn (Z.to_nat (kw_test c)) W.
  Let old := firstn (length W - Z.to_nat (kw_test c)) W.

  Lemma forced_window_split : W = old ++ recent.
  Proof. unfold old, recent, lastn. symmetry. apply firstn_skipn. Qed.

  Hypothesis Hden : 0 <= kw_alpha_den c.
  Hypothesis Hfull : kw_min c <= Z.of_nat (length W).
  Hypothesis Htest : 0 <= kw_test c <= Z.of_nat (length W).
  Hypothesis Hsub : exists rest, Permutation old (sample ++ rest).
  Hypothesis Hsize : len (A:=RealA) sample = kw_test c.

  Lemma forced_recent_len : len (A:=RealA) recent = kw_test c.
  Proof. unfold len, recent. rewrite lastn_length. lia. Qed.

  Theorem kswin_forced_alarm :
    p_le_at (kw_test c) (kw_test c) (H_lo (A:=RealA) old recent (kw_test c))
            (kw_alpha_num c) (kw_alpha_den c) = true ->
    kdrift s' = true.
  Proof.
    intros Hp. unfold s'. rewrite kswin_rule_window. fold s'. fold W. fold recent.
    apply andb_true_intro. split; [apply Z.leb_le; exact Hfull|].
    destruct Hsub as [rest HP].
    apply (sub_forced_reject old sample rest recent (kw_test c) _ _ Hden HP Hsize forced_recent_len Hp).
  Qed.

  Theorem kswin_forced_silent :
    p_le_at (kw_test c) (kw_test c) (H_hi (A:=RealA) old recent (kw_test c))
            (kw_alpha_num c) (kw_alpha_den c) = false ->
    kdrift s' = false.
  Proof.
    intros Hp. unfold s'. rewrite kswin_rule_window. fold s'. fold W. fold recent.
    apply andb_false_intro2.
    destruct Hsub as [rest HP].
    apply (sub_forced_accept old sample rest recent (kw_test c) _ _ Hden HP Hsize forced_recent_len Hp).
  Qed.
End Forced.

(* ====================================================================== STEPD *)

Section STEPD.
  Context {A : Arith}.

  Lemma stepd_step_fields : forall (c : stepd_cfg A) (s : stepd_st) (v : NumSys.num A),
    sn (stepd_step c s v) = sn s + 1 /\
    scorrect (stepd_step c s v) = scorrect s + b2z (truthy v) /\
    swin (stepd_step c s v) =
      match aq_enqueue (swin s) (truthy v) with Ok a => a | Raise _ => swin s end.
  Proof.
    intros c s v. unfold stepd_step. cbv zeta.
    destruct (2 * sp_min c <=? sn s + 1); [|repeat split].
    destruct (stepd_stat _ _ _ _) as [t|]; [|repeat split].
    destruct (NumSys.ltb (sp_zd c) t); repeat split.
  Qed.

  (** the verdict of one step in terms of the fields of the new state *)
  Lemma stepd_step_verdict : forall (c : stepd_cfg A) (s : stepd_st) (v : NumSys.num A),
    let s' := stepd_step c s v in
    if 2 * sp_min c <=? sn s' then
      match stepd_stat (sn s') (scorrect s') (aq_size (swin s')) (aq_num_true (swin s')) with
      | None => sdrift s' = false /\ swarning s' = false
      | Some t => sdrift s' = NumSys.ltb (sp_zd c) t /\
                  swarning s' = negb (NumSys.ltb (sp_zd c) t) && NumSys.ltb (sp_zw c) t
      end
    else sdrift s' = false /\ swarning s' = false.
  Proof.
    intros c s v s'.
    destruct (stepd_step_fields c s v) as (Hn & Hc & Hw). fold s' in Hn, Hc, Hw.
    rewrite Hn, Hc, Hw. unfold s', stepd_step. cbv zeta.
    destruct (2 * sp_min c <=? sn s + 1); [|split; reflexivity].
    destruct (stepd_stat _ _ _ _) as [t|]; [|split; reflexivity].
    destruct (NumSys.ltb (sp_zd c) t); cbn [sdrift swarning negb andb]; split; reflexivity.
  Qed.

  (** invariant: the counters are those of the truthiness values since the last reset *)
  Definition stepd_CInv (c : stepd_cfg A) (ins : list (NumSys.num A)) (s : stepd_st) : Prop :=
    sn s = Z.of_nat (length ins) /\
    scorrect s = Z.of_nat (count_occ bool_dec (map truthy ins) true) /\
    aq_rel (sp_min c) (swin s) (lastn (Z.to_nat (sp_min c)) (map truthy ins)).

  Lemma stepd_CInv_init : forall c : stepd_cfg A, 1 <= sp_min c -> stepd_CInv c [] (stepd_init c).
  Proof.
    intros c Hm. unfold stepd_CInv, stepd_init. cbn [sn scorrect swin map length count_occ].
    rewrite lastn_nil. split; [reflexivity|]. split; [reflexivity|].
    split; [apply cq_init_rel; exact Hm|reflexivity].
  Qed.

  Lemma stepd_CInv_step : forall (c : stepd_cfg A) ins s v, 1 <= sp_min c ->
    stepd_CInv c ins s -> stepd_CInv c (ins ++ [v]) (stepd_step c s v).
  Proof.
    intros c ins s v Hm (Hn & Hc & Hrel).
    destruct (stepd_step_fields c s v) as (Hn' & Hc' & Hw').
    destruct (aq_enqueue_rel (sp_min c) (swin s) _ (truthy v) Hm Hrel) as (a' & He & Hrel').
    rewrite dq_enqueue_lastn in Hrel' by exact Hm.
    unfold stepd_CInv. rewrite Hn', Hc', Hw', He, map_app. cbn [map].
    rewrite count_true_snoc, app_length. cbn [length].
    split; [lia|]. split; [lia|exact Hrel'].
  Qed.

  Lemma stepd_CInv_exec_from : forall (c : stepd_cfg A) (ops : list (op (NumSys.num A))) s acc, 1 <= sp_min c ->
    stepd_CInv c acc s ->
    stepd_CInv c (inputs_since_reset ops acc) (exec_from (STEPDD A) c s ops).
  Proof.
    intros c ops; induction ops as [|[v|] r IH]; intros s acc Hm HI.
    - exact HI.
    - rewrite exec_from_cons. cbn [inputs_since_reset]. apply IH; [exact Hm|].
      apply stepd_CInv_step; assumption.
    - rewrite exec_from_cons. cbn [inputs_since_reset]. apply IH; [exact Hm|].
      apply stepd_CInv_init. exact Hm.
  Qed.

  (** (h) counts in every reachable state *)
  Theorem stepd_counts : forall (c : stepd_cfg A) (ops : list (op (NumSys.num A))), 1 <= sp_min c ->
    let s := exec (STEPDD A) c ops in
    let bs := map truthy (inputs_since_reset ops []) in
    let W := lastn (Z.to_nat (sp_min c)) bs in
    sn s = Z.of_nat (length bs) /\
    scorrect s = Z.of_nat (count_occ bool_dec bs true) /\
    cq_abs (a_q (swin s)) = map Some W /\
    aq_size (swin s) = Z.min (Z.of_nat (length bs)) (sp_min c) /\
    aq_num_true (swin s) = Z.of_nat (count_occ bool_dec W true).
  Proof.
    intros c ops Hm s bs W.
    pose proof (stepd_CInv_exec_from c ops (stepd_init c) [] Hm (stepd_CInv_init c Hm)) as HI.
    change (exec_from (STEPDD A) c (stepd_init c) ops) with s in HI.
    destruct HI as (Hn & Hc & Hq & Ht).
    fold bs in Hc, Hq, Ht. fold W in Hq, Ht.
    split; [unfold bs; rewrite map_length; exact Hn|]. split; [exact Hc|].
    split; [exact (cq_rel_abs _ _ _ Hq)|]. split; [|exact Ht].
    unfold aq_size. rewrite (cq_rel_count _ _ _ Hq). unfold W. rewrite lastn_length. lia.
  Qed.

  (** the "earlier" counts used by the statistic are those of everything before the window *)
  Lemma stepd_earlier_counts : forall (bs : list bool) (k : nat),
    Z.of_nat (count_occ bool_dec bs true) - Z.of_nat (count_occ bool_dec (lastn k bs) true) =
    Z.of_nat (count_occ bool_dec (firstn (length bs - k) bs) true) /\
    Z.of_nat (length bs) - Z.of_nat (length (lastn k bs)) = Z.of_nat (length (firstn (length bs - k) bs)).
  Proof.
    intros bs k. unfold lastn.
    pose proof (firstn_skipn (length bs - k) bs) as E.
    pose proof (f_equal (fun l => count_occ bool_dec l true) E) as E1.
    pose proof (f_equal (@length bool) E) as E2. cbv beta in E1.
    rewrite count_occ_app in E1. rewrite app_length in E2. lia.
  Qed.

  (** (h) decision rule, on [exec]: with n >= 2 min the verdict compares the statistic of the
      counts (all n values; the last min values) with the two thresholds *)
  Theorem stepd_rule : forall (c : stepd_cfg A) (ops : list (op (NumSys.num A))) (v : NumSys.num A), 1 <= sp_min c ->
    let ops' := ops ++ [Upd v] in
    let s' := exec (STEPDD A) c ops' in
    let bs := map truthy (inputs_since_reset ops' []) in
    let n := Z.of_nat (length bs) in
    let W := lastn (Z.to_nat (sp_min c)) bs in
    if 2 * sp_min c <=? n then
      match stepd_stat (A:=A) n (Z.of_nat (count_occ bool_dec bs true))
                       (sp_min c) (Z.of_nat (count_occ bool_dec W true)) with
      | None => sdrift s' = false /\ swarning s' = false
      | Some t => sdrift s' = NumSys.ltb (sp_zd c) t /\
                  swarning s' = negb (NumSys.ltb (sp_zd c) t) && NumSys.ltb (sp_zw c) t
      end
    else sdrift s' = false /\ swarning s' = false.
  Proof.
    intros c ops v Hm ops' s' bs n W.
    destruct (stepd_counts c ops' Hm) as (Hn & Hc & _ & Hsz & Ht).
    fold s' in Hn, Hc, Hsz, Ht. fold bs in Hn, Hc, Hsz, Ht. fold W in Ht. fold n in Hn, Hsz.
    pose proof (stepd_step_verdict c (exec (STEPDD A) c ops) v) as Hv. cbv zeta in Hv.
    assert (Es : stepd_step c (exec (STEPDD A) c ops) v = s').
    { unfold s', ops'. rewrite exec_snoc. reflexivity. }
    rewrite Es in Hv. rewrite Hn, Hc, Hsz, Ht in Hv.
    destruct (2 * sp_min c <=? n) eqn:E; [|exact Hv].
    apply Z.leb_le in E. replace (Z.min n (sp_min c)) with (sp_min c) in Hv by lia. exact Hv.
  Qed.
End STEPD.

(* ====================================================================== STEPD over R *)

Section STEPD_sf.
  (** the survival function of the standard normal is an oracle: only strict monotonicity
      is used.  [sp_zd] / [sp_zw] are the points where it takes the values alpha_d / alpha_w. *)
  Variable sf : R -> R.
  Hypothesis sf_decreasing : forall x y : R, (x < y)%R -> (sf y < sf x)%R.

  Lemma sf_inversion : forall (z alpha t : R), sf z = alpha ->
    (Rltb z t = true <-> (sf t < alpha)%R).
  Proof.
    intros z alpha t Hz. rewrite Rltb_true. split.
    - intros Hlt. rewrite <- Hz. apply sf_decreasing. exact Hlt.
    - intros Hs. destruct (Rlt_le_dec z t) as [Hlt|Hle]; [exact Hlt|].
      destruct (Rle_lt_or_eq_dec t z Hle) as [Hlt|Heq].
      + pose proof (sf_decreasing t z Hlt). lra.
      + subst t. lra.
  Qed.

  Lemma sf_inversion_false : forall (z alpha t : R), sf z = alpha ->
    (Rltb z t = false <-> (alpha <= sf t)%R).
  Proof.
    intros z alpha t Hz. pose proof (sf_inversion z alpha t Hz) as H.
    destruct (Rltb z t); split; intros Hx; try reflexivity; try discriminate.
    - assert (sf t < alpha)%R by (apply H; reflexivity). lra.
    - destruct (Rlt_le_dec (sf t) alpha) as [Hlt|Hle]; [|exact Hle].
      apply H in Hlt. discriminate.
  Qed.

  (** drift iff the one-sided p-value sf(T) < alpha_d; warning iff alpha_d <= sf(T) < alpha_w;
      no statistic (pooled accuracy 0 or 1) or n < 2 min: neither *)
  Theorem stepd_rule_sf : forall (c : stepd_cfg RealA) (alpha_d alpha_w : R)
      (ops : list (op R)) (v : R), (1 <= sp_min c)%Z ->
    sf (sp_zd c) = alpha_d -> sf (sp_zw c) = alpha_w ->
    let ops' := ops ++ [Upd v] in
    let s' := exec (STEPDD RealA) c ops' in
    let bs := map (truthy (A:=RealA)) (inputs_since_reset ops' []) in
    let n := Z.of_nat (length bs) in
    let W := lastn (Z.to_nat (sp_min c)) bs in
    let stat := stepd_stat (A:=RealA) n (Z.of_nat (count_occ bool_dec bs true))
                           (sp_min c) (Z.of_nat (count_occ bool_dec W true)) in
    (sdrift s' = true <-> (2 * sp_min c <= n)%Z /\ exists t, stat = Some t /\ (sf t < alpha_d)%R) /\
    (swarning s' = true <->
       (2 * sp_min c <= n)%Z /\ exists t, stat = Some t /\ (alpha_d <= sf t < alpha_w)%R).
  Proof.
    intros c alpha_d alpha_w ops v Hm Hd Hw ops' s' bs n W stat.
    assert (Hr : if (2 * sp_min c <=? n)%Z then
                   match stat with
                   | None => sdrift s' = false /\ swarning s' = false
                   | Some t => sdrift s' = Rltb (sp_zd c) t /\
                               swarning s' = negb (Rltb (sp_zd c) t) && Rltb (sp_zw c) t
                   end
                 else sdrift s' = false /\ swarning s' = false)
      by exact (stepd_rule c ops v Hm).
    clearbody stat n s'.
    destruct (2 * sp_min c <=? n)%Z eqn:E.
    - apply Z.leb_le in E. destruct stat as [t|].
      + destruct Hr as [Hdr Hwr]. rewrite Hdr, Hwr. split.
        * rewrite (sf_inversion _ _ t Hd). split.
          -- intros H. split; [exact E|]. exists t. split; [reflexivity|exact H].
          -- intros [_ [t' [Et H]]]. inversion Et; subst t'. exact H.
        * rewrite andb_true_iff, negb_true_iff, (sf_inversion_false _ _ t Hd), (sf_inversion _ _ t Hw).
          split.
          -- intros [H1 H2]. split; [exact E|]. exists t. split; [reflexivity|]. split; assumption.
          -- intros [_ [t' [Et [H1 H2]]]]. inversion Et; subst t'. split; assumption.
      + destruct Hr as [Hdr Hwr]. rewrite Hdr, Hwr. split; split; try discriminate.
        * intros [_ [t [Et _]]]. discriminate.
        * intros [_ [t [Et _]]]. discriminate.
    - apply Z.leb_gt in E. destruct Hr as [Hdr Hwr]. rewrite Hdr, Hwr.
      split; split; try discriminate; intros [H _]; lia.
  Qed.
End STEPD_sf.
