(** C07: CUSUM, Page-Hinkley and geometric moving average over the reals:
    the running statistic obeys the stated recurrences over the batch running
    mean, the verdicts are invariant under a constant shift of the stream and
    antitone in the threshold. *)
From Coq Require Import ZArith List Bool Reals Lra Lia.
From FV Require Import NumSys RealA Py Sums Stats Detector Cusum StatsR.
Import ListNotations.
Local Open Scope R_scope.

(** run on a plain stream of updates *)
Definition crun (c : cusum_cfg RealA) (vs : list R) : cusum_st RealA :=
  fold_left (cusum_step c) vs (cusum_init c).

(** the property's recurrences, over the batch running mean; [rvs] is newest-first *)
Fixpoint g_spec (c : cusum_cfg RealA) (rvs : list R) : R :=
  match rvs with
  | [] => 0
  | x :: older =>
    let m := Rmean (rev (x :: older)) in
    match ck_kind c with
    | KCusum => Rmax 0 (g_spec c older + x - m - ck_delta c)
    | KPageHinkley => ck_alpha c * g_spec c older + x - m - ck_delta c
    | KGMA => ck_alpha c * g_spec c older + (1 - ck_alpha c) * (x - m)
    end
  end.

(** * Helpers *)

Lemma crun_snoc : forall c vs v, crun c (vs ++ [v]) = cusum_step c (crun c vs) v.
Proof. intros c vs v. unfold crun. rewrite fold_left_app. reflexivity. Qed.

Lemma crun_mean : forall c vs, cs_mean (crun c vs) = mean_run (A:=RealA) vs.
Proof.
  intros c vs; induction vs as [|x vs IH] using rev_ind.
  - reflexivity.
  - rewrite crun_snoc, mean_run_snoc. unfold cusum_step. cbn [cs_mean].
    rewrite IH. reflexivity.
Qed.

Lemma max0_Rmax : forall x : R, max0 (A:=RealA) x = Rmax 0 x.
Proof.
  intros x. unfold max0, zero. cbn [ltb ofZ RealA]. unfold Rmax.
  destruct (Rltb 0 x) eqn:E.
  - apply Rltb_true in E. destruct (Rle_dec 0 x) as [H|H]; [reflexivity|lra].
  - apply Rltb_false in E. destruct (Rle_dec 0 x) as [H|H]; [lra|reflexivity].
Qed.

Lemma g_spec_cons : forall c x older,
  g_spec c (x :: older) =
    match ck_kind c with
    | KCusum => Rmax 0 (g_spec c older + x - Rmean (rev older ++ [x]) - ck_delta c)
    | KPageHinkley => ck_alpha c * g_spec c older + x - Rmean (rev older ++ [x]) - ck_delta c
    | KGMA => ck_alpha c * g_spec c older + (1 - ck_alpha c) * (x - Rmean (rev older ++ [x]))
    end.
Proof. intros c x older. reflexivity. Qed.

Lemma g_spec_snoc : forall c vs x,
  g_spec c (rev (vs ++ [x])) =
    match ck_kind c with
    | KCusum => Rmax 0 (g_spec c (rev vs) + x - Rmean (vs ++ [x]) - ck_delta c)
    | KPageHinkley => ck_alpha c * g_spec c (rev vs) + x - Rmean (vs ++ [x]) - ck_delta c
    | KGMA => ck_alpha c * g_spec c (rev vs) + (1 - ck_alpha c) * (x - Rmean (vs ++ [x]))
    end.
Proof.
  intros c vs x. rewrite rev_unit, g_spec_cons, rev_involutive. reflexivity.
Qed.

Lemma update_sum_R : forall (c : cusum_cfg RealA) (g v m : R),
  update_sum c g v m =
    match ck_kind c with
    | KCusum => Rmax 0 (g + v - m - ck_delta c)
    | KPageHinkley => ck_alpha c * g + v - m - ck_delta c
    | KGMA => ck_alpha c * g + (1 - ck_alpha c) * (v - m)
    end.
Proof.
  intros c g v m. unfold update_sum. destruct (ck_kind c).
  - rewrite max0_Rmax. cbn [add sub RealA num]. reflexivity.
  - cbn [add sub mul RealA num]. ring.
  - unfold one. cbn [add sub mul ofZ RealA num]. reflexivity.
Qed.

Lemma bool_eq_of_iff : forall (b1 b2 : bool) (P : Prop),
  (b1 = true <-> P) -> (b2 = true <-> P) -> b1 = b2.
Proof.
  intros b1 b2 P H1 H2. destruct b1, b2; try reflexivity.
  - symmetry. apply H2, H1. reflexivity.
  - apply H1, H2. reflexivity.
Qed.

(** * The recurrences *)

Lemma cusum_recurrence : forall (c : cusum_cfg RealA) (vs : list R),
  cs_sum (crun c vs) = g_spec c (rev vs) /\
  cs_n (crun c vs) = Z.of_nat (length vs) /\
  (vs <> [] -> (cs_drift (crun c vs) = true <->
                (ck_min c <= Z.of_nat (length vs))%Z /\ ck_lambda c < g_spec c (rev vs))).
Proof.
  intros c vs; induction vs as [|x vs IH] using rev_ind.
  - split; [reflexivity|]. split; [reflexivity|]. intros H; congruence.
  - destruct IH as (Hs & Hn & _).
    assert (Hsum : cs_sum (crun c (vs ++ [x])) = g_spec c (rev (vs ++ [x]))).
    { rewrite crun_snoc. unfold cusum_step. cbn [cs_sum].
      rewrite update_sum_R, g_spec_snoc, Hs, crun_mean, <- mean_run_snoc.
      destruct (mean_run_inv (vs ++ [x])) as [Hm _]. rewrite Hm. reflexivity. }
    assert (Hcnt : cs_n (crun c (vs ++ [x])) = Z.of_nat (length (vs ++ [x]))).
    { rewrite crun_snoc. unfold cusum_step. cbn [cs_n]. rewrite Hn, app_length.
      cbn [length]. lia. }
    split; [exact Hsum|]. split; [exact Hcnt|]. intros _.
    rewrite <- Hsum, <- Hcnt. rewrite crun_snoc. unfold cusum_step.
    cbn [cs_drift cs_sum cs_n]. rewrite andb_true_iff, Z.leb_le.
    cbn [ltb RealA]. rewrite Rltb_true. reflexivity.
Qed.

(** * Shift invariance *)

Lemma Rsum_map_shift : forall k l,
  Rsum (map (fun x => x + k) l) = Rsum l + INR (length l) * k.
Proof.
  intros k l; induction l as [|x t IH].
  - unfold Rsum. cbn [map fold_right length INR]. lra.
  - cbn [map]. rewrite !Rsum_cons, IH.
    change (length (x :: t)) with (S (length t)). rewrite S_INR. lra.
Qed.

Lemma Rmean_map_shift : forall k l, l <> [] ->
  Rmean (map (fun x => x + k) l) = Rmean l + k.
Proof.
  intros k l Hne. pose proof (INR_length_pos l Hne) as Hpos.
  unfold Rmean. rewrite Rsum_map_shift, map_length. field. lra.
Qed.

Lemma g_spec_shift : forall c k rvs,
  g_spec c (map (fun x => x + k) rvs) = g_spec c rvs.
Proof.
  intros c k rvs; induction rvs as [|x older IH].
  - reflexivity.
  - cbn [map]. rewrite !g_spec_cons, IH.
    assert (Hm : Rmean (rev (map (fun x => x + k) older) ++ [x + k])
                 = Rmean (rev older ++ [x]) + k).
    { rewrite <- map_rev.
      change [x + k] with (map (fun x => x + k) [x]). rewrite <- map_app.
      apply Rmean_map_shift. intros H. apply app_eq_nil in H. destruct H; discriminate. }
    rewrite Hm. destruct (ck_kind c).
    + f_equal. lra.
    + lra.
    + f_equal. f_equal. lra.
Qed.

(** verdicts are unchanged by adding a constant to the stream *)
Lemma cusum_shift_invariant : forall (c : cusum_cfg RealA) (k : R) (vs : list R),
  cs_sum (crun c (map (fun x => x + k) vs)) = cs_sum (crun c vs) /\
  cs_drift (crun c (map (fun x => x + k) vs)) = cs_drift (crun c vs).
Proof.
  intros c k vs.
  destruct (cusum_recurrence c vs) as (Hs & _ & Hd).
  destruct (cusum_recurrence c (map (fun x => x + k) vs)) as (Hs' & _ & Hd').
  rewrite <- map_rev, g_spec_shift, map_length in *.
  split; [congruence|].
  destruct vs as [|v t]; [reflexivity|].
  eapply bool_eq_of_iff; [apply Hd'|apply Hd]; cbn [map]; discriminate.
Qed.

(** * Monotonicity in the threshold *)

(** raising lambda_ can only remove alarms (the statistic does not depend on lambda_) *)
Definition with_lambda (c : cusum_cfg RealA) (l : R) : cusum_cfg RealA :=
  {| ck_kind := ck_kind c; ck_min := ck_min c; ck_lambda := (l : num RealA); ck_delta := ck_delta c; ck_alpha := ck_alpha c |}.

Lemma g_spec_with_lambda : forall c l rvs, g_spec (with_lambda c l) rvs = g_spec c rvs.
Proof.
  intros c l rvs; induction rvs as [|x older IH].
  - reflexivity.
  - rewrite !g_spec_cons, IH. reflexivity.
Qed.

Lemma cusum_lambda_antitone : forall (c : cusum_cfg RealA) (l l' : R) (vs : list R), l <= l' ->
  cs_sum (crun (with_lambda c l') vs) = cs_sum (crun (with_lambda c l) vs) /\
  (cs_drift (crun (with_lambda c l') vs) = true -> cs_drift (crun (with_lambda c l) vs) = true).
Proof.
  intros c l l' vs Hle.
  destruct (cusum_recurrence (with_lambda c l) vs) as (Hs & _ & Hd).
  destruct (cusum_recurrence (with_lambda c l') vs) as (Hs' & _ & Hd').
  rewrite g_spec_with_lambda in *.
  split; [congruence|].
  destruct vs as [|v t]; [cbn; discriminate|].
  assert (Hne : v :: t <> []) by discriminate.
  intros H. apply (Hd' Hne) in H. destruct H as [Hmin Hlt].
  apply (Hd Hne). cbn [with_lambda ck_min ck_lambda] in *. split; [exact Hmin|lra].
Qed.

(** * Link with the Detector-level execution *)

Lemma exec_from_upd : forall c vs s,
  exec_from (CusumD RealA) c s (map Upd vs) = fold_left (cusum_step c) vs s.
Proof.
  intros c vs; induction vs as [|v t IH]; intros s.
  - reflexivity.
  - cbn [map]. unfold exec_from in *. cbn [fold_left]. rewrite IH. reflexivity.
Qed.

(** link with the Detector-level execution used elsewhere *)
Lemma crun_exec : forall c vs, exec (CusumD RealA) c (map Upd vs) = crun c vs.
Proof. intros c vs. unfold exec, crun. apply exec_from_upd. Qed.
