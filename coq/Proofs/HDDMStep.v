(** C04, second part: what the HDDM-A / HDDM-W samples mean on every history and the
    verdict of every step.
    (1) A-test: [hz] is the Mean of the values since the last restart (construction,
        reset, drift step), [hx] / [hy] the Mean of a non-empty prefix of them (the
        values up to the running cut point) -- every number system;
    (2) A-test verdict: drift (warning) at a step iff t >= min_num_instances and the
        two-sample Hoeffding bound separates the values after the cut from those before;
    (3) W-test: same for the EWMA / independent-bound-condition samples and McDiarmid;
    (4) a drop is detected just as a rise (A-test, by the 1-x mirror); the W-test is
        symmetric under x -> -x (not under x -> 1-x: the EWMA starts at 0). *)
From Coq Require Import ZArith List Bool Reals Lra Lia.
From FV Require Import NumSys RealA Py Sums Stats Detector HDDM StatsR Structural HDDMR.
Import ListNotations.

(** * Generic list / Mean facts *)
Lemma skipn_snoc_le {T} (l : list T) (v : T) k : (k <= length l)%nat -> skipn k (l ++ [v]) = skipn k l ++ [v].
Proof.
  intros H. rewrite skipn_app. replace (k - length l)%nat with 0%nat by lia. reflexivity.
Qed.

Section MeanGen.
  Context {A : Arith}.

  Lemma mean_run_snoc_gen (vs : list (num A)) v : mean_run (vs ++ [v]) = mean_update (mean_run vs) v.
  Proof. unfold mean_run. rewrite fold_left_app. reflexivity. Qed.

  Lemma mean_run_n (vs : list (num A)) : m_n (mean_run vs) = Z.of_nat (length vs).
  Proof.
    induction vs as [|v vs IH] using rev_ind; [reflexivity|].
    rewrite mean_run_snoc_gen. unfold mean_update. cbn [m_n]. rewrite IH, app_length.
    cbn [length]. lia.
  Qed.
End MeanGen.

(** * (1) The A-test samples on every history *)
Section ATrack.
  Context {A : Arith}.

  (** the state together with the values since the last restart *)
  Definition atrack_step (c : hddma_cfg A) (p : hddma_st A * list (num A)) (o : op (num A))
    : hddma_st A * list (num A) :=
    match o with
    | Rst => (hddma_init c, [])
    | Upd v => let s' := hddma_step c (fst p) v in (s', if hdrift s' then [] else snd p ++ [v])
    end.
  Definition atrack (c : hddma_cfg A) (ops : list (op (num A))) : hddma_st A * list (num A) :=
    fold_left (atrack_step c) ops (hddma_init c, []).
  (** [awin c ops]: the values fed since the last construction / reset / drift step *)
  Definition awin (c : hddma_cfg A) (ops : list (op (num A))) : list (num A) := snd (atrack c ops).

  Lemma atrack_snoc c ops o : atrack c (ops ++ [o]) = atrack_step c (atrack c ops) o.
  Proof. unfold atrack. rewrite fold_left_app. reflexivity. Qed.

  Lemma exec_snoc_a (c : hddma_cfg A) (ops : list (op (num A))) o :
    exec (HDDMAD A) c (ops ++ [o]) = apply (HDDMAD A) c (exec (HDDMAD A) c ops) o.
  Proof. unfold exec, exec_from. rewrite fold_left_app. reflexivity. Qed.

  Lemma atrack_fst c ops : fst (atrack c ops) = exec (HDDMAD A) c ops.
  Proof.
    induction ops as [|o ops IH] using rev_ind; [reflexivity|].
    rewrite atrack_snoc, exec_snoc_a, <- IH. destruct o as [v|]; reflexivity.
  Qed.

  (** [m] is the Mean of a non-empty prefix of [W] *)
  Definition cut_pos (W : list (num A)) (m : mean_st A) : Prop :=
    exists k, (1 <= k <= length W)%nat /\ m = mean_run (firstn k W).
  Definition cut_ok (W : list (num A)) (m : mean_st A) : Prop :=
    (W = [] /\ m = mean_init) \/ cut_pos W m.
  Definition AInv (c : hddma_cfg A) (W : list (num A)) (s : hddma_st A) : Prop :=
    hz s = mean_run W /\ cut_ok W (hx s) /\
    (if ha_two c then cut_ok W (hy s) else hy s = mean_init).

  Lemma AInv_init c : AInv c [] (hddma_init c).
  Proof.
    unfold AInv, hddma_init. cbn [hz hx hy]. split; [reflexivity|]. split.
    - left. split; reflexivity.
    - destruct (ha_two c); [left; split; reflexivity | reflexivity].
  Qed.

  Lemma az_run (s : hddma_st A) (W : list (num A)) v : hz s = mean_run W -> az s v = mean_run (W ++ [v]).
  Proof. intros H. unfold az. rewrite H, mean_run_snoc_gen. reflexivity. Qed.

  Lemma cut_pos_all (W : list (num A)) v : cut_pos (W ++ [v]) (mean_run (W ++ [v])).
  Proof.
    exists (length (W ++ [v])). split; [rewrite app_length; cbn [length]; lia|].
    rewrite firstn_all. reflexivity.
  Qed.

  Lemma first_cut_pos (W : list (num A)) v x : cut_ok W x -> cut_pos (W ++ [v]) (first_cut x (mean_run (W ++ [v]))).
  Proof.
    intros [[-> ->]|(k & Hk & ->)]; unfold first_cut.
    - cbn [mean_init m_n Z.eqb]. apply cut_pos_all.
    - rewrite mean_run_n, firstn_length_le by lia.
      destruct (Z.of_nat k =? 0)%Z eqn:E; [apply Z.eqb_eq in E; lia|].
      exists k. split; [rewrite app_length; cbn [length]; lia|].
      rewrite firstn_snoc_le by lia. reflexivity.
  Qed.

  Lemma cut_up_pos ad (W : list (num A)) v x0 : cut_pos (W ++ [v]) x0 -> cut_pos (W ++ [v]) (cut_up ad (mean_run (W ++ [v])) x0).
  Proof. intros H. unfold cut_up. destruct (leb _ _); [apply cut_pos_all | exact H]. Qed.

  Lemma cut_dn_pos ad (W : list (num A)) v y0 : cut_pos (W ++ [v]) y0 -> cut_pos (W ++ [v]) (cut_dn ad (mean_run (W ++ [v])) y0).
  Proof. intros H. unfold cut_dn. destruct (leb _ _); [apply cut_pos_all | exact H]. Qed.

  (** the new cut samples are prefixes of the extended window, whatever the verdict *)
  Lemma ax_pos c W s v : AInv c W s -> cut_pos (W ++ [v]) (ax c s v).
  Proof.
    intros (Hz & Hx & _). unfold ax. rewrite (az_run s W v Hz).
    apply cut_up_pos, first_cut_pos. exact Hx.
  Qed.

  Lemma ay_pos c W s v : AInv c W s -> ha_two c = true -> cut_pos (W ++ [v]) (ay c s v).
  Proof.
    intros (Hz & _ & Hy) Ht. unfold ay. rewrite Ht in *. rewrite (az_run s W v Hz).
    apply cut_dn_pos, first_cut_pos. exact Hy.
  Qed.

  Lemma AInv_step c W s v : AInv c W s ->
    (hdrift (hddma_step c s v) = true -> AInv c [] (hddma_step c s v)) /\
    (hdrift (hddma_step c s v) = false -> AInv c (W ++ [v]) (hddma_step c s v)).
  Proof.
    intros I.
    assert (Keep : forall w, AInv c (W ++ [v])
              {| hn := hn s + 1; hx := ax c s v; hz := az s v; hy := ay c s v; hdrift := false; hwarning := w |}).
    { intros w. unfold AInv. cbn [hz hx hy]. split; [apply az_run; apply I|]. split.
      - right. apply (ax_pos c W s v I).
      - destruct (ha_two c) eqn:Et.
        + right. apply (ay_pos c W s v I Et).
        + unfold ay. rewrite Et. destruct I as (_ & _ & Hy). rewrite Et in Hy. exact Hy. }
    rewrite hddma_step_eq.
    destruct (ha_min c <=? hn s + 1)%Z.
    - destruct (a_drift c (ax c s v) (ay c s v) (az s v)); cbn [hdrift].
      + split; [intros _; apply (AInv_init c) | discriminate].
      + split; [discriminate | intros _; apply Keep].
    - cbn [hdrift]. split; [discriminate | intros _; apply Keep].
  Qed.

  (** Every history: the tracked state is the executed one, [hz] is the Mean of the values
      since the last restart and the cut samples are Means of non-empty prefixes of them. *)
  Theorem hddma_state_meaning : forall (c : hddma_cfg A) (ops : list (op (num A))),
    fst (atrack c ops) = exec (HDDMAD A) c ops /\
    AInv c (awin c ops) (exec (HDDMAD A) c ops).
  Proof.
    intros c ops. split; [apply atrack_fst|]. rewrite <- atrack_fst. unfold awin.
    induction ops as [|o ops IH] using rev_ind; [apply AInv_init|].
    rewrite atrack_snoc. destruct o as [v|]; cbn [atrack_step fst snd]; [|apply AInv_init].
    destruct (AInv_step c _ _ v IH) as [Hd Hk].
    destruct (hdrift (hddma_step c (fst (atrack c ops)) v)) eqn:E; [apply Hd | apply Hk]; reflexivity.
  Qed.

  (** the window grows by one value per update that does not raise drift, and is emptied
      by a reset or a drift step *)
  Lemma awin_snoc c ops o :
    awin c (ops ++ [o]) =
    match o with
    | Rst => []
    | Upd v => if hdrift (exec (HDDMAD A) c (ops ++ [Upd v])) then [] else awin c ops ++ [v]
    end.
  Proof.
    unfold awin. destruct o as [v|].
    - rewrite exec_snoc_a, <- atrack_fst, atrack_snoc. reflexivity.
    - rewrite atrack_snoc. reflexivity.
  Qed.

  (** * (2) verdict of one step, every number system *)
  Lemma hddma_step_verdict (c : hddma_cfg A) s v :
    (hdrift (hddma_step c s v) = true <->
     (ha_min c <= hn s + 1)%Z /\ a_drift c (ax c s v) (ay c s v) (az s v) = true) /\
    (hwarning (hddma_step c s v) = true <->
     (ha_min c <= hn s + 1)%Z /\ a_drift c (ax c s v) (ay c s v) (az s v) = false /\
     a_warn c (ax c s v) (ay c s v) (az s v) = true) /\
    hn (hddma_step c s v) = (hn s + 1)%Z.
  Proof.
    rewrite hddma_step_eq.
    destruct (ha_min c <=? hn s + 1)%Z eqn:Em.
    - apply Z.leb_le in Em.
      destruct (a_drift c (ax c s v) (ay c s v) (az s v)); cbn [hdrift hwarning hn].
      + repeat split; try assumption; try discriminate. intros (_ & H & _). discriminate.
      + repeat split; try assumption; try discriminate.
        * intros (_ & H). discriminate.
        * intros (_ & _ & H). exact H.
    - apply Z.leb_gt in Em. cbn [hdrift hwarning hn].
      repeat split; try discriminate; intros (H & _); lia.
  Qed.

  Lemma arun_exec (c : hddma_cfg A) vs : arun c vs = exec (HDDMAD A) c (map Upd vs).
  Proof.
    induction vs as [|v vs IH] using rev_ind; [reflexivity|].
    rewrite arun_snoc, map_app, IH. cbn [map]. rewrite exec_snoc_a. reflexivity.
  Qed.

  Lemma arun_n (c : hddma_cfg A) vs : hn (arun c vs) = Z.of_nat (length vs).
  Proof.
    induction vs as [|v vs IH] using rev_ind; [reflexivity|].
    rewrite arun_snoc. destruct (hddma_step_verdict c (arun c vs) v) as (_ & _ & ->).
    rewrite IH, app_length. cbn [length]. lia.
  Qed.

  Theorem hddma_verdict : forall (c : hddma_cfg A) (vs : list (num A)) (v : num A),
    let s := arun c vs in
    (hdrift (arun c (vs ++ [v])) = true <->
     (ha_min c <= Z.of_nat (length (vs ++ [v])))%Z /\ a_drift c (ax c s v) (ay c s v) (az s v) = true) /\
    (hwarning (arun c (vs ++ [v])) = true <->
     (ha_min c <= Z.of_nat (length (vs ++ [v])))%Z /\ a_drift c (ax c s v) (ay c s v) (az s v) = false /\
     a_warn c (ax c s v) (ay c s v) (az s v) = true).
  Proof.
    intros c vs v s. rewrite arun_snoc. fold s.
    replace (Z.of_nat (length (vs ++ [v]))) with (hn s + 1)%Z
      by (unfold s; rewrite arun_n, app_length; cbn [length]; lia).
    destruct (hddma_step_verdict c s v) as (Hd & Hw & _). split; assumption.
  Qed.

  (** [side_cases], [a_drift], [a_warn] spelled out *)
  Lemma side_cases_spec (chk : num A -> bool) (cn zn : Z) (c : hddma_cfg A) :
    (fst (side_cases chk cn zn c) = true <-> cn <> zn /\ chk (ha_alpha_d c) = true) /\
    (snd (side_cases chk cn zn c) = true <->
     cn <> zn /\ chk (ha_alpha_d c) = false /\ chk (ha_alpha_w c) = true).
  Proof.
    unfold side_cases. destruct (cn =? zn)%Z eqn:E.
    - apply Z.eqb_eq in E. cbn [fst snd]. split; split; try discriminate; intros (H & _); contradiction.
    - apply Z.eqb_neq in E. destruct (chk (ha_alpha_d c)); [|destruct (chk (ha_alpha_w c))]; cbn [fst snd];
        split; split; try discriminate; try (intros (_ & H); discriminate);
        try (intros (_ & H & _); discriminate); try (intros (_ & _ & H); discriminate);
        intros _; repeat split; assumption.
  Qed.

  Theorem a_drift_spec : forall (c : hddma_cfg A) (x y z : mean_st A),
    a_drift c x y z = true <->
    (m_n x <> m_n z /\ check_incr x z (ha_alpha_d c) = true) \/
    (ha_two c = true /\ m_n y <> m_n z /\ check_decr y z (ha_alpha_d c) = true).
  Proof.
    intros c x y z. unfold a_drift, side_i, side_d. rewrite orb_true_iff.
    rewrite (proj1 (side_cases_spec (check_incr x z) (m_n x) (m_n z) c)).
    destruct (ha_two c).
    - rewrite (proj1 (side_cases_spec (check_decr y z) (m_n y) (m_n z) c)).
      split; (intros [H|H]; [left; exact H | right]); [split; [reflexivity|exact H] | apply H].
    - cbn [fst]. split; (intros [H|H]; [left; exact H | exfalso]); [discriminate | destruct H; discriminate].
  Qed.

  Theorem a_warn_spec : forall (c : hddma_cfg A) (x y z : mean_st A),
    a_warn c x y z = true <->
    (m_n x <> m_n z /\ check_incr x z (ha_alpha_d c) = false /\ check_incr x z (ha_alpha_w c) = true) \/
    (ha_two c = true /\ m_n y <> m_n z /\ check_decr y z (ha_alpha_d c) = false /\
     check_decr y z (ha_alpha_w c) = true).
  Proof.
    intros c x y z. unfold a_warn, side_i, side_d. rewrite orb_true_iff.
    rewrite (proj2 (side_cases_spec (check_incr x z) (m_n x) (m_n z) c)).
    destruct (ha_two c).
    - rewrite (proj2 (side_cases_spec (check_decr y z) (m_n y) (m_n z) c)).
      split; (intros [H|H]; [left; exact H | right]); [split; [reflexivity|exact H] | apply H].
    - cbn [snd]. split; (intros [H|H]; [left; exact H | exfalso]); [discriminate | destruct H; discriminate].
  Qed.
End ATrack.

(** * (1b), (2b) over the reals: the samples are batch means, the test is Hoeffding's bound *)
Local Open Scope R_scope.

Lemma Rsum_app : forall a b : list R, Rsum (a ++ b) = Rsum a + Rsum b.
Proof.
  induction a as [|x a IH]; intros b.
  - unfold Rsum at 2. cbn [app fold_right]. lra.
  - cbn [app]. rewrite !Rsum_cons, IH. lra.
Qed.

Lemma Rsum_split : forall (W : list R) k, Rsum W = Rsum (firstn k W) + Rsum (skipn k W).
Proof. intros W k. rewrite <- Rsum_app, firstn_skipn. reflexivity. Qed.

(** mean of the rest from the means of the whole and of the prefix *)
Lemma rest_mean : forall (W : list R) (k : nat), (1 <= k < length W)%nat ->
  (INR (length W) * Rmean W - INR k * Rmean (firstn k W)) / (INR (length W) - INR k) = Rmean (skipn k W) /\
  INR (length W) - INR k = INR (length W - k).
Proof.
  intros W k Hk.
  assert (Hn : 0 < INR (length W)) by (apply lt_0_INR; lia).
  assert (Hk0 : 0 < INR k) by (apply lt_0_INR; lia).
  assert (Hd : INR (length W) - INR k = INR (length W - k)) by (rewrite minus_INR by lia; reflexivity).
  assert (Hd0 : 0 < INR (length W - k)) by (apply lt_0_INR; lia).
  split; [|exact Hd]. unfold Rmean.
  rewrite firstn_length_le, skipn_length by lia. rewrite Hd.
  rewrite (Rsum_split W k). field. lra.
Qed.

(** the separation the Hoeffding test asks for, for the cut [k] of the window [W] *)
Definition hoeff_eps (alpha : R) (n1 n2 : nat) : R :=
  R_sqrt.sqrt ((1 / INR n1 + 1 / INR n2) / 2 * Rpower.ln (1 / alpha)).
Definition incr_sep (alpha : R) (W : list R) (k : nat) : Prop :=
  (k < length W)%nat /\
  hoeff_eps alpha k (length W - k) <= Rmean (skipn k W) - Rmean (firstn k W).
Definition decr_sep (alpha : R) (W : list R) (k : nat) : Prop :=
  (k < length W)%nat /\
  hoeff_eps alpha k (length W - k) <= Rmean (firstn k W) - Rmean (skipn k W).

Lemma check_incr_prefix : forall (W : list R) (k : nat) (alpha : R),
  (1 <= k < length W)%nat -> 0 < alpha <= 1 ->
  (check_incr (mean_run (A:=RealA) (firstn k W)) (mean_run (A:=RealA) W) alpha = true <->
   hoeff_eps alpha k (length W - k) <= Rmean (skipn k W) - Rmean (firstn k W)).
Proof.
  intros W k alpha Hk Ha.
  destruct (mean_run_inv (firstn k W)) as [Exm Exn]. destruct (mean_run_inv W) as [Ezm Ezn].
  rewrite firstn_length_le in Exn by lia.
  pose proof (hddma_rule (mean_run (A:=RealA) (firstn k W)) (mean_run (A:=RealA) W) alpha) as Rl.
  cbv zeta in Rl. rewrite Exn, Ezn, Exm, Ezm, <- !INR_IZR_INZ in Rl.
  destruct (rest_mean W k Hk) as [Er Ed]. rewrite Er, Ed in Rl.
  unfold hoeff_eps. apply Rl; [lia|lia|exact Ha].
Qed.

Lemma check_decr_prefix : forall (W : list R) (k : nat) (alpha : R),
  (1 <= k < length W)%nat -> 0 < alpha <= 1 ->
  (check_decr (mean_run (A:=RealA) (firstn k W)) (mean_run (A:=RealA) W) alpha = true <->
   hoeff_eps alpha k (length W - k) <= Rmean (firstn k W) - Rmean (skipn k W)).
Proof.
  intros W k alpha Hk Ha.
  destruct (mean_run_inv (firstn k W)) as [Exm Exn]. destruct (mean_run_inv W) as [Ezm Ezn].
  rewrite firstn_length_le in Exn by lia.
  pose proof (hddma_rule_decr (mean_run (A:=RealA) (firstn k W)) (mean_run (A:=RealA) W) alpha) as Rl.
  cbv zeta in Rl. rewrite Exn, Ezn, Exm, Ezm, <- !INR_IZR_INZ in Rl.
  destruct (rest_mean W k Hk) as [Er Ed]. rewrite Er, Ed in Rl.
  unfold hoeff_eps. apply Rl; [lia|lia|exact Ha].
Qed.

(** [hz] is the batch mean of the window, the cut samples batch means of prefixes *)
Definition is_prefix_mean (W : list R) (m : mean_st RealA) : Prop :=
  (W = [] -> m = mean_init) /\
  (W <> [] -> exists k, (1 <= k <= length W)%nat /\ m_n m = Z.of_nat k /\
                        m_mean m = Rmean (firstn k W) /\ m = mean_run (A:=RealA) (firstn k W)).

Lemma cut_ok_prefix_mean : forall (W : list R) m, cut_ok W m -> is_prefix_mean W m.
Proof.
  intros W m [[-> ->]|(k & Hk & ->)]; split.
  - reflexivity.
  - intros H. contradiction.
  - intros ->. cbn [length] in Hk. lia.
  - intros _. exists k. split; [exact Hk|].
    destruct (mean_run_inv (firstn k W)) as [Em En]. rewrite firstn_length_le in En by apply Hk.
    repeat split; assumption.
Qed.

Theorem hddma_state_meaning_R : forall (c : hddma_cfg RealA) (ops : list (op R)),
  let s := exec (HDDMAD RealA) c ops in let W := awin c ops in
  m_n (hz s) = Z.of_nat (length W) /\ (W <> [] -> m_mean (hz s) = Rsum W / INR (length W)) /\
  is_prefix_mean W (hx s) /\
  (if ha_two c then is_prefix_mean W (hy s) else hy s = mean_init).
Proof.
  intros c ops s W. destruct (hddma_state_meaning c ops) as (_ & Hz & Hx & Hy). fold s W in Hz, Hx, Hy.
  destruct (mean_run_inv W) as [Em En]. rewrite Hz.
  split; [exact En|]. split; [intros _; exact Em|]. split; [apply cut_ok_prefix_mean; exact Hx|].
  destruct (ha_two c); [apply cut_ok_prefix_mean; exact Hy | exact Hy].
Qed.

(** position of a cut sample: its number of values *)
Definition cut_of (m : mean_st RealA) : nat := Z.to_nat (m_n m).

Lemma cut_pos_cut_of : forall (W : list R) m, cut_pos W m ->
  (1 <= cut_of m <= length W)%nat /\ m = mean_run (A:=RealA) (firstn (cut_of m) W).
Proof.
  intros W m (k & Hk & ->). unfold cut_of. rewrite mean_run_n, firstn_length_le, Nat2Z.id by lia.
  split; [exact Hk | reflexivity].
Qed.

(** The verdict of the step that follows any history [ops], in terms of the values [W]
    since the last restart (the new one included) and the cut points [kx], [ky]. *)
Theorem hddma_drift_hoeffding_ops : forall (c : hddma_cfg RealA) (ops : list (op R)) (v : R),
  0 < ha_alpha_d c <= 1 -> 0 < ha_alpha_w c <= 1 ->
  let s := exec (HDDMAD RealA) c ops in
  let s' := exec (HDDMAD RealA) c (ops ++ [Upd v]) in
  let W := awin c ops ++ [v] in
  let kx := cut_of (ax c s v) in let ky := cut_of (ay c s v) in
  let t := (updates_since_reset (HDDMAD RealA) ops + 1)%Z in
  ((1 <= kx <= length W)%nat /\ ax c s v = mean_run (A:=RealA) (firstn kx W)) /\
  (ha_two c = true -> (1 <= ky <= length W)%nat /\ ay c s v = mean_run (A:=RealA) (firstn ky W)) /\
  (hdrift s' = true <->
   (ha_min c <= t)%Z /\
   (incr_sep (ha_alpha_d c) W kx \/ (ha_two c = true /\ decr_sep (ha_alpha_d c) W ky))) /\
  (hwarning s' = true <->
   (ha_min c <= t)%Z /\
   ~ (incr_sep (ha_alpha_d c) W kx \/ (ha_two c = true /\ decr_sep (ha_alpha_d c) W ky)) /\
   (incr_sep (ha_alpha_w c) W kx \/ (ha_two c = true /\ decr_sep (ha_alpha_w c) W ky))).
Proof.
  intros c ops v Had Haw s s' W kx ky t.
  destruct (hddma_state_meaning c ops) as (_ & I). fold s in I.
  pose proof (cut_pos_cut_of _ _ (ax_pos c _ s v I)) as X. fold W kx in X.
  assert (Y : ha_two c = true -> (1 <= ky <= length W)%nat /\ ay c s v = mean_run (A:=RealA) (firstn ky W)).
  { intros Et. exact (cut_pos_cut_of _ _ (ay_pos c _ s v I Et)). }
  assert (Z : az s v = mean_run (A:=RealA) W) by (apply az_run; apply I).
  assert (Zn : m_n (az s v) = Z.of_nat (length W)) by (rewrite Z; apply mean_run_n).
  assert (Xn : m_n (ax c s v) = Z.of_nat kx).
  { destruct X as [Hk E]. rewrite E at 1. rewrite mean_run_n, firstn_length_le by lia. reflexivity. }
  assert (Yn : ha_two c = true -> m_n (ay c s v) = Z.of_nat ky).
  { intros Et. destruct (Y Et) as [Hk E]. rewrite E at 1. rewrite mean_run_n, firstn_length_le by lia. reflexivity. }
  change (num RealA) with R in *. fold W in X.
  (* the two sides, for any alpha *)
  assert (SI : forall a, 0 < a <= 1 ->
    (m_n (ax c s v) <> m_n (az s v) /\ check_incr (ax c s v) (az s v) a = true <-> incr_sep a W kx)).
  { intros a Ha. rewrite Xn, Zn. destruct X as [Hk E]. unfold incr_sep. split.
    - intros [Hne Hc]. assert (Hlt : (kx < length W)%nat) by lia. split; [exact Hlt|].
      rewrite E, Z in Hc. apply (check_incr_prefix W kx a); [lia|exact Ha|exact Hc].
    - intros [Hlt Hs]. split; [lia|]. rewrite E, Z. apply (check_incr_prefix W kx a); [lia|exact Ha|exact Hs]. }
  assert (SD : forall a, 0 < a <= 1 -> ha_two c = true ->
    (m_n (ay c s v) <> m_n (az s v) /\ check_decr (ay c s v) (az s v) a = true <-> decr_sep a W ky)).
  { intros a Ha Et. rewrite (Yn Et), Zn. destruct (Y Et) as [Hk E]. unfold decr_sep. split.
    - intros [Hne Hc]. assert (Hlt : (ky < length W)%nat) by lia. split; [exact Hlt|].
      rewrite E, Z in Hc. apply (check_decr_prefix W ky a); [lia|exact Ha|exact Hc].
    - intros [Hlt Hs]. split; [lia|]. rewrite E, Z. apply (check_decr_prefix W ky a); [lia|exact Ha|exact Hs]. }
  assert (D : a_drift c (ax c s v) (ay c s v) (az s v) = true <->
              (incr_sep (ha_alpha_d c) W kx \/ (ha_two c = true /\ decr_sep (ha_alpha_d c) W ky))).
  { rewrite a_drift_spec. rewrite (SI _ Had). split; (intros [H|(Et & H)]; [left; exact H | right; split; [exact Et|]]).
    - apply (SD _ Had Et). exact H.
    - apply (SD _ Had Et). exact H. }
  split; [exact X|]. split; [exact Y|].
  unfold s'. rewrite exec_snoc_a. cbn [apply d_step HDDMAD]. fold s.
  destruct (hddma_step_verdict c s v) as (Hd & Hw & _).
  assert (Et : hn s = updates_since_reset (HDDMAD RealA) ops) by (apply (hddma_ninst RealA c ops)).
  unfold t. rewrite <- Et. split.
  - rewrite Hd, D. reflexivity.
  - rewrite Hw, <- D. rewrite <- not_true_iff_false.
    assert (Wn : a_warn c (ax c s v) (ay c s v) (az s v) = true /\ a_drift c (ax c s v) (ay c s v) (az s v) <> true <->
                 (incr_sep (ha_alpha_w c) W kx \/ (ha_two c = true /\ decr_sep (ha_alpha_w c) W ky)) /\
                 a_drift c (ax c s v) (ay c s v) (az s v) <> true).
    { rewrite a_warn_spec, a_drift_spec. split.
      - intros [Hwn Hnd]. split; [|exact Hnd]. destruct Hwn as [(Hne & _ & Hc)|(Et2 & Hne & _ & Hc)].
        + left. apply (SI _ Haw). split; assumption.
        + right. split; [exact Et2|]. apply (SD _ Haw Et2). split; assumption.
      - intros [Hs Hnd]. split; [|exact Hnd]. destruct Hs as [Hs|(Et2 & Hs)].
        + apply (SI _ Haw) in Hs. destruct Hs as [Hne Hc]. left. split; [exact Hne|]. split; [|exact Hc].
          apply not_true_iff_false. intros Hcd. apply Hnd. left. split; assumption.
        + apply (SD _ Haw Et2) in Hs. destruct Hs as [Hne Hc]. right. split; [exact Et2|]. split; [exact Hne|].
          split; [|exact Hc]. apply not_true_iff_false. intros Hcd. apply Hnd. right. repeat split; assumption. }
    tauto.
Qed.

(** update-only streams: the values since the last drift step *)
Definition awin_run {A : Arith} (c : hddma_cfg A) (vs : list (num A)) : list (num A) := awin c (map Upd vs).

Lemma usr_map_upd_a : forall (c : hddma_cfg RealA) (vs : list R),
  updates_since_reset (HDDMAD RealA) (map Upd vs) = Z.of_nat (length vs).
Proof.
  intros c vs. rewrite <- (hddma_ninst RealA c (map Upd vs)). cbn [d_ninst HDDMAD].
  rewrite <- arun_exec. apply arun_n.
Qed.

(** two-sided or one-sided, on [arun] *)
Theorem hddma_drift_hoeffding_two : forall (c : hddma_cfg RealA) (vs : list R) (v : R),
  0 < ha_alpha_d c <= 1 -> 0 < ha_alpha_w c <= 1 ->
  let s := arun c vs in let s' := arun c (vs ++ [v]) in
  let W := awin_run c vs ++ [v] in
  let kx := cut_of (ax c s v) in let ky := cut_of (ay c s v) in
  let t := Z.of_nat (length (vs ++ [v])) in
  ((1 <= kx <= length W)%nat /\ ax c s v = mean_run (A:=RealA) (firstn kx W)) /\
  (ha_two c = true -> (1 <= ky <= length W)%nat /\ ay c s v = mean_run (A:=RealA) (firstn ky W)) /\
  (hdrift s' = true <->
   (ha_min c <= t)%Z /\
   (incr_sep (ha_alpha_d c) W kx \/ (ha_two c = true /\ decr_sep (ha_alpha_d c) W ky))) /\
  (hwarning s' = true <->
   (ha_min c <= t)%Z /\
   ~ (incr_sep (ha_alpha_d c) W kx \/ (ha_two c = true /\ decr_sep (ha_alpha_d c) W ky)) /\
   (incr_sep (ha_alpha_w c) W kx \/ (ha_two c = true /\ decr_sep (ha_alpha_w c) W ky))).
Proof.
  intros c vs v Had Haw s s' W kx ky t.
  pose proof (hddma_drift_hoeffding_ops c (map Upd vs) v Had Haw) as H. cbv zeta in H.
  rewrite (usr_map_upd_a c vs) in H.
  replace (map Upd vs ++ [Upd v]) with (map (@Upd R) (vs ++ [v])) in H by (rewrite map_app; reflexivity).
  rewrite <- !arun_exec in H.
  replace (Z.of_nat (length vs) + 1)%Z with t in H
    by (unfold t; rewrite app_length; cbn [length]; lia).
  exact H.
Qed.

(** One-sided test, 0 < alpha <= 1: drift at the step exactly when t >= min_num_instances,
    the cut point [k] leaves values after it (0 < k < |W|) and the mean of the values after
    the cut exceeds the mean of the values up to it by the two-sample Hoeffding bound
    sqrt((1/k + 1/(|W|-k))/2 * ln(1/alpha_d)); warning: not so, but so with alpha_w. *)
Theorem hddma_drift_hoeffding : forall (c : hddma_cfg RealA) (vs : list R) (v : R),
  ha_two c = false -> 0 < ha_alpha_d c <= 1 -> 0 < ha_alpha_w c <= 1 ->
  let s := arun c vs in let s' := arun c (vs ++ [v]) in
  let W := awin_run c vs ++ [v] in
  let k := cut_of (ax c s v) in
  let t := Z.of_nat (length (vs ++ [v])) in
  (1 <= k <= length W)%nat /\ ax c s v = mean_run (A:=RealA) (firstn k W) /\
  (hdrift s' = true <->
   (ha_min c <= t)%Z /\ (k < length W)%nat /\
   R_sqrt.sqrt ((1 / INR k + 1 / INR (length W - k)) / 2 * Rpower.ln (1 / ha_alpha_d c))
     <= Rmean (skipn k W) - Rmean (firstn k W)) /\
  (hwarning s' = true <->
   (ha_min c <= t)%Z /\ ~ incr_sep (ha_alpha_d c) W k /\ incr_sep (ha_alpha_w c) W k).
Proof.
  intros c vs v Ht Had Haw s s' W k t.
  destruct (hddma_drift_hoeffding_two c vs v Had Haw) as ((Hk & E) & _ & Hd & Hw).
  fold s s' W k t in Hk, E, Hd, Hw. rewrite Ht in Hd, Hw.
  split; [exact Hk|]. split; [exact E|]. split.
  - rewrite Hd. unfold incr_sep, hoeff_eps.
    split; [intros (Hm & [Hs|(Hf & _)]); [tauto | discriminate] | intros (Hm & Hs); split; [exact Hm | left; exact Hs]].
  - rewrite Hw.
    split.
    + intros (Hm & Hn & [Hs|(Hf & _)]); [|discriminate]. split; [exact Hm|]. split; [|exact Hs].
      intros Hi. apply Hn. left. exact Hi.
    + intros (Hm & Hn & Hs). split; [exact Hm|]. split; [|left; exact Hs].
      intros [Hi|(Hf & _)]; [exact (Hn Hi) | discriminate].
Qed.

(** * (4) a sustained drop is detected just as a sustained rise (two-sided A-test) *)
Lemma firstn_map' : forall {X Y} (f : X -> Y) (l : list X) n, firstn n (map f l) = map f (firstn n l).
Proof.
  intros X Y f l; induction l as [|x l IH]; intros [|n]; cbn [firstn map]; try reflexivity.
  rewrite IH. reflexivity.
Qed.

Theorem hddma_drop_detected : forall (c : hddma_cfg RealA) (n k : nat), ha_two c = true ->
  0 < ha_alpha_d c <= 1 -> (1 <= n)%nat -> (1 <= k)%nat ->
  (1 / INR n + 1 / INR k) / 2 * ln (1 / ha_alpha_d c) <= 1 ->
  (ha_min c <= Z.of_nat (n + k))%Z ->
  exists j, (j <= n + k)%nat /\ hdrift (arun c (firstn j (repeat 1 n ++ repeat 0 k))) = true.
Proof.
  intros c n k Ht Ha Hn Hk Hb Hmin.
  destruct (hddma_rise_detected c n k Ha Hn Hk Hb Hmin) as (j & Hj & Hd).
  exists j. split; [exact Hj|].
  rewrite <- map_mirror_01, firstn_map'.
  rewrite (proj1 (hddma_mirror c (firstn j (repeat 0 n ++ repeat 1 k)) Ht)). exact Hd.
Qed.

(** * (3) HDDM-W: structured step, state meaning, verdict *)
Section WTrack.
  Context {A : Arith}.
  Local Open Scope arith_scope.

  (** a SampleInfo fed the values [l] from scratch *)
  Definition sirun (lam : num A) (l : list (num A)) : sinfo A := fold_left (si_update lam) l si_init.
  Lemma sirun_snoc lam l v : sirun lam (l ++ [v]) = si_update lam (sirun lam l) v.
  Proof. unfold sirun. rewrite fold_left_app. reflexivity. Qed.

  Definition wtot (c : hddmw_cfg A) (s : hddmw_st A) (v : num A) : sinfo A := si_update (hw_lambda c) (wtotal s) v.
  Definition weps (c : hddmw_cfg A) (s : hddmw_st A) (v : num A) : num A :=
    mcd_bound (si_ibc (wtot c s v)) (hw_lambda c).
  (** does the increase (decrease) cut point move to the current instant? *)
  Definition inc_moves (c : hddmw_cfg A) (s : hddmw_st A) (v : num A) : bool :=
    lt_opt (si_mean (wtot c s v) + weps c s v) (winc_cut s).
  Definition dec_moves (c : hddmw_cfg A) (s : hddmw_st A) (v : num A) : bool :=
    hw_two c && gt_opt (si_mean (wtot c s v) - weps c s v) (wdec_cut s).
  Definition wi1 c s v : sinfo A := if inc_moves c s v then wtot c s v else winc1 s.
  Definition wi2 c s v : sinfo A := if inc_moves c s v then si_init else si_update (hw_lambda c) (winc2 s) v.
  Definition wicut c s v : option (num A) :=
    if inc_moves c s v then Some (si_mean (wtot c s v) + weps c s v) else winc_cut s.
  Definition wd1 c s v : sinfo A :=
    if hw_two c then (if dec_moves c s v then wtot c s v else wdec1 s) else wdec1 s.
  Definition wd2 c s v : sinfo A :=
    if hw_two c then (if dec_moves c s v then si_init else si_update (hw_lambda c) (wdec2 s) v) else wdec2 s.
  Definition wdcut c s v : option (num A) :=
    if dec_moves c s v then Some (si_mean (wtot c s v) - weps c s v) else wdec_cut s.
  (** drift / warning decision from the four samples *)
  Definition w_drift (c : hddmw_cfg A) (i1 i2 d1 d2 : sinfo A) : bool :=
    mcd_check i1 i2 (hw_alpha_d c) || (hw_two c && mcd_check d2 d1 (hw_alpha_d c)).
  Definition w_warn (c : hddmw_cfg A) (i1 i2 d1 d2 : sinfo A) : bool :=
    mcd_check i1 i2 (hw_alpha_w c) || (hw_two c && mcd_check d2 d1 (hw_alpha_w c)).

  Definition w_reset_drift (n : Z) : hddmw_st A :=
    {| wn := n; wtotal := si_init; winc1 := si_init; winc2 := si_init; winc_cut := None;
       wdec1 := si_init; wdec2 := si_init; wdec_cut := None; wdrift := true; wwarning := false |}.
  Definition w_keep (c : hddmw_cfg A) (s : hddmw_st A) (v : num A) (w : bool) : hddmw_st A :=
    {| wn := wn s + 1; wtotal := wtot c s v; winc1 := wi1 c s v; winc2 := wi2 c s v; winc_cut := wicut c s v;
       wdec1 := wd1 c s v; wdec2 := wd2 c s v; wdec_cut := wdcut c s v; wdrift := false; wwarning := w |}.

  Lemma hddmw_step_eq (c : hddmw_cfg A) (s : hddmw_st A) (v : num A) :
    hddmw_step c s v =
    if (hw_min c <=? wn s + 1)%Z then
      if w_drift c (wi1 c s v) (wi2 c s v) (wd1 c s v) (wd2 c s v) then w_reset_drift (wn s + 1)
      else w_keep c s v (w_warn c (wi1 c s v) (wi2 c s v) (wd1 c s v) (wd2 c s v))
    else w_keep c s v false.
  Proof.
    unfold hddmw_step, w_keep, w_reset_drift, w_drift, w_warn, wi1, wi2, wicut, wd1, wd2, wdcut,
      inc_moves, dec_moves, weps, wtot.
    destruct (hw_two c); cbn [andb];
      destruct (lt_opt _ (winc_cut s)); try destruct (gt_opt _ (wdec_cut s));
      destruct (hw_min c <=? wn s + 1)%Z; try reflexivity;
      repeat match goal with
        | |- context [mcd_check ?a ?b ?d] => destruct (mcd_check a b d)
        end; reflexivity.
  Qed.

  (** verdict of one step, every number system *)
  Theorem hddmw_step_verdict : forall (c : hddmw_cfg A) (s : hddmw_st A) (v : num A),
    let i1 := wi1 c s v in let i2 := wi2 c s v in let d1 := wd1 c s v in let d2 := wd2 c s v in
    (wdrift (hddmw_step c s v) = true <->
     (hw_min c <= wn s + 1)%Z /\
     (mcd_check i1 i2 (hw_alpha_d c) = true \/ (hw_two c = true /\ mcd_check d2 d1 (hw_alpha_d c) = true))) /\
    (wwarning (hddmw_step c s v) = true <->
     (hw_min c <= wn s + 1)%Z /\
     ~ (mcd_check i1 i2 (hw_alpha_d c) = true \/ (hw_two c = true /\ mcd_check d2 d1 (hw_alpha_d c) = true)) /\
     (mcd_check i1 i2 (hw_alpha_w c) = true \/ (hw_two c = true /\ mcd_check d2 d1 (hw_alpha_w c) = true))) /\
    wn (hddmw_step c s v) = (wn s + 1)%Z.
  Proof.
    intros c s v i1 i2 d1 d2. rewrite hddmw_step_eq. fold i1 i2 d1 d2.
    assert (D : forall a, mcd_check i1 i2 a || (hw_two c && mcd_check d2 d1 a) = true <->
                (mcd_check i1 i2 a = true \/ (hw_two c = true /\ mcd_check d2 d1 a = true))).
    { intros a. rewrite orb_true_iff, andb_true_iff. reflexivity. }
    unfold w_drift, w_warn.
    destruct (hw_min c <=? wn s + 1)%Z eqn:Em.
    - apply Z.leb_le in Em. rewrite <- !D.
      destruct (mcd_check i1 i2 (hw_alpha_d c) || (hw_two c && mcd_check d2 d1 (hw_alpha_d c)));
        cbn [w_reset_drift w_keep wdrift wwarning wn].
      + split; [tauto|]. split; [|reflexivity]. split; [discriminate|]. intros (_ & H & _). exfalso. apply H. reflexivity.
      + split; [split; [discriminate | intros (_ & H); discriminate]|]. split; [|reflexivity].
        split; [intros H; repeat split; [exact Em | discriminate | exact H] | intros (_ & _ & H); exact H].
    - apply Z.leb_gt in Em. cbn [w_keep wdrift wwarning wn].
      split; [split; [discriminate | intros (H & _); lia]|]. split; [|reflexivity].
      split; [discriminate | intros (H & _); lia].
  Qed.

  (** ** the samples on every history *)
  Record wtr := { wt_s : hddmw_st A; wt_W : list (num A); wt_ki : nat; wt_kd : nat }.
  Definition wtr_init (c : hddmw_cfg A) : wtr := {| wt_s := hddmw_init c; wt_W := []; wt_ki := 0; wt_kd := 0 |}.
  (** [wt_W]: values since the last restart; [wt_ki] ([wt_kd]): how many of them had been seen
      when the increase (decrease) cut point last moved *)
  Definition wtrack_step (c : hddmw_cfg A) (t : wtr) (o : op (num A)) : wtr :=
    match o with
    | Rst => wtr_init c
    | Upd v =>
      let s' := hddmw_step c (wt_s t) v in
      if wdrift s' then {| wt_s := s'; wt_W := []; wt_ki := 0; wt_kd := 0 |}
      else {| wt_s := s'; wt_W := wt_W t ++ [v];
              wt_ki := if inc_moves c (wt_s t) v then S (length (wt_W t)) else wt_ki t;
              wt_kd := if dec_moves c (wt_s t) v then S (length (wt_W t)) else wt_kd t |}
    end.
  Definition wtrack (c : hddmw_cfg A) (ops : list (op (num A))) : wtr := fold_left (wtrack_step c) ops (wtr_init c).

  Lemma wtrack_snoc c ops o : wtrack c (ops ++ [o]) = wtrack_step c (wtrack c ops) o.
  Proof. unfold wtrack. rewrite fold_left_app. reflexivity. Qed.

  Lemma exec_snoc_w (c : hddmw_cfg A) (ops : list (op (num A))) o :
    exec (HDDMWD A) c (ops ++ [o]) = apply (HDDMWD A) c (exec (HDDMWD A) c ops) o.
  Proof. unfold exec, exec_from. rewrite fold_left_app. reflexivity. Qed.

  Lemma wtrack_s c ops : wt_s (wtrack c ops) = exec (HDDMWD A) c ops.
  Proof.
    induction ops as [|o ops IH] using rev_ind; [reflexivity|].
    rewrite wtrack_snoc, exec_snoc_w, <- IH. destruct o as [v|]; [|reflexivity].
    cbn [wtrack_step apply d_step HDDMWD].
    destruct (wdrift (hddmw_step c (wt_s (wtrack c ops)) v)); reflexivity.
  Qed.

  (** [s1], [s2] are the samples of the values up to / after position [k] of [W] *)
  Definition split_ok (lam : num A) (W : list (num A)) (k : nat) (s1 s2 : sinfo A) : Prop :=
    (k <= length W)%nat /\ (W <> [] -> (1 <= k)%nat) /\
    s1 = sirun lam (firstn k W) /\ s2 = sirun lam (skipn k W).
  Definition WInv (c : hddmw_cfg A) (t : wtr) : Prop :=
    let s := wt_s t in let lam := hw_lambda c in
    wtotal s = sirun lam (wt_W t) /\
    (wt_W t = [] -> winc_cut s = None /\ (hw_two c = true -> wdec_cut s = None)) /\
    split_ok lam (wt_W t) (wt_ki t) (winc1 s) (winc2 s) /\
    (if hw_two c then split_ok lam (wt_W t) (wt_kd t) (wdec1 s) (wdec2 s)
     else wdec1 s = si_init /\ wdec2 s = si_init /\ wt_kd t = 0%nat).

  Lemma split_ok_nil lam : split_ok lam [] 0 si_init si_init.
  Proof. unfold split_ok. cbn [length firstn skipn]. repeat split; try reflexivity. intros H. contradiction. Qed.

  Lemma WInv_init c : WInv c (wtr_init c).
  Proof.
    unfold WInv, wtr_init, hddmw_init. cbn [wt_s wt_W wt_ki wt_kd wtotal winc1 winc2 wdec1 wdec2 winc_cut wdec_cut].
    split; [reflexivity|]. split; [intros _; split; [reflexivity | intros _; reflexivity]|].
    split; [apply split_ok_nil|].
    destruct (hw_two c); [apply split_ok_nil | repeat split].
  Qed.

  Lemma split_ok_move lam (W : list (num A)) v :
    split_ok lam (W ++ [v]) (S (length W)) (sirun lam (W ++ [v])) si_init.
  Proof.
    assert (E : S (length W) = length (W ++ [v])) by (rewrite app_length; cbn [length]; lia).
    unfold split_ok. rewrite E, firstn_all, skipn_all. repeat split; try reflexivity; lia.
  Qed.

  Lemma split_ok_stay lam (W : list (num A)) v k s1 s2 : W <> [] ->
    split_ok lam W k s1 s2 -> split_ok lam (W ++ [v]) k s1 (si_update lam s2 v).
  Proof.
    intros Hne (Hk & Hp & -> & ->). unfold split_ok.
    rewrite firstn_snoc_le, skipn_snoc_le, sirun_snoc by exact Hk.
    rewrite app_length. cbn [length]. repeat split; try reflexivity; [lia|]. intros _. apply Hp. exact Hne.
  Qed.

  Lemma WInv_keep c t v w : WInv c t ->
    WInv c {| wt_s := w_keep c (wt_s t) v w; wt_W := wt_W t ++ [v];
              wt_ki := if inc_moves c (wt_s t) v then S (length (wt_W t)) else wt_ki t;
              wt_kd := if dec_moves c (wt_s t) v then S (length (wt_W t)) else wt_kd t |}.
  Proof.
    intros (Ht & Hnil & Hi & Hd). unfold WInv.
    cbn [wt_s wt_W wt_ki wt_kd w_keep wtotal winc1 winc2 wdec1 wdec2 winc_cut wdec_cut].
    assert (T : wtot c (wt_s t) v = sirun (hw_lambda c) (wt_W t ++ [v])).
    { unfold wtot. rewrite Ht, sirun_snoc. reflexivity. }
    split; [exact T|]. split; [intros H; destruct (wt_W t); discriminate|]. split.
    - unfold wi1, wi2. destruct (inc_moves c (wt_s t) v) eqn:Em.
      + rewrite T. apply split_ok_move.
      + apply split_ok_stay; [|exact Hi]. intros Hn. destruct (Hnil Hn) as [Hc _].
        unfold inc_moves in Em. rewrite Hc in Em. cbn [lt_opt] in Em. discriminate.
    - unfold wd1, wd2. destruct (hw_two c) eqn:E2.
      + destruct (dec_moves c (wt_s t) v) eqn:Em.
        * rewrite T. apply split_ok_move.
        * apply split_ok_stay; [|exact Hd]. intros Hn. destruct (Hnil Hn) as [_ Hc].
          unfold dec_moves in Em. rewrite E2, (Hc eq_refl) in Em. cbn [gt_opt andb] in Em. discriminate.
      + unfold dec_moves. rewrite E2. cbn [andb]. exact Hd.
  Qed.

  Lemma WInv_step c t v : WInv c t -> WInv c (wtrack_step c t (Upd v)).
  Proof.
    intros I. cbn [wtrack_step]. rewrite hddmw_step_eq.
    destruct (hw_min c <=? wn (wt_s t) + 1)%Z.
    - destruct (w_drift c _ _ _ _); cbn [w_reset_drift w_keep wdrift].
      + apply (WInv_init c).
      + apply WInv_keep. exact I.
    - cbn [w_keep wdrift]. apply WInv_keep. exact I.
  Qed.

  (** Every history: [wtotal] is the sample of the values since the last restart, the two
      increase (decrease) samples those of the values up to / after the last move of the
      increase (decrease) cut point. *)
  Theorem hddmw_state_meaning : forall (c : hddmw_cfg A) (ops : list (op (num A))),
    wt_s (wtrack c ops) = exec (HDDMWD A) c ops /\ WInv c (wtrack c ops).
  Proof.
    intros c ops. split; [apply wtrack_s|].
    induction ops as [|o ops IH] using rev_ind; [apply WInv_init|].
    rewrite wtrack_snoc. destruct o as [v|]; [apply WInv_step; exact IH | apply WInv_init].
  Qed.
End WTrack.

(** ** (3b) over the reals: McDiarmid's bound on EWMAs *)
Theorem mcd_check_R : forall (s1 s2 : sinfo RealA) (alpha : R),
  mcd_check s1 s2 alpha = true <->
  R_sqrt.sqrt ((si_ibc s1 + si_ibc s2) * Rpower.ln (1 / alpha) / 2) < si_mean s2 - si_mean s1.
Proof.
  intros s1 s2 alpha. unfold mcd_check, mcd_bound, one, two.
  cbn [ltb add sub mul div sqrt ln ofZ RealA num]. apply Rltb_true.
Qed.

(** EWMA of a list (weight lam (1-lam)^age) and the independent bound condition after n updates *)
Definition EW (lam : R) (l : list R) : R := wsum (fun k => lam * (1 - lam) ^ k) l.
Definition IBC (lam : R) (n : nat) : R :=
  lam * lam * sum_f_R0' (fun i => ((1 - lam) * (1 - lam)) ^ i) n + ((1 - lam) * (1 - lam)) ^ n.
(** McDiarmid separation of the sample [L2] above the sample [L1] *)
Definition mcd_sep (lam alpha : R) (L1 L2 : list R) : Prop :=
  R_sqrt.sqrt ((IBC lam (length L1) + IBC lam (length L2)) * Rpower.ln (1 / alpha) / 2) < EW lam L2 - EW lam L1.

Lemma sirun_closed : forall (lam : R) (l : list R),
  si_mean (sirun (A:=RealA) lam l) = EW lam l /\ si_ibc (sirun (A:=RealA) lam l) = IBC lam (length l).
Proof. intros lam l. split; [apply hddmw_ewma_closed | apply hddmw_ibc_closed]. Qed.

Lemma mcd_check_sirun : forall (lam alpha : R) (L1 L2 : list R),
  mcd_check (sirun (A:=RealA) lam L1) (sirun (A:=RealA) lam L2) alpha = true <-> mcd_sep lam alpha L1 L2.
Proof.
  intros lam alpha L1 L2. rewrite mcd_check_R.
  destruct (sirun_closed lam L1) as [-> ->]. destruct (sirun_closed lam L2) as [-> ->]. reflexivity.
Qed.

Theorem hddmw_drift_mcdiarmid_ops : forall (c : hddmw_cfg RealA) (ops : list (op R)) (v : R),
  let tr := wtrack c ops in
  let s := exec (HDDMWD RealA) c ops in
  let s' := exec (HDDMWD RealA) c (ops ++ [Upd v]) in
  let W := wt_W tr ++ [v] in
  let ki := if inc_moves c s v then length W else wt_ki tr in
  let kd := if dec_moves c s v then length W else wt_kd tr in
  let lam := hw_lambda c in
  let t := (updates_since_reset (HDDMWD RealA) ops + 1)%Z in
  let drift_cond := mcd_sep lam (hw_alpha_d c) (firstn ki W) (skipn ki W) \/
                    (hw_two c = true /\ mcd_sep lam (hw_alpha_d c) (skipn kd W) (firstn kd W)) in
  let warn_cond := mcd_sep lam (hw_alpha_w c) (firstn ki W) (skipn ki W) \/
                   (hw_two c = true /\ mcd_sep lam (hw_alpha_w c) (skipn kd W) (firstn kd W)) in
  (1 <= ki <= length W)%nat /\ (hw_two c = true -> (1 <= kd <= length W)%nat) /\
  (wdrift s' = true <-> (hw_min c <= t)%Z /\ drift_cond) /\
  (wwarning s' = true <-> (hw_min c <= t)%Z /\ ~ drift_cond /\ warn_cond).
Proof.
  intros c ops v tr s s' W ki kd lam t drift_cond warn_cond.
  destruct (hddmw_state_meaning c ops) as (Es & I). fold tr s in Es, I.
  pose proof (WInv_keep c tr v false I) as K. unfold WInv in K.
  cbn [wt_s wt_W wt_ki wt_kd w_keep wtotal winc1 winc2 wdec1 wdec2 winc_cut wdec_cut] in K.
  rewrite Es in K.
  assert (EL : S (length (wt_W tr)) = length W) by (unfold W; rewrite app_length; cbn [length]; lia).
  rewrite EL in K. fold W ki kd lam in K.
  destruct K as (_ & _ & (Hki & Hki1 & Ei1 & Ei2) & Hd).
  assert (Wne : W <> []) by (unfold W; intros H; destruct (wt_W tr); discriminate).
  split; [split; [apply Hki1; exact Wne | exact Hki]|].
  assert (Hkd : hw_two c = true -> (1 <= kd <= length W)%nat /\
            wd1 c s v = sirun (A:=RealA) lam (firstn kd W) /\ wd2 c s v = sirun (A:=RealA) lam (skipn kd W)).
  { intros E2. rewrite E2 in Hd. destruct Hd as (H1 & H2 & H3 & H4).
    split; [split; [apply H2; exact Wne | exact H1]|]. split; assumption. }
  split; [intros E2; apply (Hkd E2)|].
  assert (CI : forall a, mcd_check (wi1 c s v) (wi2 c s v) a = true <-> mcd_sep lam a (firstn ki W) (skipn ki W)).
  { intros a. rewrite Ei1, Ei2. apply mcd_check_sirun. }
  assert (CD : forall a, hw_two c = true ->
            (mcd_check (wd2 c s v) (wd1 c s v) a = true <-> mcd_sep lam a (skipn kd W) (firstn kd W))).
  { intros a E2. destruct (Hkd E2) as (_ & -> & ->). apply mcd_check_sirun. }
  assert (C : forall a, (mcd_check (wi1 c s v) (wi2 c s v) a = true \/
                         (hw_two c = true /\ mcd_check (wd2 c s v) (wd1 c s v) a = true)) <->
                        (mcd_sep lam a (firstn ki W) (skipn ki W) \/
                         (hw_two c = true /\ mcd_sep lam a (skipn kd W) (firstn kd W)))).
  { intros a. rewrite CI. split; (intros [H|(E2 & H)]; [left; exact H | right; split; [exact E2|]]);
      apply (CD a E2); exact H. }
  unfold s'. rewrite exec_snoc_w. cbn [apply d_step HDDMWD]. fold s.
  destruct (hddmw_step_verdict c s v) as (Hdr & Hwn & _). cbv zeta in Hdr, Hwn.
  assert (En : wn s = updates_since_reset (HDDMWD RealA) ops) by (apply (hddmw_ninst RealA c ops)).
  unfold t. rewrite <- En. unfold drift_cond, warn_cond. rewrite <- !C. split; assumption.
Qed.

(** update-only streams *)
Lemma wrun_exec {A : Arith} (c : hddmw_cfg A) vs : wrun c vs = exec (HDDMWD A) c (map Upd vs).
Proof.
  induction vs as [|v vs IH] using rev_ind; [reflexivity|].
  rewrite wrun_snoc, map_app, IH. cbn [map]. rewrite exec_snoc_w. reflexivity.
Qed.

Lemma wrun_n {A : Arith} (c : hddmw_cfg A) vs : wn (wrun c vs) = Z.of_nat (length vs).
Proof.
  induction vs as [|v vs IH] using rev_ind; [reflexivity|].
  rewrite wrun_snoc. destruct (hddmw_step_verdict c (wrun c vs) v) as (_ & _ & ->).
  rewrite IH, app_length. cbn [length]. lia.
Qed.

(** verdict of every step of an update-only run, every number system: drift iff
    t >= min_num_instances and the McDiarmid check fires on the increase samples or
    (two-sided) on the decrease samples; warning iff not so, but so with alpha_w. *)
Theorem hddmw_verdict : forall (A : Arith) (c : hddmw_cfg A) (vs : list (num A)) (v : num A),
  let s := wrun c vs in
  let i1 := wi1 c s v in let i2 := wi2 c s v in let d1 := wd1 c s v in let d2 := wd2 c s v in
  let t := Z.of_nat (length (vs ++ [v])) in
  (wdrift (wrun c (vs ++ [v])) = true <->
   (hw_min c <= t)%Z /\
   (mcd_check i1 i2 (hw_alpha_d c) = true \/ (hw_two c = true /\ mcd_check d2 d1 (hw_alpha_d c) = true))) /\
  (wwarning (wrun c (vs ++ [v])) = true <->
   (hw_min c <= t)%Z /\
   ~ (mcd_check i1 i2 (hw_alpha_d c) = true \/ (hw_two c = true /\ mcd_check d2 d1 (hw_alpha_d c) = true)) /\
   (mcd_check i1 i2 (hw_alpha_w c) = true \/ (hw_two c = true /\ mcd_check d2 d1 (hw_alpha_w c) = true))).
Proof.
  intros A c vs v s i1 i2 d1 d2 t. rewrite wrun_snoc. fold s.
  replace t with (wn s + 1)%Z by (unfold t, s; rewrite wrun_n, app_length; cbn [length]; lia).
  destruct (hddmw_step_verdict c s v) as (Hd & Hw & _). split; assumption.
Qed.

Definition wwin_run {A : Arith} (c : hddmw_cfg A) (vs : list (num A)) : wtr := wtrack c (map Upd vs).

Lemma usr_map_upd_w : forall (c : hddmw_cfg RealA) (vs : list R),
  updates_since_reset (HDDMWD RealA) (map Upd vs) = Z.of_nat (length vs).
Proof.
  intros c vs. rewrite <- (hddmw_ninst RealA c (map Upd vs)). cbn [d_ninst HDDMWD].
  rewrite <- wrun_exec. apply wrun_n.
Qed.

(** Over the reals, on an update-only run: with [W] the values since the last drift (the new
    one included), [ki] ([kd]) the position of the increase (decrease) cut point in [W]:
    drift iff t >= min and  EWMA(after ki) - EWMA(up to ki) > sqrt((ibc1+ibc2) ln(1/alpha_d)/2),
    or, two-sided, EWMA(up to kd) - EWMA(after kd) > the same bound for that cut. *)
Theorem hddmw_drift_mcdiarmid : forall (c : hddmw_cfg RealA) (vs : list R) (v : R),
  let tr := wwin_run c vs in
  let s := wrun c vs in let s' := wrun c (vs ++ [v]) in
  let W := wt_W tr ++ [v] in
  let ki := if inc_moves c s v then length W else wt_ki tr in
  let kd := if dec_moves c s v then length W else wt_kd tr in
  let lam := hw_lambda c in
  let t := Z.of_nat (length (vs ++ [v])) in
  let drift_cond := mcd_sep lam (hw_alpha_d c) (firstn ki W) (skipn ki W) \/
                    (hw_two c = true /\ mcd_sep lam (hw_alpha_d c) (skipn kd W) (firstn kd W)) in
  let warn_cond := mcd_sep lam (hw_alpha_w c) (firstn ki W) (skipn ki W) \/
                   (hw_two c = true /\ mcd_sep lam (hw_alpha_w c) (skipn kd W) (firstn kd W)) in
  (1 <= ki <= length W)%nat /\ (hw_two c = true -> (1 <= kd <= length W)%nat) /\
  (wdrift s' = true <-> (hw_min c <= t)%Z /\ drift_cond) /\
  (wwarning s' = true <-> (hw_min c <= t)%Z /\ ~ drift_cond /\ warn_cond).
Proof.
  intros c vs v tr s s' W ki kd lam t drift_cond warn_cond.
  pose proof (hddmw_drift_mcdiarmid_ops c (map Upd vs) v) as H. cbv zeta in H.
  rewrite (usr_map_upd_w c vs) in H.
  replace (map Upd vs ++ [Upd v]) with (map (@Upd R) (vs ++ [v])) in H by (rewrite map_app; reflexivity).
  rewrite <- !wrun_exec in H.
  replace (Z.of_nat (length vs) + 1)%Z with t in H
    by (unfold t; rewrite app_length; cbn [length]; lia).
  exact H.
Qed.

(** ** (4b) the two-sided W-test is symmetric under x -> -x *)
Lemma Rltb_ext : forall a b c d : R, (a < b <-> c < d) -> Rltb a b = Rltb c d.
Proof.
  intros a b c d H. destruct (Rltb_spec a b) as [H1|H1]; destruct (Rltb_spec c d) as [H2|H2];
    try reflexivity; exfalso; tauto.
Qed.

Definition sneg (a b : sinfo RealA) : Prop := si_ibc b = si_ibc a /\ si_mean b = - si_mean a.
Definition cneg (a b : option R) : Prop :=
  match a, b with None, None => True | Some x, Some y => y = - x | _, _ => False end.
Definition WMir (s s' : hddmw_st RealA) : Prop :=
  wn s' = wn s /\ wdrift s' = wdrift s /\ wwarning s' = wwarning s /\
  sneg (wtotal s) (wtotal s') /\
  sneg (winc1 s) (wdec1 s') /\ sneg (winc2 s) (wdec2 s') /\ cneg (winc_cut s) (wdec_cut s') /\
  sneg (wdec1 s) (winc1 s') /\ sneg (wdec2 s) (winc2 s') /\ cneg (wdec_cut s) (winc_cut s').

Lemma sneg_init : sneg si_init si_init.
Proof. unfold sneg, si_init, zero. cbn [si_ibc si_mean ofZ RealA]. split; [reflexivity | lra]. Qed.

Lemma sneg_update : forall lam a b v, sneg a b ->
  sneg (si_update (A:=RealA) lam a v) (si_update (A:=RealA) lam b (- v)).
Proof.
  intros lam a b v [Hi Hm]. unfold sneg, si_update, one. cbn [si_ibc si_mean add sub mul ofZ RealA num].
  rewrite Hi, Hm. split; [reflexivity | ring].
Qed.

Lemma mcd_swap : forall (i1 i2 d1' d2' : sinfo RealA) a, sneg i1 d1' -> sneg i2 d2' ->
  mcd_check d2' d1' a = mcd_check i1 i2 a.
Proof.
  intros i1 i2 d1' d2' a [E1 M1] [E2 M2]. unfold mcd_check, mcd_bound.
  rewrite E1, E2, M1, M2. cbn [ltb add sub mul div RealA num].
  rewrite (Rplus_comm (si_ibc i2) (si_ibc i1)). apply Rltb_ext. split; intros H; lra.
Qed.

Lemma mcd_swap' : forall (d1 d2 i1' i2' : sinfo RealA) a, sneg d1 i1' -> sneg d2 i2' ->
  mcd_check i1' i2' a = mcd_check d2 d1 a.
Proof.
  intros d1 d2 i1' i2' a [E1 M1] [E2 M2]. unfold mcd_check, mcd_bound.
  rewrite E1, E2, M1, M2. cbn [ltb add sub mul div RealA num].
  rewrite (Rplus_comm (si_ibc d1) (si_ibc d2)). apply Rltb_ext. split; intros H; lra.
Qed.

Lemma WMir_init : forall c, WMir (hddmw_init c) (hddmw_init c).
Proof.
  intros c. unfold WMir, hddmw_init.
  cbn [wn wdrift wwarning wtotal winc1 winc2 wdec1 wdec2 winc_cut wdec_cut cneg].
  repeat split; try apply sneg_init.
Qed.

Lemma WMir_step : forall (c : hddmw_cfg RealA) s s' v, hw_two c = true ->
  WMir s s' -> WMir (hddmw_step c s v) (hddmw_step c s' (- v)).
Proof.
  intros c s s' v E2 (Hn & _ & _ & Ht & Hi1 & Hi2 & Hic & Hd1 & Hd2 & Hdc).
  assert (T : sneg (wtot c s v) (wtot (A:=RealA) c s' (- v))) by (apply sneg_update; exact Ht).
  assert (E : weps (A:=RealA) c s' (- v) = weps c s v).
  { unfold weps. destruct T as [-> _]. reflexivity. }
  assert (M1 : dec_moves (A:=RealA) c s' (- v) = inc_moves c s v).
  { unfold dec_moves, inc_moves. rewrite E2, E. cbn [andb]. destruct T as [_ ->].
    destruct (winc_cut s) as [x|], (wdec_cut s') as [y|]; cbn [cneg] in Hic; try contradiction; [|reflexivity].
    subst y. cbn [gt_opt lt_opt ltb add sub RealA num]. apply Rltb_ext. split; intros H; lra. }
  assert (M2 : inc_moves (A:=RealA) c s' (- v) = dec_moves c s v).
  { unfold dec_moves, inc_moves. rewrite E2, E. cbn [andb]. destruct T as [_ ->].
    destruct (wdec_cut s) as [x|], (winc_cut s') as [y|]; cbn [cneg] in Hdc; try contradiction; [|reflexivity].
    subst y. cbn [gt_opt lt_opt ltb add sub RealA num]. apply Rltb_ext. split; intros H; lra. }
  assert (I1 : sneg (wi1 c s v) (wd1 (A:=RealA) c s' (- v))).
  { unfold wi1, wd1. rewrite E2, M1. destruct (inc_moves c s v); assumption. }
  assert (I2 : sneg (wi2 c s v) (wd2 (A:=RealA) c s' (- v))).
  { unfold wi2, wd2. rewrite E2, M1. destruct (inc_moves c s v); [apply sneg_init | apply sneg_update; exact Hi2]. }
  assert (D1 : sneg (wd1 c s v) (wi1 (A:=RealA) c s' (- v))).
  { unfold wi1, wd1. rewrite E2, M2. destruct (dec_moves c s v); assumption. }
  assert (D2 : sneg (wd2 c s v) (wi2 (A:=RealA) c s' (- v))).
  { unfold wi2, wd2. rewrite E2, M2. destruct (dec_moves c s v); [apply sneg_init | apply sneg_update; exact Hd2]. }
  assert (IC : cneg (wicut c s v) (wdcut (A:=RealA) c s' (- v))).
  { unfold wicut, wdcut. rewrite M1, E. destruct (inc_moves c s v); [|exact Hic].
    cbn [cneg add sub RealA num]. destruct T as [_ ->]. lra. }
  assert (DC : cneg (wdcut c s v) (wicut (A:=RealA) c s' (- v))).
  { unfold wicut, wdcut. rewrite M2, E. destruct (dec_moves c s v); [|exact Hdc].
    cbn [cneg add sub RealA num]. destruct T as [_ ->]. lra. }
  assert (DR : forall a, mcd_check (wi1 (A:=RealA) c s' (- v)) (wi2 (A:=RealA) c s' (- v)) a ||
                         (hw_two c && mcd_check (wd2 (A:=RealA) c s' (- v)) (wd1 (A:=RealA) c s' (- v)) a) =
                         mcd_check (wi1 c s v) (wi2 c s v) a || (hw_two c && mcd_check (wd2 c s v) (wd1 c s v) a)).
  { intros a. rewrite E2. cbn [andb].
    rewrite (mcd_swap _ _ _ _ a I1 I2), (mcd_swap' _ _ _ _ a D1 D2). apply orb_comm. }
  rewrite !hddmw_step_eq. unfold w_drift, w_warn. rewrite !DR, Hn.
  destruct (hw_min c <=? wn s + 1)%Z.
  - destruct (mcd_check (wi1 c s v) (wi2 c s v) (hw_alpha_d c) ||
              (hw_two c && mcd_check (wd2 c s v) (wd1 c s v) (hw_alpha_d c))).
    + unfold WMir, w_reset_drift.
      cbn [wn wdrift wwarning wtotal winc1 winc2 wdec1 wdec2 winc_cut wdec_cut cneg].
      repeat split; try apply sneg_init.
    + unfold WMir, w_keep.
      cbn [wn wdrift wwarning wtotal winc1 winc2 wdec1 wdec2 winc_cut wdec_cut].
      rewrite Hn.
      refine (conj _ (conj _ (conj _ (conj T (conj I1 (conj I2 (conj IC (conj D1 (conj D2 DC))))))))); reflexivity.
  - unfold WMir, w_keep.
    cbn [wn wdrift wwarning wtotal winc1 winc2 wdec1 wdec2 winc_cut wdec_cut].
    rewrite Hn.
    refine (conj _ (conj _ (conj _ (conj T (conj I1 (conj I2 (conj IC (conj D1 (conj D2 DC))))))))); reflexivity.
Qed.

Theorem hddmw_mirror_neg : forall (c : hddmw_cfg RealA) (vs : list R), hw_two c = true ->
  wdrift (wrun c (map Ropp vs)) = wdrift (wrun c vs) /\
  wwarning (wrun c (map Ropp vs)) = wwarning (wrun c vs).
Proof.
  intros c vs E2.
  assert (M : WMir (wrun c vs) (wrun c (map Ropp vs))).
  { induction vs as [|v vs IH] using rev_ind; [apply WMir_init|].
    rewrite map_app. cbn [map]. rewrite !wrun_snoc. apply WMir_step; assumption. }
  destruct M as (_ & Hd & Hw & _). split; assumption.
Qed.

(** a drop 0 -> -1 is detected by the two-sided W-test exactly as the rise 0 -> 1 *)
Theorem hddmw_drop_as_rise_partial : forall (c : hddmw_cfg RealA) (n k : nat), hw_two c = true ->
  wdrift (wrun c (repeat 0 n ++ repeat (-1) k)) = wdrift (wrun c (repeat 0 n ++ repeat 1 k)) /\
  wwarning (wrun c (repeat 0 n ++ repeat (-1) k)) = wwarning (wrun c (repeat 0 n ++ repeat 1 k)).
Proof.
  intros c n k E2.
  replace (repeat 0 n ++ repeat (-1) k) with (map Ropp (repeat 0 n ++ repeat 1 k)).
  - apply hddmw_mirror_neg. exact E2.
  - rewrite map_app, !map_repeat'. rewrite Ropp_0. reflexivity.
Qed.

(* FULL (not proved): for HDDM-W, the analogue of [hddma_drop_as_rise] with the mirror
   x -> 1-x, i.e.  wdrift (wrun c (repeat 1 n ++ repeat 0 k)) = wdrift (wrun c (repeat 0 n ++ repeat 1 k)),
   is FALSE in general: the EWMA starts at 0, so EWMA_t(1-x) = 1 - (1-lam)^t - EWMA_t(x), not
   1 - EWMA_t(x); see the binary64 counterexample in Props/C04.v (lam = 0.05, n = k = 30: the
   drop is reported at step 55, the rise at step 57).  What is proved instead is the exact
   symmetry under x -> -x ([hddmw_mirror_neg], [hddmw_drop_as_rise_partial]).
   FULL (not proved): an explicit delay bound for the W-test on 0^n 1^k (analogue of
   [hddma_rise_detected]): exists j <= n + k with wdrift (wrun c (firstn j (repeat 0 n ++ repeat 1 k))) = true
   under a condition on lam, alpha_d, n, k.  Obstacle: needs the closed form
   1 - (1-lam)^i of the EWMA of i ones against IBC lam n + IBC lam i, and a proof that the
   increase cut point stays at the last zero; not attempted. *)
