(** Proofs for property C13 (permutation-test callback) about Model/Permutation.v.

    Part 1  constructor chains: which detectors hand their own parameters to the null
    Part 2  [permutation]: enumeration, re-split, independence of the worker schedule
    Part 3  p-values over R: formulas of Phipson & Smyth, range (0,1], the code's
            'approximate' versus the published integral form
    Part 4  MMD: compare's cached term equals the null's recomputation
    Part 5  the rational instance QA (what the check evaluates) denotes the same reals
    Part 7  (placed before Part 3) a worker pool that completes chunks in any order returns map f xs *)
From Coq Require Import ZArith String List Bool Reals Lra Lia.
From Coq Require Import Permutation.
From Coquelicot Require Import Coquelicot.
From FV Require Import NumSys RealA Py Permutation.
Import ListNotations.
Local Close Scope R_scope.

Local Open Scope string_scope.

(** * Part 1 — dictionaries and constructor chains *)
Lemma dget_dset_same d k v : dget k (dset d k v) = Some v.
Proof.
  induction d as [|[k' v'] d IH]; cbn [dset dget].
  - rewrite String.eqb_refl. reflexivity.
  - destruct (String.eqb k k') eqn:E; cbn [dget]; rewrite E; [reflexivity | exact IH].
Qed.

Lemma dget_dset_other d k k' v : k <> k' -> dget k (dset d k' v) = dget k d.
Proof.
  intros Hne. induction d as [|[k2 v2] d IH]; cbn [dset dget].
  - destruct (String.eqb_spec k k'); [contradiction | reflexivity].
  - destruct (String.eqb_spec k' k2) as [->|Hn2]; cbn [dget].
    + destruct (String.eqb_spec k k2); [contradiction | reflexivity].
    + destruct (String.eqb k k2); [reflexivity | exact IH].
Qed.

Lemma dget_notin k d : ~ In k (dkeys d) -> dget k d = None.
Proof.
  induction d as [|[k' v'] d IH]; cbn [dget dkeys map In fst]; intros H; [reflexivity|].
  destruct (String.eqb_spec k k') as [->|Hne]; [exfalso; apply H; left; reflexivity|].
  apply IH. intros Hin. apply H. right. exact Hin.
Qed.

Lemma dget_in_keys k d v : dget k d = Some v -> In k (dkeys d).
Proof.
  induction d as [|[k' v'] d IH]; cbn [dget dkeys map In fst]; [discriminate|].
  destruct (String.eqb_spec k k') as [->|Hne]; intros H; [left; reflexivity | right; apply IH; exact H].
Qed.

Lemma dget_dmerge a b k : NoDup (dkeys b) ->
  dget k (dmerge a b) = match dget k b with Some v => Some v | None => dget k a end.
Proof.
  unfold dmerge. revert a. induction b as [|[k' v'] b IH]; intros a Hnd; cbn [fold_left dget fst snd].
  - reflexivity.
  - cbn [dkeys map fst] in Hnd. inversion Hnd as [|? ? Hnotin Hnd']; subst.
    rewrite IH by assumption.
    destruct (String.eqb_spec k k') as [->|Hne].
    + rewrite (dget_notin k' b) by assumption. apply dget_dset_same.
    + destruct (dget k b); [reflexivity|]. apply dget_dset_other. assumption.
Qed.

(** the [**kwargs] left over by the binding: no named key, no repetition *)
Definition rest_of (named user : dict) : dict := filter (fun kv => negb (dmem (fst kv) named)) user.

Lemma rest_of_keys named user : NoDup (dkeys user) -> NoDup (dkeys (rest_of named user)).
Proof.
  unfold rest_of. induction user as [|[k v] user IH]; cbn [filter dkeys map fst]; intros H; [constructor|].
  inversion H as [|? ? Hnotin Hnd]; subst.
  destruct (negb (dmem k named)); cbn [dkeys map fst]; [|apply IH; assumption].
  constructor; [|apply IH; assumption].
  intros Hin. apply Hnotin. clear - Hin.
  induction user as [|[k' v'] user IH]; cbn [filter dkeys map fst In] in *; [assumption|].
  destruct (negb (dmem k' named)); cbn [map fst In] in *; tauto.
Qed.

Lemma rest_of_named named user kv : In kv (rest_of named user) -> dmem (fst kv) named = false.
Proof. unfold rest_of. intros H. apply filter_In in H. destruct H as [_ H]. apply negb_true_iff in H. exact H. Qed.

Lemma rest_of_get named user k : dmem k named = true -> dget k (rest_of named user) = None.
Proof.
  intros Hk. apply dget_notin. intros Hin. unfold dkeys in Hin. apply in_map_iff in Hin.
  destruct Hin as [kv [<- Hin]]. apply rest_of_named in Hin. congruence.
Qed.

Lemma call_kw_rest explicit named user :
  (forall k, dmem k explicit = true -> dmem k named = true) ->
  call_kw explicit (rest_of named user) = Ok (explicit ++ rest_of named user)%list.
Proof.
  intros H. unfold call_kw.
  destruct (existsb (fun kv => dmem (fst kv) explicit) (rest_of named user)) eqn:E; [|reflexivity].
  apply existsb_exists in E. destruct E as [kv [Hin Hm]].
  apply rest_of_named in Hin. apply H in Hm. congruence.
Qed.

Lemma dget_app a b k : dget k (a ++ b)%list = match dget k a with Some v => Some v | None => dget k b end.
Proof. induction a as [|[k' v'] a IH]; cbn [app dget]; [reflexivity|]. destruct (String.eqb k k'); [reflexivity | exact IH]. Qed.

Lemma dget_dset d k k' v : dget k (dset d k' v) = if String.eqb k k' then Some v else dget k d.
Proof.
  destruct (String.eqb_spec k k') as [->|Hne]; [apply dget_dset_same | apply dget_dset_other; assumption].
Qed.

Lemma dict_equiv_dset a b k v : dict_equiv a b -> dict_equiv (dset a k v) (dset b k v).
Proof. intros H k'. rewrite !dget_dset. destruct (String.eqb k' k); [reflexivity | apply H]. Qed.

Lemma dict_equiv_trans a b c : dict_equiv a b -> dict_equiv b c -> dict_equiv a c.
Proof. intros H1 H2 k. rewrite H1. apply H2. Qed.

Definition user_num_bins (user : dict) : pv := match dget "num_bins" user with Some v => v | None => VInt 10 end.

Definition strip_cache (d : det) (ck : dict) : dict :=
  match d with MMD => ddel "expected_k_xx" ck | _ => ck end.

(** the keyword arguments of compare's path as a total function of the object (no cache entry) *)
Definition cmp_dict (o : obj) : dict :=
  match o_det o with
  | PSI | Bhattacharyya | HINC => [("num_bins", getd "num_bins" (o_attrs o))]
  | Hellinger => [("num_bins", getd "num_bins" (o_attrs o)); ("sqrt_div", getd "sqrt_div" (o_attrs o))]
  | JS | KL => ("num_bins", getd "num_bins" (o_attrs o)) :: o_kwargs o
  | EMD | Energy => o_kwargs o
  | MMD => [("kernel", getd "kernel" (o_attrs o)); ("chunk_size", getd "chunk_size" (o_attrs o))]
  end.

Definition has (o : obj) (k : string) : Prop := dmem k (o_attrs o) = true.

(** invariant of every detector object reachable by construction and setter calls *)
Definition synced (o : obj) : Prop :=
  match o_det o with
  | PSI | Bhattacharyya | HINC => has o "num_bins"
  | Hellinger => has o "num_bins" /\ has o "sqrt_div"
  | JS | KL => has o "num_bins" /\ dget "num_bins" (o_kwargs o) = None
  | EMD | Energy => True
  | MMD => has o "kernel" /\ has o "chunk_size"
  end /\ dict_equiv (o_skw o) (cmp_dict o).

Lemma attr_getd o k : has o k -> attr o k = Ok (getd k (o_attrs o)).
Proof. unfold has, dmem, attr, getd. destruct (dget k (o_attrs o)); [reflexivity | discriminate]. Qed.

Lemma call_kw_nodup explicit kw : (forall kv, In kv kw -> dmem (fst kv) explicit = false) ->
  call_kw explicit kw = Ok (explicit ++ kw)%list.
Proof.
  intros H. unfold call_kw. destruct (existsb (fun kv => dmem (fst kv) explicit) kw) eqn:E; [|reflexivity].
  apply existsb_exists in E. destruct E as [kv [Hin Hm]]. rewrite (H kv Hin) in Hm. discriminate.
Qed.

Lemma dget_none_notin_single k (v : pv) (kw : dict) : dget k kw = None ->
  forall kv, In kv kw -> dmem (fst kv) [(k, v)] = false.
Proof.
  intros Hn [k' v'] Hin. unfold dmem. cbn [fst dget].
  destruct (String.eqb_spec k' k) as [->|Hne]; [|reflexivity].
  exfalso. assert (Hk : In k (dkeys kw)) by (unfold dkeys; apply in_map_iff; exists (k, v'); auto).
  clear - Hn Hk. induction kw as [|[k2 v2] kw IH]; [contradiction|].
  cbn [dget] in Hn. cbn [dkeys map fst In] in Hk.
  destruct (String.eqb_spec k k2) as [->|Hne]; [discriminate|]. destruct Hk as [Hk|Hk]; [congruence | auto].
Qed.

(** what compare passes, for a synced object *)
Theorem synced_compare o : synced o ->
  exists ck, compare_kwargs o [] = Ok ck /\ dict_equiv (null_kwargs o) (strip_cache (o_det o) ck).
Proof.
  unfold synced, compare_kwargs, cmp_dict, null_kwargs, strip_cache.
  destruct (o_det o); intros [Hs He].
  - rewrite (attr_getd o "num_bins" Hs). cbn [bind]. eexists; split; [reflexivity | exact He].
  - destruct Hs as [H1 H2]. rewrite (attr_getd o "num_bins" H1), (attr_getd o "sqrt_div" H2). cbn [bind]. eexists; split; [reflexivity | exact He].
  - rewrite (attr_getd o "num_bins" Hs). cbn [bind]. eexists; split; [reflexivity | exact He].
  - rewrite (attr_getd o "num_bins" Hs). cbn [bind]. eexists; split; [reflexivity | exact He].
  - destruct Hs as [H1 H2]. rewrite (attr_getd o "num_bins" H1). cbn [bind].
    rewrite call_kw_nodup by (apply dget_none_notin_single; assumption). eexists; split; [reflexivity | exact He].
  - destruct Hs as [H1 H2]. rewrite (attr_getd o "num_bins" H1). cbn [bind].
    rewrite call_kw_nodup by (apply dget_none_notin_single; assumption). eexists; split; [reflexivity | exact He].
  - eexists; split; [reflexivity | exact He].
  - eexists; split; [reflexivity | exact He].
  - destruct Hs as [H1 H2]. rewrite (attr_getd o "kernel" H1), (attr_getd o "chunk_size" H2). cbn [bind].
    eexists; split; [reflexivity|]. intros k. rewrite He. cbn.
    destruct (String.eqb k "kernel"); [reflexivity|]. destruct (String.eqb k "chunk_size"); [reflexivity|].
    destruct (String.eqb "expected_k_xx" "kernel") eqn:E; reflexivity.
Qed.

Lemma getd_dset_same a k v : getd k (dset a k v) = v.
Proof. unfold getd. rewrite dget_dset_same. reflexivity. Qed.
Lemma getd_dset_other a k k' v : k <> k' -> getd k (dset a k' v) = getd k a.
Proof. intros H. unfold getd. rewrite dget_dset_other by assumption. reflexivity. Qed.
Lemma dmem_dset_same a k v : dmem k (dset a k v) = true.
Proof. unfold dmem. rewrite dget_dset_same. reflexivity. Qed.
Lemma dmem_dset_other a k k' v : k <> k' -> dmem k (dset a k' v) = dmem k a.
Proof. intros H. unfold dmem. rewrite dget_dset_other by assumption. reflexivity. Qed.

Definition NB : dict := [("num_bins", VInt 10)].
Definition MMD_SIG : dict := [("kernel", VFun 0); ("chunk_size", VNone)].

Lemma filter_true {X} (l : list X) : filter (fun _ => true) l = l.
Proof. induction l as [|x l IH]; cbn; [reflexivity | rewrite IH; reflexivity]. Qed.

Ltac fold_rest user sig :=
  match goal with |- context [filter ?f user] => change (filter f user) with (rest_of sig user) end.

(** every successful constructor call yields a synced object *)
Theorem construct_synced d user o : NoDup (dkeys user) -> construct d user = Ok o -> synced o /\ o_det o = d.
Proof.
  intros Hnd. destruct d; unfold construct, bind_kw; cbn [signature fst snd negb andb].
  1-4: fold_rest user NB; (destruct (rest_of NB user); cbn; [|discriminate]); fold (user_num_bins user);
       (destruct (user_num_bins user) as [z| | | | |]; cbn; try discriminate; [destruct (z <? 1)%Z; cbn; [discriminate|] |]);
       intros H; injection H as <-; (split; [|reflexivity]); unfold synced, has; cbn; repeat split; intros k; cbn;
       repeat (destruct (String.eqb k _); try reflexivity).
  - (* JS *)
    fold_rest user NB. cbn. fold (user_num_bins user).
    destruct (user_num_bins user) as [z| | | | |]; cbn; try discriminate; [destruct (z <? 1)%Z; cbn; [discriminate|] |];
    intros H; injection H as <-; (split; [|reflexivity]); unfold synced, has; cbn;
    (split; [split; [reflexivity | apply rest_of_get; reflexivity]|]);
    intros k; rewrite !dget_dset, dget_dmerge by (apply rest_of_keys; assumption); cbn [dget];
    (destruct (String.eqb_spec k "num_bins") as [->|Hne]; [reflexivity|]); destruct (dget k (rest_of NB user)); reflexivity.
  - (* KL *)
    fold_rest user NB. cbn. fold (user_num_bins user).
    destruct (user_num_bins user) as [z| | | | |]; cbn; try discriminate; [destruct (z <? 1)%Z; cbn; [discriminate|] |];
    intros H; injection H as <-; (split; [|reflexivity]); unfold synced, has; cbn;
    (split; [split; [reflexivity | apply rest_of_get; reflexivity]|]);
    intros k; rewrite !dget_dset; cbn [dget]; destruct (String.eqb k "num_bins"); reflexivity.
  - (* EMD *) cbn. rewrite filter_true. intros H; injection H as <-. split; [|reflexivity]. split; [exact I | intros k; reflexivity].
  - (* Energy *) cbn. rewrite filter_true. intros H; injection H as <-. split; [|reflexivity]. split; [exact I | intros k; reflexivity].
  - (* MMD *)
    fold_rest user MMD_SIG. destruct (rest_of MMD_SIG user); cbn; [|discriminate].
    set (kv := match dget "kernel" user with Some v => v | None => VFun 0 end).
    set (cv := match dget "chunk_size" user with Some v => v | None => VNone end).
    destruct kv as [z| | |kid| |]; cbn; try discriminate.
    destruct cv as [z| | | | |]; cbn; try discriminate; [destruct (z <=? 0)%Z; cbn; [discriminate|] |];
    intros H; injection H as <-; (split; [|reflexivity]); unfold synced, has; cbn; repeat split; intros k; cbn;
    repeat (destruct (String.eqb k _); try reflexivity).
Qed.

Definition settable (d : det) (k : string) : bool :=
  match d with
  | PSI | Hellinger | Bhattacharyya | HINC | JS | KL => String.eqb k "num_bins"
  | MMD => String.eqb k "kernel" || String.eqb k "chunk_size"
  | EMD | Energy => false
  end.

Lemma set_param_synced o k v :
  synced o -> settable (o_det o) k = true -> synced (set_param o k v) /\ o_det (set_param o k v) = o_det o.
Proof.
  intros [Hs He] Hk. split; [|reflexivity].
  assert (Hd : dict_equiv (o_skw (set_param o k v)) (dset (cmp_dict o) k v)) by (apply dict_equiv_dset; exact He).
  unfold synced, has, cmp_dict in *.
  change (o_det (set_param o k v)) with (o_det o).
  change (o_attrs (set_param o k v)) with (dset (o_attrs o) k v).
  change (o_kwargs (set_param o k v)) with (o_kwargs o).
  change (o_skw (set_param o k v)) with (dset (o_skw o) k v) in *.
  destruct (o_det o); cbn [settable] in Hk; try discriminate Hk;
  try (apply String.eqb_eq in Hk; subst k).
  - split; [apply dmem_dset_same|]. intros k'. rewrite Hd, getd_dset_same. cbn. destruct (String.eqb k' "num_bins"); reflexivity.
  - destruct Hs as [H1 H2]. split; [split; [apply dmem_dset_same | rewrite dmem_dset_other by discriminate; exact H2]|].
    intros k'. rewrite Hd, getd_dset_same, getd_dset_other by discriminate. cbn.
    destruct (String.eqb k' "num_bins"); reflexivity.
  - split; [apply dmem_dset_same|]. intros k'. rewrite Hd, getd_dset_same. cbn. destruct (String.eqb k' "num_bins"); reflexivity.
  - split; [apply dmem_dset_same|]. intros k'. rewrite Hd, getd_dset_same. cbn. destruct (String.eqb k' "num_bins"); reflexivity.
  - destruct Hs as [H1 H2]. split; [split; [apply dmem_dset_same | exact H2]|].
    intros k'. rewrite Hd, getd_dset_same. cbn. destruct (String.eqb k' "num_bins"); reflexivity.
  - destruct Hs as [H1 H2]. split; [split; [apply dmem_dset_same | exact H2]|].
    intros k'. rewrite Hd, getd_dset_same. cbn. destruct (String.eqb k' "num_bins"); reflexivity.
  - destruct Hs as [H1 H2]. apply orb_true_iff in Hk. destruct Hk as [Hk|Hk]; apply String.eqb_eq in Hk; subst k.
    + split; [split; [apply dmem_dset_same | rewrite dmem_dset_other by discriminate; exact H2]|].
      intros k'. rewrite Hd, getd_dset_same, getd_dset_other by discriminate. cbn.
      destruct (String.eqb k' "kernel"); reflexivity.
    + split; [split; [rewrite dmem_dset_other by discriminate; exact H1 | apply dmem_dset_same]|].
      intros k'. rewrite Hd, getd_dset_same, getd_dset_other by discriminate. cbn.
      destruct (String.eqb k' "kernel"); [reflexivity|]. destruct (String.eqb k' "chunk_size"); reflexivity.
Qed.

(** a successful call of a public setter keeps the object synced *)
Theorem assign_synced o k v o' : synced o -> settable (o_det o) k = true -> assign_attr o k v = Ok o' ->
  synced o' /\ o_det o' = o_det o.
Proof.
  intros Hs Hk. pose proof (fun v => set_param_synced o k v Hs Hk) as Hp.
  unfold assign_attr, assign_num_bins.
  destruct (o_det o) eqn:D; cbn [settable] in Hk; try discriminate Hk.
  1-6: apply String.eqb_eq in Hk; subst k; cbn [String.eqb Ascii.eqb Bool.eqb]; unfold set_num_bins;
       destruct v as [z| | | | |]; try discriminate; [destruct (z <? 1)%Z; [discriminate|] |];
       intros H; injection H as <-; apply Hp.
  apply orb_true_iff in Hk. destruct Hk as [Hk|Hk]; apply String.eqb_eq in Hk; subst k; cbn [String.eqb Ascii.eqb Bool.eqb].
  - unfold set_kernel. destruct v; try discriminate. intros H; injection H as <-; apply Hp.
  - unfold set_chunk_size. destruct v as [z| | | | |]; try discriminate; [destruct (z <=? 0)%Z; [discriminate|] |];
    intros H; injection H as <-; apply Hp.
Qed.

(** any sequence of setter calls *)
Fixpoint assign_all (o : obj) (kvs : list (string * pv)) : res obj :=
  match kvs with [] => Ok o | (k, v) :: r => do o' <- assign_attr o k v; assign_all o' r end.

Theorem null_uses_detector_params_lemma : forall d user o kvs o', NoDup (dkeys user) ->
  construct d user = Ok o -> (forall kv, In kv kvs -> settable d (fst kv) = true) -> assign_all o kvs = Ok o' ->
  exists ck, compare_kwargs o' [] = Ok ck /\ dict_equiv (null_kwargs o') (strip_cache d ck).
Proof.
  intros d user o kvs o' Hnd Hc Hset Ha.
  destruct (construct_synced d user o Hnd Hc) as [Hs Hd]. clear Hc.
  assert (H : synced o' /\ o_det o' = d).
  { revert o Hs Hd Ha. induction kvs as [|[k v] r IH]; intros o Hs Hd Ha; cbn [assign_all] in Ha.
    - injection Ha as <-. auto.
    - destruct (assign_attr o k v) as [o1|e] eqn:E; [|discriminate]. cbn [bind] in Ha.
      destruct (assign_synced o k v o1 Hs) as [Hs1 Hd1]; [rewrite Hd; apply (Hset (k, v)); left; reflexivity | exact E |].
      apply (IH (fun kv H => Hset kv (or_intror H)) o1 Hs1); [congruence | exact Ha]. }
  destruct H as [Hs' Hd']. rewrite <- Hd'. apply synced_compare. exact Hs'.
Qed.

Lemma mmd_compare_extra_is_cache o ck : o_det o = MMD -> compare_kwargs o [] = Ok ck ->
  dget "expected_k_xx" ck = Some VCacheKxx.
Proof.
  unfold compare_kwargs. intros ->. destruct (attr o "kernel"); [|discriminate]. destruct (attr o "chunk_size"); [|discriminate].
  cbn. intros H; injection H as <-. reflexivity.
Qed.

Local Close Scope string_scope.

(** * Part 2 — permutation *)
Lemma factZ_fact n : factZ n = Z.of_nat (fact n).
Proof. induction n; [reflexivity|]. cbn [factZ fact]. rewrite IHn. lia. Qed.

Section PermLemmas.
  Variable T : Type.
  Implicit Types l p : list T.

  Lemma picks_perm l x r : In (x, r) (picks l) -> Permutation (x :: r) l.
  Proof.
    revert x r. induction l as [|y l IH]; cbn [picks]; intros x r H; [contradiction|].
    destruct H as [H|H].
    - inversion H; subst. apply Permutation_refl.
    - apply in_map_iff in H. destruct H as [[z r'] [Heq Hin]]. cbn [fst snd] in Heq. inversion Heq; subst.
      apply IH in Hin. eapply Permutation_trans; [apply perm_swap|]. apply perm_skip. exact Hin.
  Qed.

  Lemma picks_length l : length (picks l) = length l.
  Proof. induction l as [|y l IH]; cbn [picks length]; [reflexivity|]. rewrite map_length, IH. reflexivity. Qed.

  Lemma flat_map_const_length {X Y} (f : X -> list Y) (xs : list X) c :
    (forall x, In x xs -> length (f x) = c) -> length (flat_map f xs) = length xs * c.
  Proof.
    induction xs as [|x xs IH]; intros H; cbn [flat_map length]; [reflexivity|].
    rewrite app_length, H by (left; reflexivity). rewrite IH by (intros; apply H; right; assumption). lia.
  Qed.

  Lemma perms_fuel_perm : forall k l p, length l = k -> In p (perms_fuel k l) -> Permutation p l.
  Proof.
    induction k as [|k IH]; intros l p Hl Hin; cbn [perms_fuel] in Hin.
    - destruct Hin as [<-|[]]. destruct l; [constructor | discriminate].
    - apply in_flat_map in Hin. destruct Hin as [[x r] [Hpick Hin]]. cbn [fst snd] in Hin.
      apply in_map_iff in Hin. destruct Hin as [p' [<- Hin]].
      pose proof (picks_perm l x r Hpick) as Hperm.
      assert (length r = k) by (apply Permutation_length in Hperm; cbn [length] in Hperm; lia).
      eapply Permutation_trans; [apply perm_skip; apply (IH r p'); assumption | exact Hperm].
  Qed.

  Lemma perms_fuel_length : forall k l, length l = k -> length (perms_fuel k l) = fact k.
  Proof.
    induction k as [|k IH]; intros l Hl; cbn [perms_fuel]; [reflexivity|].
    rewrite (flat_map_const_length _ _ (fact k)).
    - rewrite picks_length, Hl. reflexivity.
    - intros [x r] Hin. cbn [fst snd]. rewrite map_length. apply IH.
      apply picks_perm, Permutation_length in Hin. cbn [length] in Hin. lia.
  Qed.

  Lemma all_perms_perm l p : In p (all_perms l) -> Permutation p l.
  Proof. apply perms_fuel_perm. reflexivity. Qed.
  Lemma all_perms_length l : Z.of_nat (length (all_perms l)) = factZ (length l).
  Proof. unfold all_perms. rewrite perms_fuel_length by reflexivity. symmetry. apply factZ_fact. Qed.

  (** re-split of a permuted pooled sample *)
  Lemma resplit_partition n m p : length p = n + m -> m <> 0 ->
    fst (resplit n m p) ++ snd (resplit n m p) = p /\
    length (fst (resplit n m p)) = n /\ length (snd (resplit n m p)) = m.
  Proof.
    intros Hl Hm. unfold resplit, slice_last. cbn [fst snd]. destruct m as [|m']; [contradiction|].
    replace (length p - S m') with n by lia.
    rewrite firstn_skipn, firstn_length, skipn_length. repeat split; lia.
  Qed.

  (** with an empty second sample, [data[-0:]] is the whole pooled array *)
  Lemma resplit_m0 n p : resplit n 0 p = (firstn n p, p).
  Proof. reflexivity. Qed.

  Definition permuted_data (np_permutation : Z -> list T -> nat -> list T) (X Y : list T) (num_permutations seed : Z) :=
    map (resplit (length X) (length Y)) (perms_used (X ++ Y) num_permutations (np_permutation seed (X ++ Y))).

  Section WithOracles.
    Variable St : Type.
    Variable np_permutation : Z -> list T -> nat -> list T.
    Hypothesis np_permutation_perm : forall seed data i, Permutation (np_permutation seed data i) data.
    Variable sched : Type.
    Variable starmap : Z -> sched -> (list T -> list T -> St) -> list (list T * list T) -> list St.
    Hypothesis starmap_ordered : forall jobs sc f xs, starmap jobs sc f xs = map (fun ab => f (fst ab) (snd ab)) xs.

    Lemma permutation_unfold stat X Y num jobs seed sc :
      permutation np_permutation sched starmap stat X Y num jobs seed sc =
      (starmap jobs sc stat (permuted_data np_permutation X Y num seed), factZ (length (X ++ Y))).
    Proof. reflexivity. Qed.

    Lemma perms_used_perm data num seed p :
      In p (perms_used data num (np_permutation seed data)) -> Permutation p data.
    Proof.
      unfold perms_used. destruct (num >=? factZ (length data))%Z.
      - apply all_perms_perm.
      - intros H. apply in_map_iff in H. destruct H as [i [<- _]]. apply np_permutation_perm.
    Qed.

    Lemma perms_used_length data num seed : (0 <= num)%Z ->
      Z.of_nat (length (perms_used data num (np_permutation seed data))) =
      if (num >=? factZ (length data))%Z then factZ (length data) else num.
    Proof.
      intros H. unfold perms_used. destruct (num >=? factZ (length data))%Z.
      - apply all_perms_length.
      - rewrite map_length, seq_length. lia.
    Qed.

    Theorem resplit_sizes_lemma X Y num seed a b : Y <> [] ->
      In (a, b) (permuted_data np_permutation X Y num seed) ->
      length a = length X /\ length b = length Y /\ Permutation (a ++ b) (X ++ Y).
    Proof.
      intros HY Hin. unfold permuted_data in Hin. apply in_map_iff in Hin. destruct Hin as [p [Heq Hin]].
      apply perms_used_perm in Hin.
      assert (Hl : length p = length X + length Y) by (rewrite (Permutation_length Hin), app_length; reflexivity).
      assert (Hm : length Y <> 0) by (destruct Y; [contradiction | discriminate]).
      destruct (resplit_partition (length X) (length Y) p Hl Hm) as [H1 [H2 H3]].
      rewrite Heq in H1, H2, H3. cbn [fst snd] in *. subst p. auto.
    Qed.

    Theorem null_statistics_lemma stat X Y num jobs seed sc :
      fst (permutation np_permutation sched starmap stat X Y num jobs seed sc) =
      map (fun ab => stat (fst ab) (snd ab)) (permuted_data np_permutation X Y num seed).
    Proof. rewrite permutation_unfold. cbn [fst]. apply starmap_ordered. Qed.

    Theorem pmap_schedule_independent_lemma stat X Y num seed jobs jobs' sc sc' :
      permutation np_permutation sched starmap stat X Y num jobs seed sc =
      permutation np_permutation sched starmap stat X Y num jobs' seed sc'.
    Proof. rewrite !permutation_unfold, !starmap_ordered. reflexivity. Qed.

    Theorem null_count_lemma stat X Y num jobs seed sc : (0 <= num)%Z ->
      Z.of_nat (length (fst (permutation np_permutation sched starmap stat X Y num jobs seed sc))) =
      Z.min num (factZ (length X + length Y)).
    Proof.
      intros H. rewrite null_statistics_lemma, map_length. unfold permuted_data. rewrite map_length.
      rewrite perms_used_length by assumption. rewrite app_length.
      destruct (num >=? factZ (length X + length Y))%Z eqn:E; lia.
    Qed.
  End WithOracles.
End PermLemmas.

(** * Part 4 — MMD: compare (cached term from fit) = the null's static call on the same pair *)
Theorem mmd_compare_is_null_lemma : forall (A : Arith) (row : Type) ksum asum (X Y : list row) (cs : option nat),
  mmd_compare (A:=A) row ksum asum X Y cs = mmd_null (A:=A) row ksum asum X Y cs.
Proof. intros. unfold mmd_compare, mmd_null, mmd_static, mmd_fit. destruct cs; reflexivity. Qed.

(** * Part 7 — the worker pool: any completion order of the chunks gives [map f xs] *)
Section PoolProof.
  Variables (X R : Type) (f : X -> R).
  Variable cs : nat.
  Hypothesis cs_pos : 0 < cs.
  Variable xs : list X.
  Let n := length xs.
  Let target : list (option R) := map (fun x => Some (f x)) xs.

  Lemma nth_firstn_lt {T} (l : list T) d : forall k j, j < k -> nth j (firstn k l) d = nth j l d.
  Proof.
    induction l as [|x l IH]; intros k j H; [rewrite firstn_nil; reflexivity|].
    destruct k; [lia|]. destruct j; [reflexivity|]. cbn. apply IH. lia.
  Qed.

  Lemma nth_skipn_plus {T} (l : list T) d : forall k j, nth j (skipn k l) d = nth (k + j) l d.
  Proof.
    induction l as [|x l IH]; intros k j; [rewrite skipn_nil; destruct (k + j); destruct j; reflexivity|].
    destruct k; [reflexivity|]. cbn. apply IH.
  Qed.

  Lemma skipn_skipn' {T} : forall b a (l : list T), skipn a (skipn b l) = skipn (b + a) l.
  Proof.
    induction b as [|b IH]; intros a l; [reflexivity|].
    destruct l as [|x l]; [cbn [skipn]; rewrite !skipn_nil; reflexivity | cbn [skipn Nat.add]; apply IH].
  Qed.

  Lemma chunks_fuel_nth : forall i fuel (l : list X), length l <= fuel ->
    nth i (chunks_fuel fuel cs l) [] = firstn cs (skipn (i * cs) l).
  Proof.
    induction i as [|i IH]; intros fuel l Hl.
    - destruct fuel; cbn [chunks_fuel].
      + destruct l; [|cbn in Hl; lia]. cbn. rewrite firstn_nil. reflexivity.
      + destruct l; [cbn; rewrite firstn_nil; reflexivity | reflexivity].
    - destruct fuel; cbn [chunks_fuel].
      + destruct l; [|cbn in Hl; lia]. rewrite skipn_nil, firstn_nil. reflexivity.
      + destruct l as [|x l]; [rewrite skipn_nil, firstn_nil; reflexivity|].
        cbn [nth]. rewrite IH.
        * rewrite skipn_skipn'. reflexivity.
        * rewrite skipn_length. cbn [length] in *. lia.
  Qed.

  Lemma chunk_nth i : nth i (chunks cs xs) [] = firstn cs (skipn (i * cs) xs).
  Proof. apply chunks_fuel_nth. lia. Qed.

  Definition pool_step (v : list (option R)) (i : nat) : list (option R) :=
    write_at (i * cs) (map (fun x => Some (f x)) (nth i (chunks cs xs) [])) v.

  Lemma step_written i : map (fun x => Some (f x)) (nth i (chunks cs xs) []) = firstn cs (skipn (i * cs) target).
  Proof. rewrite chunk_nth. unfold target. rewrite skipn_map, firstn_map. reflexivity. Qed.

  Lemma written_length i : i * cs < n -> length (firstn cs (skipn (i * cs) target)) = Nat.min cs (n - i * cs).
  Proof. intros H. rewrite firstn_length, skipn_length. unfold target. rewrite map_length. reflexivity. Qed.

  Lemma write_at_length lo ys (v : list (option R)) : lo + length ys <= length v -> length (write_at lo ys v) = length v.
  Proof. intros H. unfold write_at. rewrite !app_length, firstn_length, skipn_length. lia. Qed.

  Lemma write_at_nth lo ys (v : list (option R)) j : lo + length ys <= length v ->
    nth j (write_at lo ys v) None =
    if (lo <=? j) && (j <? lo + length ys) then nth (j - lo) ys None else nth j v None.
  Proof.
    intros H. unfold write_at.
    assert (Hf : length (firstn lo v) = lo) by (rewrite firstn_length; lia).
    destruct (lo <=? j) eqn:E1; cbn [andb].
    - apply Nat.leb_le in E1. rewrite app_nth2 by lia. rewrite Hf.
      destruct (j <? lo + length ys) eqn:E2.
      + apply Nat.ltb_lt in E2. rewrite app_nth1 by lia. reflexivity.
      + apply Nat.ltb_ge in E2. rewrite app_nth2 by lia. rewrite nth_skipn_plus. f_equal. lia.
    - apply Nat.leb_gt in E1. rewrite app_nth1 by lia. apply nth_firstn_lt. assumption.
  Qed.

  Lemma in_chunk_iff i j : j < n -> i * cs < n ->
    (i * cs <= j /\ j < i * cs + Nat.min cs (n - i * cs)) <-> j / cs = i.
  Proof.
    intros Hj Hi. assert (Hc : cs <> 0) by lia. split.
    - intros [H1 H2]. symmetry. apply (Nat.div_unique j cs i (j - i * cs)); [lia|].
      rewrite (Nat.mul_comm cs i). lia.
    - intros <-. pose proof (Nat.mul_div_le j cs Hc). pose proof (Nat.mul_succ_div_gt j cs Hc).
      rewrite (Nat.mul_comm cs) in *. rewrite Nat.mul_succ_l in *. lia.
  Qed.

  Definition PoolInv (done : nat -> Prop) (v : list (option R)) : Prop :=
    length v = n /\ forall j, j < n -> done (j / cs) -> nth j v None = nth j target None.

  Lemma PoolInv_step done v i : PoolInv done v -> i * cs < n -> PoolInv (fun k => done k \/ k = i) (pool_step v i).
  Proof.
    intros [Hl Hq] Hi. unfold pool_step. rewrite step_written.
    assert (Hlen := written_length i Hi).
    assert (Hfit : i * cs + length (firstn cs (skipn (i * cs) target)) <= length v) by (rewrite Hlen; lia).
    split; [rewrite write_at_length; assumption|].
    intros j Hj Hd. rewrite write_at_nth by assumption. rewrite Hlen.
    destruct ((i * cs <=? j) && (j <? i * cs + Nat.min cs (n - i * cs))) eqn:E.
    - apply andb_true_iff in E. destruct E as [E1 E2]. apply Nat.leb_le in E1. apply Nat.ltb_lt in E2.
      rewrite nth_firstn_lt by lia. rewrite nth_skipn_plus. f_equal. lia.
    - destruct Hd as [Hd | Hd]; [apply Hq; assumption|].
      exfalso. apply (in_chunk_iff i j Hj Hi) in Hd. destruct Hd as [H1 H2].
      apply andb_false_iff in E. destruct E as [E|E]; [apply Nat.leb_gt in E | apply Nat.ltb_ge in E]; lia.
  Qed.

  Lemma PoolInv_weaken (d d' : nat -> Prop) v : (forall k, d' k -> d k) -> PoolInv d v -> PoolInv d' v.
  Proof. intros H [Hl Hq]. split; [assumption|]. intros j Hj Hd. apply Hq; auto. Qed.

  Lemma PoolInv_fold : forall schedule done v, PoolInv done v -> (forall i, In i schedule -> i * cs < n) ->
    PoolInv (fun k => done k \/ In k schedule) (fold_left pool_step schedule v).
  Proof.
    induction schedule as [|i rest IH]; intros done v HQ Hr; cbn [fold_left].
    - apply (PoolInv_weaken done); [intros k [H|[]]; assumption | assumption].
    - apply (PoolInv_weaken (fun k => (done k \/ k = i) \/ In k rest)).
      + intros k [H|[H|H]]; auto.
      + apply IH; [apply PoolInv_step; [assumption | apply Hr; left; reflexivity] | intros; apply Hr; right; assumption].
  Qed.

  (** every chunk index in range, every chunk completed at least once, in ANY order (repeats allowed) *)
  Theorem run_parallel_any_schedule_lemma (schedule : list nat) :
    (forall i, In i schedule -> i * cs < n) -> (forall j, j < n -> In (j / cs) schedule) ->
    run_parallel f cs xs schedule = map (fun x => Some (f x)) xs.
  Proof.
    intros Hr Hc. unfold run_parallel. fold n. fold pool_step.
    destruct (PoolInv_fold schedule (fun _ => False) (repeat None n)) as [Hl Hq].
    - split; [apply repeat_length | intros j _ []].
    - assumption.
    - apply (nth_ext _ _ None None).
      + rewrite Hl. unfold n. rewrite map_length. reflexivity.
      + intros j Hj. rewrite Hl in Hj. apply Hq; [assumption | right; apply Hc; assumption].
  Qed.
End PoolProof.

(** * Part 3 — p-values over the reals *)
Local Open Scope R_scope.

Lemma powN_pow (x : R) n : powN (A:=RealA) x n = x ^ n.
Proof. induction n; cbn [powN pow]; [reflexivity|]. rewrite IHn. reflexivity. Qed.

Lemma sum_upto_sum_f (f : nat -> R) b : sum_upto (A:=RealA) f b = sum_f_R0 f b.
Proof. induction b; cbn [sum_upto sum_f_R0]; [reflexivity | rewrite IHb; reflexivity]. Qed.

(** ** Pascal rows are the binomial coefficients *)
Lemma zip_add_length a b : length a = length b -> length (zip_add a b) = length a.
Proof. revert b; induction a as [|x a IH]; destruct b; simpl; intros H; try discriminate; auto. Qed.

Lemma zip_add_nth a b k : length a = length b ->
  nth k (zip_add a b) 0%Z = (nth k a 0 + nth k b 0)%Z.
Proof.
  revert b k; induction a as [|x a IH]; destruct b as [|y b]; simpl; intros k H; try discriminate.
  - destruct k; reflexivity.
  - destruct k; [reflexivity|]. apply IH. lia.
Qed.

Lemma pascal_row_length n : length (pascal_row n) = S n.
Proof.
  induction n; [reflexivity|]. cbn [pascal_row]. unfold pascal_next.
  rewrite zip_add_length; simpl; rewrite ?app_length; simpl; lia.
Qed.

Lemma nth_app0 (row : list Z) j : nth j (row ++ [0%Z]) 0%Z = nth j row 0%Z.
Proof.
  destruct (lt_dec j (length row)) as [H|H].
  - apply app_nth1; assumption.
  - rewrite app_nth2 by lia. rewrite (nth_overflow row) by lia.
    destruct (j - length row)%nat as [|[|q]]; reflexivity.
Qed.

Lemma binomZ_SS n k : binomZ (S n) (S k) = (binomZ n k + binomZ n (S k))%Z.
Proof.
  unfold binomZ. cbn [pascal_row]. unfold pascal_next.
  rewrite zip_add_nth by (simpl; rewrite app_length; simpl; lia).
  cbn [nth]. rewrite nth_app0. reflexivity.
Qed.

Lemma binomZ_n0 n : binomZ n 0 = 1%Z.
Proof.
  induction n; [reflexivity|]. unfold binomZ in *. cbn [pascal_row]. unfold pascal_next.
  rewrite zip_add_nth by (simpl; rewrite app_length; simpl; lia).
  cbn [nth]. rewrite nth_app0. rewrite IHn. reflexivity.
Qed.

Lemma binomZ_over n k : (n < k)%nat -> binomZ n k = 0%Z.
Proof. intros H. unfold binomZ. apply nth_overflow. rewrite pascal_row_length. lia. Qed.

Lemma binomZ_nn n : binomZ n n = 1%Z.
Proof.
  induction n; [reflexivity|]. rewrite binomZ_SS, IHn, binomZ_over by lia. reflexivity.
Qed.

Lemma C_n0 n : Binomial.C n 0 = 1.
Proof. unfold Binomial.C. rewrite Nat.sub_0_r. cbn [fact]. pose proof (INR_fact_neq_0 n). cbn [INR]. field. assumption. Qed.
Lemma C_nn n : Binomial.C n n = 1.
Proof. unfold Binomial.C. rewrite Nat.sub_diag. cbn [fact]. pose proof (INR_fact_neq_0 n). cbn [INR]. field. assumption. Qed.

Lemma binomZ_C n : forall k, (k <= n)%nat -> IZR (binomZ n k) = Binomial.C n k.
Proof.
  induction n as [|n IH]; intros k Hk.
  - assert (k = 0)%nat by lia; subst. rewrite C_n0. reflexivity.
  - destruct k as [|k]; [rewrite binomZ_n0, C_n0; reflexivity|].
    rewrite binomZ_SS, plus_IZR.
    destruct (Nat.eq_dec k n) as [->|Hne].
    + rewrite binomZ_nn, binomZ_over, C_nn by lia. lra.
    + rewrite <- pascal by lia. rewrite !IH by lia. reflexivity.
Qed.

Lemma C_pos n k : (k <= n)%nat -> 0 < Binomial.C n k.
Proof.
  intros H. unfold Binomial.C. apply Rdiv_lt_0_compat; [apply INR_fact_lt_0|].
  apply Rmult_lt_0_compat; apply INR_fact_lt_0.
Qed.

(** ** The property's formulas, written with the standard library's [C] and [sum_f_R0] *)
Definition BinomPMF (m k : nat) (p : R) : R := Binomial.C m k * p ^ k * (1 - p) ^ (m - k).
Definition BinomCDF (b m : nat) (p : R) : R := sum_f_R0 (fun k => BinomPMF m k p) b.

Lemma binom_pmf_spec m k p : (k <= m)%nat -> binom_pmf (A:=RealA) m k p = BinomPMF m k p.
Proof.
  intros H. unfold binom_pmf, BinomPMF. rewrite !powN_pow. cbn [mul sub ofZ RealA one].
  rewrite binomZ_C by assumption. reflexivity.
Qed.

Lemma binom_cdf_spec b m p : (b <= m)%nat -> binom_cdf (A:=RealA) b m p = BinomCDF b m p.
Proof.
  intros H. unfold binom_cdf, BinomCDF. rewrite sum_upto_sum_f. apply sum_eq.
  intros i Hi. apply binom_pmf_spec. lia.
Qed.

Lemma BinomPMF_nonneg m k p : (k <= m)%nat -> 0 <= p <= 1 -> 0 <= BinomPMF m k p.
Proof.
  intros Hk Hp. unfold BinomPMF. apply Rmult_le_pos; [apply Rmult_le_pos|].
  - left. apply C_pos; assumption.
  - apply pow_le; lra.
  - apply pow_le; lra.
Qed.

Lemma sum_f_R0_mono (f : nat -> R) b m : (b <= m)%nat -> (forall k, (k <= m)%nat -> 0 <= f k) ->
  sum_f_R0 f b <= sum_f_R0 f m.
Proof.
  intros Hbm Hf. induction m as [|m IH].
  - assert (b = 0)%nat by lia; subst; lra.
  - destruct (Nat.eq_dec b (S m)) as [->|Hne]; [lra|].
    cbn [sum_f_R0]. specialize (IH ltac:(lia) ltac:(intros; apply Hf; lia)).
    specialize (Hf (S m) ltac:(lia)). lra.
Qed.

Lemma sum_f_R0_ge_first (f : nat -> R) b : (forall k, (k <= b)%nat -> 0 <= f k) -> f 0%nat <= sum_f_R0 f b.
Proof. intros Hf. apply (sum_f_R0_mono f 0 b); [lia|assumption]. Qed.

Lemma BinomCDF_full m p : BinomCDF m m p = 1.
Proof.
  unfold BinomCDF, BinomPMF. rewrite <- (binomial p (1 - p) m).
  replace (p + (1 - p)) with 1 by lra. apply pow1.
Qed.

Lemma BinomCDF_le_1 b m p : (b <= m)%nat -> 0 <= p <= 1 -> BinomCDF b m p <= 1.
Proof.
  intros Hb Hp. rewrite <- (BinomCDF_full m p). unfold BinomCDF.
  apply sum_f_R0_mono; [assumption|]. intros k Hk. apply BinomPMF_nonneg; assumption.
Qed.

Lemma BinomCDF_ge_first b m p : (b <= m)%nat -> 0 <= p <= 1 -> (1 - p) ^ m <= BinomCDF b m p.
Proof.
  intros Hb Hp. unfold BinomCDF.
  replace ((1 - p) ^ m) with (BinomPMF m 0 p).
  - apply (sum_f_R0_ge_first (fun k => BinomPMF m k p)). intros k Hk. apply BinomPMF_nonneg; [lia|assumption].
  - unfold BinomPMF. rewrite C_n0, Nat.sub_0_r. cbn [pow]. lra.
Qed.

Lemma BinomCDF_nonneg b m p : (b <= m)%nat -> 0 <= p <= 1 -> 0 <= BinomCDF b m p.
Proof.
  intros Hb Hp. apply Rle_trans with ((1 - p) ^ m); [apply pow_le; lra | apply BinomCDF_ge_first; assumption].
Qed.

Lemma BinomCDF_pos b m p : (b <= m)%nat -> 0 <= p < 1 -> 0 < BinomCDF b m p.
Proof.
  intros Hb Hp. apply Rlt_le_trans with ((1 - p) ^ m); [apply pow_lt; lra | apply BinomCDF_ge_first; [assumption|lra]].
Qed.

(** ** conservative, estimate *)
Lemma conservative_formula_R (b : nat) (requested : Z) :
  pv_conservative (A:=RealA) b requested = (INR b + 1) / (IZR requested + 1).
Proof. unfold pv_conservative. cbn [div ofZ RealA]. rewrite !plus_IZR, <- INR_IZR_INZ. reflexivity. Qed.

Lemma estimate_formula_R (b len : nat) : pv_estimate (A:=RealA) b len = INR b / INR len.
Proof. unfold pv_estimate. cbn [div ofZ RealA]. rewrite <- !INR_IZR_INZ. reflexivity. Qed.

Lemma conservative_in_unit_R (b len : nat) (requested : Z) :
  (b <= len)%nat -> (Z.of_nat len <= requested)%Z ->
  0 < pv_conservative (A:=RealA) b requested <= 1.
Proof.
  intros Hb Hl. rewrite conservative_formula_R.
  assert (H1 : INR b <= IZR requested).
  { apply Rle_trans with (INR len); [apply le_INR; assumption|]. rewrite INR_IZR_INZ. apply IZR_le; assumption. }
  pose proof (pos_INR b) as H0.
  split.
  - apply Rdiv_lt_0_compat; lra.
  - apply Rle_div_l; lra.
Qed.

Lemma estimate_in_closed_unit_R (b len : nat) : (b <= len)%nat -> (1 <= len)%nat ->
  0 <= pv_estimate (A:=RealA) b len <= 1.
Proof.
  intros Hb Hl. rewrite estimate_formula_R.
  pose proof (pos_INR b). assert (0 < INR len) by (apply lt_0_INR; lia).
  assert (INR b <= INR len) by (apply le_INR; assumption).
  split; [apply Rle_div_r; lra | apply Rle_div_l; lra].
Qed.

(** ** exact *)
Definition PS_exact (b m mt : nat) : R :=
  sum_f_R0 (fun t => BinomCDF b m (INR (S t) / INR mt)) (mt - 1) / INR mt.

Lemma exact_formula_R b m mt : (b <= m)%nat -> (1 <= mt)%nat ->
  pv_exact (A:=RealA) b m mt = PS_exact b m mt.
Proof.
  intros Hb Hmt. destruct mt as [|mt']; [lia|].
  unfold pv_exact, PS_exact. rewrite sum_upto_sum_f. cbn [div ofZ RealA].
  replace (S mt' - 1)%nat with mt' by lia. rewrite <- INR_IZR_INZ. f_equal.
  apply sum_eq. intros t Ht. rewrite <- !INR_IZR_INZ. apply binom_cdf_spec; assumption.
Qed.

Lemma sum_f_R0_le_count (f : nat -> R) n : (forall k, (k <= n)%nat -> f k <= 1) -> sum_f_R0 f n <= INR (S n).
Proof.
  intros H. induction n as [|n IH]; [cbn [sum_f_R0 INR]; apply H; lia|].
  cbn [sum_f_R0]. rewrite (S_INR (S n)). specialize (IH ltac:(intros; apply H; lia)). specialize (H (S n) ltac:(lia)). lra.
Qed.

Lemma exact_in_unit_R b m mt : (b <= m)%nat -> (2 <= mt)%nat -> 0 < PS_exact b m mt <= 1.
Proof.
  intros Hb Hmt. unfold PS_exact.
  assert (Hpos : 0 < INR mt) by (apply lt_0_INR; lia).
  assert (Hp : forall t, (t <= mt - 1)%nat -> 0 <= INR (S t) / INR mt <= 1).
  { intros t Ht. assert (INR (S t) <= INR mt) by (apply le_INR; lia). pose proof (pos_INR (S t)).
    split; [apply Rle_div_r; lra | apply Rle_div_l; lra]. }
  split.
  - apply Rdiv_lt_0_compat; [|assumption].
    apply Rlt_le_trans with (BinomCDF b m (INR 1 / INR mt)).
    + apply BinomCDF_pos; [assumption|]. cbn [INR]. split.
      * apply Rle_div_r; lra.
      * apply Rlt_div_l; [assumption|]. assert (INR 2 <= INR mt) by (apply le_INR; lia). cbn [INR] in *. lra.
    + apply (sum_f_R0_ge_first (fun t => BinomCDF b m (INR (S t) / INR mt))).
      intros k Hk. apply BinomCDF_nonneg; [assumption | apply Hp; assumption].
  - apply Rle_div_l; [assumption|]. rewrite Rmult_1_l.
    apply Rle_trans with (INR (S (mt - 1))); [|right; f_equal; lia].
    apply sum_f_R0_le_count. intros k Hk. apply BinomCDF_le_1; [assumption | apply Hp; assumption].
Qed.

(** at m_t = 1 the only grid point is p = 1 and the exact p-value is 0 whenever b < m *)
Lemma exact_mt1_zero b m : (b < m)%nat -> PS_exact b m 1 = 0.
Proof.
  intros H. unfold PS_exact. cbn [Nat.sub sum_f_R0 INR]. unfold BinomCDF.
  replace (1 / 1) with 1 by lra. rewrite sum_eq_R0; [lra|].
  intros k Hk. unfold BinomPMF. replace (1 - 1) with 0 by lra.
  rewrite pow_i by lia. ring.
Qed.

(** ** polynomials over R *)
Notation pevalR := (peval (A:=RealA)).

Lemma peval_nil x : pevalR [] x = 0.
Proof. reflexivity. Qed.
Lemma peval_cons c r x : pevalR (c :: r) x = c + x * pevalR r x.
Proof. reflexivity. Qed.

Lemma peval_padd p q x : pevalR (padd p q) x = pevalR p x + pevalR q x.
Proof.
  revert q; induction p as [|a p IH]; intros q.
  - cbn [padd]. rewrite peval_nil. lra.
  - destruct q as [|c q]; cbn [padd].
    + rewrite peval_nil. lra.
    + rewrite !peval_cons, IH. cbn [add RealA]. lra.
Qed.

Lemma peval_pscale c p x : pevalR (pscale c p) x = c * pevalR p x.
Proof.
  induction p as [|a p IH]; unfold pscale in *; cbn [map].
  - rewrite peval_nil. lra.
  - rewrite !peval_cons, IH. cbn [mul RealA]. lra.
Qed.

Lemma peval_pmulx p x : pevalR (pmulx p) x = x * pevalR p x.
Proof. unfold pmulx. rewrite peval_cons. unfold zero; cbn [ofZ RealA]. lra. Qed.

Lemma peval_pmul1mx p x : pevalR (pmul1mx p) x = (1 - x) * pevalR p x.
Proof.
  unfold pmul1mx. rewrite peval_padd, peval_pscale, peval_pmulx.
  unfold zero, one; cbn [sub ofZ RealA]. lra.
Qed.

Lemma peval_piter_mulx k p x : pevalR (piter pmulx k p) x = x ^ k * pevalR p x.
Proof. induction k; cbn [piter pow]; [lra|]. rewrite peval_pmulx, IHk. lra. Qed.
Lemma peval_piter_mul1mx k p x : pevalR (piter pmul1mx k p) x = (1 - x) ^ k * pevalR p x.
Proof. induction k; cbn [piter pow]; [lra|]. rewrite peval_pmul1mx, IHk. lra. Qed.

Lemma peval_pmf_poly m k x : pevalR (pmf_poly m k) x = IZR (binomZ m k) * x ^ k * (1 - x) ^ (m - k).
Proof.
  unfold pmf_poly. rewrite peval_pscale, peval_piter_mulx, peval_piter_mul1mx, peval_cons, peval_nil.
  unfold one; cbn [ofZ RealA]. lra.
Qed.

Lemma peval_pmf_poly_spec m k x : (k <= m)%nat -> pevalR (pmf_poly m k) x = BinomPMF m k x.
Proof. intros H. rewrite peval_pmf_poly, binomZ_C by assumption. reflexivity. Qed.

Lemma peval_cdf_poly_spec b m x : (b <= m)%nat -> pevalR (cdf_poly b m) x = BinomCDF b m x.
Proof.
  induction b as [|b IH]; intros H; cbn [cdf_poly]; unfold BinomCDF in *; cbn [sum_f_R0].
  - apply peval_pmf_poly_spec; lia.
  - rewrite peval_padd, IH by lia. rewrite peval_pmf_poly_spec by lia. reflexivity.
Qed.

(** antiderivative *)
Definition Pint (p : list R) (x : R) : R := pevalR (pint p) x.

Lemma Pint_0 p : Pint p 0 = 0.
Proof. unfold Pint, pint. rewrite peval_cons. unfold zero; cbn [ofZ RealA]. lra. Qed.

Lemma is_derive_pint_from p : forall (n : nat) (x : R),
  is_derive (fun x => x ^ S n * pevalR (pint_from (Z.of_nat (S n)) p) x) x (x ^ n * pevalR p x).
Proof.
  induction p as [|c p IH]; intros n x.
  - cbn [pint_from]. apply (is_derive_ext (fun _ => 0)).
    + intros t. rewrite peval_nil. lra.
    + rewrite peval_nil. replace (x ^ n * 0) with 0 by lra. apply (@is_derive_const R_AbsRing R_NormedModule).
  - cbn [pint_from].
    replace (Z.of_nat (S n) + 1)%Z with (Z.of_nat (S (S n))) by lia.
    apply (is_derive_ext (fun x => c / INR (S n) * x ^ S n + x ^ S (S n) * pevalR (pint_from (Z.of_nat (S (S n))) p) x)).
    + intros t. rewrite peval_cons. cbn [div ofZ RealA]. rewrite <- INR_IZR_INZ. cbn [pow]. lra.
    + rewrite peval_cons. replace (x ^ n * (c + x * pevalR p x)) with (c * x ^ n + x ^ S n * pevalR p x) by (cbn [pow]; lra).
      apply (@is_derive_plus R_AbsRing R_NormedModule); [|apply IH].
      assert (Hn : INR (S n) <> 0) by (apply not_0_INR; lia).
      auto_derive; [exact I|]. change (match n with | 0%nat => 1 | S _ => INR n + 1 end) with (INR (S n)). field. assumption.
Qed.

Lemma is_derive_Pint p x : is_derive (Pint p) x (pevalR p x).
Proof.
  unfold Pint, pint.
  apply (is_derive_ext (fun x => x ^ 1 * pevalR (pint_from (Z.of_nat 1) p) x)).
  - intros t. rewrite peval_cons. unfold zero; cbn [ofZ RealA Z.of_nat Pos.of_succ_nat]. lra.
  - replace (pevalR p x) with (x ^ 0 * pevalR p x) by (cbn [pow]; lra). apply is_derive_pint_from.
Qed.

Lemma Pint_padd p q x : Pint (padd p q) x = Pint p x + Pint q x.
Proof.
  unfold Pint, pint. rewrite !peval_cons.
  assert (H : forall i, (0 < i)%Z -> forall p q, pevalR (pint_from i (padd p q)) x = pevalR (pint_from i p) x + pevalR (pint_from i q) x).
  { clear p q. intros i Hi p. revert i Hi. induction p as [|a p IH]; intros i Hi q.
    - cbn [padd pint_from]. rewrite peval_nil. lra.
    - destruct q as [|c q]; cbn [padd pint_from].
      + rewrite peval_nil. lra.
      + rewrite !peval_cons, IH by lia. cbn [add div ofZ RealA].
        assert (IZR i <> 0) by (apply not_0_IZR; lia). change (num RealA) with R in *. field. assumption. }
  rewrite H by lia. unfold zero; cbn [add ofZ RealA]. lra.
Qed.

(** ** mean value theorem on antiderivatives *)
Lemma is_derive_continuity_pt (F : R -> R) (x l : R) : is_derive F x l -> continuity_pt F x.
Proof.
  intros H. apply derivable_continuous_pt. apply ex_derive_Reals_0. exists l. exact H.
Qed.

Lemma antideriv_mvt (F f : R -> R) (a b : R) : a <= b -> (forall x, is_derive F x (f x)) ->
  exists c, a <= c <= b /\ F b - F a = f c * (b - a).
Proof.
  intros Hab HF.
  destruct (MVT_gen F a b f) as [c [Hc Heq]].
  - intros x _. apply HF.
  - intros x _. apply (is_derive_continuity_pt F x (f x)). apply HF.
  - rewrite Rmin_left, Rmax_right in Hc by assumption. exists c. split; assumption.
Qed.

Lemma antideriv_diff (F G f : R -> R) (a b : R) : a <= b ->
  (forall x, is_derive F x (f x)) -> (forall x, is_derive G x (f x)) -> F b - F a = G b - G a.
Proof.
  intros Hab HF HG.
  destruct (antideriv_mvt (fun x => F x - G x) (fun _ => 0) a b Hab) as [c [_ Heq]].
  - intros x. replace 0 with (f x - f x) by lra.
    apply (@is_derive_minus R_AbsRing R_NormedModule F G x (f x) (f x)); [apply HF | apply HG].
  - lra.
Qed.

(** ** the Beta integral: every term of the binomial expansion integrates to 1/(m+1) over [0,1] *)
Lemma C_succ k d : Binomial.C (k + S d) (S k) = Binomial.C (k + S d) k * INR (S d) / INR (S k).
Proof.
  unfold Binomial.C.
  replace (k + S d - S k)%nat with d by lia. replace (k + S d - k)%nat with (S d) by lia.
  rewrite (fact_simpl k), (fact_simpl d), !mult_INR.
  pose proof (INR_fact_neq_0 k). pose proof (INR_fact_neq_0 d).
  assert (INR (S k) <> 0) by (apply not_0_INR; lia). assert (INR (S d) <> 0) by (apply not_0_INR; lia).
  field. repeat split; assumption.
Qed.

Definition Hstep (k d : nat) (x : R) : R := Binomial.C (k + S d) k / INR (S k) * (x ^ S k * (1 - x) ^ S d).

Lemma is_derive_Hstep k d x :
  is_derive (Hstep k d) x (BinomPMF (k + S d) k x - BinomPMF (k + S d) (S k) x).
Proof.
  unfold Hstep, BinomPMF.
  replace (k + S d - S k)%nat with d by lia. replace (k + S d - k)%nat with (S d) by lia.
  rewrite C_succ.
  assert (INR (S k) <> 0) by (apply not_0_INR; lia).
  set (c := Binomial.C (k + S d) k). set (sk := INR (S k)) in *. set (sd := INR (S d)).
  auto_derive; [exact I|].
  change (match k with | 0%nat => 1 | S _ => INR k + 1 end) with (INR (S k)).
  change (match d with | 0%nat => 1 | S _ => INR d + 1 end) with (INR (S d)).
  fold sk sd. cbn [Nat.pred pow]. change R in (type of x). unfold Rminus. field. assumption.
Qed.

Lemma Pint_pmf_step k d : Pint (pmf_poly (k + S d) k) 1 = Pint (pmf_poly (k + S d) (S k)) 1.
Proof.
  pose proof (antideriv_diff
    (fun x => Pint (pmf_poly (k + S d) k) x - Pint (pmf_poly (k + S d) (S k)) x)
    (Hstep k d)
    (fun x => BinomPMF (k + S d) k x - BinomPMF (k + S d) (S k) x) 0 1 ltac:(lra)) as H.
  cbv beta in H. rewrite !Pint_0 in H.
  assert (H0 : Hstep k d 0 = 0) by (unfold Hstep; rewrite pow_i by lia; ring).
  assert (H1 : Hstep k d 1 = 0) by (unfold Hstep; replace (1 - 1) with 0 by lra; rewrite (pow_i (S d)) by lia; ring).
  rewrite H0, H1 in H.
  enough (Pint (pmf_poly (k + S d) k) 1 - Pint (pmf_poly (k + S d) (S k)) 1 - (0 - 0) = 0 - 0) by lra.
  apply H.
  - intros x. rewrite <- (peval_pmf_poly_spec (k + S d) k x) by lia.
    rewrite <- (peval_pmf_poly_spec (k + S d) (S k) x) by lia.
    apply (@is_derive_minus R_AbsRing R_NormedModule); apply is_derive_Pint.
  - intros x. apply is_derive_Hstep.
Qed.

Lemma Pint_pmf_top m : Pint (pmf_poly m m) 1 = / (INR m + 1).
Proof.
  assert (Hn : INR (S m) <> 0) by (apply not_0_INR; lia).
  pose proof (antideriv_diff (Pint (pmf_poly m m)) (fun x => x ^ S m / INR (S m)) (fun x => x ^ m) 0 1 ltac:(lra)) as H.
  cbv beta in H. rewrite Pint_0 in H. rewrite pow1, pow_i in H by lia.
  rewrite <- S_INR.
  enough (Pint (pmf_poly m m) 1 - 0 = 1 / INR (S m) - 0 / INR (S m)) by (unfold Rdiv in *; lra).
  apply H.
  - intros x. replace (x ^ m) with (pevalR (pmf_poly m m) x); [apply is_derive_Pint|].
    rewrite peval_pmf_poly, binomZ_nn, Nat.sub_diag. cbn [pow]. lra.
  - intros x. auto_derive; [exact I|]. cbn [Nat.pred].
    change (match m with | 0%nat => 1 | S _ => INR m + 1 end) with (INR (S m)).
    change R in (type of x). field. assumption.
Qed.

Lemma Pint_pmf_all m : forall j k, (k + j = m)%nat -> Pint (pmf_poly m k) 1 = / (INR m + 1).
Proof.
  induction j as [|d IH]; intros k Hk.
  - replace k with m by lia. apply Pint_pmf_top.
  - subst m. rewrite Pint_pmf_step. apply IH. lia.
Qed.

Lemma Pint_cdf_1 b m : (b <= m)%nat -> Pint (cdf_poly b m) 1 = (INR b + 1) / (INR m + 1).
Proof.
  induction b as [|b IH]; intros Hb; cbn [cdf_poly].
  - rewrite (Pint_pmf_all m m 0) by lia. cbn [INR]. lra.
  - rewrite Pint_padd, IH by lia. rewrite (Pint_pmf_all m (m - S b) (S b)) by lia.
    rewrite (S_INR b). lra.
Qed.

(** bounds on the partial integral I(a) = int_0^a BinomCDF, 0 < a < 1 *)
Lemma Pint_cdf_bounds b m a : (b <= m)%nat -> 0 < a < 1 ->
  0 < Pint (cdf_poly b m) a <= a /\ Pint (cdf_poly b m) a < (INR b + 1) / (INR m + 1).
Proof.
  intros Hb Ha.
  destruct (antideriv_mvt (Pint (cdf_poly b m)) (pevalR (cdf_poly b m)) 0 a ltac:(lra)) as [c [Hc Heq]];
    [intros x; apply is_derive_Pint|].
  destruct (antideriv_mvt (Pint (cdf_poly b m)) (pevalR (cdf_poly b m)) a 1 ltac:(lra)) as [c' [Hc' Heq']];
    [intros x; apply is_derive_Pint|].
  rewrite Pint_0 in Heq. rewrite Pint_cdf_1 in Heq' by assumption.
  rewrite peval_cdf_poly_spec in Heq, Heq' by assumption.
  pose proof (BinomCDF_pos b m c Hb ltac:(lra)) as P1.
  pose proof (BinomCDF_le_1 b m c Hb ltac:(lra)) as P2.
  destruct (Req_dec c' 1) as [E|NE].
  - (* c' = 1: use the other interval's positivity through a midpoint *)
    destruct (antideriv_mvt (Pint (cdf_poly b m)) (pevalR (cdf_poly b m)) a ((a + 1) / 2) ltac:(lra)) as [c1 [Hc1 Heq1]];
      [intros x; apply is_derive_Pint|].
    destruct (antideriv_mvt (Pint (cdf_poly b m)) (pevalR (cdf_poly b m)) ((a + 1) / 2) 1 ltac:(lra)) as [c2 [Hc2 Heq2]];
      [intros x; apply is_derive_Pint|].
    rewrite Pint_cdf_1 in Heq2 by assumption.
    rewrite peval_cdf_poly_spec in Heq1, Heq2 by assumption.
    pose proof (BinomCDF_pos b m c1 Hb ltac:(lra)) as Q1.
    pose proof (BinomCDF_nonneg b m c2 Hb ltac:(lra)) as Q2.
    split; [split; nra | nra].
  - pose proof (BinomCDF_pos b m c' Hb ltac:(lra)) as P3.
    split; [split; nra | nra].
Qed.

(** ** approximate *)
Lemma half_over_R mt : (1 <= mt)%nat -> half_over (A:=RealA) mt = / (2 * INR mt).
Proof.
  intros H. unfold half_over, one, two. cbn [div ofZ RealA]. rewrite <- INR_IZR_INZ.
  assert (INR mt <> 0) by (apply not_0_INR; lia). change (num RealA) with R. field. assumption.
Qed.

Lemma half_over_range mt : (1 <= mt)%nat -> 0 < / (2 * INR mt) <= / 2.
Proof.
  intros H. assert (1 <= INR mt) by (change 1 with (INR 1); apply le_INR; assumption).
  split.
  - apply Rinv_0_lt_compat; lra.
  - apply Rinv_le_contravar; lra.
Qed.

Lemma continuity_pt_peval p x : continuity_pt (pevalR p) x.
Proof.
  induction p as [|c p IH].
  - apply continuity_pt_const. intros a b. reflexivity.
  - change (continuity_pt (plus_fct (fct_cte c) (mult_fct id (pevalR p))) x).
    apply continuity_pt_plus; [apply continuity_pt_const; intros a b; reflexivity|].
    apply continuity_pt_mult; [apply derivable_continuous_pt, derivable_pt_id | exact IH].
Qed.

Lemma continuous_peval p x : continuous (pevalR p) x.
Proof. apply continuity_pt_filterlim. apply continuity_pt_peval. Qed.

Lemma cdf_integral_RInt b m a : (b <= m)%nat ->
  cdf_integral (A:=RealA) b m a = RInt (BinomCDF b m) 0 a.
Proof.
  intros Hb. unfold cdf_integral. change (pevalR (pint (cdf_poly b m)) a) with (Pint (cdf_poly b m) a).
  rewrite <- (RInt_ext (pevalR (cdf_poly b m))) by (intros x _; apply peval_cdf_poly_spec; assumption).
  symmetry. apply is_RInt_unique.
  replace (Pint (cdf_poly b m) a) with (minus (Pint (cdf_poly b m) a) (Pint (cdf_poly b m) 0))
    by (rewrite Pint_0; unfold minus, plus, opp; simpl; lra).
  apply (is_RInt_derive (Pint (cdf_poly b m)) (pevalR (cdf_poly b m))).
  - intros x _. apply is_derive_Pint.
  - intros x _. apply continuous_peval.
Qed.

Definition PS_approximate (b m mt : nat) : R :=
  (INR b + 1) / (INR m + 1) - RInt (BinomCDF b m) 0 (/ (2 * INR mt)).
Definition Code_approximate (b m mt : nat) : R :=
  (INR b + 1) / (INR m + 1) - / (2 * INR mt) * RInt (BinomCDF b m) 0 (/ (2 * INR mt)).

Lemma ratio_R (b m : nat) :
  @div RealA (ofZ (Z.of_nat b + 1)) (ofZ (Z.of_nat m + 1)) = (INR b + 1) / (INR m + 1).
Proof. cbn [div ofZ RealA]. rewrite !plus_IZR, <- !INR_IZR_INZ. reflexivity. Qed.

Lemma approximate_code_R b m mt : (b <= m)%nat -> (1 <= mt)%nat ->
  pv_approximate (A:=RealA) b m mt = Code_approximate b m mt.
Proof.
  intros Hb Hmt. unfold pv_approximate, Code_approximate.
  rewrite ratio_R, cdf_integral_RInt, half_over_R by assumption. reflexivity.
Qed.

Lemma ps_approximate_R b m mt : (b <= m)%nat -> (1 <= mt)%nat ->
  ps_approximate (A:=RealA) b m mt = PS_approximate b m mt.
Proof.
  intros Hb Hmt. unfold ps_approximate, PS_approximate.
  rewrite ratio_R, cdf_integral_RInt, half_over_R by assumption. reflexivity.
Qed.

Lemma RInt_cdf_bounds b m a : (b <= m)%nat -> 0 < a < 1 ->
  0 < RInt (BinomCDF b m) 0 a <= a /\ RInt (BinomCDF b m) 0 a < (INR b + 1) / (INR m + 1).
Proof.
  intros Hb Ha. rewrite <- cdf_integral_RInt by assumption. apply Pint_cdf_bounds; assumption.
Qed.

Lemma ratio_le_1 (b m : nat) : (b <= m)%nat -> 0 < (INR b + 1) / (INR m + 1) <= 1.
Proof.
  intros H. pose proof (pos_INR b). assert (INR b <= INR m) by (apply le_INR; assumption).
  split; [apply Rdiv_lt_0_compat; lra | apply Rle_div_l; lra].
Qed.

Lemma code_approximate_in_unit b m mt : (b <= m)%nat -> (1 <= mt)%nat -> 0 < Code_approximate b m mt <= 1.
Proof.
  intros Hb Hmt. unfold Code_approximate.
  pose proof (half_over_range mt Hmt) as Ha.
  destruct (RInt_cdf_bounds b m (/ (2 * INR mt)) Hb ltac:(lra)) as [[I0 I1] I2].
  pose proof (ratio_le_1 b m Hb) as Hr.
  split; nra.
Qed.

Lemma ps_approximate_in_unit b m mt : (b <= m)%nat -> (1 <= mt)%nat -> 0 < PS_approximate b m mt <= 1.
Proof.
  intros Hb Hmt. unfold PS_approximate.
  pose proof (half_over_range mt Hmt) as Ha.
  destruct (RInt_cdf_bounds b m (/ (2 * INR mt)) Hb ltac:(lra)) as [[I0 I1] I2].
  pose proof (ratio_le_1 b m Hb) as Hr.
  split; lra.
Qed.

(** the code's value is strictly larger than Phipson-Smyth's for EVERY (b, m, m_t) *)
Lemma approximate_code_above_ps b m mt : (b <= m)%nat -> (1 <= mt)%nat ->
  PS_approximate b m mt < Code_approximate b m mt /\
  Code_approximate b m mt - PS_approximate b m mt = (1 - / (2 * INR mt)) * RInt (BinomCDF b m) 0 (/ (2 * INR mt)).
Proof.
  intros Hb Hmt. unfold PS_approximate, Code_approximate.
  pose proof (half_over_range mt Hmt) as Ha.
  destruct (RInt_cdf_bounds b m (/ (2 * INR mt)) Hb ltac:(lra)) as [[I0 I1] I2].
  split; nra.
Qed.

From Coq Require Import QArith Qreduction Qreals.
Local Close Scope Q_scope.

(** * Part 5 — the rational instance [QA] used for evaluation computes the same real numbers *)
Lemma Q2R_qadd x y : Q2R (qadd x y) = Q2R x + Q2R y.
Proof.
  unfold qadd. destruct (Pos.eqb_spec (Qden x) (Qden y)) as [e|ne].
  - unfold Q2R; cbn [Qnum Qden]. rewrite plus_IZR, <- e.
    assert (IZR (Zpos (Qden x)) <> 0) by (apply not_0_IZR; lia). field. assumption.
  - rewrite (Qeq_eqR _ _ (Qred_correct _)). apply Q2R_plus.
Qed.
Lemma Q2R_add x y : Q2R (@add QA x y) = Q2R x + Q2R y.
Proof. apply Q2R_qadd. Qed.
Lemma Q2R_sub x y : Q2R (@sub QA x y) = Q2R x - Q2R y.
Proof. cbn [sub QA]. rewrite Q2R_qadd, Q2R_opp. lra. Qed.
Lemma Q2R_mul x y : Q2R (@mul QA x y) = Q2R x * Q2R y.
Proof. apply Q2R_mult. Qed.
Lemma Q2R_div x y : ~ Qeq y 0%Q -> Q2R (@div QA x y) = Q2R x / Q2R y.
Proof. intros H. cbn [div QA]. rewrite (Qeq_eqR _ _ (Qred_correct _)). apply Q2R_div. assumption. Qed.
Lemma Q2R_ofZ z : Q2R (@ofZ QA z) = IZR z.
Proof. cbn [ofZ QA]. unfold Q2R, inject_Z; cbn [Qnum Qden]. unfold Rdiv. rewrite Rinv_1. ring. Qed.
Lemma ofZ_nonzero z : z <> 0%Z -> ~ Qeq (@ofZ QA z) 0%Q.
Proof. intros H. cbn [ofZ QA]. unfold Qeq, inject_Z; cbn [Qnum Qden]. lia. Qed.

Lemma Q2R_zero : Q2R (@zero QA) = @zero RealA.
Proof. unfold zero. apply Q2R_ofZ. Qed.
Lemma Q2R_one : Q2R (@one QA) = @one RealA.
Proof. unfold one. apply Q2R_ofZ. Qed.

Lemma Q2R_powN x n : Q2R (powN (A:=QA) x n) = powN (A:=RealA) (Q2R x) n.
Proof. induction n; cbn [powN]; [apply Q2R_one|]. rewrite Q2R_mul, IHn. reflexivity. Qed.

Lemma sum_upto_ext {A : Arith} (f g : nat -> NumSys.num A) b : (forall k, (k <= b)%nat -> f k = g k) -> sum_upto f b = sum_upto g b.
Proof. induction b; intros H; cbn [sum_upto]; [apply H; lia|]. rewrite IHb, H by (intros; try apply H; lia). reflexivity. Qed.

Lemma Q2R_sum_upto f b : Q2R (sum_upto (A:=QA) f b) = sum_upto (A:=RealA) (fun k => Q2R (f k)) b.
Proof. induction b; cbn [sum_upto]; [reflexivity|]. rewrite Q2R_add, IHb. reflexivity. Qed.

Lemma Q2R_binom_pmf m k p : Q2R (binom_pmf (A:=QA) m k p) = binom_pmf (A:=RealA) m k (Q2R p).
Proof.
  unfold binom_pmf. rewrite !Q2R_mul, !Q2R_powN, Q2R_sub, Q2R_one, Q2R_ofZ. reflexivity.
Qed.
Lemma Q2R_binom_cdf b m p : Q2R (binom_cdf (A:=QA) b m p) = binom_cdf (A:=RealA) b m (Q2R p).
Proof. unfold binom_cdf. rewrite Q2R_sum_upto. apply sum_upto_ext. intros; apply Q2R_binom_pmf. Qed.

Lemma Q2R_conservative b req : (req + 1 <> 0)%Z ->
  Q2R (pv_conservative (A:=QA) b req) = pv_conservative (A:=RealA) b req.
Proof. intros H. unfold pv_conservative. rewrite Q2R_div by (apply ofZ_nonzero; assumption). rewrite !Q2R_ofZ. reflexivity. Qed.

Lemma Q2R_estimate b len : (1 <= len)%nat -> Q2R (pv_estimate (A:=QA) b len) = pv_estimate (A:=RealA) b len.
Proof. intros H. unfold pv_estimate. rewrite Q2R_div by (apply ofZ_nonzero; lia). rewrite !Q2R_ofZ. reflexivity. Qed.

Lemma Q2R_exact b m mt : (1 <= mt)%nat -> Q2R (pv_exact (A:=QA) b m mt) = pv_exact (A:=RealA) b m mt.
Proof.
  intros H. destruct mt as [|mt']; [lia|]. unfold pv_exact.
  rewrite Q2R_div by (apply ofZ_nonzero; lia). rewrite Q2R_ofZ, Q2R_sum_upto. cbn [div ofZ RealA]. f_equal.
  apply sum_upto_ext. intros t _. rewrite Q2R_binom_cdf. f_equal.
  cbn [div ofZ RealA]. rewrite Q2R_div by (apply ofZ_nonzero; lia). rewrite !Q2R_ofZ. reflexivity.
Qed.

(** polynomials *)
Notation mapQ := (map Q2R).
Lemma Q2R_peval p x : Q2R (peval (A:=QA) p x) = peval (A:=RealA) (mapQ p) (Q2R x).
Proof. induction p as [|c p IH]; cbn [peval map]; [apply Q2R_zero|]. rewrite Q2R_add, Q2R_mul, IH. reflexivity. Qed.
Lemma mapQ_padd p q : mapQ (padd (A:=QA) p q) = padd (A:=RealA) (mapQ p) (mapQ q).
Proof.
  revert q; induction p as [|a p IH]; intros q; [reflexivity|].
  destruct q as [|c q]; cbn [padd map]; [reflexivity|]. rewrite Q2R_add, IH. reflexivity.
Qed.
Lemma mapQ_pscale c p : mapQ (pscale (A:=QA) c p) = pscale (A:=RealA) (Q2R c) (mapQ p).
Proof. unfold pscale. induction p as [|a p IH]; cbn [map]; [reflexivity|]. rewrite Q2R_mul, IH. reflexivity. Qed.
Lemma mapQ_pmulx p : mapQ (pmulx (A:=QA) p) = pmulx (A:=RealA) (mapQ p).
Proof. unfold pmulx. cbn [map]. rewrite Q2R_zero. reflexivity. Qed.
Lemma mapQ_pmul1mx p : mapQ (pmul1mx (A:=QA) p) = pmul1mx (A:=RealA) (mapQ p).
Proof. unfold pmul1mx. rewrite mapQ_padd, mapQ_pscale, mapQ_pmulx, Q2R_sub, Q2R_zero, Q2R_one. reflexivity. Qed.
Lemma mapQ_piter fq fr n p : (forall p, mapQ (fq p) = fr (mapQ p)) ->
  mapQ (piter (A:=QA) fq n p) = piter (A:=RealA) fr n (mapQ p).
Proof. intros H. induction n; cbn [piter]; [reflexivity|]. rewrite H, IHn. reflexivity. Qed.
Lemma mapQ_pmf_poly m k : mapQ (pmf_poly (A:=QA) m k) = pmf_poly (A:=RealA) m k.
Proof.
  unfold pmf_poly. rewrite mapQ_pscale, Q2R_ofZ.
  rewrite (mapQ_piter _ (pmulx (A:=RealA))) by apply mapQ_pmulx.
  rewrite (mapQ_piter _ (pmul1mx (A:=RealA))) by apply mapQ_pmul1mx.
  cbn [map]. rewrite Q2R_one. reflexivity.
Qed.
Lemma mapQ_cdf_poly b m : mapQ (cdf_poly (A:=QA) b m) = cdf_poly (A:=RealA) b m.
Proof. induction b; cbn [cdf_poly]; [apply mapQ_pmf_poly|]. rewrite mapQ_padd, IHb, mapQ_pmf_poly. reflexivity. Qed.
Lemma mapQ_pint_from i p : (0 < i)%Z -> mapQ (pint_from (A:=QA) i p) = pint_from (A:=RealA) i (mapQ p).
Proof.
  revert i; induction p as [|c p IH]; intros i Hi; cbn [pint_from map]; [reflexivity|].
  rewrite Q2R_div by (apply ofZ_nonzero; lia). rewrite Q2R_ofZ, IH by lia. reflexivity.
Qed.
Lemma mapQ_pint p : mapQ (pint (A:=QA) p) = pint (A:=RealA) (mapQ p).
Proof. unfold pint. cbn [map]. rewrite Q2R_zero, mapQ_pint_from by lia. reflexivity. Qed.
Lemma Q2R_cdf_integral b m a : Q2R (cdf_integral (A:=QA) b m a) = cdf_integral (A:=RealA) b m (Q2R a).
Proof. unfold cdf_integral. rewrite Q2R_peval, mapQ_pint, mapQ_cdf_poly. reflexivity. Qed.
Lemma Q2R_half_over mt : (1 <= mt)%nat -> Q2R (half_over (A:=QA) mt) = half_over (A:=RealA) mt.
Proof.
  intros H. unfold half_over, two.
  rewrite Q2R_div by (apply ofZ_nonzero; lia). rewrite Q2R_div by (apply ofZ_nonzero; lia).
  rewrite Q2R_one, !Q2R_ofZ. reflexivity.
Qed.
Lemma Q2R_ratio (b m : nat) :
  Q2R (@div QA (ofZ (Z.of_nat b + 1)) (ofZ (Z.of_nat m + 1))) = @div RealA (ofZ (Z.of_nat b + 1)) (ofZ (Z.of_nat m + 1)).
Proof. rewrite Q2R_div by (apply ofZ_nonzero; lia). rewrite !Q2R_ofZ. reflexivity. Qed.
Lemma Q2R_approximate b m mt : (1 <= mt)%nat ->
  Q2R (pv_approximate (A:=QA) b m mt) = pv_approximate (A:=RealA) b m mt.
Proof.
  intros H. unfold pv_approximate. rewrite Q2R_sub, Q2R_mul, Q2R_cdf_integral, Q2R_half_over, Q2R_ratio by assumption. reflexivity.
Qed.
Lemma Q2R_ps_approximate b m mt : (1 <= mt)%nat ->
  Q2R (ps_approximate (A:=QA) b m mt) = ps_approximate (A:=RealA) b m mt.
Proof.
  intros H. unfold ps_approximate. rewrite Q2R_sub, Q2R_cdf_integral, Q2R_half_over, Q2R_ratio by assumption. reflexivity.
Qed.

Lemma Q2R_0 : Q2R 0%Q = 0. Proof. unfold Q2R; cbn. lra. Qed.
Lemma Q2R_1 : Q2R 1%Q = 1. Proof. unfold Q2R; cbn. lra. Qed.
Lemma in_unit_Q q : 0 < Q2R q <= 1 -> (0 < q /\ q <= 1)%Q.
Proof. intros [H1 H2]. split; [apply Rlt_Qlt; rewrite Q2R_0; assumption | apply Rle_Qle; rewrite Q2R_1; assumption]. Qed.

(** the range theorems, stated on the very terms the check evaluates with [vm_compute] *)
Theorem exact_in_unit_Q b m mt : (b <= m)%nat -> (2 <= mt)%nat ->
  (0 < pv_exact (A:=QA) b m mt /\ pv_exact (A:=QA) b m mt <= 1)%Q.
Proof.
  intros Hb Hmt. apply in_unit_Q. rewrite Q2R_exact by lia. rewrite exact_formula_R by lia.
  apply exact_in_unit_R; assumption.
Qed.

Theorem approximate_in_unit_Q b m mt : (b <= m)%nat -> (1 <= mt)%nat ->
  (0 < pv_approximate (A:=QA) b m mt /\ pv_approximate (A:=QA) b m mt <= 1)%Q.
Proof.
  intros Hb Hmt. apply in_unit_Q. rewrite Q2R_approximate, approximate_code_R by assumption.
  apply code_approximate_in_unit; assumption.
Qed.

Theorem conservative_in_unit_Q (b len : nat) (requested : Z) : (b <= len)%nat -> (Z.of_nat len <= requested)%Z ->
  (0 < pv_conservative (A:=QA) b requested /\ pv_conservative (A:=QA) b requested <= 1)%Q.
Proof.
  intros Hb Hl. apply in_unit_Q. rewrite Q2R_conservative by lia. apply (conservative_in_unit_R b len); assumption.
Qed.

(** * Part 6 — the dispatcher, and the two clauses the code does not meet *)
Lemma auto_is_exact_lemma requested : (requested <= MAX_NUM_PERM)%Z -> resolve Auto requested = Exact.
Proof. intros H. unfold resolve. destruct (requested >? MAX_NUM_PERM)%Z eqn:E; [lia | reflexivity]. Qed.

(** 'conservative' divides by the number of null statistics computed + 1 (after fix 5423711),
    whatever was requested and whichever branch produced them *)
Lemma conservative_formula_lemma (b len : nat) (requested : Z) total max_num :
  p_value (A:=RealA) Conservative requested total max_num b len = ((INR b + 1) / (INR len + 1))%R.
Proof. unfold p_value, resolve. rewrite conservative_formula_R, <- INR_IZR_INZ. reflexivity. Qed.

(** regression witness for F22: 3 pooled samples, 10 permutations requested, 6 enumerated, b = 0: 1/7 (was 1/11) *)
Lemma conservative_enumeration_witness :
  Qpair (p_value (A:=QA) Conservative 10 None 6 0 6) = (1, 7)%Z.
Proof. vm_compute. reflexivity. Qed.

(** F23: b = 0, m = 16, m_t = 2: the code returns 0.04423, Phipson-Smyth's formula 0.000442 *)
Lemma approximate_formula_refuted_lemma :
  Qpair (pv_approximate (A:=QA) 0 16 2) = (51668747715, 1168231104512)%Z /\
  Qpair (ps_approximate (A:=QA) 0 16 2) = (129140163, 292057776128)%Z.
Proof. split; vm_compute; reflexivity. Qed.
