(** Proofs about the history callback and the reset callback (Model/Callbacks.v). *)
From Coq Require Import ZArith String List Bool Lia.
From FV Require Import NumSys Py Detector Callbacks Structural.
Import ListNotations.

(** * Registration *)
Lemma add_vars_in : forall vs tracked x, In x (add_vars tracked vs) <-> In x tracked \/ In x vs.
Proof.
  induction vs as [|v r IH]; intros tracked x; cbn [add_vars].
  - split; [intro H; left; exact H|intros [H|[]]; exact H].
  - rewrite IH. destruct (in_dec string_dec v tracked) as [Hin|Hnin].
    + split.
      * intros [H|H]; [left; exact H|right; right; exact H].
      * intros [H|[H|H]]; [left; exact H|subst; left; exact Hin|right; exact H].
    + rewrite in_app_iff. cbn [In]. split.
      * intros [[H|[H|[]]]|H]; [left; exact H|right; left; exact H|right; right; exact H].
      * intros [H|[H|H]]; [left; left; exact H|left; right; left; exact H|right; exact H].
Qed.

Lemma NoDup_snoc {T} (l : list T) (x : T) : NoDup l -> ~ In x l -> NoDup (l ++ [x]).
Proof.
  induction l as [|a l IH]; intros Hnd Hx; cbn [app].
  - constructor; [intros []|constructor].
  - inversion Hnd as [|a' l' Ha Hl]; subst. constructor.
    + rewrite in_app_iff. intros [H|[H|[]]]; [exact (Ha H)|]. subst. apply Hx. left. reflexivity.
    + apply IH; [exact Hl|]. intro H. apply Hx. right. exact H.
Qed.

Lemma add_vars_nodup : forall vs tracked, NoDup tracked -> NoDup (add_vars tracked vs).
Proof.
  induction vs as [|v r IH]; intros tracked Hnd; cbn [add_vars]; [exact Hnd|].
  apply IH. destruct (in_dec string_dec v tracked) as [Hin|Hnin]; [exact Hnd|].
  apply NoDup_snoc; assumption.
Qed.

Theorem register_nodup : forall levels, NoDup (register levels).
Proof.
  intros levels. unfold register.
  assert (H : forall ls acc, NoDup acc -> NoDup (fold_left add_vars ls acc)).
  { induction ls as [|l ls IH]; intros acc Hacc; cbn [fold_left]; [exact Hacc|].
    apply IH. apply add_vars_nodup. exact Hacc. }
  apply H. constructor.
Qed.

Theorem register_complete : forall levels x,
  In x (register levels) <-> exists l, In l levels /\ In x l.
Proof.
  intros levels x. unfold register.
  assert (H : forall ls acc, In x (fold_left add_vars ls acc) <-> In x acc \/ exists l, In l ls /\ In x l).
  { induction ls as [|l ls IH]; intros acc; cbn [fold_left].
    - split; [intro H; left; exact H|intros [H|(l & [] & _)]; exact H].
    - rewrite IH, add_vars_in. split.
      + intros [[H|H]|(l' & Hl' & Hx)].
        * left; exact H.
        * right. exists l. split; [left; reflexivity|exact H].
        * right. exists l'. split; [right; exact Hl'|exact Hx].
      + intros [H|(l' & [Hl'|Hl'] & Hx)].
        * left; left; exact H.
        * subst. left; right; exact Hx.
        * right. exists l'. split; assumption. }
  rewrite H. split; [intros [[]|H']; exact H'|intro H'; right; exact H'].
Qed.

(** the unrepaired registration keeps every occurrence *)
Lemma register_dup_concat : forall levels, register_dup levels = List.concat levels.
Proof.
  intros levels. unfold register_dup.
  assert (H : forall ls acc, fold_left add_vars_dup ls acc = acc ++ List.concat ls).
  { induction ls as [|l ls IH]; intros acc; cbn [fold_left List.concat]; [rewrite app_nil_r; reflexivity|].
    rewrite IH. unfold add_vars_dup. rewrite app_assoc. reflexivity. }
  rewrite H. reflexivity.
Qed.

(** * History *)
Section HistoryProofs.
  Variable D : Detector.
  Variable V : Type.
  Variable vars : d_st D -> string -> V.
  Notation hist := (hist D V).

  Lemma sys_fst : forall c tracked ops s (h : hist),
    fst (fold_left (sys_apply D V vars c tracked) ops (s, h)) = exec_from D c s ops.
  Proof.
    intros c tracked ops. induction ops as [|o r IH]; intros s h; cbn [fold_left]; [reflexivity|].
    destruct o as [v|]; cbn [sys_apply fst snd]; rewrite IH; reflexivity.
  Qed.

  (** attaching the callback never changes the detector: its state after any history is the
      state of the detector run alone *)
  Theorem history_noninterfering : forall c tracked ops,
    fst (sys_exec D V vars c tracked ops) = exec D c ops.
  Proof. intros. unfold sys_exec, exec. apply sys_fst. Qed.

  Lemma trace_from_snoc : forall c ops s o,
    trace_from D c s (ops ++ [o]) = trace_from D c s ops ++ [apply D c (exec_from D c s ops) o].
  Proof.
    intros c ops. induction ops as [|a r IH]; intros s o; cbn [app trace_from]; [reflexivity|].
    rewrite IH. reflexivity.
  Qed.

  Lemma trace_from_length : forall c ops s, length (trace_from D c s ops) = length ops.
  Proof. intros c ops. induction ops as [|a r IH]; intros s; cbn [trace_from length]; [reflexivity|]. rewrite IH. reflexivity. Qed.

  (** the column of variable [k] after the states [sts]: one entry per occurrence of [k] in
      the tracked list, per update *)
  Definition col (tracked : list string) (k : string) (sts : list (d_st D)) : list V :=
    List.concat (map (fun s => repeat (vars s k) (count_occ string_dec tracked k)) sts).

  Lemma col_snoc : forall tracked k sts s,
    col tracked k (sts ++ [s]) = col tracked k sts ++ repeat (vars s k) (count_occ string_dec tracked k).
  Proof.
    intros. unfold col. rewrite map_app, concat_app. cbn [map List.concat]. rewrite app_nil_r. reflexivity.
  Qed.

  Lemma append_at_map : forall (keys : list string) (f : string -> list V) t x, NoDup keys ->
    append_at V t x (map (fun k => (k, f k)) keys) =
    map (fun k => (k, if string_dec t k then f k ++ [x] else f k)) keys.
  Proof.
    induction keys as [|k ks IH]; intros f t x Hnd; cbn [map append_at]; [reflexivity|].
    inversion Hnd as [|k' ks' Hk Hks]; subst.
    destruct (string_dec t k) as [E|NE].
    - subst t. f_equal. apply map_ext_in. intros k' Hk'.
      destruct (string_dec k k') as [E'|_]; [subst; contradiction|reflexivity].
    - f_equal. apply IH. exact Hks.
  Qed.

  Lemma fold_append : forall (tracked keys : list string) (f : string -> list V) (g : string -> V),
    NoDup keys ->
    fold_left (fun hv k => append_at V k (g k) hv) tracked (map (fun k => (k, f k)) keys) =
    map (fun k => (k, f k ++ repeat (g k) (count_occ string_dec tracked k))) keys.
  Proof.
    induction tracked as [|t r IH]; intros keys f g Hnd; cbn [fold_left count_occ].
    - apply map_ext. intros k. cbn [repeat]. rewrite app_nil_r. reflexivity.
    - rewrite append_at_map by exact Hnd.
      rewrite (IH keys (fun k => if string_dec t k then f k ++ [g t] else f k) g Hnd).
      apply map_ext. intros k. destruct (string_dec t k) as [E|NE].
      + subst t. cbn [repeat]. rewrite <- app_assoc. reflexivity.
      + reflexivity.
  Qed.

  (** invariant linking the callback's history to the detector states since the last reset *)
  Definition HistOf (c : d_cfg D) (tracked : list string) (b : d_st D) (tl : list (d_in D))
             (s : d_st D) (h : hist) : Prop :=
    s = exec_from D c b (map Upd tl) /\
    h_value D V h = tl /\
    h_ninst D V h = map (d_ninst D) (trace_from D c b (map Upd tl)) /\
    h_drift D V h = map (d_drift D) (trace_from D c b (map Upd tl)) /\
    h_vars D V h = map (fun k => (k, col tracked k (trace_from D c b (map Upd tl)))) (nodup string_dec tracked).

  Lemma HistOf_run : forall c tracked ops b tl s h, HistOf c tracked b tl s h ->
    let sh := fold_left (sys_apply D V vars c tracked) ops (s, h) in
    let bt := split_last_reset D c b tl ops in
    HistOf c tracked (fst bt) (snd bt) (fst sh) (snd sh).
  Proof.
    intros c tracked ops. induction ops as [|o r IH]; intros b tl s h HI; cbn [fold_left split_last_reset].
    - exact HI.
    - destruct HI as (Hs & Hv & Hn & Hd & Hc).
      destruct o as [v|]; cbn [sys_apply fst snd].
      + apply IH. unfold HistOf.
        rewrite map_app. cbn [map]. rewrite trace_from_snoc, exec_from_app. cbn [exec_from fold_left apply].
        rewrite <- Hs. rewrite !map_app. cbn [map on_update_end h_value h_ninst h_drift h_vars].
        repeat split.
        * rewrite Hv. reflexivity.
        * rewrite Hn. reflexivity.
        * rewrite Hd. reflexivity.
        * rewrite Hc. rewrite fold_append by apply NoDup_nodup.
          apply map_ext. intros k. rewrite col_snoc. reflexivity.
      + apply IH. unfold HistOf. cbn [map trace_from exec_from fold_left hist_reset h_value h_ninst h_drift h_vars].
        rewrite <- Hs. repeat split.
        rewrite Hc, map_map. apply map_ext. intros k. reflexivity.
  Qed.

  Lemma HistOf_init : forall c tracked, HistOf c tracked (d_init D c) [] (d_init D c) (hist_init D V tracked).
  Proof. intros. unfold HistOf, hist_init. cbn. repeat split. Qed.

  Lemma lookup_map : forall (keys : list string) (g : string -> list V) k, In k keys ->
    lookup V k (map (fun k => (k, g k)) keys) = Some (g k).
  Proof.
    unfold lookup. induction keys as [|a ks IH]; intros g k Hin; [destruct Hin|].
    cbn [map find fst snd]. destruct (string_dec k a) as [E|NE]; [subst; reflexivity|].
    destruct Hin as [E|Hin]; [subst; contradiction|]. apply IH. exact Hin.
  Qed.

  Lemma col_one : forall tracked k sts, count_occ string_dec tracked k = 1%nat ->
    col tracked k sts = map (fun s => vars s k) sts.
  Proof.
    intros tracked k sts H. unfold col. rewrite H. induction sts as [|s r IH]; cbn; [reflexivity|].
    f_equal. exact IH.
  Qed.

  (** HistoryConceptDrift records exactly one entry per update for every tracked variable, entry i
      being the input value / instance count / drift flag / variable right after update i
      (since the last reset); with a variable listed several times it would record that many. *)
  Theorem history_contents : forall c tracked ops,
    let h := logs D V (sys_exec D V vars c tracked ops) in
    let sts := states_since_reset D c ops in
    h_value D V h = snd (base_and_tail D c ops) /\
    h_ninst D V h = map (d_ninst D) sts /\
    h_drift D V h = map (d_drift D) sts /\
    (forall k, In k tracked -> lookup V k (h_vars D V h) = Some (col tracked k sts)).
  Proof.
    intros c tracked ops. cbv zeta. unfold logs, sys_exec, states_since_reset, base_and_tail.
    pose proof (HistOf_run c tracked ops _ _ _ _ (HistOf_init c tracked)) as H. cbv zeta in H.
    destruct (split_last_reset D c (d_init D c) [] ops) as [b tl]. cbn [fst snd] in *.
    destruct H as (_ & Hv & Hn & Hd & Hc). repeat split; try assumption.
    intros k Hk. rewrite Hc. apply lookup_map. apply nodup_In. exact Hk.
  Qed.

  Theorem history_one_per_update : forall c tracked ops, NoDup tracked ->
    let h := logs D V (sys_exec D V vars c tracked ops) in
    let sts := states_since_reset D c ops in
    forall k, In k tracked -> lookup V k (h_vars D V h) = Some (map (fun s => vars s k) sts).
  Proof.
    intros c tracked ops Hnd h sts k Hk.
    destruct (history_contents c tracked ops) as (_ & _ & _ & H). fold h sts in H.
    rewrite (H k Hk). f_equal. apply col_one.
    apply NoDup_count_occ' ; assumption.
  Qed.

  Lemma since_reset_split : forall c ops s0 pending,
    since_reset D ops (Z.of_nat (length pending)) =
    Z.of_nat (length (snd (split_last_reset D c s0 pending ops))).
  Proof.
    intros c ops. induction ops as [|o r IH]; intros s0 pending; cbn [since_reset split_last_reset snd]; [reflexivity|].
    destruct o as [v|].
    - rewrite <- IH. rewrite app_length. cbn [length]. f_equal. lia.
    - rewrite <- IH. reflexivity.
  Qed.

  Theorem history_length : forall c ops,
    Z.of_nat (length (states_since_reset D c ops)) = updates_since_reset D ops.
  Proof.
    intros c ops. unfold states_since_reset, base_and_tail, updates_since_reset.
    change 0%Z with (Z.of_nat (length (@nil (d_in D)))).
    rewrite (since_reset_split c ops (d_init D c) []).
    destruct (split_last_reset D c (d_init D c) [] ops) as [b tl]. cbn [snd].
    rewrite trace_from_length, map_length. reflexivity.
  Qed.

  Lemma col_length : forall tracked k sts,
    length (col tracked k sts) = (count_occ string_dec tracked k * length sts)%nat.
  Proof.
    intros. unfold col. induction sts as [|s r IH]; cbn [map List.concat length]; [lia|].
    rewrite app_length, repeat_length, IH. lia.
  Qed.

  Lemma split_snoc_rst : forall c ops s0 p, split_last_reset D c s0 p (ops ++ [Rst]) =
      (d_reset D c (exec_from D c (fst (split_last_reset D c s0 p ops))
                       (map Upd (snd (split_last_reset D c s0 p ops)))), []).
  Proof.
    intros c ops. induction ops as [|o r IH]; intros s0 p; cbn [app split_last_reset fst snd]; [reflexivity|].
    destruct o; apply IH.
  Qed.

  (** reset empties the history *)
  Theorem reset_empties : forall c tracked ops,
    let h := logs D V (sys_exec D V vars c tracked (ops ++ [Rst])) in
    h_value D V h = [] /\ h_ninst D V h = [] /\ h_drift D V h = [] /\
    forall k, In k tracked -> lookup V k (h_vars D V h) = Some [].
  Proof.
    intros c tracked ops. cbv zeta.
    destruct (history_contents c tracked (ops ++ [Rst])) as (Hv & Hn & Hd & Hc).
    unfold states_since_reset, base_and_tail in *. rewrite split_snoc_rst in *. cbn [snd map trace_from] in *.
    split; [exact Hv|]. split; [exact Hn|]. split; [exact Hd|].
    intros k Hk. rewrite (Hc k Hk). reflexivity.
  Qed.
End HistoryProofs.

(** * Reset callback *)
Section ResetProofs.
  Context {A : Arith}.
  Variables Ref X Res : Type.
  Variable test : Ref -> X -> Res.
  Variable pval : Res -> num A.

  (** the detector is reset exactly when the returned p-value <= alpha, and the result
      handed back is the one computed with the reference in place (before the reset) *)
  Theorem reset_iff : forall alpha r x,
    exists s', compare_cb Ref X Res test pval alpha (Some r) x = Ok (s', test r x) /\
               (s' = None <-> leb (pval (test r x)) alpha = true) /\
               (s' = Some r <-> leb (pval (test r x)) alpha = false).
  Proof.
    intros alpha r x. unfold compare_cb.
    destruct (leb (pval (test r x)) alpha) eqn:E.
    - exists None. repeat split; intros; try reflexivity; discriminate.
    - exists (Some r). repeat split; intros; try reflexivity; discriminate.
  Qed.

  Theorem compare_unfitted : forall alpha x,
    compare_cb Ref X Res test pval alpha None x = Raise MissingFitError.
  Proof. reflexivity. Qed.

  (** over any history of fit / compare / reset calls: every compare answered on a fitted
      detector returns [test ref x] for the reference in place at that moment *)
  Fixpoint expected (alpha : num A) (s : bstate Ref) (ops : list (bop Ref X)) : list (option (res Res)) :=
    match ops with
    | [] => []
    | BFit r :: t => None :: expected alpha (Some r) t
    | BRst :: t => None :: expected alpha None t
    | BCmp x :: t =>
        match s with
        | None => Some (Raise MissingFitError) :: expected alpha None t
        | Some r => Some (Ok (test r x)) ::
                    expected alpha (if leb (pval (test r x)) alpha then None else Some r) t
        end
    end.

  Theorem brun_outputs : forall alpha ops s,
    snd (brun Ref X Res test pval alpha s ops) = expected alpha s ops.
  Proof.
    intros alpha ops. induction ops as [|o t IH]; intros s; cbn [brun expected]; [reflexivity|].
    destruct o as [r|x|]; cbn [bapply].
    - specialize (IH (Some r)). destruct (brun _ _ _ _ _ alpha (Some r) t) as [s'' outs]. cbn [snd] in *. rewrite IH. reflexivity.
    - destruct s as [r|]; cbn [compare_cb].
      + specialize (IH (if leb (pval (test r x)) alpha then None else Some r)).
        destruct (brun _ _ _ _ _ alpha _ t) as [s'' outs]. cbn [snd] in *. rewrite IH. reflexivity.
      + specialize (IH None). destruct (brun _ _ _ _ _ alpha None t) as [s'' outs]. cbn [snd] in *. rewrite IH. reflexivity.
    - specialize (IH None). destruct (brun _ _ _ _ _ alpha None t) as [s'' outs]. cbn [snd] in *. rewrite IH. reflexivity.
  Qed.
End ResetProofs.
