(** Proofs about Model/AQueue.v: for EVERY sequence of enqueue / dequeue / clear / keep-last operations the repaired
    AccuracyQueue holds the contents of a bounded deque and its true / false counters count them; the method before the
    repair does not (a three-operation witness). *)
From Coq Require Import ZArith List Bool Lia.
From FV Require Import NumSys Py Queue QueueRef AQueue.
Import ListNotations.
Local Open Scope Z_scope.

Lemma aq_dequeue_rel : forall M a x t, aq_rel M a (x :: t) ->
  exists a', aq_dequeue a = Ok (a', Some x) /\ aq_rel M a' t.
Proof.
  intros M a x t [Hrel Ht]. destruct (cq_dequeue_rel M (a_q a) x t Hrel) as (q' & Hd & Hrel').
  unfold aq_dequeue. rewrite Hd. cbn [bind]. rewrite count_true_cons in Ht.
  assert (Hge : 0 <= a_true a - ob2z (Some x)).
  { rewrite Ht. unfold ob2z, b2z. destruct x; lia. }
  destruct (Z.ltb_spec (a_true a - ob2z (Some x)) 0) as [Hlt|_]; [lia|].
  eexists. split; [reflexivity|]. split; [exact Hrel'|]. cbn [a_true]. rewrite Ht. unfold ob2z, b2z. destruct x; lia.
Qed.

Lemma aq_dequeue_empty : forall M a, aq_rel M a [] -> aq_dequeue a = Raise EmptyQueueError.
Proof.
  intros M a [Hrel _]. unfold aq_dequeue, cq_dequeue, cq_is_empty. rewrite (cq_rel_count _ _ _ Hrel). reflexivity.
Qed.

Lemma dq_keep_last_cases : forall d : list bool, d = [] /\ dq_keep_last d = [] \/ exists x, dq_keep_last d = [x].
Proof.
  intros d. unfold dq_keep_last. destruct (rev d) as [|x r] eqn:E.
  - left. split; [|reflexivity]. apply (f_equal (@rev bool)) in E. rewrite rev_involutive in E. exact E.
  - right. exists x. reflexivity.
Qed.

Lemma aq_keep_rel : forall M a d, aq_rel M a d -> aq_rel M (aq_keep a) (dq_keep_last d).
Proof.
  intros M a d [Hrel Ht]. pose proof (cq_keep_rel M (a_q a) d Hrel) as Hk.
  pose proof (cq_rel_count _ _ _ Hk) as Hc. pose proof (cq_rel_abs _ _ _ Hk) as Ha.
  unfold aq_keep, cq_is_empty. rewrite Hc.
  destruct (dq_keep_last_cases d) as [[Hd E]|[x E]]; rewrite E in *; cbn [length] in *.
  - change (Z.of_nat 0 =? 0) with true. cbv iota. split; [exact Hk|]. cbn [a_true]. subst d. exact Ht.
  - change (Z.of_nat 1 =? 0) with false. cbv iota. split; [exact Hk|]. cbn [a_true a_q].
    unfold cq_abs in Ha. rewrite Hc in Ha. change (Z.to_nat (Z.of_nat 1)) with 1%nat in Ha. cbn [read_from map] in Ha.
    injection Ha as Hs. rewrite Hs. unfold ob2z. destruct x; reflexivity.
Qed.

Lemma aq_clear_rel : forall M a d, 1 <= M -> aq_rel M a d -> aq_rel M (aq_clear a) [].
Proof.
  intros M a d HM [Hrel _]. unfold aq_clear. rewrite (cq_rel_max _ _ _ Hrel). split; [apply cq_init_rel; exact HM|reflexivity].
Qed.

Lemma aq_apply_sim : forall M a d o, 1 <= M -> aq_rel M a d ->
  aq_rel M (fst (aq_apply aq_keep a o)) (fst (dq_apply M d o)) /\
  (match o with Enq _ => snd (aq_apply aq_keep a o) = OEl None | _ => snd (aq_apply aq_keep a o) = snd (dq_apply M d o) end).
Proof.
  intros M a d o HM Hrel. destruct o as [v| | |]; cbn [aq_apply dq_apply].
  - destruct (aq_enqueue_rel M a d v HM Hrel) as (a' & He & Hrel'). rewrite He.
    destruct (dq_enqueue M d v) as [d' el]. cbn [fst snd] in *. split; [exact Hrel'|reflexivity].
  - destruct d as [|x t].
    + rewrite (aq_dequeue_empty M a Hrel). cbn [dq_dequeue fst snd]. split; [exact Hrel|reflexivity].
    + destruct (aq_dequeue_rel M a x t Hrel) as (a' & Hd & Hrel'). rewrite Hd. cbn [dq_dequeue fst snd]. split; [exact Hrel'|reflexivity].
  - cbn [fst snd]. split; [apply (aq_clear_rel M a d HM Hrel)|reflexivity].
  - cbn [fst snd]. split; [apply aq_keep_rel; exact Hrel|reflexivity].
Qed.

Lemma aq_ops_sim : forall M ops a d, 1 <= M -> aq_rel M a d ->
  aq_rel M (fst (aq_ops aq_keep a ops)) (fst (dq_run M d ops)).
Proof.
  intros M ops; induction ops as [|o r IH]; intros a d HM Hrel; [exact Hrel|].
  cbn [aq_ops dq_run]. destruct (aq_apply_sim M a d o HM Hrel) as [H1 _].
  destruct (aq_apply aq_keep a o) as [a1 out]. destruct (dq_apply M d o) as [d1 out']. cbn [fst] in H1.
  specialize (IH a1 d1 HM H1). destruct (aq_ops aq_keep a1 r) as [a2 outs]. destruct (dq_run M d1 r) as [d2 outs']. exact IH.
Qed.

(** C18, AccuracyQueue clause in full: after ANY sequence of enqueue / dequeue / clear / keep-last operations the queue holds
    the bounded deque's contents and num_true / num_false count them; no operation raises except dequeue on an empty queue *)
Theorem accuracy_counts_all_ops : forall (max_len : Z) (ops : list (qop bool)), 1 <= max_len ->
  let a := fst (aq_ops aq_keep (aq_init max_len) ops) in
  let d := fst (dq_run max_len [] ops) in
  cq_abs (a_q a) = map Some d /\
  aq_num_true a = Z.of_nat (count_occ bool_dec d true) /\
  aq_num_false a = Z.of_nat (count_occ bool_dec d false) /\
  aq_size a = Z.of_nat (length d).
Proof.
  intros M ops HM a d.
  assert (H0 : aq_rel M (aq_init M) []) by (split; [apply cq_init_rel; exact HM|reflexivity]).
  pose proof (aq_ops_sim M ops (aq_init M) [] HM H0) as [Hq Ht]. fold a d in Hq, Ht.
  split; [exact (cq_rel_abs _ _ _ Hq)|]. split; [exact Ht|].
  pose proof (cq_rel_count _ _ _ Hq) as Hc. split; [|exact Hc].
  unfold aq_num_false. rewrite Ht, Hc. rewrite (count_true_false d) at 1. lia.
Qed.

(** before the repair (F48): enqueue True, False, True, keep-last -- one element left, yet num_true = 2 and num_false = -1 *)
Theorem accuracy_counts_pre_refuted :
  let a := fst (aq_ops aq_keep_pre (aq_init 3) [Enq true; Enq false; Enq true; Keep]) in
  aq_size a = 1 /\ aq_num_true a = 2 /\ aq_num_false a = -1.
Proof. vm_compute. repeat split. Qed.
