(** Accepts <-> documented domain for every configuration validator (over R / Z), the
    ordering constraints, and: an accepted configuration cannot reach a configuration-dependent
    raise site of the update path. *)
From Coq Require Import ZArith List Bool Reals Lra Lia.
From FV Require Import NumSys RealA Py Config.
Import ListNotations.
Local Open Scope R_scope.

Ltac breakb :=
  repeat (match goal with
  | |- context [Rleb ?a ?b] => destruct (Rleb_spec a b)
  | |- context [Rltb ?a ?b] => destruct (Rltb_spec a b)
  | |- context [Reqb ?a ?b] => destruct (Req_EM_T a b); [rewrite (proj2 (Reqb_true a b)) by assumption|rewrite (proj2 (Reqb_false a b)) by assumption]
  | |- context [(?a <? ?b)%Z] => destruct (Z.ltb_spec a b)
  | |- context [(?a <=? ?b)%Z] => destruct (Z.leb_spec a b)
  | |- context [(?a =? ?b)%Z] => destruct (Z.eqb_spec a b)
  end; cbn [bind guard negb andb orb]).

Ltac fin :=
  let Hacc := fresh "Hacc" in let Hdoc := fresh "Hdoc" in
  split; [intro Hacc; try discriminate Hacc; repeat split; try assumption; try lra; try lia
         |intro Hdoc; try reflexivity; exfalso; decompose [and or] Hdoc; try lra; try lia].

Ltac open_acc :=
  unfold chk_min, in_cc, in_oo, in_oc, zero, one;
  cbn [bind guard leb ltb eqb ofZ RealA num negb andb orb].

Theorem spc_accepts_iff : forall (w d : R) (n : Z),
  acc_spc (A:=RealA) w d n = Ok tt <-> (1 <= n)%Z /\ 0 < w /\ 0 < d /\ w < d.
Proof. intros. unfold acc_spc. open_acc. breakb; fin. Qed.

Theorem rddm_accepts_iff : forall (w d : R) (n maxc minc maxw : Z),
  acc_rddm (A:=RealA) w d n maxc minc maxw = Ok tt <-> ((1 <= n)%Z /\ 0 < w /\ 0 < d /\ w < d) /\ (1 <= minc)%Z.
Proof. intros. unfold acc_rddm, acc_spc. open_acc. breakb; fin. Qed.

Theorem ecdd_accepts_iff : forall (l w : R) (arl n : Z),
  acc_ecdd (A:=RealA) l w arl n = Ok tt <->
  (1 <= n)%Z /\ (arl = 100 \/ arl = 400 \/ arl = 1000)%Z /\ (0 <= l <= 1) /\ (0 < w < 1).
Proof. intros. unfold acc_ecdd, arl_ok. open_acc. breakb; fin. Qed.

Theorem eddm_accepts_iff : forall (a b l : R) (nmis : Z),
  acc_eddm (A:=RealA) a b l nmis = Ok tt <-> 0 < b /\ b < a /\ 0 < l /\ (0 <= nmis)%Z.
Proof. intros. unfold acc_eddm. open_acc. breakb; fin. Qed.

Theorem hddma_accepts_iff : forall (ad aw : R) (tb : bool) (n : Z),
  acc_hddma (A:=RealA) ad aw tb n = Ok tt <->
  (1 <= n)%Z /\ (0 < ad <= 1) /\ (0 < aw <= 1) /\ ad < aw /\ tb = true.
Proof. intros. unfold acc_hddma. open_acc. destruct tb; breakb; fin; discriminate. Qed.

Theorem hddmw_accepts_iff : forall (ad aw : R) (tb : bool) (l : R) (n : Z),
  acc_hddmw (A:=RealA) ad aw tb l n = Ok tt <->
  ((1 <= n)%Z /\ (0 < ad <= 1) /\ (0 < aw <= 1) /\ ad < aw /\ tb = true) /\ (0 < l <= 1).
Proof. intros. unfold acc_hddmw, acc_hddma. open_acc. destruct tb; breakb; fin; discriminate. Qed.

Theorem cusum_accepts_iff : forall (delta lam : R) (n : Z),
  acc_cusum (A:=RealA) delta lam n = Ok tt <-> (1 <= n)%Z /\ 0 <= lam /\ (0 <= delta <= 1).
Proof. intros. unfold acc_cusum. open_acc. breakb; fin. Qed.

Theorem ph_accepts_iff : forall (delta lam alpha : R) (n : Z),
  acc_ph (A:=RealA) delta lam alpha n = Ok tt <->
  ((1 <= n)%Z /\ 0 <= lam /\ (0 <= delta <= 1)) /\ (0 <= alpha <= 1).
Proof. intros. unfold acc_ph, acc_cusum. open_acc. breakb; fin. Qed.

Theorem gma_accepts_iff : forall (alpha lam : R) (n : Z),
  acc_gma (A:=RealA) alpha lam n = Ok tt <-> (1 <= n)%Z /\ 0 <= lam /\ (0 <= alpha <= 1).
Proof. intros. unfold acc_gma. open_acc. breakb; fin. Qed.

Theorem adwin_accepts_iff : forall (clock : Z) (delta : R) (m mws n : Z),
  acc_adwin (A:=RealA) clock delta m mws n = Ok tt <->
  (1 <= n)%Z /\ (1 <= clock)%Z /\ (0 < delta < 1) /\ (1 <= m)%Z /\ (1 <= mws)%Z.
Proof. intros. unfold acc_adwin. open_acc. breakb; fin. Qed.

Theorem kswin_accepts_iff : forall (alpha : R) (seed : option Z) (n nt : Z),
  acc_kswin (A:=RealA) alpha seed n nt = Ok tt <->
  seed_ok seed = true /\ (1 <= n)%Z /\ 0 < alpha /\ (1 <= nt)%Z /\ (2 * nt <= n)%Z.
Proof.
  intros. unfold acc_kswin. open_acc. destruct (seed_ok seed); cbn [negb bind guard].
  - pose proof (Z.div_mod n 2 ltac:(lia)) as Hd. pose proof (Z.mod_pos_bound n 2 ltac:(lia)) as Hm.
    breakb; fin.
  - split; [discriminate|intros (H & _); discriminate].
Qed.

Theorem stepd_accepts_iff : forall (ad aw : R) (n : Z),
  acc_stepd (A:=RealA) ad aw n = Ok tt <-> (1 <= n)%Z /\ 0 < ad /\ 0 < aw /\ ad < aw.
Proof. intros. unfold acc_stepd. open_acc. breakb; fin. Qed.

Theorem bocd_accepts_iff : forall (mok : bool) (n : Z),
  acc_bocd mok n = Ok tt <-> (1 <= n)%Z /\ mok = true.
Proof. intros. unfold acc_bocd. open_acc. destruct mok; breakb; fin; discriminate. Qed.

Theorem gum_accepts_iff : forall dv : R, acc_gum (A:=RealA) dv = Ok tt <-> 0 < dv.
Proof. intros. unfold acc_gum. open_acc. breakb; fin. Qed.

Theorem reset_accepts_iff : forall alpha : R, acc_reset (A:=RealA) alpha = Ok tt <-> 0 < alpha.
Proof. intros. unfold acc_reset. open_acc. breakb; fin. Qed.

Theorem preq_accepts_iff : forall (isn : bool) (alpha : R),
  acc_preq (A:=RealA) isn alpha = Ok tt <-> isn = true /\ (0 < alpha <= 1).
Proof. intros. unfold acc_preq. open_acc. destruct isn; breakb; fin; discriminate. Qed.

Theorem perm_accepts_iff : forall (np : Z) (total : option Z) (jobs : Z) (mok vb : bool),
  acc_perm np total jobs mok vb = Ok tt <->
  (1 <= np <= MAX_NUM_PERM)%Z /\
  match total with None => True | Some t => (1 <= t <= MAX_NUM_PERM)%Z end /\
  (jobs = -1 \/ 1 <= jobs)%Z /\ mok = true /\ vb = true.
Proof.
  intros. unfold acc_perm. cbn [bind guard].
  destruct total as [t|]; destruct mok; destruct vb; breakb; fin; try discriminate; try lia; try exact I.
Qed.

Theorem chunk_accepts_iff : forall c,
  acc_chunk c = Ok tt <-> match c with ChunkNone => True | ChunkInt z => (0 < z)%Z | ChunkOther => False end.
Proof.
  intros [|z|]; unfold acc_chunk; cbn [guard].
  - split; [intros; exact I|reflexivity].
  - breakb; fin.
  - split; [discriminate|intros []].
Qed.

Theorem ge1_accepts_iff : forall v, acc_ge1 v = Ok tt <-> (1 <= v)%Z.
Proof. intros. unfold acc_ge1. breakb; fin. Qed.

(** * Ordering constraints: each violated ordering is rejected, whatever the other parameters *)
Theorem ordering_enforced :
  (forall (w d : R) n, d <= w -> acc_spc (A:=RealA) w d n <> Ok tt) /\
  (forall (a b l : R) nmis, a <= b -> acc_eddm (A:=RealA) a b l nmis <> Ok tt) /\
  (forall (ad aw : R) tb n, aw <= ad -> acc_hddma (A:=RealA) ad aw tb n <> Ok tt) /\
  (forall (ad aw : R) n, aw <= ad -> acc_stepd (A:=RealA) ad aw n <> Ok tt) /\
  (forall (alpha : R) seed n nt, (n < 2 * nt)%Z -> acc_kswin (A:=RealA) alpha seed n nt <> Ok tt).
Proof.
  repeat split; intros.
  - intro H0. apply spc_accepts_iff in H0. lra.
  - intro H0. apply eddm_accepts_iff in H0. lra.
  - intro H0. apply hddma_accepts_iff in H0. lra.
  - intro H0. apply stepd_accepts_iff in H0. lra.
  - intro H0. apply kswin_accepts_iff in H0. lia.
Qed.

(** * Accepted => the configuration-dependent raise sites of the update path are unreachable *)
Theorem adwin_operable : forall (clock : Z) (delta : R) m mws n,
  acc_adwin (A:=RealA) clock delta m mws n = Ok tt -> adwin_update_raises clock = None.
Proof. intros clock delta m mws n H. apply adwin_accepts_iff in H. unfold adwin_update_raises. breakb; [lia|reflexivity]. Qed.

Theorem kswin_operable : forall (alpha : R) seed n nt,
  acc_kswin (A:=RealA) alpha seed n nt = Ok tt -> forall wl, kswin_update_raises n nt wl = None.
Proof.
  intros alpha seed n nt H wl. apply kswin_accepts_iff in H. unfold kswin_update_raises.
  breakb; try reflexivity; lia.
Qed.

Theorem rddm_operable : forall (w d : R) n maxc minc maxw,
  acc_rddm (A:=RealA) w d n maxc minc maxw = Ok tt -> rddm_update_raises minc = None.
Proof. intros w d n maxc minc maxw H. apply rddm_accepts_iff in H. unfold rddm_update_raises. breakb; try reflexivity; lia. Qed.

Theorem hddmw_operable : forall (ad aw : R) tb l n,
  acc_hddmw (A:=RealA) ad aw tb l n = Ok tt -> hddmw_update_raises (A:=RealA) l = None.
Proof.
  intros ad aw tb l n H. apply hddmw_accepts_iff in H. unfold hddmw_update_raises, zero.
  cbn [eqb ofZ RealA]. destruct (Req_EM_T l 0) as [E|NE].
  - lra.
  - rewrite (proj2 (Reqb_false l 0)) by assumption. reflexivity.
Qed.

(** the raise sites DO fire outside the accepted domain (the defects repaired by F28, F15, F32, F33) *)
Example unrepaired_sites_fire :
  adwin_update_raises 0 = Some ZeroDivisionError /\
  kswin_update_raises 10 6 10 = Some ValueError /\
  rddm_update_raises 0 = Some EmptyQueueError.
Proof. repeat split. Qed.
