(** C16 — frame, read-only and isolation theorems for the object-heap model of Model/Heap.v.
    Everything is for an arbitrary detector family, arbitrary sampler, all schedules. *)
From Coq Require Import Arith ZArith Bool String List Lia Eqdep_dec.
From FV Require Import NumSys Py Detector Callbacks CallbacksR Heap.
Import ListNotations.

Section HeapR.
  Variable fam : nat -> Detector.
  Variable V : Type.
  Variable W : Type.
  Variable vars : forall k, d_st (fam k) -> string -> W.
  Variable rng : Type.
  Variable uses_rng : nat -> bool.
  Variable inp : forall k, V -> d_in (fam k).
  Variable draw : forall k, d_cfg (fam k) -> d_st (fam k) -> V -> rng -> d_in (fam k) * rng.
  Variable seeds : nat -> bool.
  Variable reseed : forall k, d_cfg (fam k) -> rng -> rng.
  Variable dflt : forall k, d_cfg (fam k).

  Notation obj := (obj fam W rng).
  Notation heap := (heap fam W rng).
  Notation sysop := (sysop fam V).
  Notation ORng := (ORng fam W rng).
  Notation OCfg := (OCfg fam W rng).
  Notation OInst := (OInst fam W rng).
  Notation hget := (hget fam W rng).
  Notation hset := (hset fam W rng).
  Notation alloc := (alloc fam W rng).
  Notation get_rng := (get_rng fam W rng).
  Notation get_cfg := (get_cfg fam W rng).
  Notation cast_cfg := (cast_cfg fam).
  Notation inst_apply := (inst_apply fam W vars).
  Notation inst_init := (inst_init fam W).
  Notation do_newcfg := (do_newcfg fam W rng seeds reseed).
  Notation do_new := (do_new fam W rng).
  Notation step := (step fam V W vars rng uses_rng inp draw seeds reseed dflt).
  Notation run_system := (run_system fam V W vars rng uses_rng inp draw seeds reseed dflt).
  Notation ops_of := (ops_of fam V).
  Notation op_in := (op_in fam V inp).
  Notation inst_exec_from := (inst_exec_from fam V W vars inp).
  Notation inst_exec := (inst_exec fam V W vars inp).
  Notation rng_apply := (rng_apply fam V W vars rng draw).
  Notation rng_exec_from := (rng_exec_from fam V W vars rng draw).
  Notation rng_exec := (rng_exec fam V W vars rng draw).
  Notation writes_rng := (writes_rng fam V W rng uses_rng seeds).
  Notation targets := (targets fam V).
  Notation quiet := (quiet fam V W vars rng uses_rng inp draw seeds reseed dflt).
  Notation quietb := (quietb fam V W vars rng uses_rng inp draw seeds reseed dflt).
  Notation refs := (refs fam W rng uses_rng).

  Definition is_rng (x : obj) : bool := match x with Heap.ORng _ _ _ _ => true | _ => false end.
  Definition is_inst (x : obj) : bool := match x with Heap.OInst _ _ _ _ _ _ _ => true | _ => false end.
  Definition is_cfg (x : obj) : bool := match x with Heap.OCfg _ _ _ _ _ => true | _ => false end.

  (* ------------------------------------------------------------------ heap cells *)
  Lemma hget_lt : forall (h : heap) l x, hget h l = Some x -> (l < length h)%nat.
  Proof. intros h l x H. apply nth_error_Some. unfold Heap.hget in H. rewrite H. discriminate. Qed.

  Lemma length_hset : forall (h : heap) l o, length (hset h l o) = length h.
  Proof. induction h as [|x t IH]; intros [|j] o; cbn; auto. Qed.

  Lemma hget_hset_same : forall (h : heap) l o, (l < length h)%nat -> hget (hset h l o) l = Some o.
  Proof.
    unfold Heap.hget. induction h as [|x t IH]; intros [|j] o Hl; cbn in *; try lia; auto.
    apply IH. lia.
  Qed.

  Lemma hget_hset_other : forall (h : heap) l j o, l <> j -> hget (hset h l o) j = hget h j.
  Proof.
    unfold Heap.hget. induction h as [|x t IH]; intros [|l] [|j] o Hn; cbn; auto; try congruence.
  Qed.

  Lemma hget_alloc_old : forall (h : heap) o j x, hget h j = Some x -> hget (alloc h o) j = Some x.
  Proof.
    intros h o j x H. unfold Heap.hget, Heap.alloc in *. rewrite nth_error_app1; [exact H|].
    apply nth_error_Some. rewrite H. discriminate.
  Qed.

  Lemma hget_alloc_new : forall (h : heap) o, hget (alloc h o) (length h) = Some o.
  Proof.
    intros h o. unfold Heap.hget, Heap.alloc. rewrite nth_error_app2 by lia.
    rewrite Nat.sub_diag. reflexivity.
  Qed.

  Lemma length_alloc : forall (h : heap) o, length (alloc h o) = S (length h).
  Proof. intros. unfold Heap.alloc. rewrite app_length. cbn. lia. Qed.

  (* ------------------------------------------------------------------ configuration reads *)
  Lemma cast_cfg_refl : forall k (c : d_cfg (fam k)), cast_cfg k k c = Some c.
  Proof.
    intros k c. unfold Heap.cast_cfg. destruct (Nat.eq_dec k k) as [e|n]; [|congruence].
    rewrite (UIP_refl_nat k e). reflexivity.
  Qed.

  Lemma cast_cfg_some : forall k k' (c' : d_cfg (fam k')) c, cast_cfg k k' c' = Some c -> k' = k.
  Proof. intros k k' c' c H. unfold Heap.cast_cfg in H. destruct (Nat.eq_dec k' k); [assumption|discriminate]. Qed.

  Lemma get_cfg_iff : forall (h : heap) cl k c, get_cfg h cl k = Some c <-> hget h cl = Some (OCfg k c).
  Proof.
    intros h cl k c. unfold Heap.get_cfg. split.
    - destruct (hget h cl) as [[r|k' c'|k' cl' cb' sh']|]; try discriminate.
      intro H. pose proof (cast_cfg_some _ _ _ _ H) as E. subst k'.
      rewrite cast_cfg_refl in H. congruence.
    - intro H. rewrite H. apply cast_cfg_refl.
  Qed.

  Lemma get_rng_iff : forall (h : heap) r, get_rng h = Some r <-> hget h rng_loc = Some (ORng r).
  Proof.
    intros h r. unfold Heap.get_rng. split.
    - destruct (hget h rng_loc) as [[r'|k' c'|k' cl' cb' sh']|]; try discriminate. congruence.
    - intro H. rewrite H. reflexivity.
  Qed.

  (* ------------------------------------------------------------------ the frame of one operation *)
  Lemma newcfg_frame : forall (h : heap) k c j x, hget h j = Some x ->
    (seeds k = false \/ j <> rng_loc \/ is_rng x = false) ->
    hget (do_newcfg h k c) j = Some x.
  Proof.
    intros h k c j x Hj Hw. unfold Heap.do_newcfg. apply hget_alloc_old.
    destruct (seeds k) eqn:Es; [|exact Hj].
    destruct (get_rng h) as [r|] eqn:Er; [|exact Hj].
    apply get_rng_iff in Er.
    assert (rng_loc <> j) as Hne.
    { destruct Hw as [Hw|[Hw|Hw]]; [discriminate|congruence|].
      intro E. subst j. rewrite Er in Hj. inversion Hj. subst x. discriminate. }
    rewrite hget_hset_other by exact Hne. exact Hj.
  Qed.

  Lemma new_frame : forall (h : heap) k cl cb j x, hget h j = Some x -> hget (do_new h k cl cb) j = Some x.
  Proof.
    intros h k cl cb j x Hj. unfold Heap.do_new. destruct (get_cfg h cl k); [apply hget_alloc_old|]; exact Hj.
  Qed.

  (** An operation leaves an existing object [x] at [j] alone unless it is addressed to it (and
      it is an instance) or it writes the generator (and [x] is the generator at [rng_loc]). *)
  Lemma step_frame : forall (h : heap) o j x, hget h j = Some x ->
    (targets j o = false \/ is_inst x = false) ->
    (writes_rng h o = false \/ j <> rng_loc \/ is_rng x = false) ->
    hget (step h o) j = Some x.
  Proof.
    intros h o j x Hj Ht Hw. destruct o as [k c|k cl cb|k cb|i v|i]; cbn [Heap.step].
    - apply newcfg_frame; assumption.
    - apply new_frame; assumption.
    - apply new_frame. apply newcfg_frame; assumption.
    - destruct (hget h i) as [[r|k' c'|k cl cb sh]|] eqn:Ei; try exact Hj.
      assert (i <> j) as Hij.
      { intro E. subst i. rewrite Ei in Hj. inversion Hj. subst x.
        destruct Ht as [Ht|Ht]; [|discriminate]. cbn in Ht. rewrite Nat.eqb_refl in Ht. discriminate. }
      destruct (get_cfg h cl k) as [c|]; [|exact Hj].
      destruct (uses_rng k) eqn:Eu.
      + destruct (get_rng h) as [r|] eqn:Er; [|exact Hj].
        apply get_rng_iff in Er.
        assert (rng_loc <> j) as Hne.
        { destruct Hw as [Hw|[Hw|Hw]].
          - cbn in Hw. rewrite Ei in Hw. congruence.
          - congruence.
          - intro E. subst j. rewrite Er in Hj. inversion Hj. subst x. discriminate. }
        rewrite hget_hset_other by exact Hij. rewrite hget_hset_other by exact Hne. exact Hj.
      + rewrite hget_hset_other by exact Hij. exact Hj.
    - destruct (hget h i) as [[r|k' c'|k cl cb sh]|] eqn:Ei; try exact Hj.
      assert (i <> j) as Hij.
      { intro E. subst i. rewrite Ei in Hj. inversion Hj. subst x.
        destruct Ht as [Ht|Ht]; [|discriminate]. cbn in Ht. rewrite Nat.eqb_refl in Ht. discriminate. }
      destruct (get_cfg h cl k) as [c|]; [|exact Hj].
      rewrite hget_hset_other by exact Hij. exact Hj.
  Qed.

  Lemma length_step_call : forall (h : heap) o, targets 0%nat o = true \/ (exists i v, o = Update fam V i v) \/ (exists i, o = Reset fam V i) ->
    length (step h o) = length h.
  Proof.
    intros h o Ho.
    assert ((exists i v, o = Update fam V i v) \/ (exists i, o = Reset fam V i)) as H.
    { destruct Ho as [Ho|Ho]; [|exact Ho]. destruct o; try discriminate; eauto. }
    destruct H as [(i & v & ->)|(i & ->)]; cbn [Heap.step].
    - destruct (hget h i) as [[r|k' c'|k cl cb sh]|]; try reflexivity.
      destruct (get_cfg h cl k); [|reflexivity].
      destruct (uses_rng k); [destruct (get_rng h); [|reflexivity]|]; now rewrite ?length_hset.
    - destruct (hget h i) as [[r|k' c'|k cl cb sh]|]; try reflexivity.
      destruct (get_cfg h cl k); [|reflexivity]. now rewrite length_hset.
  Qed.

  Lemma length_step_mono : forall (h : heap) o, (length h <= length (step h o))%nat.
  Proof.
    intros h o. destruct o as [k c|k cl cb|k cb|i v|i].
    - cbn [Heap.step]. unfold Heap.do_newcfg. rewrite length_alloc.
      destruct (seeds k); [destruct (get_rng h)|]; rewrite ?length_hset; lia.
    - cbn [Heap.step]. unfold Heap.do_new. destruct (get_cfg h cl k); rewrite ?length_alloc; lia.
    - cbn [Heap.step]. unfold Heap.do_new, Heap.do_newcfg.
      match goal with |- context [Heap.get_cfg _ _ _ ?hh _ _] => destruct (get_cfg hh (length h) k) end;
        rewrite ?length_alloc; destruct (seeds k); try destruct (get_rng h); rewrite ?length_hset; lia.
    - rewrite length_step_call; [lia|right; left; eauto].
    - rewrite length_step_call; [lia|right; right; eauto].
  Qed.

  (** [update_frame]: update()/reset() of instance [i] writes location [i] only, plus the
      generator's location when (and only when) its class consumes the generator; nothing is
      allocated. *)
  Theorem update_frame : forall (h : heap) o i, (exists v, o = Update fam V i v) \/ o = Reset fam V i ->
    length (step h o) = length h /\
    forall j, j <> i -> (j <> rng_loc \/ writes_rng h o = false) -> hget (step h o) j = hget h j.
  Proof.
    intros h o i Ho. split.
    - apply length_step_call. right. destruct Ho as [[v ->]| ->]; [left|right]; eauto.
    - intros j Hji Hw. destruct (hget h j) as [x|] eqn:Ej.
      + apply step_frame; [exact Ej| |tauto].
        left. destruct Ho as [[v ->]| ->]; cbn; apply Nat.eqb_neq; congruence.
      + assert (length (step h o) = length h) as Hl.
        { apply length_step_call. right. destruct Ho as [[v ->]| ->]; [left|right]; eauto. }
        unfold Heap.hget in *. apply nth_error_None. rewrite Hl. apply nth_error_None. exact Ej.
  Qed.

  (** a reset never writes the generator *)
  Lemma reset_keeps_rng : forall (h : heap) i, writes_rng h (Reset fam V i) = false.
  Proof. reflexivity. Qed.

  (* ------------------------------------------------------------------ configurations are read-only *)
  Lemma step_cfg : forall (h : heap) o l k c, hget h l = Some (OCfg k c) -> hget (step h o) l = Some (OCfg k c).
  Proof. intros h o l k c H. apply step_frame; [exact H|right; reflexivity|right; right; reflexivity]. Qed.

  (** [config_readonly]: no schedule whatsoever changes a configuration object. *)
  Theorem config_readonly : forall sched (h : heap) l k c,
    hget h l = Some (OCfg k c) -> hget (run_system sched h) l = Some (OCfg k c).
  Proof.
    induction sched as [|o r IH]; intros h l k c H; [exact H|].
    cbn. apply IH. apply step_cfg. exact H.
  Qed.

  (** constructors only allocate: every existing object other than the generator survives a
      construction unchanged (and the generator too unless the configuration class seeds) *)
  Theorem constructors_allocate : forall (h : heap) o j x,
    targets j o = false -> (forall i v, o <> Update fam V i v) -> (forall i, o <> Reset fam V i) ->
    hget h j = Some x -> (j <> rng_loc \/ writes_rng h o = false) ->
    hget (step h o) j = Some x /\ (length h <= length (step h o))%nat.
  Proof.
    intros h o j x Ht _ _ Hj Hw. split; [|apply length_step_mono].
    apply step_frame; [exact Hj|left; exact Ht|tauto].
  Qed.

  Lemma get_cfg_step : forall (h : heap) o cl k c, get_cfg h cl k = Some c -> get_cfg (step h o) cl k = Some c.
  Proof. intros h o cl k c H. apply get_cfg_iff. apply step_cfg. apply get_cfg_iff. exact H. Qed.

  Lemma get_cfg_run : forall sched (h : heap) cl k c, get_cfg h cl k = Some c -> get_cfg (run_system sched h) cl k = Some c.
  Proof. intros. apply get_cfg_iff. apply config_readonly. apply get_cfg_iff. assumption. Qed.

  (* ------------------------------------------------------------------ the schedule seen by one instance *)
  Lemma ops_of_nontarget : forall i o r, targets i o = false -> ops_of i (o :: r) = ops_of i r.
  Proof. intros i o r H. destruct o; cbn in *; try reflexivity; rewrite H; reflexivity. Qed.

  Lemma ops_of_app : forall i a b, ops_of i (a ++ b) = ops_of i a ++ ops_of i b.
  Proof.
    intros i a b. induction a as [|o r IH]; [reflexivity|].
    destruct o as [k c|k cl cb|k cb|j v|j]; cbn; try exact IH; destruct (Nat.eqb j i); cbn; rewrite ?IH; reflexivity.
  Qed.

  Lemma ops_of_nil_cons : forall i o r, ops_of i (o :: r) = [] -> targets i o = false /\ ops_of i r = [].
  Proof.
    intros i o r H. destruct o as [k c|k cl cb|k cb|j v|j]; cbn in *; auto; destruct (Nat.eqb j i); auto; discriminate.
  Qed.

  Lemma target_cases : forall i o, targets i o = true ->
    (exists v, o = Update fam V i v) \/ o = Reset fam V i.
  Proof.
    intros i o H. destruct o as [k c|k cl cb|k cb|j v|j]; cbn in H; try discriminate;
      apply Nat.eqb_eq in H; subst j; eauto.
  Qed.

  Lemma run_app : forall a b (h : heap), run_system (a ++ b) h = run_system b (run_system a h).
  Proof. intros. unfold Heap.run_system. apply fold_left_app. Qed.

  (* ------------------------------------------------------------------ isolation, generator-free classes *)
  Lemma step_target_pure : forall (h : heap) i k cl cb sh c,
    hget h i = Some (OInst k cl cb sh) -> get_cfg h cl k = Some c -> uses_rng k = false ->
    (forall v, hget (step h (Update fam V i v)) i = Some (OInst k cl cb (inst_apply k c cb sh (Upd (inp k v))))) /\
    hget (step h (Reset fam V i)) i = Some (OInst k cl cb (inst_apply k c cb sh Rst)).
  Proof.
    intros h i k cl cb sh c Hi Hc Hu. pose proof (hget_lt _ _ _ Hi) as Hl.
    split; [intro v|]; cbn [Heap.step]; rewrite Hi, Hc, ?Hu; apply hget_hset_same; exact Hl.
  Qed.

  Theorem isolation_from : forall sched (h : heap) i k cl cb sh c,
    hget h i = Some (OInst k cl cb sh) -> get_cfg h cl k = Some c -> uses_rng k = false ->
    hget (run_system sched h) i = Some (OInst k cl cb (inst_exec_from k c cb sh (ops_of i sched))) /\
    get_cfg (run_system sched h) cl k = Some c.
  Proof.
    induction sched as [|o r IH]; intros h i k cl cb sh c Hi Hc Hu.
    - cbn. split; assumption.
    - change (run_system (o :: r) h) with (run_system r (step h o)).
      pose proof (get_cfg_step h o _ _ _ Hc) as Hc'.
      destruct (targets i o) eqn:Et.
      + destruct (step_target_pure h i k cl cb sh c Hi Hc Hu) as [Hup Hrs].
        destruct (target_cases _ _ Et) as [[v ->]| ->].
        * specialize (IH _ _ _ _ _ _ _ (Hup v) Hc' Hu). cbn [Heap.ops_of]. rewrite Nat.eqb_refl. exact IH.
        * specialize (IH _ _ _ _ _ _ _ Hrs Hc' Hu). cbn [Heap.ops_of]. rewrite Nat.eqb_refl. exact IH.
      + rewrite ops_of_nontarget by exact Et. apply IH; [|exact Hc'|exact Hu].
        apply step_frame; [exact Hi|left; exact Et|right; right; reflexivity].
    Qed.

  (** [isolation]: an instance of a generator-free class created anywhere in a schedule, from a
      configuration object that may be shared with any number of other instances, ends in exactly
      the state of the detector run ALONE on the calls addressed to it - whatever else is
      interleaved.  (State = detector state and the history of its callback.) *)
  Theorem isolation : forall pre post (h0 : heap) k cl cb c,
    get_cfg (run_system pre h0) cl k = Some c -> uses_rng k = false ->
    let i := length (run_system pre h0) in
    let hfin := run_system (pre ++ New fam V k cl cb :: post) h0 in
    hget hfin i = Some (OInst k cl cb (inst_exec k c cb (ops_of i post))) /\
    hget hfin cl = Some (OCfg k c).
  Proof.
    intros pre post h0 k cl cb c Hc Hu i hfin. subst hfin.
    rewrite run_app. change (run_system (New fam V k cl cb :: post) (run_system pre h0))
      with (run_system post (step (run_system pre h0) (New fam V k cl cb))).
    set (h1 := run_system pre h0) in *.
    assert (hget (step h1 (New fam V k cl cb)) i = Some (OInst k cl cb (inst_init k c cb))) as Hi.
    { cbn [Heap.step]. unfold Heap.do_new. rewrite Hc. apply hget_alloc_new. }
    pose proof (get_cfg_step h1 (New fam V k cl cb) _ _ _ Hc) as Hc'.
    destruct (isolation_from post _ _ _ _ _ _ _ Hi Hc' Hu) as [H1 H2].
    split; [exact H1|apply get_cfg_iff; exact H2].
  Qed.

  (** [deterministic]: what an instance reports is a function of (class, configuration VALUE,
      callback spec, its own calls) only: two processes with different initial heaps, different
      other objects and different interleavings agree on it. *)
  Theorem deterministic : forall pre post pre' post' (h0 h0' : heap) k cl cl' cb c,
    get_cfg (run_system pre h0) cl k = Some c -> get_cfg (run_system pre' h0') cl' k = Some c ->
    uses_rng k = false ->
    let i := length (run_system pre h0) in
    let i' := length (run_system pre' h0') in
    ops_of i post = ops_of i' post' ->
    exists sh, hget (run_system (pre ++ New fam V k cl cb :: post) h0) i = Some (OInst k cl cb sh) /\
               hget (run_system (pre' ++ New fam V k cl' cb :: post') h0') i' = Some (OInst k cl' cb sh).
  Proof.
    intros pre post pre' post' h0 h0' k cl cl' cb c Hc Hc' Hu i i' Hops.
    exists (inst_exec k c cb (ops_of i post)). split.
    - apply (isolation pre post h0 k cl cb c Hc Hu).
    - rewrite Hops. apply (isolation pre' post' h0' k cl' cb c Hc' Hu).
  Qed.

  (** the function [run_system] itself: same schedule, same heap => same heap *)
  Theorem run_deterministic : forall s s' (h h' : heap), s = s' -> h = h' -> run_system s h = run_system s' h'.
  Proof. intros; subst; reflexivity. Qed.

  (* ------------------------------------------------------------------ callbacks *)
  Lemma inst_exec_from_fst : forall k c cb ops sh,
    fst (inst_exec_from k c cb sh ops) = exec_from (fam k) c (fst sh) (map (op_in k) ops).
  Proof.
    intros k c cb ops. induction ops as [|o r IH]; intro sh; [reflexivity|].
    cbn [Heap.inst_exec_from fold_left map exec_from].
    change (fold_left (fun s o0 => inst_apply k c cb s (op_in k o0)) r ?x) with (inst_exec_from k c cb x r).
    rewrite IH. f_equal.
    destruct cb as [tr|]; cbn [Heap.inst_apply]; [|reflexivity].
    destruct (op_in k o); reflexivity.
  Qed.

  Lemma inst_exec_sys : forall k c tr ops,
    inst_exec k c (Some tr) ops = sys_exec (fam k) W (vars k) c tr (map (op_in k) ops).
  Proof.
    intros k c tr ops. unfold Heap.inst_exec, Heap.inst_exec_from, sys_exec, Heap.inst_init. cbn [Heap.tracked_of].
    generalize (d_init (fam k) c, hist_init (fam k) W tr).
    induction ops as [|o r IH]; intro s; [reflexivity|]. cbn [fold_left map]. apply IH.
  Qed.

  Lemma inst_exec_nocb_hist : forall k c ops sh, snd (inst_exec_from k c None sh ops) = snd sh.
  Proof.
    intros k c ops. induction ops as [|o r IH]; intro sh; [reflexivity|].
    cbn [Heap.inst_exec_from fold_left].
    change (fold_left (fun s o0 => inst_apply k c None s (op_in k o0)) r ?x) with (inst_exec_from k c None x r).
    rewrite IH. reflexivity.
  Qed.

  (** [callbacks_isolated], instance level: the detector part of an instance object is the
      detector run without any callback, and with a HistoryConceptDrift attached the whole object
      is Callbacks.sys_exec (to which every C17 theorem applies); reuses history_noninterfering. *)
  Theorem callbacks_transparent : forall k c cb ops,
    fst (inst_exec k c cb ops) = exec (fam k) c (map (op_in k) ops) /\
    (forall tr, cb = Some tr -> inst_exec k c cb ops = sys_exec (fam k) W (vars k) c tr (map (op_in k) ops)) /\
    (cb = None -> snd (inst_exec k c cb ops) = hist_init (fam k) W []).
  Proof.
    intros k c cb ops. split; [|split].
    - destruct cb as [tr|].
      + rewrite inst_exec_sys. apply history_noninterfering.
      + unfold Heap.inst_exec. rewrite inst_exec_from_fst. reflexivity.
    - intros tr ->. apply inst_exec_sys.
    - intros ->. unfold Heap.inst_exec. rewrite inst_exec_nocb_hist. reflexivity.
  Qed.

  (** [callbacks_isolated], system level: in any schedule, the verdict-carrying state of an
      instance with a callback attached equals [exec] of the bare detector on its own calls;
      and (by [update_frame]) its history object, living inside its instance object, is written
      by no other instance. *)
  Theorem callbacks_isolated : forall pre post (h0 : heap) k cl cb c,
    get_cfg (run_system pre h0) cl k = Some c -> uses_rng k = false ->
    let i := length (run_system pre h0) in
    exists sh, hget (run_system (pre ++ New fam V k cl cb :: post) h0) i = Some (OInst k cl cb sh) /\
      fst sh = exec (fam k) c (map (op_in k) (ops_of i post)) /\
      (forall tr, cb = Some tr -> sh = sys_exec (fam k) W (vars k) c tr (map (op_in k) (ops_of i post))).
  Proof.
    intros pre post h0 k cl cb c Hc Hu i.
    exists (inst_exec k c cb (ops_of i post)).
    destruct (isolation pre post h0 k cl cb c Hc Hu) as [H _].
    destruct (callbacks_transparent k c cb (ops_of i post)) as (A & B & _).
    repeat split; assumption.
  Qed.

  (* ------------------------------------------------------------------ the generator *)
  Lemma quiet_app : forall i a b (h : heap), quiet i (a ++ b) h <-> quiet i a h /\ quiet i b (run_system a h).
  Proof.
    intros i a. induction a as [|o r IH]; intros b h; cbn [app Heap.quiet].
    - cbn. tauto.
    - change (run_system (o :: r) h) with (run_system r (step h o)). rewrite IH. tauto.
  Qed.

  Lemma quietb_spec : forall i s (h : heap), quietb i s h = true <-> quiet i s h.
  Proof.
    intros i s. induction s as [|o r IH]; intro h; cbn [Heap.quiet Heap.quietb]; [tauto|].
    rewrite andb_true_iff, orb_true_iff, negb_true_iff, IH. tauto.
  Qed.

  Lemma inst_not_rng_loc : forall (h : heap) i k cl cb sh r,
    hget h i = Some (OInst k cl cb sh) -> get_rng h = Some r -> i <> rng_loc.
  Proof. intros h i k cl cb sh r Hi Hr E. subst i. apply get_rng_iff in Hr. congruence. Qed.

  Lemma step_target_rng : forall (h : heap) i k cl cb sh c r,
    hget h i = Some (OInst k cl cb sh) -> get_cfg h cl k = Some c -> uses_rng k = true -> get_rng h = Some r ->
    forall o, targets i o = true ->
    exists u, ops_of i [o] = [u] /\
      hget (step h o) i = Some (OInst k cl cb (fst (rng_apply k c cb (sh, r) u))) /\
      get_rng (step h o) = Some (snd (rng_apply k c cb (sh, r) u)).
  Proof.
    intros h i k cl cb sh c r Hi Hc Hu Hr o Ht.
    pose proof (hget_lt _ _ _ Hi) as Hl.
    pose proof (inst_not_rng_loc _ _ _ _ _ _ _ Hi Hr) as Hne.
    pose proof (proj1 (get_rng_iff _ _) Hr) as Hr'. pose proof (hget_lt _ _ _ Hr') as Hl0.
    destruct (target_cases _ _ Ht) as [[v ->]| ->].
    - exists (Upd v). cbn [Heap.ops_of]. rewrite Nat.eqb_refl. split; [reflexivity|].
      cbn [Heap.step]. rewrite Hi, Hc, Hu, Hr. cbn [Heap.rng_apply fst snd]. split.
      + apply hget_hset_same. rewrite length_hset. exact Hl.
      + apply get_rng_iff. rewrite hget_hset_other by exact Hne. apply hget_hset_same. exact Hl0.
    - exists Rst. cbn [Heap.ops_of]. rewrite Nat.eqb_refl. split; [reflexivity|].
      cbn [Heap.step]. rewrite Hi, Hc. cbn [Heap.rng_apply fst snd]. split.
      + apply hget_hset_same. exact Hl.
      + apply get_rng_iff. rewrite hget_hset_other by exact Hne. exact Hr'.
  Qed.

  (** along a schedule in which nobody else writes the generator, instance [i] and the generator
      evolve exactly as the private threading [rng_exec_from] says *)
  Theorem rng_private_from : forall sched (h : heap) i k cl cb sh c r,
    hget h i = Some (OInst k cl cb sh) -> get_cfg h cl k = Some c -> uses_rng k = true ->
    get_rng h = Some r -> quiet i sched h ->
    let sr := rng_exec_from k c cb (sh, r) (ops_of i sched) in
    hget (run_system sched h) i = Some (OInst k cl cb (fst sr)) /\
    get_rng (run_system sched h) = Some (snd sr) /\
    get_cfg (run_system sched h) cl k = Some c.
  Proof.
    induction sched as [|o rest IH]; intros h i k cl cb sh c r Hi Hc Hu Hr Hq; cbn zeta.
    - cbn. repeat split; assumption.
    - change (run_system (o :: rest) h) with (run_system rest (step h o)).
      cbn [Heap.quiet] in Hq. destruct Hq as [Hq1 Hq2].
      pose proof (get_cfg_step h o _ _ _ Hc) as Hc'.
      destruct (targets i o) eqn:Et.
      + destruct (step_target_rng h i k cl cb sh c r Hi Hc Hu Hr o Et) as (u & Hu1 & Hu2 & Hu3).
        change (o :: rest) with ([o] ++ rest). rewrite ops_of_app, Hu1. cbn [app Heap.rng_exec_from fold_left].
        specialize (IH (step h o) i k cl cb _ c _ Hu2 Hc' Hu Hu3 Hq2). cbn zeta in IH.
        rewrite <- surjective_pairing in IH. exact IH.
      + destruct Hq1 as [Hq1|Hq1]; [congruence|].
        rewrite ops_of_nontarget by exact Et.
        apply IH; [|exact Hc'|exact Hu| |exact Hq2].
        * apply step_frame; [exact Hi|left; exact Et|right; right; reflexivity].
        * apply get_rng_iff. apply step_frame; [apply get_rng_iff; exact Hr|right; reflexivity|left; exact Hq1].
  Qed.

  Lemma untouched_run : forall tail (h : heap) i x, hget h i = Some x -> is_rng x = false ->
    ops_of i tail = [] -> hget (run_system tail h) i = Some x.
  Proof.
    induction tail as [|o r IH]; intros h i x Hi Hx Ho; [exact Hi|].
    apply ops_of_nil_cons in Ho. destruct Ho as [Ht Ho].
    change (run_system (o :: r) h) with (run_system r (step h o)).
    apply IH; [|exact Hx|exact Ho]. apply step_frame; [exact Hi|left; exact Ht|right; right; exact Hx].
  Qed.

  (** [kswin_isolated_given_rng]: an instance of a generator-consuming class, created when the
      generator is in state [r0], reports what the solo run with the generator threaded privately
      from [r0] reports - PROVIDED that from its construction up to its last call ([mid]) no other
      writer of the generator runs (another consumer's update, or a seeding configuration
      constructor).  After its last call ([tail]) anything may happen. *)
  Theorem kswin_isolated_given_rng : forall pre mid tail (h0 : heap) k cl cb c r0,
    get_cfg (run_system pre h0) cl k = Some c -> uses_rng k = true ->
    get_rng (run_system pre h0) = Some r0 ->
    let i := length (run_system pre h0) in
    quiet i mid (step (run_system pre h0) (New fam V k cl cb)) -> ops_of i tail = [] ->
    hget (run_system (pre ++ New fam V k cl cb :: mid ++ tail) h0) i
      = Some (OInst k cl cb (fst (rng_exec k c cb r0 (ops_of i mid)))).
  Proof.
    intros pre mid tail h0 k cl cb c r0 Hc Hu Hr i Hq Ht.
    rewrite run_app.
    change (run_system (New fam V k cl cb :: mid ++ tail) (run_system pre h0))
      with (run_system (mid ++ tail) (step (run_system pre h0) (New fam V k cl cb))).
    rewrite run_app. set (h1 := run_system pre h0) in *.
    assert (hget (step h1 (New fam V k cl cb)) i = Some (OInst k cl cb (inst_init k c cb))) as Hi.
    { cbn [Heap.step]. unfold Heap.do_new. rewrite Hc. apply hget_alloc_new. }
    pose proof (get_cfg_step h1 (New fam V k cl cb) _ _ _ Hc) as Hc'.
    assert (get_rng (step h1 (New fam V k cl cb)) = Some r0) as Hr'.
    { apply get_rng_iff. apply new_frame. apply get_rng_iff. exact Hr. }
    destruct (rng_private_from mid _ i k cl cb _ c r0 Hi Hc' Hu Hr' Hq) as (H1 & _ & _).
    apply untouched_run; [exact H1|reflexivity|exact Ht].
  Qed.

  Lemma quiet_keeps_rng : forall s (h : heap) i r, get_rng h = Some r -> quiet i s h -> ops_of i s = [] ->
    get_rng (run_system s h) = Some r.
  Proof.
    induction s as [|o rest IH]; intros h i r Hr Hq Ho; [exact Hr|].
    apply ops_of_nil_cons in Ho. destruct Ho as [Ht Ho]. cbn [Heap.quiet] in Hq. destruct Hq as [[Hq1|Hq1] Hq2]; [congruence|].
    change (run_system (o :: rest) h) with (run_system rest (step h o)).
    apply (IH _ i); [|exact Hq2|exact Ho].
    apply get_rng_iff. apply step_frame; [apply get_rng_iff; exact Hr|right; reflexivity|left; exact Hq1].
  Qed.

  (** ... and from the seed: the configuration constructor of a seeding class sets the generator
      to [reseed k c r]; if nothing writes the generator between that constructor and the
      instance's last call, the instance reports the private run from the seeded state. *)
  Theorem kswin_isolated_from_seed : forall pre gap mid tail (h0 : heap) k cb c r,
    seeds k = true -> uses_rng k = true -> get_rng (run_system pre h0) = Some r ->
    let h1 := run_system pre h0 in
    let cl := length h1 in
    let h2 := run_system gap (step h1 (NewCfg fam V k c)) in
    let i := length h2 in
    quiet i gap (step h1 (NewCfg fam V k c)) -> ops_of i gap = [] ->
    quiet i mid (step h2 (New fam V k cl cb)) -> ops_of i tail = [] ->
    hget (run_system (pre ++ NewCfg fam V k c :: gap ++ New fam V k cl cb :: mid ++ tail) h0) i
      = Some (OInst k cl cb (fst (rng_exec k c cb (reseed k c r) (ops_of i mid)))).
  Proof.
    intros pre gap mid tail h0 k cb c r Hs Hu Hr h1 cl h2 i Hqg Hog Hqm Ht.
    change (get_rng h1 = Some r) in Hr.
    replace (pre ++ NewCfg fam V k c :: gap ++ New fam V k cl cb :: mid ++ tail)
      with ((pre ++ NewCfg fam V k c :: gap) ++ New fam V k cl cb :: mid ++ tail)
      by (rewrite <- app_assoc; reflexivity).
    assert (run_system (pre ++ NewCfg fam V k c :: gap) h0 = h2) as E.
    { rewrite run_app. reflexivity. }
    pose proof (proj1 (get_rng_iff _ _) Hr) as Hr0. pose proof (hget_lt _ _ _ Hr0) as Hl0.
    assert (hget (step h1 (NewCfg fam V k c)) cl = Some (OCfg k c)) as Hcfg.
    { cbn [Heap.step]. unfold Heap.do_newcfg. rewrite Hs, Hr.
      replace cl with (length (hset h1 rng_loc (ORng (reseed k c r)))) by apply length_hset.
      apply hget_alloc_new. }
    assert (get_rng (step h1 (NewCfg fam V k c)) = Some (reseed k c r)) as Hrs.
    { apply get_rng_iff. cbn [Heap.step]. unfold Heap.do_newcfg. rewrite Hs, Hr.
      eapply hget_alloc_old. apply hget_hset_same. exact Hl0. }
    pose proof (kswin_isolated_given_rng (pre ++ NewCfg fam V k c :: gap) mid tail h0 k cl cb c (reseed k c r)) as K.
    cbn zeta in K. rewrite E in K. apply K.
    - apply get_cfg_run. apply get_cfg_iff. exact Hcfg.
    - exact Hu.
    - apply (quiet_keeps_rng gap _ i); assumption.
    - exact Hqm.
    - exact Ht.
  Qed.

  (* ------------------------------------------------------------------ what two instances can share *)
  (** [ownership]: an instance refers to its configuration object and (consuming classes only)
      to the generator - to nothing else; everything else it uses is inside its own object *)
  Theorem refs_spec : forall k cl cb sh l,
    In l (refs (OInst k cl cb sh)) <-> l = cl \/ (uses_rng k = true /\ l = rng_loc).
  Proof.
    intros k cl cb sh l. cbn [Heap.refs]. destruct (uses_rng k); cbn; split; intro H.
    - destruct H as [H|[H|[]]]; auto.
    - destruct H as [H|[_ H]]; auto.
    - destruct H as [H|[]]; auto.
    - destruct H as [H|[H _]]; [auto|discriminate].
  Qed.

  (** two [New]s from one configuration object: both instances refer to the SAME object *)
  Theorem new_shares_config : forall (h : heap) k cl cb cb' c, get_cfg h cl k = Some c ->
    let h' := step (step h (New fam V k cl cb)) (New fam V k cl cb') in
    exists sh sh', hget h' (length h) = Some (OInst k cl cb sh) /\ hget h' (S (length h)) = Some (OInst k cl cb' sh') /\
                   hget h' cl = Some (OCfg k c).
  Proof.
    intros h k cl cb cb' c Hc h'. subst h'.
    pose proof (get_cfg_step h (New fam V k cl cb) _ _ _ Hc) as Hc1.
    exists (inst_init k c cb), (inst_init k c cb'). cbn [Heap.step] in *. unfold Heap.do_new in *.
    rewrite Hc in *. rewrite Hc1. repeat split.
    - apply hget_alloc_old. apply hget_alloc_new.
    - rewrite <- (length_alloc h (OInst k cl cb (inst_init k c cb))). apply hget_alloc_new.
    - apply hget_alloc_old. apply hget_alloc_old. apply get_cfg_iff. exact Hc.
  Qed.

  (** config=None: a fresh configuration object per constructor call, never shared *)
  Theorem default_config_fresh : forall (h : heap) k cb,
    let h' := step h (NewD fam V k cb) in
    hget h' (length h) = Some (OCfg k (dflt k)) /\
    hget h' (S (length h)) = Some (OInst k (length h) cb (inst_init k (dflt k) cb)) /\
    length h' = S (S (length h)).
  Proof.
    intros h k cb h'. subst h'. cbn [Heap.step].
    assert (length (do_newcfg h k (dflt k)) = S (length h)) as Hl.
    { unfold Heap.do_newcfg. rewrite length_alloc. destruct (seeds k); [destruct (get_rng h)|]; rewrite ?length_hset; reflexivity. }
    assert (hget (do_newcfg h k (dflt k)) (length h) = Some (OCfg k (dflt k))) as Hc.
    { unfold Heap.do_newcfg. destruct (seeds k); [destruct (get_rng h) as [r1|]|];
        try (rewrite <- (length_hset h rng_loc (ORng (reseed k (dflt k) r1)))); apply hget_alloc_new. }
    unfold Heap.do_new. rewrite (proj2 (get_cfg_iff _ _ _ _) Hc). repeat split.
    - apply hget_alloc_old. exact Hc.
    - rewrite <- Hl. apply hget_alloc_new.
    - rewrite length_alloc, Hl. reflexivity.
  Qed.

  (* ------------------------------------------------------------------ the observable trace *)
  Section Trace.
    Variable O : Type.
    Variable ob : forall k, d_st (fam k) -> O.
    Notation sys_trace := (sys_trace fam V W vars rng uses_rng inp draw seeds reseed dflt O ob).
    Lemma sys_trace_length : forall s (h : heap),
      length (sys_trace s h) = length (filter (fun o => match o with Heap.Update _ _ _ _ | Heap.Reset _ _ _ => true | _ => false end) s).
    Proof.
      induction s as [|o r IH]; intro h; [reflexivity|].
      destruct o; cbn [Heap.sys_trace filter length]; rewrite IH; reflexivity.
    Qed.

    Lemma sys_trace_app : forall a b (h : heap),
      sys_trace (a ++ b) h = sys_trace a h ++ sys_trace b (run_system a h).
    Proof.
      induction a as [|o r IH]; intros b h; [reflexivity|].
      change (run_system (o :: r) h) with (run_system r (step h o)).
      destruct o; cbn [app Heap.sys_trace]; rewrite IH; reflexivity.
    Qed.

    (** the entry the trace records for a call is what the theorems speak about: the addressed
        instance in the heap reached by the schedule up to and including that call *)
    Lemma sys_trace_last : forall s (h : heap) o i, (exists v, o = Update fam V i v) \/ o = Reset fam V i ->
      sys_trace (s ++ [o]) h = sys_trace s h ++ [observe_at fam W rng O ob (run_system (s ++ [o]) h) i].
    Proof.
      intros s h o i Ho. rewrite sys_trace_app, run_app.
      destruct Ho as [[v ->]| ->]; reflexivity.
    Qed.
  End Trace.
End HeapR.

(** ---------------------------------------------------------------------------------------
    A tiny concrete family used for the non-vacuity / refutation examples (vm_compute).
    class 0: running sum with an alarm threshold (no generator);
    class 1: consumes the generator at every update and stores value + draw; its configuration
             constructor seeds the generator with the configuration's value. *)
Module Toy.
  Local Open Scope Z_scope.
  Definition SumD : Detector := {|
    d_cfg := Z; d_in := Z; d_st := (Z * Z * bool)%type;
    d_init := fun _ => (0, 0, false);
    d_step := fun c s v => let t := fst (fst s) + v in (t, snd (fst s) + 1, c <? t);
    d_reset := fun _ _ => (0, 0, false);
    d_drift := fun s => snd s; d_warning := fun _ => false; d_has_warning_status := false;
    d_ninst := fun s => snd (fst s) |}.
  Definition RndD : Detector := {|
    d_cfg := Z; d_in := (Z * Z)%type; d_st := list Z;
    d_init := fun _ => [];
    d_step := fun _ s vd => s ++ [fst vd + snd vd];
    d_reset := fun _ _ => [];
    d_drift := fun _ => false; d_warning := fun _ => false; d_has_warning_status := false;
    d_ninst := fun s => Z.of_nat (List.length s) |}.
  Definition fam (k : nat) : Detector := match k with O => SumD | S _ => RndD end.
  Definition uses_rng (k : nat) : bool := match k with O => false | S _ => true end.
  Definition seeds := uses_rng.
  Definition inp : forall k, Z -> d_in (fam k) :=
    fun k => match k with O => fun v => v | S _ => fun v => (v, 0) end.
  Definition next (r : Z) : Z := (r * 5 + 3) mod 16.
  Definition draw : forall k, d_cfg (fam k) -> d_st (fam k) -> Z -> Z -> d_in (fam k) * Z :=
    fun k => match k with O => fun _ _ v r => (v, r) | S _ => fun _ _ v r => ((v, r), next r) end.
  Definition reseed : forall k, d_cfg (fam k) -> Z -> Z :=
    fun k => match k with O => fun _ r => r | S _ => fun c _ => c end.
  Definition dflt : forall k, d_cfg (fam k) := fun k => match k with O => 10 | S _ => 7 end.
  Definition vars : forall k, d_st (fam k) -> string -> Z :=
    fun k => match k with O => fun s _ => fst (fst s) | S _ => fun s _ => Z.of_nat (List.length s) end.

  Definition run := run_system fam Z Z vars Z uses_rng inp draw seeds reseed dflt.
  Definition h0 : heap fam Z Z := [ORng fam Z Z 1].
  Definition at_ (h : heap fam Z Z) (i : loc) := hget fam Z Z h i.
  Definition solo := inst_exec fam Z Z vars inp.
  Definition solo_rng := rng_exec fam Z Z vars Z draw.
  Definition quietb := quietb fam Z Z vars Z uses_rng inp draw seeds reseed dflt.
  Definition st := Heap.step fam Z Z vars Z uses_rng inp draw seeds reseed dflt.
  (** the detector state of an object of class 1 (None for anything else) *)
  Definition rnd_of (o : option (obj fam Z Z)) : option (list Z) :=
    match o with
    | Some (OInst _ _ _ k _ _ sh) =>
        match k return d_st (fam k) * hist (fam k) Z -> option (list Z) with
        | O => fun _ => None
        | S _ => fun sh => Some (fst sh)
        end sh
    | _ => None
    end.
End Toy.
