(** C18 (queue part): the CircularQueue model refines a bounded deque; a stream of
    enqueues leaves exactly the last [max_len] values; AccuracyQueue counters. *)
From Coq Require Import ZArith List Bool Lia.
From FV Require Import Py Sums Queue.
Import ListNotations.
Local Open Scope Z_scope.

(** * Arithmetic and list helpers *)

Lemma mod_window_inj : forall M a b, 0 < M -> a mod M = b mod M -> 0 <= b - a < M -> a = b.
Proof.
  intros M a b HM He Hw.
  assert (H : (b - a) mod M = 0).
  { rewrite Zminus_mod, He, Z.sub_diag. apply Z.mod_0_l. lia. }
  rewrite Z.mod_small in H by lia. lia.
Qed.

Lemma set_nth_length : forall {X} (l : list X) n (x : X), length (set_nth n x l) = length l.
Proof.
  intros X l; induction l as [|h t IH]; intros n x; destruct n; cbn [set_nth length]; auto.
Qed.

Lemma nth_set_nth_eq : forall {X} (l : list X) n (x d : X),
  (n < length l)%nat -> nth n (set_nth n x l) d = x.
Proof.
  intros X l; induction l as [|h t IH]; intros n x d Hn; cbn [length] in Hn.
  - lia.
  - destruct n; cbn [set_nth nth]; [reflexivity|]. apply IH. lia.
Qed.

Lemma nth_set_nth_neq : forall {X} (l : list X) n m (x d : X),
  n <> m -> nth m (set_nth n x l) d = nth m l d.
Proof.
  intros X l; induction l as [|h t IH]; intros n m x d Hn.
  - destruct n; reflexivity.
  - destruct n, m; cbn [set_nth nth]; try reflexivity; try congruence.
    apply IH. congruence.
Qed.

Lemma lastn_all : forall {X} n (l : list X), (length l <= n)%nat -> lastn n l = l.
Proof.
  intros X n l H. unfold lastn. replace (length l - n)%nat with 0%nat by lia. reflexivity.
Qed.

Lemma lastn_length : forall {X} n (l : list X), length (lastn n l) = Nat.min (length l) n.
Proof.
  intros X n l. unfold lastn. rewrite skipn_length. lia.
Qed.

Lemma count_true_cons : forall x t,
  Z.of_nat (count_occ bool_dec (x :: t) true) = b2z x + Z.of_nat (count_occ bool_dec t true).
Proof.
  intros x t. destruct x.
  - rewrite count_occ_cons_eq by reflexivity. unfold b2z. lia.
  - rewrite count_occ_cons_neq by discriminate. unfold b2z. lia.
Qed.

Lemma count_true_snoc : forall t v,
  Z.of_nat (count_occ bool_dec (t ++ [v]) true) = Z.of_nat (count_occ bool_dec t true) + b2z v.
Proof.
  intros t v. rewrite count_occ_app, Nat2Z.inj_add, count_true_cons.
  cbn [count_occ]. lia.
Qed.

Lemma count_true_false : forall l : list bool,
  length l = (count_occ bool_dec l true + count_occ bool_dec l false)%nat.
Proof.
  induction l as [|x t IH]; [reflexivity|].
  destruct x.
  - rewrite count_occ_cons_eq by reflexivity. rewrite count_occ_cons_neq by discriminate.
    cbn [length]. lia.
  - rewrite count_occ_cons_neq by discriminate. rewrite count_occ_cons_eq by reflexivity.
    cbn [length]. lia.
Qed.

Section QR.
  Context {T : Type}.

  Definition cq_inv (q : cq T) : Prop :=
    1 <= q_max q /\ length (q_slots q) = Z.to_nat (q_max q) /\ 0 <= q_count q <= q_max q /\
    0 <= q_first q < q_max q /\ -1 <= q_last q < q_max q /\
    (q_last q + 1) mod q_max q = (q_first q + q_count q) mod q_max q.

  (** The inductive invariant: [cq_inv] plus "[last = -1] only in a cleared queue"
      ([cq_inv] alone is not preserved by [cq_keep_last]). *)
  Definition cq_inv_s (q : cq T) : Prop := cq_inv q /\ (q_last q = -1 -> q_count q = 0).

  Definition cq_rel (M : Z) (q : cq T) (d : list T) : Prop :=
    cq_inv_s q /\ q_max q = M /\ cq_abs q = map Some d.

  (** ** [read_from] in closed form *)
  Definition rdf (m : Z) (sl : list (option T)) (pos : Z) (i : nat) : option T :=
    nth (Z.to_nat ((pos + Z.of_nat i) mod m)) sl None.

  Lemma read_from_closed : forall (q : cq T) n pos, 1 <= q_max q -> 0 <= pos < q_max q ->
    read_from q pos n = map (rdf (q_max q) (q_slots q) pos) (seq 0 n).
  Proof.
    intros q n; induction n as [|k IH]; intros pos HM Hp.
    - reflexivity.
    - cbn [read_from seq map]. f_equal.
      + unfold slot, rdf. change (Z.of_nat 0) with 0. rewrite Z.add_0_r, Z.mod_small by lia.
        reflexivity.
      + rewrite IH by (try lia; apply Z.mod_pos_bound; lia).
        rewrite <- seq_shift, map_map. apply map_ext. intros i. unfold rdf.
        f_equal. f_equal. rewrite Zplus_mod_idemp_l. f_equal. lia.
  Qed.

  Lemma read_from_length : forall (q : cq T) n pos, length (read_from q pos n) = n.
  Proof.
    intros q n; induction n as [|k IH]; intros pos; cbn [read_from length]; auto.
  Qed.

  Lemma read_from_same : forall (q q' : cq T) n pos,
    q_max q = q_max q' -> q_slots q = q_slots q' -> read_from q pos n = read_from q' pos n.
  Proof.
    intros q q' n; induction n as [|k IH]; intros pos Hm Hs; cbn [read_from]; [reflexivity|].
    unfold slot. rewrite Hs, Hm. f_equal. apply IH; assumption.
  Qed.

  Lemma cq_rel_count : forall M q d, cq_rel M q d -> q_count q = Z.of_nat (length d).
  Proof.
    intros M q d [[Hinv _] [_ Habs]].
    destruct Hinv as (_ & _ & Hc & _).
    apply (f_equal (@length _)) in Habs. unfold cq_abs in Habs.
    rewrite read_from_length, map_length in Habs. lia.
  Qed.

  Lemma cq_rel_inv : forall M q d, cq_rel M q d -> cq_inv q.
  Proof. intros M q d [[H _] _]. exact H. Qed.

  Lemma cq_rel_max : forall M q d, cq_rel M q d -> q_max q = M.
  Proof. intros M q d [_ [H _]]. exact H. Qed.

  Lemma cq_rel_abs : forall M q d, cq_rel M q d -> cq_abs q = map Some d.
  Proof. intros M q d [_ [_ H]]. exact H. Qed.

  Lemma cq_rel_length_le : forall M q d, cq_rel M q d -> (length d <= Z.to_nat M)%nat.
  Proof.
    intros M q d H. pose proof (cq_rel_count _ _ _ H) as Hc.
    pose proof (cq_rel_max _ _ _ H) as Hm.
    destruct (cq_rel_inv _ _ _ H) as (_ & _ & Hcc & _). lia.
  Qed.

  (** ** Initial / cleared queue *)
  Lemma cq_init_rel : forall M, 1 <= M -> cq_rel M (cq_init M) [].
  Proof.
    intros M HM. unfold cq_rel, cq_inv_s, cq_inv, cq_init, cq_abs; cbn.
    rewrite repeat_length. repeat split; try lia.
  Qed.

  (** ** The write half of [enqueue] *)
  Definition cq_push (q : cq T) (v : T) : cq T :=
    let l := (q_last q + 1) mod q_max q in
    {| q_count := q_count q + 1; q_first := q_first q; q_last := l; q_max := q_max q;
       q_slots := set_nth (Z.to_nat l) (Some v) (q_slots q) |}.

  Lemma cq_push_rel : forall M q d v, cq_rel M q d -> q_count q < M ->
    cq_rel M (cq_push q v) (d ++ [v]).
  Proof.
    intros M q d v Hrel Hlt.
    pose proof (cq_rel_count _ _ _ Hrel) as Hcnt.
    destruct Hrel as [[Hinv Hl] [Hm Habs]].
    destruct Hinv as (HM & Hlen & Hc & Hf & Hla & Heq).
    subst M.
    assert (Hlpos : 0 <= (q_last q + 1) mod q_max q < q_max q) by (apply Z.mod_pos_bound; lia).
    unfold cq_rel, cq_inv_s, cq_inv, cq_push. cbn [q_count q_first q_last q_max q_slots].
    rewrite set_nth_length.
    repeat split; try lia.
    - rewrite Zplus_mod_idemp_l. rewrite <- Zplus_mod_idemp_l. rewrite Heq.
      rewrite Zplus_mod_idemp_l. f_equal. lia.
    - unfold cq_abs. cbn [q_count q_first].
      rewrite read_from_closed by (cbn [q_max]; lia). cbn [q_max q_slots].
      replace (Z.to_nat (q_count q + 1)) with (S (Z.to_nat (q_count q))) by lia.
      rewrite seq_S, map_app, map_app. cbn [map]. f_equal.
      + rewrite <- Habs. unfold cq_abs. rewrite read_from_closed by lia.
        apply map_ext_in. intros i Hi. apply in_seq in Hi. unfold rdf.
        apply nth_set_nth_neq. intros Hcontra.
        assert (Hb : 0 <= (q_first q + Z.of_nat i) mod q_max q < q_max q)
          by (apply Z.mod_pos_bound; lia).
        assert (Hz : (q_first q + Z.of_nat i) mod q_max q = (q_first q + q_count q) mod q_max q)
          by lia.
        apply mod_window_inj in Hz; lia.
      + f_equal. unfold rdf. cbn [Nat.add].
        rewrite Z2Nat.id by lia. rewrite <- Heq.
        apply nth_set_nth_eq. lia.
  Qed.

  (** ** dequeue *)
  Lemma cq_dequeue_empty : forall M q, cq_rel M q [] -> cq_dequeue q = Raise EmptyQueueError.
  Proof.
    intros M q H. apply cq_rel_count in H. cbn [length] in H.
    unfold cq_dequeue, cq_is_empty. rewrite H. reflexivity.
  Qed.

  Lemma cq_dequeue_rel : forall M q x t, cq_rel M q (x :: t) ->
    exists q', cq_dequeue q = Ok (q', Some x) /\ cq_rel M q' t.
  Proof.
    intros M q x t Hrel.
    pose proof (cq_rel_count _ _ _ Hrel) as Hcnt. cbn [length] in Hcnt.
    destruct Hrel as [[Hinv Hl] [Hm Habs]].
    destruct Hinv as (HM & Hlen & Hc & Hf & Hla & Heq).
    subst M.
    unfold cq_abs in Habs.
    replace (Z.to_nat (q_count q)) with (S (length t)) in Habs by lia.
    cbn [read_from map] in Habs. injection Habs as Hx Ht.
    unfold cq_dequeue, cq_is_empty.
    destruct (q_count q =? 0) eqn:E0; [apply Z.eqb_eq in E0; lia|].
    destruct (q_max q =? 0) eqn:E1; [apply Z.eqb_eq in E1; lia|].
    eexists. split; [rewrite Hx; reflexivity|].
    assert (Hfp : 0 <= (q_first q + 1) mod q_max q < q_max q) by (apply Z.mod_pos_bound; lia).
    unfold cq_rel, cq_inv_s, cq_inv, cq_abs. cbn [q_count q_first q_last q_max q_slots].
    repeat split; try lia.
    - rewrite Zplus_mod_idemp_l. rewrite Heq. f_equal. lia.
    - rewrite <- Ht.
      replace (Z.to_nat (q_count q - 1)) with (length t) by lia.
      apply read_from_same; reflexivity.
  Qed.

  (** ** enqueue *)
  Lemma dq_enqueue_length : forall M (d : list T) v, 1 <= M -> (length d <= Z.to_nat M)%nat ->
    (length (fst (dq_enqueue M d v)) <= Z.to_nat M)%nat.
  Proof.
    intros M d v HM Hd. unfold dq_enqueue.
    destruct (Z.of_nat (length d) =? M) eqn:E; cbn [fst]; rewrite app_length; cbn [length].
    - apply Z.eqb_eq in E. destruct d as [|x t]; cbn [length tl] in *; lia.
    - apply Z.eqb_neq in E. lia.
  Qed.

  Lemma cq_enqueue_rel : forall M q d v, 1 <= M -> cq_rel M q d ->
    exists q', cq_enqueue q v = Ok (q', snd (dq_enqueue M d v)) /\
               cq_rel M q' (fst (dq_enqueue M d v)).
  Proof.
    intros M q d v HM Hrel.
    pose proof (cq_rel_count _ _ _ Hrel) as Hcnt.
    pose proof (cq_rel_max _ _ _ Hrel) as Hmax.
    unfold cq_enqueue, dq_enqueue, cq_is_full. rewrite Hcnt, Hmax.
    destruct (Z.of_nat (length d) =? M) eqn:E.
    - apply Z.eqb_eq in E. destruct d as [|x t]; [cbn [length] in E; lia|].
      destruct (cq_dequeue_rel _ _ _ _ Hrel) as (q1 & Hdq & Hrel1).
      rewrite Hdq. cbn [bind fst snd tl hd_error].
      pose proof (cq_rel_max _ _ _ Hrel1) as Hmax1.
      pose proof (cq_rel_count _ _ _ Hrel1) as Hcnt1.
      destruct (q_max q1 =? 0) eqn:E1; [apply Z.eqb_eq in E1; lia|].
      exists (cq_push q1 v). split; [reflexivity|].
      apply cq_push_rel; [assumption|]. cbn [length] in E. lia.
    - apply Z.eqb_neq in E. cbn [bind fst snd].
      destruct (q_max q =? 0) eqn:E1; [apply Z.eqb_eq in E1; lia|].
      exists (cq_push q v). split; [reflexivity|].
      apply cq_push_rel; [assumption|].
      destruct (cq_rel_inv _ _ _ Hrel) as (_ & _ & Hc & _). lia.
  Qed.

  (** ** maintain_last_element *)
  Lemma cq_keep_rel : forall M q d, cq_rel M q d -> cq_rel M (cq_keep_last q) (dq_keep_last d).
  Proof.
    intros M q d Hrel.
    pose proof (cq_rel_count _ _ _ Hrel) as Hcnt.
    unfold cq_keep_last, cq_is_empty.
    destruct (q_count q =? 0) eqn:E0.
    - apply Z.eqb_eq in E0. destruct d as [|x t]; [exact Hrel|cbn [length] in Hcnt; lia].
    - apply Z.eqb_neq in E0.
      destruct Hrel as [[Hinv Hl] [Hm Habs]].
      destruct Hinv as (HM & Hlen & Hc & Hf & Hla & Heq).
      subst M.
      assert (Hlast : 0 <= q_last q) by lia.
      assert (d <> []) as Hne by (intros ->; cbn [length] in Hcnt; lia).
      destruct (exists_last Hne) as (d' & x & ->).
      unfold dq_keep_last. rewrite rev_unit.
      rewrite app_length in Hcnt. cbn [length] in Hcnt.
      (* the last slot holds x *)
      assert (Hslot : slot q (q_last q) = Some x).
      { unfold cq_abs in Habs. rewrite read_from_closed in Habs by lia.
        replace (Z.to_nat (q_count q)) with (S (length d')) in Habs by lia.
        rewrite seq_S, !map_app in Habs. cbn [map] in Habs.
        apply app_inj_tail in Habs. destruct Habs as [_ Hx].
        rewrite <- Hx. unfold slot, rdf. cbn [Nat.add]. f_equal. f_equal.
        assert (Hz : q_last q mod q_max q = (q_first q + Z.of_nat (length d')) mod q_max q).
        { replace (q_last q) with (q_last q + 1 - 1) at 1 by lia.
          rewrite <- Zminus_mod_idemp_l, Heq, Zminus_mod_idemp_l. f_equal. lia. }
        rewrite Z.mod_small in Hz by lia. exact Hz. }
      unfold cq_rel, cq_inv_s, cq_inv, cq_abs. cbn [q_count q_first q_last q_max q_slots].
      repeat split; try lia.
      change (Z.to_nat 1) with 1%nat. cbn [read_from map].
      f_equal. rewrite <- Hslot. reflexivity.
  Qed.

  (** ** One-step and run simulation *)
  Lemma cq_apply_sim : forall M q d o, 1 <= M -> cq_rel M q d ->
    snd (cq_apply q o) = snd (dq_apply M d o) /\
    cq_rel M (fst (cq_apply q o)) (fst (dq_apply M d o)).
  Proof.
    intros M q d o HM Hrel. destruct o as [v| | |]; cbn [cq_apply dq_apply].
    - destruct (cq_enqueue_rel M q d v HM Hrel) as (q' & He & Hrel').
      rewrite He. destruct (dq_enqueue M d v) as [d' el]. cbn [fst snd] in *. auto.
    - destruct d as [|x t].
      + rewrite (cq_dequeue_empty _ _ Hrel). cbn. auto.
      + destruct (cq_dequeue_rel _ _ _ _ Hrel) as (q' & Hd & Hrel').
        rewrite Hd. cbn. auto.
    - cbn [fst snd]. split; [reflexivity|]. unfold cq_clear.
      rewrite (cq_rel_max _ _ _ Hrel). apply cq_init_rel; assumption.
    - cbn [fst snd]. split; [reflexivity|]. apply cq_keep_rel; assumption.
  Qed.

  Lemma cq_run_sim : forall M ops q d, 1 <= M -> cq_rel M q d ->
    snd (cq_run q ops) = snd (dq_run M d ops) /\
    cq_rel M (fst (cq_run q ops)) (fst (dq_run M d ops)).
  Proof.
    intros M ops; induction ops as [|o r IH]; intros q d HM Hrel.
    - cbn. auto.
    - cbn [cq_run dq_run].
      destruct (cq_apply_sim M q d o HM Hrel) as [Hout Hrel1].
      destruct (cq_apply q o) as [q1 out]. destruct (dq_apply M d o) as [d1 out'].
      cbn [fst snd] in Hout, Hrel1. subst out'.
      destruct (IH q1 d1 HM Hrel1) as [Houts Hrel2].
      destruct (cq_run q1 r) as [q2 outs]. destruct (dq_run M d1 r) as [d2 outs'].
      cbn [fst snd] in *. subst outs'. auto.
  Qed.

  Theorem queue_refines_deque : forall (max_len : Z) (ops : list (qop T)), 1 <= max_len ->
    forall q outs d outs',
    cq_run (cq_init max_len) ops = (q, outs) -> dq_run max_len [] ops = (d, outs') ->
    outs = outs' /\ cq_abs q = map Some d /\ cq_inv q /\
    cq_len q = Z.of_nat (length d) /\
    cq_is_empty q = (match d with [] => true | _ => false end) /\
    cq_is_full q = (Z.of_nat (length d) =? max_len).
  Proof.
    intros M ops HM q outs d outs' Hc Hd.
    destruct (cq_run_sim M ops (cq_init M) [] HM (cq_init_rel M HM)) as [Ho Hrel].
    rewrite Hc, Hd in Ho, Hrel. cbn [fst snd] in Ho, Hrel.
    pose proof (cq_rel_count _ _ _ Hrel) as Hcnt.
    split; [exact Ho|]. split; [exact (cq_rel_abs _ _ _ Hrel)|].
    split; [exact (cq_rel_inv _ _ _ Hrel)|].
    split; [exact Hcnt|]. split.
    - unfold cq_is_empty. rewrite Hcnt. destruct d as [|x t]; [reflexivity|].
      apply Z.eqb_neq. cbn [length]. lia.
    - unfold cq_is_full. rewrite Hcnt, (cq_rel_max _ _ _ Hrel). reflexivity.
  Qed.

  (** ** A stream of enqueues leaves the last [max_len] values *)
  Lemma lastn_enq : forall M (d : list T) v vs, 1 <= M -> (length d <= Z.to_nat M)%nat ->
    lastn (Z.to_nat M) (fst (dq_enqueue M d v) ++ vs) = lastn (Z.to_nat M) (d ++ v :: vs).
  Proof.
    intros M d v vs HM Hd. unfold dq_enqueue.
    destruct (Z.of_nat (length d) =? M) eqn:E; cbn [fst]; rewrite <- app_assoc; cbn [app];
      [|reflexivity].
    apply Z.eqb_eq in E. destruct d as [|x t]; [cbn [length] in E; lia|].
    cbn [tl app]. unfold lastn. cbn [length] in *.
    assert (Hl : length (t ++ v :: vs) = (length t + S (length vs))%nat)
      by (rewrite app_length; reflexivity).
    replace (S (length (t ++ v :: vs)) - Z.to_nat M)%nat
      with (S (length (t ++ v :: vs) - Z.to_nat M)) by lia.
    reflexivity.
  Qed.

  Lemma dq_run_enq_lastn : forall M vs (d : list T), 1 <= M -> (length d <= Z.to_nat M)%nat ->
    fst (dq_run M d (map (@Enq T) vs)) = lastn (Z.to_nat M) (d ++ vs).
  Proof.
    intros M vs; induction vs as [|v r IH]; intros d HM Hd.
    - cbn [map dq_run fst]. rewrite app_nil_r. symmetry. apply lastn_all. exact Hd.
    - cbn [map dq_run dq_apply].
      pose proof (lastn_enq M d v r HM Hd) as Hstep.
      pose proof (dq_enqueue_length M d v HM Hd) as Hlen.
      destruct (dq_enqueue M d v) as [d1 el]. cbn [fst] in Hstep, Hlen.
      specialize (IH d1 HM Hlen).
      destruct (dq_run M d1 (map (@Enq T) r)) as [d2 outs]. cbn [fst] in *.
      rewrite IH. exact Hstep.
  Qed.

  Theorem full_exposes_last : forall (max_len : Z) (vs : list T), 1 <= max_len ->
    fst (dq_run max_len [] (map (@Enq T) vs)) = lastn (Z.to_nat max_len) vs.
  Proof.
    intros M vs HM. rewrite dq_run_enq_lastn by (cbn [length]; lia). reflexivity.
  Qed.
End QR.

(** * AccuracyQueue *)

Fixpoint aq_run (a : aq) (vs : list bool) : res aq :=
  match vs with [] => Ok a | v :: r => match aq_enqueue a v with Ok a' => aq_run a' r | Raise e => Raise e end end.

Lemma aq_enqueue_cq : forall a v q' el, cq_enqueue (a_q a) v = Ok (q', el) ->
  aq_enqueue a v =
  Ok {| a_q := q';
        a_true := (if cq_is_full (a_q a) then a_true a - ob2z el else a_true a) + b2z v |}.
Proof.
  intros a v q' el. unfold aq_enqueue, cq_enqueue.
  destruct (cq_is_full (a_q a)).
  - destruct (cq_dequeue (a_q a)) as [[q1 e1]|e]; cbn [bind]; [|discriminate].
    destruct (q_max q1 =? 0); [discriminate|].
    intros H. inversion H; subst. reflexivity.
  - cbn [bind]. destruct (q_max (a_q a) =? 0); [discriminate|].
    intros H. inversion H; subst. reflexivity.
Qed.

Definition aq_rel (M : Z) (a : aq) (d : list bool) : Prop :=
  cq_rel M (a_q a) d /\ a_true a = Z.of_nat (count_occ bool_dec d true).

Lemma aq_enqueue_rel : forall M a d v, 1 <= M -> aq_rel M a d ->
  exists a', aq_enqueue a v = Ok a' /\ aq_rel M a' (fst (dq_enqueue M d v)).
Proof.
  intros M a d v HM [Hrel Ht].
  destruct (cq_enqueue_rel M (a_q a) d v HM Hrel) as (q' & He & Hrel').
  rewrite (aq_enqueue_cq _ _ _ _ He). eexists. split; [reflexivity|].
  unfold aq_rel. cbn [a_q a_true]. split; [exact Hrel'|].
  unfold cq_is_full. rewrite (cq_rel_count _ _ _ Hrel), (cq_rel_max _ _ _ Hrel).
  unfold dq_enqueue. destruct (Z.of_nat (length d) =? M) eqn:E; cbn [fst snd].
  - apply Z.eqb_eq in E. destruct d as [|x t]; [cbn [length] in E; lia|].
    cbn [tl hd_error]. rewrite count_true_snoc. rewrite count_true_cons in Ht.
    rewrite Ht. unfold ob2z, b2z. destruct x; lia.
  - rewrite count_true_snoc. lia.
Qed.

Lemma aq_run_rel : forall M vs a d, 1 <= M -> (length d <= Z.to_nat M)%nat -> aq_rel M a d ->
  exists a', aq_run a vs = Ok a' /\ aq_rel M a' (lastn (Z.to_nat M) (d ++ vs)).
Proof.
  intros M vs; induction vs as [|v r IH]; intros a d HM Hd Hrel.
  - exists a. split; [reflexivity|]. rewrite app_nil_r, lastn_all by exact Hd. exact Hrel.
  - cbn [aq_run].
    destruct (aq_enqueue_rel M a d v HM Hrel) as (a1 & He & Hrel1).
    rewrite He.
    destruct (IH a1 _ HM (dq_enqueue_length M d v HM Hd) Hrel1) as (a' & Hr & Hrel').
    exists a'. split; [exact Hr|]. rewrite <- lastn_enq by assumption. exact Hrel'.
Qed.

Theorem accuracy_counts : forall (max_len : Z) (vs : list bool), 1 <= max_len ->
  exists a, aq_run (aq_init max_len) vs = Ok a /\
    cq_abs (a_q a) = map Some (lastn (Z.to_nat max_len) vs) /\
    aq_num_true a = Z.of_nat (count_occ bool_dec (lastn (Z.to_nat max_len) vs) true) /\
    aq_num_false a = Z.of_nat (count_occ bool_dec (lastn (Z.to_nat max_len) vs) false).
Proof.
  intros M vs HM.
  assert (H0 : aq_rel M (aq_init M) []).
  { split; [apply cq_init_rel; assumption|reflexivity]. }
  destruct (aq_run_rel M vs (aq_init M) [] HM ltac:(cbn [length]; lia) H0) as (a & Hr & Hrel).
  cbn [app] in Hrel. destruct Hrel as [Hq Ht].
  exists a. split; [exact Hr|]. split; [exact (cq_rel_abs _ _ _ Hq)|].
  split; [exact Ht|].
  unfold aq_num_false. rewrite Ht, (cq_rel_count _ _ _ Hq).
  rewrite (count_true_false (lastn (Z.to_nat M) vs)) at 1. lia.
Qed.
