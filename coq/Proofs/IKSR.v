(** C11: the KS statistic / exact p-value re-exports and the IncrementalKSTest model
    (Model/IKS.v) against the batch test on the last [window_size] values. *)
From Coq Require Import ZArith List Bool Lia Permutation.
From FV Require Import NumSys Py Sums Queue KS IKS QueueRef KSPaths.
Import ListNotations.
Local Open Scope Z_scope.

(* ====================================================================== list helpers *)

Lemma skipn_skipn' : forall {T} (a b : nat) (l : list T), skipn a (skipn b l) = skipn (b + a) l.
Proof.
  intros T a b; induction b as [|b IH]; intros l.
  - reflexivity.
  - destruct l as [|x l]; [rewrite !skipn_nil; reflexivity|]. cbn [skipn Nat.add]. apply IH.
Qed.

Lemma nth_skipn' : forall {T} (a i : nat) (l : list T) d, nth i (skipn a l) d = nth (a + i) l d.
Proof.
  intros T a; induction a as [|a IH]; intros i l d.
  - reflexivity.
  - destruct l as [|x l]; [destruct i; reflexivity|]. cbn [skipn Nat.add nth]. apply IH.
Qed.

Lemma nth_firstn' : forall {T} (k i : nat) (l : list T) d, (i < k)%nat -> nth i (firstn k l) d = nth i l d.
Proof.
  intros T k; induction k as [|k IH]; intros i l d Hi; [lia|].
  destruct l as [|x l]; [reflexivity|]. destruct i; cbn [firstn nth]; [reflexivity|].
  apply IH. lia.
Qed.

(** appending one element and keeping the last [n] commutes with a previous truncation *)
Lemma lastn_0 : forall {T} (l : list T), lastn 0 l = [].
Proof. intros T l. unfold lastn. rewrite Nat.sub_0_r. apply skipn_all. Qed.

Lemma lastn_lastn_snoc : forall {T} (n : nat) (l : list T) (v : T),
  lastn n (lastn n l ++ [v]) = lastn n (l ++ [v]).
Proof.
  intros T n l v.
  destruct (Nat.eq_dec n 0) as [->|Hn]; [rewrite !lastn_0; reflexivity|].
  unfold lastn.
  rewrite !app_length, skipn_length. cbn [length].
  rewrite !skipn_app, skipn_length, skipn_skipn'.
  replace (length l - (length l - n) + 1 - n - (length l - (length l - n)))%nat with 0%nat by lia.
  replace (length l + 1 - n - length l)%nat with 0%nat by lia.
  f_equal. f_equal. lia.
Qed.

Lemma lastn_nil : forall {T} (n : nat), lastn n (@nil T) = [].
Proof. intros T n. unfold lastn. apply skipn_nil. Qed.

Lemma lastn_length_min : forall {T} (n : nat) (l : list T), length (lastn n l) = Nat.min (length l) n.
Proof. intros. apply lastn_length. Qed.

(** one bounded-deque enqueue on the last [M] values of a stream *)
Lemma dq_enqueue_lastn : forall {T} (M : Z) (pre : list T) (v : T), 1 <= M ->
  fst (dq_enqueue M (lastn (Z.to_nat M) pre) v) = lastn (Z.to_nat M) (pre ++ [v]).
Proof.
  intros T M pre v HM.
  assert (Hd : (length (lastn (Z.to_nat M) pre) <= Z.to_nat M)%nat) by (rewrite lastn_length; lia).
  pose proof (lastn_enq M (lastn (Z.to_nat M) pre) v [] HM Hd) as H.
  rewrite app_nil_r in H. rewrite lastn_all in H by (apply dq_enqueue_length; assumption).
  rewrite H. apply lastn_lastn_snoc.
Qed.

(* ====================================================================== storage order *)

Section Storage.
  Context {T : Type}.

  Fixpoint somesT (l : list (option T)) : list T :=
    match l with [] => [] | Some x :: r => x :: somesT r | None :: r => somesT r end.

  Lemma somesT_map_Some : forall d : list T, somesT (map Some d) = d.
  Proof. induction d as [|x d IH]; cbn [map somesT]; [reflexivity|]. rewrite IH. reflexivity. Qed.

  Lemma somesT_perm : forall l l' : list (option T), Permutation l l' -> Permutation (somesT l) (somesT l').
  Proof.
    intros l l' HP. induction HP as [|x l l' HP IH|x y l|l l' l'' HP1 IH1 HP2 IH2].
    - constructor.
    - destruct x; cbn [somesT]; [constructor|]; exact IH.
    - destruct x, y; cbn [somesT]; try apply Permutation_refl. constructor.
    - eapply Permutation_trans; eassumption.
  Qed.

  Lemma nth_read_from : forall (q : cq T) n pos i, 1 <= q_max q -> 0 <= pos < q_max q -> (i < n)%nat ->
    nth i (read_from q pos n) None = nth (Z.to_nat ((pos + Z.of_nat i) mod q_max q)) (q_slots q) None.
  Proof.
    intros q n pos i HM Hp Hi. rewrite read_from_closed by assumption.
    rewrite (nth_indep _ None (rdf (q_max q) (q_slots q) pos 0%nat)) by (rewrite map_length, seq_length; exact Hi).
    rewrite map_nth, seq_nth by exact Hi. reflexivity.
  Qed.

  (** not yet wrapped: FIFO contents = storage prefix *)
  Lemma cq_abs_first0 : forall q : cq T, cq_inv q -> q_first q = 0 ->
    cq_abs q = firstn (Z.to_nat (q_count q)) (q_slots q).
  Proof.
    intros q (HM & Hlen & Hc & Hf & Hla & Heq) H0. unfold cq_abs. rewrite H0.
    apply (nth_ext _ _ None None).
    - rewrite read_from_length, firstn_length. lia.
    - intros i Hi. rewrite read_from_length in Hi.
      rewrite nth_read_from by lia. rewrite nth_firstn' by exact Hi.
      rewrite Z.add_0_l, Z.mod_small by lia. rewrite Nat2Z.id. reflexivity.
  Qed.

  (** full ring: FIFO contents = the storage rotated by [first] *)
  Lemma cq_abs_full : forall q : cq T, cq_inv q -> q_count q = q_max q ->
    cq_abs q = skipn (Z.to_nat (q_first q)) (q_slots q) ++ firstn (Z.to_nat (q_first q)) (q_slots q).
  Proof.
    intros q (HM & Hlen & Hc & Hf & Hla & Heq) Hfull. unfold cq_abs. rewrite Hfull.
    apply (nth_ext _ _ None None).
    - rewrite read_from_length, app_length, skipn_length, firstn_length. lia.
    - intros i Hi. rewrite read_from_length in Hi.
      rewrite nth_read_from by lia.
      destruct (Nat.lt_ge_cases i (Z.to_nat (q_max q) - Z.to_nat (q_first q))) as [Hlt|Hge].
      + rewrite app_nth1 by (rewrite skipn_length; lia).
        rewrite nth_skipn'. f_equal. rewrite Z.mod_small by lia. lia.
      + rewrite app_nth2 by (rewrite skipn_length; lia).
        rewrite skipn_length, nth_firstn' by lia. f_equal.
        replace (q_first q + Z.of_nat i) with ((q_first q + Z.of_nat i - q_max q) + 1 * q_max q) by lia.
        rewrite Z_mod_plus_full, Z.mod_small by lia. lia.
  Qed.
End Storage.

(* ====================================================================== IKS *)

Section IKSR.
  Context {A : Arith}.

  Lemma somes_somesT : forall l : list (option (num A)), somes l = somesT l.
  Proof. induction l as [|[x|] l IH]; cbn [somes somesT]; congruence. Qed.

  (** enqueue-only rings: either not yet wrapped or full *)
  Definition enq_shape (M : Z) (q : cq (num A)) : Prop := q_first q = 0 \/ q_count q = M.

  Theorem storage_perm : forall M (q : cq (num A)) d, cq_rel M q d -> enq_shape M q ->
    Permutation (storage q) d.
  Proof.
    intros M q d Hrel Hsh. unfold storage. rewrite somes_somesT.
    pose proof (cq_rel_inv _ _ _ Hrel) as Hinv. pose proof (cq_rel_abs _ _ _ Hrel) as Habs.
    pose proof (cq_rel_max _ _ _ Hrel) as Hmax.
    destruct Hsh as [H0|Hfull].
    - rewrite <- (cq_abs_first0 q Hinv H0), Habs, somesT_map_Some. apply Permutation_refl.
    - rewrite <- Hmax in Hfull.
      rewrite <- (somesT_map_Some d), <- Habs.
      rewrite (cq_abs_full q Hinv Hfull).
      destruct Hinv as (HM & Hlen & Hc & Hf & Hla & Heq).
      rewrite Hfull, firstn_all2 by lia.
      apply somesT_perm.
      rewrite <- (firstn_skipn (Z.to_nat (q_first q)) (q_slots q)) at 1.
      apply Permutation_app_comm.
  Qed.

  Lemma enq_shape_init : forall M, enq_shape M (cq_init M).
  Proof. intros M. left. reflexivity. Qed.

  Lemma cq_enqueue_shape : forall M (q q' : cq (num A)) d v el, 1 <= M -> cq_rel M q d -> enq_shape M q ->
    cq_enqueue q v = Ok (q', el) -> enq_shape M q'.
  Proof.
    intros M q q' d v el HM Hrel Hsh He.
    pose proof (cq_rel_max _ _ _ Hrel) as Hmax.
    destruct (cq_rel_inv _ _ _ Hrel) as (HM' & Hlen & Hc & Hf & Hla & Heq).
    unfold cq_enqueue, cq_is_full in He.
    destruct (q_count q =? q_max q) eqn:E.
    - apply Z.eqb_eq in E. unfold cq_dequeue, cq_is_empty in He.
      destruct (q_count q =? 0) eqn:E0; [apply Z.eqb_eq in E0; lia|].
      destruct (q_max q =? 0) eqn:E1; [apply Z.eqb_eq in E1; lia|].
      cbn [bind q_max] in He. rewrite E1 in He. inversion He; subst q' el. right. cbn [q_count]. lia.
    - apply Z.eqb_neq in E. cbn [bind] in He.
      destruct (q_max q =? 0) eqn:E1; [apply Z.eqb_eq in E1; lia|].
      inversion He; subst q' el. destruct Hsh as [H0|Hfull]; [left; exact H0|lia].
  Qed.

  (** permutation invariance of the whole batch result *)
  Theorem ks_test_perm : forall (ref X X' : list (num A)), Permutation X X' -> ks_test ref X = ks_test ref X'.
  Proof.
    intros ref X X' HP. unfold ks_test, ks_p_frac.
    rewrite (ks_H_perm A ref ref X X' (Permutation_refl ref) HP), (len_perm A X X' HP). reflexivity.
  Qed.

  (* -------------------------------------------------------------------- invariant *)

  (** what the batch test reports after the prefix [pre] of accepted values *)
  Definition iks_spec_out (ref : list (num A)) (w : Z) (pre : list (num A)) : option ks_result :=
    if Z.of_nat (length pre) <? w then None else Some (ks_test ref (lastn (Z.to_nat w) pre)).

  Definition iks_Inv (w : Z) (s : iks_st A) (pre : list (num A)) : Prop :=
    ik_w s = w /\ ik_n s = Z.of_nat (length pre) /\
    cq_rel w (ik_q s) (lastn (Z.to_nat w) pre) /\ enq_shape w (ik_q s).

  Lemma iks_Inv_init : forall w, 1 <= w -> iks_Inv w (iks_init w) [].
  Proof.
    intros w Hw. unfold iks_Inv, iks_init. cbn [ik_w ik_n ik_q length].
    rewrite lastn_nil. split; [reflexivity|]. split; [reflexivity|].
    split; [apply cq_init_rel; exact Hw|apply enq_shape_init].
  Qed.

  Lemma iks_Inv_fit : forall w s pre X, iks_Inv w s pre -> iks_Inv w (iks_fit s X) pre.
  Proof. intros w s pre X H. exact H. Qed.

  Lemma iks_Inv_reset : forall w s pre, 1 <= w -> iks_Inv w s pre -> iks_Inv w (iks_reset s) [].
  Proof.
    intros w s pre Hw (Hww & Hn & Hrel & Hsh). unfold iks_Inv, iks_reset. cbn [ik_w ik_n ik_q length].
    unfold cq_clear. rewrite (cq_rel_max _ _ _ Hrel), lastn_nil.
    split; [exact Hww|]. split; [reflexivity|].
    split; [apply cq_init_rel; exact Hw|apply enq_shape_init].
  Qed.

  Lemma iks_update_step : forall w s pre ref v, 1 <= w -> iks_Inv w s pre -> ik_ref s = Some ref ->
    exists s', iks_update s v = Ok (s', iks_spec_out ref w (pre ++ [v])) /\
               iks_Inv w s' (pre ++ [v]) /\ ik_ref s' = Some ref.
  Proof.
    intros w s pre ref v Hw (Hww & Hn & Hrel & Hsh) Hr.
    destruct (cq_enqueue_rel w (ik_q s) _ v Hw Hrel) as (q' & He & Hrel').
    rewrite dq_enqueue_lastn in Hrel' by exact Hw.
    pose proof (cq_enqueue_shape w _ _ _ _ _ Hw Hrel Hsh He) as Hsh'.
    unfold iks_update. rewrite Hr, He. cbn [bind].
    assert (Hlen : ik_n s + 1 = Z.of_nat (length (pre ++ [v]))).
    { rewrite app_length. cbn [length]. lia. }
    unfold iks_spec_out. rewrite <- Hlen, Hww.
    destruct (ik_n s + 1 <? w) eqn:E.
    - eexists. split; [reflexivity|]. split; [|reflexivity].
      unfold iks_Inv. cbn [ik_w ik_n ik_q]. auto.
    - eexists. split.
      + rewrite (ks_test_perm ref _ _ (storage_perm w q' _ Hrel' Hsh')). reflexivity.
      + split; [|reflexivity]. unfold iks_Inv. cbn [ik_w ik_n ik_q]. auto.
  Qed.

  Lemma iks_update_unfitted : forall (s : iks_st A) (v : num A), ik_ref s = None -> iks_update s v = Raise MissingFitError.
  Proof. intros s v H. unfold iks_update. rewrite H. reflexivity. Qed.

  (* -------------------------------------------------------------------- runs of updates *)

  Fixpoint iks_run (s : iks_st A) (vs : list (num A)) : res (iks_st A * list (option ks_result)) :=
    match vs with
    | [] => Ok (s, [])
    | v :: r => do (s1, o) <- iks_update s v; do (s2, os) <- iks_run s1 r; Ok (s2, o :: os)
    end.

  Fixpoint iks_spec_outs (ref : list (num A)) (w : Z) (pre vs : list (num A)) : list (option ks_result) :=
    match vs with
    | [] => []
    | v :: r => iks_spec_out ref w (pre ++ [v]) :: iks_spec_outs ref w (pre ++ [v]) r
    end.

  Lemma iks_run_from : forall w ref vs s pre, 1 <= w -> iks_Inv w s pre -> ik_ref s = Some ref ->
    exists s', iks_run s vs = Ok (s', iks_spec_outs ref w pre vs) /\
               iks_Inv w s' (pre ++ vs) /\ ik_ref s' = Some ref.
  Proof.
    intros w ref vs; induction vs as [|v r IH]; intros s pre Hw HI Hr.
    - exists s. rewrite app_nil_r. auto.
    - destruct (iks_update_step w s pre ref v Hw HI Hr) as (s1 & Hu & HI1 & Hr1).
      destruct (IH s1 (pre ++ [v]) Hw HI1 Hr1) as (s2 & Hrun & HI2 & Hr2).
      exists s2. cbn [iks_run iks_spec_outs]. rewrite Hu. cbn [bind]. rewrite Hrun. cbn [bind].
      rewrite <- app_assoc in HI2. auto.
  Qed.

  (** (c) fit on a fresh detector, then any stream: never raises; the k-th output is [None]
      while fewer than [w] values have arrived and afterwards the batch result
      (H, fraction) for the reference and the last [w] values. *)
  Theorem iks_is_batch : forall (ref : list (num A)) (w : Z) (vs : list (num A)), 1 <= w ->
    exists s', iks_run (iks_fit (iks_init w) ref) vs = Ok (s', iks_spec_outs ref w [] vs).
  Proof.
    intros ref w vs Hw.
    destruct (iks_run_from w ref vs (iks_fit (iks_init w) ref) [] Hw
                (iks_Inv_fit _ _ _ _ (iks_Inv_init w Hw)) eq_refl) as (s' & H & _).
    exists s'. exact H.
  Qed.

  (** the outputs listed by [iks_spec_outs]: position k is the spec of the first k+1 values *)
  Lemma iks_spec_outs_nth : forall ref w vs pre k, (k < length vs)%nat ->
    nth k (iks_spec_outs ref w pre vs) None = iks_spec_out ref w (pre ++ firstn (S k) vs).
  Proof.
    intros ref w vs; induction vs as [|v r IH]; intros pre k Hk; cbn [length] in Hk; [lia|].
    destruct k as [|k]; cbn [iks_spec_outs nth].
    - reflexivity.
    - rewrite IH by lia. rewrite <- app_assoc. reflexivity.
  Qed.

  Lemma iks_spec_outs_unfold : forall (ref : list (num A)) w vs k, (k < length vs)%nat ->
    nth k (iks_spec_outs ref w [] vs) None =
    (if Z.of_nat (length (firstn (S k) vs)) <? w then None
     else Some (ks_test ref (lastn (Z.to_nat w) (firstn (S k) vs)))).
  Proof. intros ref w vs k Hk. exact (iks_spec_outs_nth ref w vs [] k Hk). Qed.

  (** the same in "last step" form: the update that consumes [v] after the stream [vs] *)
  Theorem iks_is_batch_last : forall (ref : list (num A)) (w : Z) (vs : list (num A)) (v : num A), 1 <= w ->
    exists s ss s', iks_run (iks_fit (iks_init w) ref) vs = Ok (s, ss) /\
      iks_update s v = Ok (s',
        if Z.of_nat (length (vs ++ [v])) <? w then None
        else Some (ks_test ref (lastn (Z.to_nat w) (vs ++ [v])))).
  Proof.
    intros ref w vs v Hw.
    destruct (iks_run_from w ref vs (iks_fit (iks_init w) ref) [] Hw
                (iks_Inv_fit _ _ _ _ (iks_Inv_init w Hw)) eq_refl) as (s & Hrun & HI & Hr).
    destruct (iks_update_step w s _ ref v Hw HI Hr) as (s' & Hu & _).
    exists s, (iks_spec_outs ref w [] vs), s'. split; [exact Hrun|exact Hu].
  Qed.

  (* -------------------------------------------------------------------- arbitrary histories *)

  Inductive iop := IFit (X : list (num A)) | IUpd (v : num A) | IRst.

  (** a raising update leaves the detector unchanged *)
  Definition iks_apply (s : iks_st A) (o : iop) : iks_st A :=
    match o with
    | IFit X => iks_fit s X
    | IUpd v => match iks_update s v with Ok (s', _) => s' | Raise _ => s end
    | IRst => iks_reset s
    end.
  Definition iks_exec (w : Z) (ops : list iop) : iks_st A := fold_left iks_apply ops (iks_init w).

  (** the fitted reference (if any) and the values accepted since the last reset *)
  Definition iks_track (st : option (list (num A)) * list (num A)) (o : iop) :=
    match o with
    | IFit X => (Some X, snd st)
    | IUpd v => match fst st with Some _ => (fst st, snd st ++ [v]) | None => st end
    | IRst => (None, [])
    end.
  Definition iks_hist (ops : list iop) := fold_left iks_track ops (None, []).

  Lemma iks_reachable_from : forall w ops s st, 1 <= w ->
    ik_ref s = fst st -> iks_Inv w s (snd st) ->
    ik_ref (fold_left iks_apply ops s) = fst (fold_left iks_track ops st) /\
    iks_Inv w (fold_left iks_apply ops s) (snd (fold_left iks_track ops st)).
  Proof.
    intros w ops; induction ops as [|o r IH]; intros s st Hw Hr HI.
    - cbn [fold_left]. auto.
    - cbn [fold_left]. apply IH; try exact Hw; destruct o as [X|v|]; cbn [iks_apply iks_track fst snd].
      + reflexivity.
      + destruct (fst st) as [ref|] eqn:Ef.
        * destruct (iks_update_step w s _ ref v Hw HI Hr) as (s' & Hu & _ & Hr').
          rewrite Hu. cbn [fst]. exact Hr'.
        * rewrite (iks_update_unfitted s v Hr). rewrite Ef. exact Hr.
      + reflexivity.
      + apply iks_Inv_fit. exact HI.
      + destruct (fst st) as [ref|] eqn:Ef.
        * destruct (iks_update_step w s _ ref v Hw HI Hr) as (s' & Hu & HI' & _).
          rewrite Hu. cbn [snd]. exact HI'.
        * rewrite (iks_update_unfitted s v Hr). exact HI.
      + apply (iks_Inv_reset w s (snd st)); assumption.
  Qed.

  Lemma iks_reachable : forall w ops, 1 <= w ->
    ik_ref (iks_exec w ops) = fst (iks_hist ops) /\ iks_Inv w (iks_exec w ops) (snd (iks_hist ops)).
  Proof.
    intros w ops Hw. unfold iks_exec, iks_hist. apply iks_reachable_from; try assumption.
    - reflexivity.
    - apply iks_Inv_init. exact Hw.
  Qed.

  (** (d) after ANY history of fit / update / reset calls on a detector with
      [window_size >= 1]: an update raises MissingFitError iff no reference is fitted
      (never fitted, or reset since the last fit) and otherwise succeeds, returning the
      batch result for the reference and the last [w] values accepted since the last reset. *)
  Theorem iks_total : forall (w : Z) (ops : list iop) (v : num A), 1 <= w ->
    let s := iks_exec w ops in
    match fst (iks_hist ops) with
    | None => iks_update s v = Raise MissingFitError
    | Some ref => exists s', iks_update s v = Ok (s', iks_spec_out ref w (snd (iks_hist ops) ++ [v]))
    end.
  Proof.
    intros w ops v Hw s. destruct (iks_reachable w ops Hw) as [Hr HI]. fold s in Hr, HI.
    destruct (fst (iks_hist ops)) as [ref|].
    - destruct (iks_update_step w s _ ref v Hw HI Hr) as (s' & Hu & _). exists s'. exact Hu.
    - apply iks_update_unfitted. exact Hr.
  Qed.

  Corollary iks_before_fit : forall (w : Z) (v : num A), iks_update (iks_init w) v = Raise MissingFitError.
  Proof. reflexivity. Qed.

  Corollary iks_after_reset : forall (s : iks_st A) (v : num A), iks_update (iks_reset s) v = Raise MissingFitError.
  Proof. reflexivity. Qed.

  Corollary iks_fitted_never_raises : forall w ops X v, 1 <= w ->
    exists s' o, iks_update (iks_fit (iks_exec w ops) X) v = Ok (s', o).
  Proof.
    intros w ops X v Hw.
    pose proof (iks_total w (ops ++ [IFit X]) v Hw) as H. cbv zeta in H.
    unfold iks_exec, iks_hist in H. rewrite !fold_left_app in H. cbn [fold_left iks_apply iks_track fst] in H.
    destruct H as (s' & H). eexists. eexists. exact H.
  Qed.
End IKSR.

(* ====================================================================== (a), (b) *)
From Coq Require Import Reals.
From FV Require Import RealA.

(** [ks_p_frac]: the outside count is within [0, total] and total > 0 *)
Theorem ks_p_frac_range : forall (A : Arith) (X Y : list (NumSys.num A)),
  0 <= fst (ks_p_frac X Y) <= snd (ks_p_frac X Y) /\ 0 < snd (ks_p_frac X Y).
Proof.
  intros A X Y. unfold ks_p_frac. cbn [fst snd]. unfold len.
  pose proof (paths_inside_range (length X) (length Y) (ks_H X Y)) as Hr.
  pose proof (paths_total_pos (length X) (length Y)) as Hp. lia.
Qed.

(** for tie-free samples the observed statistic is the statistic of the observed interleaving,
    and the p-value fraction counts the interleavings at least as extreme *)
Theorem ks_pvalue_is_enumeration : forall X Y : list R, NoDup (X ++ Y) ->
  let n := length X in let m := length Y in
  In (merge_word X Y) (words n m) /\
  ks_H (A:=RealA) X Y = word_max (Z.of_nat n) (Z.of_nat m) (merge_word X Y) /\
  ks_p_frac (A:=RealA) X Y =
    (Z.of_nat (length (filter (fun w => ks_H (A:=RealA) X Y <=? word_max (Z.of_nat n) (Z.of_nat m) w) (words n m))),
     Z.of_nat (length (words n m))).
Proof.
  intros X Y Hnd n m. split; [apply merge_word_in_words|]. split.
  - apply (ks_H_word_max X Y Hnd).
  - apply (ks_p_frac_is_fraction RealA X Y).
Qed.

(** |words n m| = C(n+m, n), stated without division: |words n m| n! m! = (n+m)! *)
Theorem words_binomial : forall n m : nat,
  (length (words n m) * fact n * fact m = fact (n + m))%nat.
Proof.
  induction n as [|n IHn].
  - induction m as [|m IHm].
    + rewrite words_00. reflexivity.
    + rewrite words_0S, map_length. cbn [fact Nat.add] in *. nia.
  - induction m as [|m IHm].
    + rewrite words_S0, map_length. specialize (IHn 0%nat).
      rewrite Nat.add_0_r in *. cbn [fact] in *. nia.
    + rewrite words_SS, app_length, !map_length.
      specialize (IHn (S m)).
      replace (S n + S m)%nat with (S (S n + m)) by lia.
      replace (n + S m)%nat with (S n + m)%nat in IHn by lia.
      change (fact (S (S n + m))) with ((S (S n + m)) * fact (S n + m))%nat.
      change (fact (S n)) with (S n * fact n)%nat in *.
      change (fact (S m)) with (S m * fact m)%nat in *.
      nia.
Qed.
