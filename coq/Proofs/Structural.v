(** Structural (number-system independent) properties of the streaming detector models:
    warm-up silence, exclusive drift/warning flags, num_instances = updates since reset,
    and the generic "after reset like new" lemmas.  Everything holds for an arbitrary
    [A : Arith]: only the shape of the [if]s of each [*_step] is used. *)
From Coq Require Import ZArith List Bool Lia.
From FV Require Import NumSys Py Queue Stats Detector Cusum SPC HDDM KS Window ADWIN BOCD.
Import ListNotations.
Local Open Scope Z_scope.
From Coq Require Import ZifyBool.
From FV Require Import Sums.

(* ====================================================================== generic part *)

Lemma since_reset_nonneg (D : Detector) :
  forall ops acc, 0 <= acc -> 0 <= since_reset D ops acc.
Proof.
  induction ops as [|[v|] r IH]; intros acc H; cbn [since_reset].
  - exact H.
  - apply IH; lia.
  - apply IH; lia.
Qed.

Lemma updates_since_reset_nonneg (D : Detector) ops : 0 <= updates_since_reset D ops.
Proof. unfold updates_since_reset. apply since_reset_nonneg. lia. Qed.

Lemma exec_from_cons (D : Detector) c s o r :
  exec_from D c s (o :: r) = exec_from D c (apply D c s o) r.
Proof. reflexivity. Qed.

Lemma exec_from_app (D : Detector) c s l1 l2 :
  exec_from D c s (l1 ++ l2) = exec_from D c (exec_from D c s l1) l2.
Proof. unfold exec_from. apply fold_left_app. Qed.

Lemma exec_from_invariant (D : Detector) (c : d_cfg D) (Inv : Z -> d_st D -> Prop) :
  (forall u s v, 0 <= u -> Inv u s -> Inv (u + 1) (d_step D c s v)) ->
  (forall u s, Inv u s -> Inv 0 (d_reset D c s)) ->
  forall ops u s, 0 <= u -> Inv u s -> Inv (since_reset D ops u) (exec_from D c s ops).
Proof.
  intros Hs Hr. induction ops as [|[v|] r IH]; intros u s Hu HI.
  - exact HI.
  - rewrite exec_from_cons. cbn [since_reset apply]. apply IH; [lia|]. apply Hs; assumption.
  - rewrite exec_from_cons. cbn [since_reset apply]. apply IH; [lia|]. apply (Hr u); assumption.
Qed.

Lemma exec_invariant (D : Detector) (c : d_cfg D) (Inv : Z -> d_st D -> Prop) :
  Inv 0 (d_init D c) ->
  (forall u s v, 0 <= u -> Inv u s -> Inv (u + 1) (d_step D c s v)) ->
  (forall u s, Inv u s -> Inv 0 (d_reset D c s)) ->
  forall ops, Inv (updates_since_reset D ops) (exec D c ops).
Proof.
  intros H0 Hs Hr ops. unfold updates_since_reset, exec.
  apply exec_from_invariant; try assumption. lia.
Qed.

(* ---------------------------------------------------------------------- reset lemmas *)

Lemma after_reset_like_new (D : Detector) (Hr : forall c s, d_reset D c s = d_init D c) :
  forall c pre post, trace_from D c (exec D c (pre ++ [Rst])) post = trace D c post
                  /\ exec D c (pre ++ Rst :: post) = exec D c post.
Proof.
  intros c pre post. split.
  - unfold exec. rewrite exec_from_app, exec_from_cons. cbn [apply exec_from fold_left].
    rewrite Hr. reflexivity.
  - unfold exec. rewrite exec_from_app, exec_from_cons. cbn [apply]. rewrite Hr. reflexivity.
Qed.

Lemma cusum_reset_init : forall A c s, d_reset (CusumD A) c s = d_init (CusumD A) c.
Proof. reflexivity. Qed.
Lemma ddm_reset_init : forall A c s, d_reset (DDMD A) c s = d_init (DDMD A) c.
Proof. reflexivity. Qed.
Lemma rddm_reset_init : forall A c s, d_reset (RDDMD A) c s = d_init (RDDMD A) c.
Proof. reflexivity. Qed.
Lemma eddm_reset_init : forall A c s, d_reset (EDDMD A) c s = d_init (EDDMD A) c.
Proof. reflexivity. Qed.
Lemma ecdd_reset_init : forall A c s, d_reset (ECDDD A) c s = d_init (ECDDD A) c.
Proof. reflexivity. Qed.
Lemma hddma_reset_init : forall A c s, d_reset (HDDMAD A) c s = d_init (HDDMAD A) c.
Proof. reflexivity. Qed.
Lemma hddmw_reset_init : forall A c s, d_reset (HDDMWD A) c s = d_init (HDDMWD A) c.
Proof. reflexivity. Qed.
Lemma kswin_reset_init : forall A c s, d_reset (KSWIND A) c s = d_init (KSWIND A) c.
Proof. reflexivity. Qed.
Lemma stepd_reset_init : forall A c s, d_reset (STEPDD A) c s = d_init (STEPDD A) c.
Proof. reflexivity. Qed.
Lemma adwin_reset_init : forall A c s, d_reset (ADWIND A) c s = d_init (ADWIND A) c.
Proof. reflexivity. Qed.
Lemma bocd_reset_init : forall A c s, d_reset (BOCDD A) c s = d_init (BOCDD A) c.
Proof. reflexivity. Qed.

(** destruct the outermost [match]/[if] of the last argument of the goal, repeatedly *)
Ltac head_break :=
  repeat match goal with
  | |- _ (match ?x with _ => _ end) => destruct x eqn:?
  end.

(* ====================================================================== CUSUM family *)

Definition cusum_Inv {A} (c : cusum_cfg A) (u : Z) (s : cusum_st A) : Prop :=
  cs_n s = u /\ (u < ck_min c -> cs_drift s = false).

Lemma cusum_inv A (c : cusum_cfg A) ops :
  cusum_Inv c (updates_since_reset (CusumD A) ops) (exec (CusumD A) c ops).
Proof.
  apply (exec_invariant (CusumD A) c (cusum_Inv c)).
  - split; [reflexivity | intros _; reflexivity].
  - intros u s v Hu [Hn Hd]. cbn [d_step CusumD]. unfold cusum_step, cusum_Inv.
    cbn [cs_n cs_drift]. split; [lia|]. intros Hlt.
    destruct (ck_min c <=? cs_n s + 1) eqn:E; [lia | reflexivity].
  - intros u s _. split; [reflexivity | intros _; reflexivity].
Qed.

Lemma cusum_warmup : forall A (c : cusum_cfg A) ops,
  updates_since_reset (CusumD A) ops < ck_min c ->
  d_drift (CusumD A) (exec (CusumD A) c ops) = false /\
  d_warning (CusumD A) (exec (CusumD A) c ops) = false.
Proof.
  intros A c ops H. destruct (cusum_inv A c ops) as [_ Hd].
  split; [exact (Hd H) | reflexivity].
Qed.

Lemma cusum_exclusive : forall A (c : cusum_cfg A) ops,
  d_drift (CusumD A) (exec (CusumD A) c ops) && d_warning (CusumD A) (exec (CusumD A) c ops) = false.
Proof. intros. cbn [d_warning CusumD]. apply andb_false_r. Qed.

Lemma cusum_ninst : forall A c ops,
  d_ninst (CusumD A) (exec (CusumD A) c ops) = updates_since_reset (CusumD A) ops.
Proof. intros A c ops. destruct (cusum_inv A c ops) as [Hn _]. exact Hn. Qed.

(* ====================================================================== DDM *)

Definition ddm_Inv {A} (c : ddm_cfg A) (u : Z) (s : ddm_st A) : Prop :=
  dn s = u /\ (u < dd_min c -> ddrift s = false /\ dwarning s = false) /\
  ddrift s && dwarning s = false.

Lemma ddm_inv A (c : ddm_cfg A) ops :
  ddm_Inv c (updates_since_reset (DDMD A) ops) (exec (DDMD A) c ops).
Proof.
  apply (exec_invariant (DDMD A) c (ddm_Inv c)).
  - repeat split.
  - intros u s v Hu (Hn & Hw & He). cbn [d_step DDMD]. unfold ddm_step. cbv zeta.
    head_break; unfold ddm_Inv; cbn [dn ddrift dwarning andb];
      (split; [lia | split; [intros Hlt; try lia; split; reflexivity | reflexivity]]).
  - intros u s _. repeat split.
Qed.

Lemma ddm_warmup : forall A (c : ddm_cfg A) ops,
  updates_since_reset (DDMD A) ops < dd_min c ->
  d_drift (DDMD A) (exec (DDMD A) c ops) = false /\
  d_warning (DDMD A) (exec (DDMD A) c ops) = false.
Proof. intros A c ops H. destruct (ddm_inv A c ops) as (_ & Hw & _). exact (Hw H). Qed.

Lemma ddm_exclusive : forall A (c : ddm_cfg A) ops,
  d_drift (DDMD A) (exec (DDMD A) c ops) && d_warning (DDMD A) (exec (DDMD A) c ops) = false.
Proof. intros A c ops. destruct (ddm_inv A c ops) as (_ & _ & He). exact He. Qed.

Lemma ddm_ninst : forall A c ops,
  d_ninst (DDMD A) (exec (DDMD A) c ops) = updates_since_reset (DDMD A) ops.
Proof. intros A c ops. destruct (ddm_inv A c ops) as (Hn & _). exact Hn. Qed.

(* ====================================================================== ECDD *)

Definition ecdd_Inv {A} (c : ecdd_cfg A) (u : Z) (s : ecdd_st A) : Prop :=
  cn s = u /\ (u < ec_min c -> cdrift s = false /\ cwarning s = false) /\
  cdrift s && cwarning s = false.

Lemma ecdd_inv A (c : ecdd_cfg A) ops :
  ecdd_Inv c (updates_since_reset (ECDDD A) ops) (exec (ECDDD A) c ops).
Proof.
  apply (exec_invariant (ECDDD A) c (ecdd_Inv c)).
  - repeat split.
  - intros u s v Hu (Hn & Hw & He). cbn [d_step ECDDD]. unfold ecdd_step. cbv zeta.
    head_break; unfold ecdd_Inv; cbn [cn cdrift cwarning andb];
      (split; [lia | split; [intros Hlt; try lia; split; reflexivity | reflexivity]]).
  - intros u s _. repeat split.
Qed.

Lemma ecdd_warmup : forall A (c : ecdd_cfg A) ops,
  updates_since_reset (ECDDD A) ops < ec_min c ->
  d_drift (ECDDD A) (exec (ECDDD A) c ops) = false /\
  d_warning (ECDDD A) (exec (ECDDD A) c ops) = false.
Proof. intros A c ops H. destruct (ecdd_inv A c ops) as (_ & Hw & _). exact (Hw H). Qed.

Lemma ecdd_exclusive : forall A (c : ecdd_cfg A) ops,
  d_drift (ECDDD A) (exec (ECDDD A) c ops) && d_warning (ECDDD A) (exec (ECDDD A) c ops) = false.
Proof. intros A c ops. destruct (ecdd_inv A c ops) as (_ & _ & He). exact He. Qed.

Lemma ecdd_ninst : forall A c ops,
  d_ninst (ECDDD A) (exec (ECDDD A) c ops) = updates_since_reset (ECDDD A) ops.
Proof. intros A c ops. destruct (ecdd_inv A c ops) as (Hn & _). exact Hn. Qed.

(* ====================================================================== HDDM-A *)

Definition hddma_Inv {A} (c : hddma_cfg A) (u : Z) (s : hddma_st A) : Prop :=
  hn s = u /\ (u < ha_min c -> hdrift s = false /\ hwarning s = false) /\
  hdrift s && hwarning s = false.

Lemma hddma_inv A (c : hddma_cfg A) ops :
  hddma_Inv c (updates_since_reset (HDDMAD A) ops) (exec (HDDMAD A) c ops).
Proof.
  apply (exec_invariant (HDDMAD A) c (hddma_Inv c)).
  - repeat split.
  - intros u s v Hu (Hn & Hw & He). cbn [d_step HDDMAD]. unfold hddma_step. cbv zeta.
    head_break; unfold hddma_Inv; cbn [hn hdrift hwarning andb];
      (split; [lia | split; [intros Hlt; try lia; split; reflexivity | reflexivity]]).
  - intros u s _. repeat split.
Qed.

Lemma hddma_warmup : forall A (c : hddma_cfg A) ops,
  updates_since_reset (HDDMAD A) ops < ha_min c ->
  d_drift (HDDMAD A) (exec (HDDMAD A) c ops) = false /\
  d_warning (HDDMAD A) (exec (HDDMAD A) c ops) = false.
Proof. intros A c ops H. destruct (hddma_inv A c ops) as (_ & Hw & _). exact (Hw H). Qed.

Lemma hddma_exclusive : forall A (c : hddma_cfg A) ops,
  d_drift (HDDMAD A) (exec (HDDMAD A) c ops) && d_warning (HDDMAD A) (exec (HDDMAD A) c ops) = false.
Proof. intros A c ops. destruct (hddma_inv A c ops) as (_ & _ & He). exact He. Qed.

Lemma hddma_ninst : forall A c ops,
  d_ninst (HDDMAD A) (exec (HDDMAD A) c ops) = updates_since_reset (HDDMAD A) ops.
Proof. intros A c ops. destruct (hddma_inv A c ops) as (Hn & _). exact Hn. Qed.

(* ====================================================================== HDDM-W *)

Definition hddmw_Inv {A} (c : hddmw_cfg A) (u : Z) (s : hddmw_st A) : Prop :=
  wn s = u /\ (u < hw_min c -> wdrift s = false /\ wwarning s = false) /\
  wdrift s && wwarning s = false.

Lemma hddmw_inv A (c : hddmw_cfg A) ops :
  hddmw_Inv c (updates_since_reset (HDDMWD A) ops) (exec (HDDMWD A) c ops).
Proof.
  apply (exec_invariant (HDDMWD A) c (hddmw_Inv c)).
  - repeat split.
  - intros u s v Hu (Hn & Hw & He). cbn [d_step HDDMWD]. unfold hddmw_step. cbv zeta.
    head_break; unfold hddmw_Inv; cbn [wn wdrift wwarning andb];
      (split; [lia | split; [intros Hlt; try lia; split; reflexivity | reflexivity]]).
  - intros u s _. repeat split.
Qed.

Lemma hddmw_warmup : forall A (c : hddmw_cfg A) ops,
  updates_since_reset (HDDMWD A) ops < hw_min c ->
  d_drift (HDDMWD A) (exec (HDDMWD A) c ops) = false /\
  d_warning (HDDMWD A) (exec (HDDMWD A) c ops) = false.
Proof. intros A c ops H. destruct (hddmw_inv A c ops) as (_ & Hw & _). exact (Hw H). Qed.

Lemma hddmw_exclusive : forall A (c : hddmw_cfg A) ops,
  d_drift (HDDMWD A) (exec (HDDMWD A) c ops) && d_warning (HDDMWD A) (exec (HDDMWD A) c ops) = false.
Proof. intros A c ops. destruct (hddmw_inv A c ops) as (_ & _ & He). exact He. Qed.

Lemma hddmw_ninst : forall A c ops,
  d_ninst (HDDMWD A) (exec (HDDMWD A) c ops) = updates_since_reset (HDDMWD A) ops.
Proof. intros A c ops. destruct (hddmw_inv A c ops) as (Hn & _). exact Hn. Qed.

(* ====================================================================== STEPD *)

Definition stepd_Inv {A} (c : stepd_cfg A) (u : Z) (s : stepd_st) : Prop :=
  sn s = u /\ (u < 2 * sp_min c -> sdrift s = false /\ swarning s = false) /\
  sdrift s && swarning s = false.

Lemma stepd_inv A (c : stepd_cfg A) ops :
  stepd_Inv c (updates_since_reset (STEPDD A) ops) (exec (STEPDD A) c ops).
Proof.
  apply (exec_invariant (STEPDD A) c (stepd_Inv c)).
  - repeat split.
  - intros u s v Hu (Hn & Hw & He). cbn [d_step STEPDD]. unfold stepd_step. cbv zeta.
    head_break; unfold stepd_Inv; cbn [sn sdrift swarning andb];
      (split; [lia | split; [intros Hlt; try lia; split; reflexivity | reflexivity]]).
  - intros u s _. repeat split.
Qed.

Lemma stepd_warmup : forall A (c : stepd_cfg A) ops,
  updates_since_reset (STEPDD A) ops < 2 * sp_min c ->
  d_drift (STEPDD A) (exec (STEPDD A) c ops) = false /\
  d_warning (STEPDD A) (exec (STEPDD A) c ops) = false.
Proof. intros A c ops H. destruct (stepd_inv A c ops) as (_ & Hw & _). exact (Hw H). Qed.

Lemma stepd_exclusive : forall A (c : stepd_cfg A) ops,
  d_drift (STEPDD A) (exec (STEPDD A) c ops) && d_warning (STEPDD A) (exec (STEPDD A) c ops) = false.
Proof. intros A c ops. destruct (stepd_inv A c ops) as (_ & _ & He). exact He. Qed.

Lemma stepd_ninst : forall A c ops,
  d_ninst (STEPDD A) (exec (STEPDD A) c ops) = updates_since_reset (STEPDD A) ops.
Proof. intros A c ops. destruct (stepd_inv A c ops) as (Hn & _). exact Hn. Qed.

(* ====================================================================== KSWIN *)

Lemma lastn_length_le {T} (n : nat) (l : list T) : (length (lastn n l) <= length l)%nat.
Proof. unfold lastn. rewrite skipn_length. lia. Qed.

Definition kswin_Inv {A} (c : kswin_cfg) (u : Z) (s : kswin_st A) : Prop :=
  kn s = u /\ Z.of_nat (length (kwin s)) <= u /\ (u < kw_min c -> kdrift s = false).

Lemma kswin_inv A (c : kswin_cfg) ops :
  kswin_Inv c (updates_since_reset (KSWIND A) ops) (exec (KSWIND A) c ops).
Proof.
  apply (exec_invariant (KSWIND A) c (kswin_Inv c)).
  - unfold kswin_Inv. cbn [d_init KSWIND kswin_init kn kwin kdrift length]. repeat split. lia.
  - intros u s [v sample] Hu (Hn & Hl & Hd). cbn [d_step KSWIND]. unfold kswin_step. cbv zeta.
    unfold kswin_Inv. cbn [kn kwin kdrift].
    assert (Hlen : Z.of_nat (length (lastn (Z.to_nat (kw_min c)) (kwin s ++ [v]))) <= u + 1).
    { pose proof (lastn_length_le (Z.to_nat (kw_min c)) (kwin s ++ [v])) as HL.
      rewrite app_length in HL. cbn [length] in HL. lia. }
    split; [lia | split; [exact Hlen |]]. intros Hlt.
    destruct (kw_min c <=? Z.of_nat (length (lastn (Z.to_nat (kw_min c)) (kwin s ++ [v])))) eqn:E;
      [lia | reflexivity].
  - intros u s _. unfold kswin_Inv. cbn [d_reset KSWIND kswin_reset kswin_init kn kwin kdrift length].
    repeat split. lia.
Qed.

Lemma kswin_warmup : forall A (c : kswin_cfg) ops,
  updates_since_reset (KSWIND A) ops < kw_min c ->
  d_drift (KSWIND A) (exec (KSWIND A) c ops) = false /\
  d_warning (KSWIND A) (exec (KSWIND A) c ops) = false.
Proof.
  intros A c ops H. destruct (kswin_inv A c ops) as (_ & _ & Hd).
  split; [exact (Hd H) | reflexivity].
Qed.

Lemma kswin_exclusive : forall A (c : kswin_cfg) ops,
  d_drift (KSWIND A) (exec (KSWIND A) c ops) && d_warning (KSWIND A) (exec (KSWIND A) c ops) = false.
Proof. intros. cbn [d_warning KSWIND]. apply andb_false_r. Qed.

Lemma kswin_ninst : forall A c ops,
  d_ninst (KSWIND A) (exec (KSWIND A) c ops) = updates_since_reset (KSWIND A) ops.
Proof. intros A c ops. destruct (kswin_inv A c ops) as (Hn & _). exact Hn. Qed.

(* ====================================================================== BOCD *)

Definition bocd_Inv {A} (c : bocd_cfg A) (u : Z) (s : bocd_st A) : Prop :=
  bn s = u /\ (u < bo_min c -> bdrift s = false).

Lemma bocd_inv A (c : bocd_cfg A) ops :
  bocd_Inv c (updates_since_reset (BOCDD A) ops) (exec (BOCDD A) c ops).
Proof.
  apply (exec_invariant (BOCDD A) c (bocd_Inv c)).
  - split; [reflexivity | intros _; reflexivity].
  - intros u s v Hu [Hn Hd]. cbn [d_step BOCDD]. unfold bocd_step, bocd_Inv. cbv zeta.
    cbn [bn bdrift]. split; [lia|]. intros Hlt.
    destruct (bo_min c <=? bn s + 1) eqn:E; [lia | apply Hd; lia].
  - intros u s _. split; [reflexivity | intros _; reflexivity].
Qed.

Lemma bocd_warmup : forall A (c : bocd_cfg A) ops,
  updates_since_reset (BOCDD A) ops < bo_min c ->
  d_drift (BOCDD A) (exec (BOCDD A) c ops) = false /\
  d_warning (BOCDD A) (exec (BOCDD A) c ops) = false.
Proof.
  intros A c ops H. destruct (bocd_inv A c ops) as [_ Hd].
  split; [exact (Hd H) | reflexivity].
Qed.

Lemma bocd_exclusive : forall A (c : bocd_cfg A) ops,
  d_drift (BOCDD A) (exec (BOCDD A) c ops) && d_warning (BOCDD A) (exec (BOCDD A) c ops) = false.
Proof. intros. cbn [d_warning BOCDD]. apply andb_false_r. Qed.

Lemma bocd_ninst : forall A c ops,
  d_ninst (BOCDD A) (exec (BOCDD A) c ops) = updates_since_reset (BOCDD A) ops.
Proof. intros A c ops. destruct (bocd_inv A c ops) as [Hn _]. exact Hn. Qed.

(* ====================================================================== ADWIN *)

Lemma adwin_insert_width A (c : adwin_cfg A) s v : awidth (adwin_insert c s v) = awidth s + 1.
Proof. reflexivity. Qed.

Definition adwin_Inv {A} (c : adwin_cfg A) (u : Z) (s : adwin_st A) : Prop :=
  an s = u /\ (u <= ad_min c -> adrift s = false /\ awidth s = u).

Lemma adwin_inv A (c : adwin_cfg A) ops :
  adwin_Inv c (updates_since_reset (ADWIND A) ops) (exec (ADWIND A) c ops).
Proof.
  apply (exec_invariant (ADWIND A) c (adwin_Inv c)).
  - split; [reflexivity | intros _; split; reflexivity].
  - intros u s v Hu [Hn Hd]. cbn [d_step ADWIND]. unfold adwin_step. cbv zeta.
    destruct (is_check c (an s + 1) (awidth (adwin_insert c s v))) eqn:E.
    + destruct (shrink c (S (length (flat (adwin_insert c s v)))) (adwin_insert c s v))
        as [s2 dropped] eqn:Es.
      unfold adwin_Inv. cbn [an adrift awidth]. split; [lia|]. intros Hle.
      destruct Hd as [_ Hw]; [lia|].
      unfold is_check in E. rewrite adwin_insert_width in E. lia.
    + unfold adwin_Inv. cbn [an adrift awidth]. split; [lia|]. intros Hle.
      destruct Hd as [_ Hw]; [lia|]. rewrite adwin_insert_width.
      split; [reflexivity | lia].
  - intros u s _. split; [reflexivity | intros _; split; reflexivity].
Qed.

Lemma adwin_warmup : forall A (c : adwin_cfg A) ops,
  updates_since_reset (ADWIND A) ops <= ad_min c ->
  d_drift (ADWIND A) (exec (ADWIND A) c ops) = false /\
  d_warning (ADWIND A) (exec (ADWIND A) c ops) = false.
Proof.
  intros A c ops H. destruct (adwin_inv A c ops) as [_ Hd].
  split; [exact (proj1 (Hd H)) | reflexivity].
Qed.

Lemma adwin_exclusive : forall A (c : adwin_cfg A) ops,
  d_drift (ADWIND A) (exec (ADWIND A) c ops) && d_warning (ADWIND A) (exec (ADWIND A) c ops) = false.
Proof. intros. cbn [d_warning ADWIND]. apply andb_false_r. Qed.

Lemma adwin_ninst : forall A c ops,
  d_ninst (ADWIND A) (exec (ADWIND A) c ops) = updates_since_reset (ADWIND A) ops.
Proof. intros A c ops. destruct (adwin_inv A c ops) as [Hn _]. exact Hn. Qed.

(* ====================================================================== EDDM *)

Definition eddm_Inv {A} (c : eddm_cfg A) (u : Z) (s : eddm_st A) : Prop :=
  en s = u /\ edrift s && ewarning s = false.

Lemma eddm_inv A (c : eddm_cfg A) ops :
  eddm_Inv c (updates_since_reset (EDDMD A) ops) (exec (EDDMD A) c ops).
Proof.
  apply (exec_invariant (EDDMD A) c (eddm_Inv c)).
  - split; reflexivity.
  - intros u s v Hu [Hn He]. cbn [d_step EDDMD]. unfold eddm_step. cbv zeta.
    head_break; unfold eddm_Inv; cbn [en edrift ewarning andb];
      (split; [lia | first [reflexivity | exact He]]).
  - intros u s _. split; reflexivity.
Qed.

Lemma eddm_exclusive : forall A (c : eddm_cfg A) ops,
  d_drift (EDDMD A) (exec (EDDMD A) c ops) && d_warning (EDDMD A) (exec (EDDMD A) c ops) = false.
Proof. intros A c ops. destruct (eddm_inv A c ops) as [_ He]. exact He. Qed.

Lemma eddm_ninst : forall A c ops,
  d_ninst (EDDMD A) (exec (EDDMD A) c ops) = updates_since_reset (EDDMD A) ops.
Proof. intros A c ops. destruct (eddm_inv A c ops) as [Hn _]. exact Hn. Qed.

(** EDDM's warm-up counts errors (inputs equal to one), not updates *)
Fixpoint errors_since_reset {A} (ops : list (op (num A))) (acc : Z) : Z :=
  match ops with
  | [] => acc
  | Upd v :: r => errors_since_reset r (if eqb v one then acc + 1 else acc)
  | Rst :: r => errors_since_reset r 0
  end.

Definition eddm_EInv {A} (c : eddm_cfg A) (e : Z) (s : eddm_st A) : Prop :=
  enmis s = e /\ (e < ed_min c -> edrift s = false /\ ewarning s = false).

Lemma eddm_step_EInv A (c : eddm_cfg A) e s v :
  eddm_EInv c e s -> eddm_EInv c (if eqb v one then e + 1 else e) (eddm_step c s v).
Proof.
  intros [Hn Hw]. unfold eddm_step. cbv zeta.
  head_break; unfold eddm_EInv; cbn [enmis edrift ewarning]; cbv iota;
    (split; [lia | intros Hlt; first [lia | apply Hw; lia | split; reflexivity]]).
Qed.

Lemma eddm_exec_EInv A (c : eddm_cfg A) :
  forall ops e s, eddm_EInv c e s ->
    eddm_EInv c (errors_since_reset ops e) (exec_from (EDDMD A) c s ops).
Proof.
  induction ops as [|[v|] r IH]; intros e s HI.
  - exact HI.
  - rewrite exec_from_cons. cbn [errors_since_reset apply d_step EDDMD].
    apply IH. apply eddm_step_EInv. exact HI.
  - rewrite exec_from_cons. cbn [errors_since_reset apply d_reset EDDMD].
    apply IH. split; [reflexivity | intros _; split; reflexivity].
Qed.

Lemma eddm_warmup : forall A (c : eddm_cfg A) ops, errors_since_reset ops 0 < ed_min c ->
   edrift (exec (EDDMD A) c ops) = false /\ ewarning (exec (EDDMD A) c ops) = false.
Proof.
  intros A c ops H. unfold exec.
  destruct (eddm_exec_EInv A c ops 0 (d_init (EDDMD A) c)) as [_ Hw].
  - split; [reflexivity | intros _; split; reflexivity].
  - exact (Hw H).
Qed.

(* ====================================================================== RDDM *)

Definition rddm_Inv {A} (c : rddm_cfg A) (u : Z) (s : rddm_st A) : Prop :=
  rdrift s && rwarning s = false /\
  (u < rd_min c -> rflag s = false /\ rn s = u /\ rdrift s = false /\ rwarning s = false).

Lemma rddm_inv A (c : rddm_cfg A) ops :
  rddm_Inv c (updates_since_reset (RDDMD A) ops) (exec (RDDMD A) c ops).
Proof.
  apply (exec_invariant (RDDMD A) c (rddm_Inv c)).
  - split; [reflexivity | intros _; repeat split].
  - intros u s v Hu [He Hw]. cbn [d_step RDDMD].
    destruct (Z.ltb_spec (u + 1) (rd_min c)) as [Hlt | Hge].
    + (* still warming up: no rebuild, last branch of the step *)
      destruct Hw as (Hf & Hn & Hd & Hwn); [lia|].
      unfold rddm_step. cbv zeta. cbn [rflag]. rewrite Hf. cbn [rn].
      destruct (rd_min c <=? rn s + 1) eqn:E; [lia|].
      unfold rddm_Inv. cbn [rdrift rwarning rflag rn andb].
      split; [reflexivity | intros _; repeat split; lia].
    + unfold rddm_step. cbv zeta.
      match goal with
      | |- context [if ?b then rdd_drift_case c ?s1 else ?s1] =>
          generalize (if b then rdd_drift_case c s1 else s1); intros s'
      end.
      head_break; unfold rddm_Inv; cbn [rdrift rwarning andb];
        (split; [reflexivity | intros Hlt; lia]).
  - intros u s _. split; [reflexivity | intros _; repeat split].
Qed.

Lemma rddm_warmup : forall A (c : rddm_cfg A) ops,
  updates_since_reset (RDDMD A) ops < rd_min c ->
  d_drift (RDDMD A) (exec (RDDMD A) c ops) = false /\
  d_warning (RDDMD A) (exec (RDDMD A) c ops) = false.
Proof.
  intros A c ops H. destruct (rddm_inv A c ops) as [_ Hw].
  destruct (Hw H) as (_ & _ & Hd & Hwn). split; assumption.
Qed.

Lemma rddm_exclusive : forall A (c : rddm_cfg A) ops,
  d_drift (RDDMD A) (exec (RDDMD A) c ops) && d_warning (RDDMD A) (exec (RDDMD A) c ops) = false.
Proof. intros A c ops. destruct (rddm_inv A c ops) as [He _]. exact He. Qed.
