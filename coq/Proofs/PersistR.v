(** Lemmas about the persistence model (Model/Persist.v): validation happens before the
    file is opened, resume equivalence for EVERY [Detector] under the pickle contract, and
    the per-class table of callables. *)
From Coq Require Import ZArith String List Bool Lia.
From FV Require Import Py Detector Persist.
Import ListNotations.
Local Open Scope Z_scope.

(* ====================================================================== generic trace facts *)

Lemma trace_from_length (D : Detector) c : forall ops s, length (trace_from D c s ops) = length ops.
Proof. induction ops as [|o r IH]; intros s; cbn [trace_from length]; [reflexivity | now rewrite IH]. Qed.

Lemma trace_from_app (D : Detector) c : forall l1 l2 s,
  trace_from D c s (l1 ++ l2) = trace_from D c s l1 ++ trace_from D c (exec_from D c s l1) l2.
Proof.
  induction l1 as [|o r IH]; intros l2 s.
  - reflexivity.
  - cbn [app trace_from]. rewrite IH. reflexivity.
Qed.

Lemma skipn_app_exact {T} (l1 l2 : list T) : skipn (length l1) (l1 ++ l2) = l2.
Proof. induction l1 as [|x r IH]; cbn; [reflexivity | exact IH]. Qed.

Lemma trace_tail (D : Detector) c pre post :
  skipn (length pre) (trace D c (pre ++ post)) = trace_from D c (exec D c pre) post.
Proof.
  unfold trace, exec. rewrite trace_from_app.
  rewrite <- (trace_from_length D c pre (d_init D c)) at 1. apply skipn_app_exact.
Qed.

Lemma exec_app (D : Detector) c pre post :
  exec D c (pre ++ post) = exec_from D c (exec D c pre) post.
Proof. unfold exec, exec_from. apply fold_left_app. Qed.

(* ====================================================================== save / load *)

Section SaveLoad.
  Variable obj : Type.
  Variable kind_of : obj -> kind.
  Variable picklable : obj -> bool.
  Variable bytes : Type.
  Variable empty_file : bytes.
  Variable dumps : obj -> Z -> bytes.
  Variable dump_partial : obj -> Z -> bytes.
  Variable loads : bytes -> res obj.
  Variable dir_exists : string -> bool.

  Notation save := (save obj kind_of picklable bytes empty_file dumps dump_partial dir_exists).
  Notation load := (load obj bytes loads).
  Notation fs := (fs bytes).

  (** not a detector / callback: TypeError, decided before anything else, file system untouched *)
  Lemma save_rejects_kind : forall w o path pr (f : fs),
    is_savable (kind_of o) = false -> save w o path pr f = (f, Raise TypeError).
  Proof. intros w o path pr f H. unfold Persist.save. rewrite H. reflexivity. Qed.

  (** protocol outside range(HIGHEST+1) (as Python evaluates [in]): ValueError, file system untouched *)
  Lemma save_rejects_protocol : forall w o path pr (f : fs),
    is_savable (kind_of o) = true -> proto_in_range pr = false -> save w o path pr f = (f, Raise ValueError).
  Proof. intros w o path pr f H1 H2. unfold Persist.save. rewrite H1, H2. reflexivity. Qed.

  Lemma rejects_before_write : forall w o path pr (f : fs),
    is_savable (kind_of o) = false \/ proto_in_range pr = false ->
    exists e, save w o path pr f = (f, Raise e) /\ (e = TypeError \/ e = ValueError).
  Proof.
    intros w o path pr f [H | H].
    - exists TypeError. split; [apply save_rejects_kind; exact H | left; reflexivity].
    - destruct (is_savable (kind_of o)) eqn:E.
      + exists ValueError. split; [apply save_rejects_protocol; assumption | right; reflexivity].
      + exists TypeError. split; [apply save_rejects_kind; exact E | left; reflexivity].
  Qed.

  (** after a rejected save, whatever could be loaded from any path before can be loaded
      after, and nothing else: no (usable or unusable) file was written *)
  Lemma rejected_load_unchanged : forall w o path pr (f : fs) q,
    is_savable (kind_of o) = false \/ proto_in_range pr = false ->
    load q (fst (save w o path pr f)) = load q f.
  Proof.
    intros w o path pr f q H. destruct (rejects_before_write w o path pr f H) as (e & He & _).
    rewrite He. reflexivity.
  Qed.

  Lemma upd_same (f : fs) p b : upd bytes f p b p = Some b.
  Proof. unfold upd. rewrite String.eqb_refl. reflexivity. Qed.

  Lemma upd_other (f : fs) p b q : q <> p -> upd bytes f p b q = f q.
  Proof. intros H. unfold upd. destruct (String.eqb_spec q p); [contradiction | reflexivity]. Qed.

  (** every save, successful or not, leaves all OTHER paths alone *)
  Lemma save_other_paths : forall w o path pr (f : fs) q, q <> path -> fst (save w o path pr f) q = f q.
  Proof.
    intros w o path pr f q Hq. unfold Persist.save.
    destruct (is_savable (kind_of o)); cbn [negb fst]; [|reflexivity].
    destruct (proto_in_range pr); cbn [negb fst]; [|reflexivity].
    destruct w.
    - destruct (dir_exists path); cbn [negb fst]; [|reflexivity].
      destruct (proto_index pr) as [p|]; [destruct (picklable o)|]; cbn [fst]; apply upd_other; exact Hq.
    - destruct (proto_index pr) as [p|]; [|reflexivity].
      destruct (picklable o); [|reflexivity].
      destruct (dir_exists path); cbn [fst]; [apply upd_other; exact Hq | reflexivity].
  Qed.

  (** with pickle.dumps BEFORE the open, a save that does not succeed changes nothing at all *)
  Lemma failed_save_leaves_fs : forall o path pr (f : fs),
    snd (save DumpsThenWrite o path pr f) <> Ok tt -> fst (save DumpsThenWrite o path pr f) = f.
  Proof.
    intros o path pr f. unfold Persist.save.
    destruct (is_savable (kind_of o)); cbn [negb fst snd]; [|reflexivity].
    destruct (proto_in_range pr); cbn [negb fst snd]; [|reflexivity].
    destruct (proto_index pr) as [p|]; [|reflexivity].
    destruct (picklable o); [|reflexivity].
    destruct (dir_exists path); cbn [fst snd]; [|reflexivity].
    intros H. contradiction H. reflexivity.
  Qed.

  Hypothesis contract : PickleContract obj picklable bytes empty_file dumps loads.

  Lemma in_range_int p : 0 <= p <= HIGHEST_PROTOCOL -> proto_in_range (PInt p) = true.
  Proof. intros Hp. cbn [proto_in_range]. apply andb_true_iff; split; apply Z.leb_le; lia. Qed.

  (** a detector or callback, a protocol in 0..HIGHEST, a picklable graph: the save
      succeeds and load returns an object equal to the saved one *)
  Lemma save_then_load : forall w o path p (f : fs),
    is_savable (kind_of o) = true -> 0 <= p <= HIGHEST_PROTOCOL -> dir_exists path = true ->
    picklable o = true ->
    snd (save w o path (PInt p) f) = Ok tt /\ load path (fst (save w o path (PInt p) f)) = Ok o.
  Proof.
    intros w o path p f Hk Hp Hd Hpk. unfold Persist.save. rewrite Hk, (in_range_int p Hp).
    destruct w; rewrite Hd, Hpk; cbn [negb proto_index fst snd]; (split; [reflexivity|]);
      unfold Persist.load; rewrite upd_same; apply (proj1 contract); assumption.
  Qed.

  (** F25 shape: an unpicklable graph raises PicklingError AFTER the file was opened: whatever
      was at [path] is gone and what is there is whatever pickle had flushed *)
  Lemma save_unpicklable : forall o path p (f : fs),
    is_savable (kind_of o) = true -> 0 <= p <= HIGHEST_PROTOCOL -> dir_exists path = true ->
    picklable o = false ->
    save DumpIntoOpenFile o path (PInt p) f = (upd bytes f path (dump_partial o p), Raise PicklingError).
  Proof.
    intros o path p f Hk Hp Hd Hpk. unfold Persist.save. rewrite Hk, (in_range_int p Hp), Hd, Hpk.
    reflexivity.
  Qed.

  (** "every non-int protocol is rejected with the file system unchanged" is FALSE of the
      code as found: an integral float such as 2.0 passes [in range(6)], the file is opened
      (created or truncated) and only then pickle.dump raises TypeError.  What is left is an
      empty file, which load cannot read. *)
  Lemma float_protocol_truncates : forall o path (f : fs) old,
    is_savable (kind_of o) = true -> dir_exists path = true -> f path = Some old ->
    let pr := PFloat 2 true in
    proto_index pr = None /\
    snd (save DumpIntoOpenFile o path pr f) = Raise TypeError /\
    fst (save DumpIntoOpenFile o path pr f) path = Some empty_file /\
    load path (fst (save DumpIntoOpenFile o path pr f)) = Raise OtherError.
  Proof.
    intros o path f old Hk Hd Hold pr.
    assert (E : save DumpIntoOpenFile o path pr f = (upd bytes f path empty_file, Raise TypeError)).
    { unfold pr, Persist.save. rewrite Hk, Hd. reflexivity. }
    rewrite E. cbn [fst snd]. repeat split.
    - apply upd_same.
    - unfold Persist.load. rewrite upd_same. exact (proj2 contract).
  Qed.
End SaveLoad.

(* ====================================================================== resume equivalence *)

Section Resume.
  Variable D : Detector.
  (** what is pickled for a detector: its configuration object and its state *)
  Definition dobj : Type := (d_cfg D * d_st D)%type.
  Variable picklable : dobj -> bool.
  Variable bytes : Type.
  Variable empty_file : bytes.
  Variable dumps : dobj -> Z -> bytes.
  Variable dump_partial : dobj -> Z -> bytes.
  Variable loads : bytes -> res dobj.
  Variable dir_exists : string -> bool.
  Variable w : write_order.
  Hypothesis contract : PickleContract dobj picklable bytes empty_file dumps loads.

  Definition dsave := save dobj (fun _ => KDetector) picklable bytes empty_file dumps dump_partial dir_exists w.
  Definition dload := load dobj bytes loads.

  (** Save after ANY history [pre], with ANY protocol 0..HIGHEST, then load: the loaded
      (config, state) equals the original; fed ANY continuation [post] it goes through the
      same states (hence produces the same flags / statistics / status) as the original
      continued, and these are exactly the last |post| states of the run of [pre ++ post]
      in which no save ever happened. *)
  Lemma resume_equiv : forall (c : d_cfg D) pre post path p (f : fs bytes),
    0 <= p <= HIGHEST_PROTOCOL -> dir_exists path = true -> picklable (c, exec D c pre) = true ->
    snd (dsave (c, exec D c pre) path (PInt p) f) = Ok tt /\
    exists c' s',
      dload path (fst (dsave (c, exec D c pre) path (PInt p) f)) = Ok (c', s') /\
      c' = c /\ s' = exec D c pre /\
      trace_from D c' s' post = trace_from D c (exec D c pre) post /\
      trace_from D c' s' post = skipn (length pre) (trace D c (pre ++ post)) /\
      exec_from D c' s' post = exec D c (pre ++ post).
  Proof.
    intros c pre post path p f Hp Hd Hpk.
    destruct (save_then_load dobj (fun _ => KDetector) picklable bytes empty_file dumps dump_partial
                loads dir_exists contract w (c, exec D c pre) path p f eq_refl Hp Hd Hpk) as [Hs Hl].
    split; [exact Hs|]. exists c, (exec D c pre).
    split; [exact Hl|]. split; [reflexivity|]. split; [reflexivity|]. split; [reflexivity|].
    split; [symmetry; apply trace_tail | symmetry; apply exec_app].
  Qed.

  (** saving does not touch the original: chained saves at two points of one history *)
  Lemma resume_twice : forall (c : d_cfg D) pre mid post path p q (f : fs bytes),
    0 <= p <= HIGHEST_PROTOCOL -> 0 <= q <= HIGHEST_PROTOCOL -> dir_exists path = true ->
    picklable (c, exec D c pre) = true -> picklable (c, exec D c (pre ++ mid)) = true ->
    exists c1 s1 c2 s2,
      dload path (fst (dsave (c, exec D c pre) path (PInt p) f)) = Ok (c1, s1) /\
      dload path (fst (dsave (c1, exec_from D c1 s1 mid) path (PInt q) f)) = Ok (c2, s2) /\
      trace_from D c2 s2 post = skipn (length (pre ++ mid)) (trace D c ((pre ++ mid) ++ post)).
  Proof.
    intros c pre mid post path p q f Hp Hq Hd Hk1 Hk2.
    destruct (resume_equiv c pre mid path p f Hp Hd Hk1) as (_ & c1 & s1 & Hl1 & -> & -> & _ & _ & He).
    destruct (resume_equiv c (pre ++ mid) post path q f Hq Hd Hk2) as (_ & c2 & s2 & Hl2 & -> & -> & _ & Ht & _).
    exists c, (exec D c pre), c, (exec D c (pre ++ mid)).
    rewrite He. split; [exact Hl1|]. split; [exact Hl2 | exact Ht].
  Qed.
End Resume.

(* ====================================================================== per-class picklability *)

(** revisions in which the ECDD config does not hold the class-body lambda: all 35 classes *)
Lemma all_picklable : forall r c, r <> StoresLambda -> picklable_cls r c = true.
Proof. intros r c H. destruct r; [contradiction H; reflexivity | |]; destruct c; reflexivity. Qed.

(** the revision as found: every class but ECDDWT *)
Lemma all_picklable_but_ecddwt : forall c, c <> C_ECDDWT -> picklable_cls StoresLambda c = true.
Proof. intros c H. destruct c; try reflexivity. contradiction H; reflexivity. Qed.

Lemma ecddwt_not_picklable :
  exists c, In c all_classes /\ cls_kind c = KDetector /\ picklable_cls StoresLambda c = false /\
            In ("._config.control_limit_func"%string, ClassBodyLambda) (callable_fields StoresLambda c).
Proof. exists C_ECDDWT. repeat split; vm_compute; tauto. Qed.

Lemma all_classes_complete : forall c, In c all_classes.
Proof. intros c; destruct c; vm_compute; tauto. Qed.

Lemma picklable_graph_iff : forall r cs,
  picklable_graph r cs = true <-> (forall c, In c cs -> picklable_cls r c = true).
Proof. intros r cs. unfold picklable_graph. apply forallb_forall. Qed.

(** a callback attached to ECDD-WT is not picklable either (the back-reference reaches the config),
    and every other detector / callback combination is *)
Lemma graph_with_ecddwt : forall cs, In C_ECDDWT cs -> picklable_graph StoresLambda cs = false.
Proof.
  intros cs H. destruct (picklable_graph StoresLambda cs) eqn:E; [|reflexivity].
  rewrite picklable_graph_iff in E. specialize (E _ H). discriminate E.
Qed.

Lemma graph_without_ecddwt : forall cs, ~ In C_ECDDWT cs -> picklable_graph StoresLambda cs = true.
Proof.
  intros cs H. apply picklable_graph_iff. intros c Hc. apply all_picklable_but_ecddwt.
  intros ->. exact (H Hc).
Qed.

Lemma graph_picklable_fixed : forall r cs, r <> StoresLambda -> picklable_graph r cs = true.
Proof. intros r cs H. apply picklable_graph_iff. intros c _. apply all_picklable; exact H. Qed.

(* ====================================================================== the contract is satisfiable *)

(** the identity "pickle" (bytes = option obj) satisfies the contract: the hypotheses of
    the theorems above are not contradictory *)
Lemma contract_satisfiable : forall (obj : Type) (picklable : obj -> bool),
  PickleContract obj picklable (option obj) None (fun o _ => Some o)
    (fun b => match b with Some o => Ok o | None => Raise OtherError end).
Proof. intros obj picklable. split; [intros o p _ _; reflexivity | reflexivity]. Qed.
