(** Lemmas about the call protocol model of Model/Batch.v (property C14). *)
From Coq Require Import List Bool Arith Lia Permutation.
From FV Require Import Py Batch.
Import ListNotations.

Ltac brk :=
  repeat match goal with
  | |- context [match ?x with _ => _ end] => destruct x eqn:?; simpl in *; try congruence
  end.
Ltac brkh H :=
  repeat match type of H with
  | context [match ?x with _ => _ end] => destruct x eqn:?; simpl in H; try congruence
  end.

Ltac inv_pairs :=
  repeat match goal with
  | H : (_, _) = (_, _) |- _ => inversion H; clear H; subst
  | H : Ok _ = Ok _ |- _ => inversion H; clear H; subst
  | H : Raise _ = Raise _ |- _ => inversion H; clear H; subst
  | H : Some _ = Some _ |- _ => inversion H; clear H; subst
  end.
Ltac brk_all :=
  repeat (first
    [ match goal with |- context [match ?x with _ => _ end] => destruct x eqn:? end
    | match goal with H : context [match ?x with _ => _ end] |- _ => destruct x eqn:? end ];
    simpl in *; try congruence; inv_pairs).

Section BatchR.
  Variables (P Prm V : Type).
  Variable lib_cmp : cfg Prm -> arr P -> option (arr P) -> arr P -> V.
  Variable lib_fit_fails : cfg Prm -> arr P -> bool.
  Variable lib_sort : arr P -> arr P.
  Variable lib_stack : list (arr P) -> option (arr P).

  Local Notation step := (step P Prm V lib_cmp lib_fit_fails lib_sort lib_stack).
  Local Notation exec := (exec P Prm V lib_cmp lib_fit_fails lib_sort lib_stack).
  Local Notation outs := (outs P Prm V lib_cmp lib_fit_fails lib_sort lib_stack).
  Local Notation batch_cmp := (batch_cmp P Prm V lib_cmp).
  Local Notation batch_fit := (batch_fit P Prm V lib_fit_fails).
  Local Notation st := (st P).
  Local Notation arr := (arr P).
  Local Notation cfg := (cfg Prm).
  Local Notation op := (op P).
  Local Notation out := (out V).

  (* ------------------------------------------------------------------ generalities *)

  Lemma exec_app : forall c ops1 ops2 s, exec c s (ops1 ++ ops2) = exec c (exec c s ops1) ops2.
  Proof. induction ops1; simpl; intros; auto. Qed.

  Lemma st_eta : forall s : st,
    {| s_ref := s_ref P s; s_aux := s_aux P s; s_iref := s_iref P s; s_iaux := s_iaux P s; s_n := s_n P s; s_win := s_win P s |} = s.
  Proof. destruct s; reflexivity. Qed.

  Lemma run_checks_not_other : forall ks ref X, run_checks P ks ref X <> Raise OtherError.
  Proof.
    induction ks as [|k t IH]; simpl; intros ref X; [discriminate|].
    destruct (run_check P k ref X) eqn:E; [apply IH|].
    intro H; inversion H; subst.
    destruct k; simpl in E; unfold chk_fit_dims, chk_array, chk_samples, chk_fitted, chk_cmp_dims in E; brkh E.
  Qed.

  (* ------------------------------------------------------------------ purity of compare *)

  Lemma compare_pure : forall c s X, fst (step c s (Cmp X)) = s.
  Proof. intros. unfold Batch.step. destruct (d_family (describe (c_cls Prm c))); reflexivity. Qed.

  Fixpoint pick_nc (ops : list op) (rs : list (res out)) : list (res out) :=
    match ops, rs with
    | o :: t, r :: rt => if is_cmp P o then pick_nc t rt else r :: pick_nc t rt
    | _, _ => []
    end.

  Definition not_cmp (o : op) : bool := negb (is_cmp P o).

  Lemma compare_erasable : forall c ops s,
    exec c s (filter not_cmp ops) = exec c s ops /\
    outs c s (filter not_cmp ops) = pick_nc ops (outs c s ops).
  Proof.
    induction ops as [|o t IH]; simpl; intros s; [auto|].
    destruct o as [X|X|v|]; unfold not_cmp at 1 3; simpl;
      try (destruct (IH (fst (step c s (Fit X)))) as [A B]; rewrite A, B; auto);
      try (destruct (IH (fst (step c s (Upd v)))) as [A B]; rewrite A, B; auto);
      try (destruct (IH (fst (step c s Rst))) as [A B]; rewrite A, B; auto).
    rewrite compare_pure. apply IH.
  Qed.

  Lemma compares_keep_state : forall c cmps s, Forall (fun o => is_cmp P o = true) cmps -> exec c s cmps = s.
  Proof.
    induction cmps as [|o t IH]; simpl; intros s H; [auto|]. inversion H; subst.
    destruct o; simpl in *; try discriminate. rewrite compare_pure. auto.
  Qed.

  Lemma compares_pointwise : forall c cmps s, Forall (fun o => is_cmp P o = true) cmps ->
    outs c s cmps = map (fun o => snd (step c s o)) cmps.
  Proof.
    induction cmps as [|o t IH]; simpl; intros s H; [auto|]. inversion H; subst.
    destruct o; simpl in *; try discriminate. rewrite compare_pure. f_equal. auto.
  Qed.

  Lemma compare_repeatable : forall c s X, step c (fst (step c s (Cmp X))) (Cmp X) = step c s (Cmp X).
  Proof. intros. rewrite compare_pure. reflexivity. Qed.

  Lemma compare_commute : forall c s X Y,
    snd (step c (fst (step c s (Cmp Y))) (Cmp X)) = snd (step c s (Cmp X)) /\
    exec c s [Cmp X; Cmp Y] = exec c s [Cmp Y; Cmp X].
  Proof. intros. simpl. rewrite !compare_pure. auto. Qed.

  Lemma compare_any_order : forall c s cmps cmps',
    Forall (fun o => is_cmp P o = true) cmps -> Permutation cmps cmps' ->
    exec c s cmps = s /\ exec c s cmps' = s /\
    Permutation (combine cmps (outs c s cmps)) (combine cmps' (outs c s cmps')).
  Proof.
    intros c s cmps cmps' H Hp.
    assert (H' : Forall (fun o => is_cmp P o = true) cmps').
    { rewrite Forall_forall in *. intros x Hx. apply H. eapply Permutation_in; [apply Permutation_sym; eauto|auto]. }
    repeat split; try (apply compares_keep_state; auto).
    rewrite !compares_pointwise by auto.
    assert (E : forall l : list op, combine l (map (fun o => snd (step c s o)) l) = map (fun o => (o, snd (step c s o))) l).
    { induction l; simpl; congruence. }
    rewrite !E. apply Permutation_map. auto.
  Qed.

  (* ------------------------------------------------------------------ result is a function of (cfg, ref, X) *)

  Definition cmp_spec (c : cfg) (ref aux : option arr) (X : arr) : res out :=
    match d_family (describe (c_cls Prm c)) with
    | FBatch => batch_cmp (describe (c_cls Prm c)) c ref aux X
    | FIKS => Raise AttributeError
    | FMMDs => batch_cmp (describe MMD) (inner_cfg Prm c) ref aux X
    end.

  (* what compare returns for reference r: no state, no history *)
  Definition cmp_of_ref (c : cfg) (r : arr) (X : arr) : res out :=
    cmp_spec c (Some r) (if uses_kernel (c_cls Prm c) then Some r else None) X.

  Lemma compare_by_spec : forall c s X,
    snd (step c s (Cmp X)) = cmp_spec c (eff_ref P Prm c s) (eff_aux P Prm c s) X.
  Proof.
    intros. unfold Batch.step, cmp_spec, eff_ref, eff_aux.
    destruct (d_family (describe (c_cls Prm c))); reflexivity.
  Qed.

  (* _expected_k_xx belongs to the stored reference *)
  Definition synced (c : cfg) (s : st) : Prop :=
    if uses_kernel (c_cls Prm c)
    then eff_ref P Prm c s = None \/ eff_aux P Prm c s = eff_ref P Prm c s
    else eff_aux P Prm c s = None.

  (* no fit call died inside the library after X_ref had been assigned *)
  Fixpoint fit_lib_clean (c : cfg) (s : st) (ops : list op) : Prop :=
    match ops with
    | [] => True
    | o :: t => (is_fit P o = true -> snd (step c s o) <> Raise OtherError) /\ fit_lib_clean c (fst (step c s o)) t
    end.

  Lemma synced_init : forall c, synced c init.
  Proof. intros c. unfold synced, eff_ref, eff_aux. destruct (uses_kernel _), (d_family _); simpl; auto. Qed.

  Lemma synced_step : forall c s o, synced c s ->
    (is_fit P o = true -> snd (step c s o) <> Raise OtherError) -> synced c (fst (step c s o)).
  Proof.
    intros c s o Hs Hc. destruct o as [X|X|v|]; [|rewrite compare_pure; auto| |].
    - (* Fit *) specialize (Hc eq_refl).
      unfold synced, eff_ref, eff_aux, Batch.step in *.
      destruct (c_cls Prm c) eqn:Ecl; simpl in *;
        unfold Batch.batch_fit in *; simpl in *; brk_all; auto.
    - (* Upd *)
      unfold synced, eff_ref, eff_aux, Batch.step in *.
      destruct (c_cls Prm c) eqn:Ecl; simpl in *; brk; auto.
    - (* Rst *)
      unfold synced, eff_ref, eff_aux, Batch.step in *.
      destruct (c_cls Prm c) eqn:Ecl; simpl in *; auto.
  Qed.

  Lemma synced_exec : forall c ops s, synced c s -> fit_lib_clean c s ops -> synced c (exec c s ops).
  Proof.
    induction ops as [|o t IH]; simpl; intros s Hs Hc; [auto|]. destruct Hc as [H1 H2].
    apply IH; [apply synced_step; auto|auto].
  Qed.

  Lemma compare_functional_state : forall c s r X, synced c s -> eff_ref P Prm c s = Some r ->
    snd (step c s (Cmp X)) = cmp_of_ref c r X.
  Proof.
    intros c s r X Hs Hr. rewrite compare_by_spec, Hr. unfold cmp_of_ref. unfold synced in Hs.
    destruct (uses_kernel (c_cls Prm c)).
    - destruct Hs as [H|H]; [congruence|]. rewrite H, Hr. reflexivity.
    - rewrite Hs. reflexivity.
  Qed.

  Lemma compare_functional : forall c ops r X, fit_lib_clean c init ops ->
    eff_ref P Prm c (exec c init ops) = Some r ->
    snd (step c (exec c init ops) (Cmp X)) = cmp_of_ref c r X.
  Proof. intros. apply compare_functional_state; auto. apply synced_exec; auto. apply synced_init. Qed.

  Lemma no_kernel_fit_clean : forall c s o, uses_kernel (c_cls Prm c) = false -> is_fit P o = true ->
    snd (step c s o) <> Raise OtherError.
  Proof.
    intros c s o Hk Hf. destruct o as [X|X|v|]; simpl in Hf; try discriminate.
    unfold Batch.step. destruct (c_cls Prm c) eqn:Ecl; simpl in *; try discriminate;
      unfold Batch.batch_fit; simpl;
      repeat match goal with
      | |- context [chk_fit_dims P ?u ?X] => let E := fresh in destruct (chk_fit_dims P u X) eqn:E; simpl;
             [|unfold chk_fit_dims in E; brkh E]
      | |- context [chk_array P ?X] => let E := fresh in destruct (chk_array P X) eqn:E; simpl;
             [|unfold chk_array in E; brkh E]
      | |- context [chk_samples P ?X] => let E := fresh in destruct (chk_samples P X) eqn:E; simpl;
             [|unfold chk_samples in E; brkh E]
      end; brk; try discriminate.
  Qed.

  Lemma no_kernel_clean : forall c ops s, uses_kernel (c_cls Prm c) = false -> fit_lib_clean c s ops.
  Proof. induction ops as [|o t IH]; simpl; intros; auto. split; auto. intros. apply no_kernel_fit_clean; auto. Qed.

  Lemma compare_functional_no_kernel : forall c ops r X, uses_kernel (c_cls Prm c) = false ->
    eff_ref P Prm c (exec c init ops) = Some r ->
    snd (step c (exec c init ops) (Cmp X)) = cmp_of_ref c r X.
  Proof. intros. apply compare_functional; auto. apply no_kernel_clean; auto. Qed.

  (* ------------------------------------------------------------------ needs fit *)

  Lemma needs_fit_cmp : forall c s X, unfitted P Prm c s -> has_compare (c_cls Prm c) = true ->
    step c s (Cmp X) = (s, Raise MissingFitError).
  Proof.
    intros c s X [H1 H2] Hc. unfold Batch.step. unfold has_compare in Hc.
    destruct (c_cls Prm c); simpl in *; try discriminate; unfold Batch.batch_cmp; simpl;
      try rewrite H1; try rewrite (H2 eq_refl); reflexivity.
  Qed.

  Lemma needs_fit_upd : forall c s v, unfitted P Prm c s -> has_update (c_cls Prm c) = true ->
    step c s (Upd v) = (s, Raise MissingFitError).
  Proof.
    intros c s v [H1 H2] Hc. unfold Batch.step. unfold has_update in Hc.
    destruct (c_cls Prm c); simpl in *; try discriminate; rewrite H1; reflexivity.
  Qed.

  Lemma failed_fit_keeps_state : forall c s X e, snd (step c s (Fit X)) = Raise e -> e <> OtherError ->
    fst (step c s (Fit X)) = s.
  Proof.
    intros c s X e H Hne. unfold Batch.step in *.
    destruct (c_cls Prm c) eqn:Ecl; simpl in *; unfold Batch.batch_fit in *; simpl in *;
      brk_all; try apply st_eta; simpl in *; try congruence.
  Qed.

  (* every fit call among [ops] is rejected by a check of the detector *)
  Fixpoint no_effective_fit (c : cfg) (s : st) (ops : list op) : Prop :=
    match ops with
    | [] => True
    | o :: t => (is_fit P o = true -> exists e, snd (step c s o) = Raise e /\ e <> OtherError)
                /\ no_effective_fit c (fst (step c s o)) t
    end.

  Lemma unfitted_step : forall c s o, unfitted P Prm c s -> is_fit P o = false -> unfitted P Prm c (fst (step c s o)).
  Proof.
    intros c s o [H1 H2] Hf. destruct o as [X|X|v|]; simpl in Hf; try discriminate.
    - rewrite compare_pure. split; auto.
    - unfold Batch.step, unfitted in *. destruct (c_cls Prm c); simpl in *; try rewrite H1; simpl; auto.
    - unfold Batch.step, unfitted in *. destruct (c_cls Prm c); simpl in *; auto; split; auto; discriminate.
  Qed.

  Lemma unfitted_exec : forall c ops s, unfitted P Prm c s -> no_effective_fit c s ops -> unfitted P Prm c (exec c s ops).
  Proof.
    induction ops as [|o t IH]; simpl; intros s Hu Hn; [auto|]. destruct Hn as [Hf Ht].
    apply IH; [|auto]. destruct (is_fit P o) eqn:E.
    - destruct (Hf eq_refl) as [e [He Hne]]. destruct o; simpl in E; try discriminate.
      rewrite (failed_fit_keeps_state _ _ _ _ He Hne). auto.
    - apply unfitted_step; auto.
  Qed.

  Lemma reset_unfits : forall c s, unfitted P Prm c (fst (step c s Rst)) /\ snd (step c s Rst) = Ok ONone.
  Proof. intros. unfold Batch.step, unfitted. destruct (c_cls Prm c), s; simpl; repeat split; auto; discriminate. Qed.

  Lemma init_unfitted : forall c, unfitted P Prm c init.
  Proof. split; reflexivity. Qed.

  Lemma needs_fit_hist : forall c ops1 ops2 X v,
    no_effective_fit c (fst (step c (exec c init ops1) Rst)) ops2 ->
    let s := exec c init (ops1 ++ Rst :: ops2) in
    (has_compare (c_cls Prm c) = true -> step c s (Cmp X) = (s, Raise MissingFitError)) /\
    (has_update (c_cls Prm c) = true -> step c s (Upd v) = (s, Raise MissingFitError)).
  Proof.
    intros c ops1 ops2 X v H s.
    assert (Hu : unfitted P Prm c s).
    { unfold s. rewrite exec_app. simpl. apply unfitted_exec; auto. apply reset_unfits. }
    split; intros; [apply needs_fit_cmp|apply needs_fit_upd]; auto.
  Qed.

  Lemma needs_fit_fresh : forall c ops X v, no_effective_fit c init ops ->
    let s := exec c init ops in
    (has_compare (c_cls Prm c) = true -> step c s (Cmp X) = (s, Raise MissingFitError)) /\
    (has_update (c_cls Prm c) = true -> step c s (Upd v) = (s, Raise MissingFitError)).
  Proof.
    intros c ops X v H s.
    assert (Hu : unfitted P Prm c s) by (apply unfitted_exec; auto; apply init_unfitted).
    split; intros; [apply needs_fit_cmp|apply needs_fit_upd]; auto.
  Qed.

  (* ------------------------------------------------------------------ reset gives a fresh detector *)

  Definition clean (c : cfg) (s : st) : Prop :=
    s_aux P s = None /\ s_iref P s = None /\ s_iaux P s = None /\
    (d_family (describe (c_cls Prm c)) = FBatch -> s_n P s = 0 /\ s_win P s = []).

  Lemma clean_step : forall c s o, uses_kernel (c_cls Prm c) = false -> clean c s -> clean c (fst (step c s o)).
  Proof.
    intros c s o Hk (A & B & C & D). unfold clean, Batch.step.
    destruct (c_cls Prm c) eqn:Ecl; simpl in *; try discriminate;
      destruct o as [X|X|v|]; simpl; unfold Batch.batch_fit; simpl; brk_all; auto;
      repeat split; auto; try (intros; discriminate); try (apply D; reflexivity).
  Qed.

  Lemma clean_exec : forall c ops s, uses_kernel (c_cls Prm c) = false -> clean c s -> clean c (exec c s ops).
  Proof. induction ops; simpl; intros; auto. apply IHops; auto. apply clean_step; auto. Qed.

  Lemma reset_is_fresh : forall c ops, uses_kernel (c_cls Prm c) = false ->
    fst (step c (exec c init ops) Rst) = init.
  Proof.
    intros c ops Hk.
    assert (Hc : clean c (exec c init ops)).
    { apply clean_exec; auto. unfold clean; simpl; auto. }
    destruct Hc as (A & B & C & D). unfold Batch.step.
    destruct (exec c init ops) as [r a ir ia n w]; simpl in *. subst.
    destruct (c_cls Prm c) eqn:Ecl; simpl in *; try discriminate; unfold init;
      try (destruct (D eq_refl); subst); reflexivity.
  Qed.


  (* all classes: after reset everything but the kernel terms (MMD._expected_k_xx of the detector / of the
     wrapped detector) is as in a new object *)
  Definition forget_aux (s : st) : st :=
    {| s_ref := s_ref P s; s_aux := None; s_iref := s_iref P s; s_iaux := None; s_n := s_n P s; s_win := s_win P s |}.

  Definition tidy (c : cfg) (s : st) : Prop :=
    (d_family (describe (c_cls Prm c)) <> FMMDs -> s_iref P s = None) /\
    (d_family (describe (c_cls Prm c)) = FBatch -> s_n P s = 0 /\ s_win P s = []).

  Lemma tidy_step : forall c s o, tidy c s -> tidy c (fst (step c s o)).
  Proof.
    intros c s o [A B]. unfold tidy, Batch.step.
    destruct (c_cls Prm c) eqn:Ecl; simpl in *;
      destruct o as [X|X|v|]; simpl; unfold Batch.batch_fit; simpl; brk_all; auto;
      split; auto; try (intros; discriminate); try (intros H; exfalso; apply H; reflexivity);
      try (intros _; apply A; discriminate); try (intros _; apply B; reflexivity).
  Qed.

  Lemma tidy_exec : forall c ops s, tidy c s -> tidy c (exec c s ops).
  Proof. induction ops; simpl; intros; auto. apply IHops. apply tidy_step; auto. Qed.

  Lemma reset_is_fresh_up_to_kernel_term : forall c ops,
    forget_aux (fst (step c (exec c init ops) Rst)) = init.
  Proof.
    intros c ops.
    assert (Hc : tidy c (exec c init ops)).
    { apply tidy_exec. split; intros; simpl; auto. }
    destruct Hc as [A B]. unfold Batch.step, forget_aux.
    destruct (exec c init ops) as [r a ir ia n w]; simpl in *.
    destruct (c_cls Prm c) eqn:Ecl; simpl in *; unfold init;
      try (destruct (B eq_refl); subst); try (rewrite A by discriminate); reflexivity.
  Qed.

  (* ------------------------------------------------------------------ what the reference is *)

  Lemma fit_sets_reference : forall c s X, snd (step c s (Fit X)) = Ok ONone ->
    eff_ref P Prm c (fst (step c s (Fit X))) =
      Some (match d_family (describe (c_cls Prm c)) with FIKS => lib_sort X | _ => X end).
  Proof.
    intros c s X H. unfold eff_ref, Batch.step in *.
    destruct (c_cls Prm c) eqn:Ecl; simpl in *; unfold Batch.batch_fit in *; simpl in *; brk_all; auto.
  Qed.

  Lemma reference_changes_only_by_fit_reset : forall c s o, is_fit P o = false -> o <> Rst ->
    eff_ref P Prm c (fst (step c s o)) = eff_ref P Prm c s.
  Proof.
    intros c s o Hf Hr. destruct o as [X|X|v|]; simpl in Hf; try discriminate; try congruence.
    - rewrite compare_pure. reflexivity.
    - unfold eff_ref, Batch.step. destruct (c_cls Prm c) eqn:Ecl; simpl; brk_all; auto.
  Qed.

  Lemma reset_clears_reference : forall c s, eff_ref P Prm c (fst (step c s Rst)) = None.
  Proof. intros. unfold eff_ref, Batch.step. destruct (c_cls Prm c); reflexivity. Qed.

  (* ------------------------------------------------------------------ dimension mismatch at compare *)

  Definition ref_attr (c : cfg) (s : st) : Prop := forall r, eff_ref P Prm c s = Some r -> a_attr P r = true.

  Lemma fit_dims_attr : forall u X, chk_fit_dims P u X = Ok tt -> a_attr P X = true.
  Proof. intros u X H. unfold chk_fit_dims in H. destruct (a_attr P X); simpl in *; [auto|discriminate]. Qed.

  Lemma ref_attr_step : forall c s o, c_cls Prm c <> IncrementalKSTest -> ref_attr c s -> ref_attr c (fst (step c s o)).
  Proof.
    intros c s o Hn Hr. destruct o as [X|X|v|]; [|rewrite compare_pure; auto| |].
    - unfold ref_attr, eff_ref, Batch.step in *.
      destruct (c_cls Prm c) eqn:Ecl; simpl in *; try congruence; unfold Batch.batch_fit; simpl;
        repeat match goal with
        | |- context [chk_fit_dims P ?u ?X] =>
            let E := fresh "E" in destruct (chk_fit_dims P u X) as [[]|] eqn:E; simpl; [apply fit_dims_attr in E|]
        end; intros r0 Hr0; brk_all; auto.
    - unfold ref_attr, eff_ref, Batch.step in *.
      destruct (c_cls Prm c) eqn:Ecl; simpl in *; try congruence; brk; auto.
    - unfold ref_attr, eff_ref, Batch.step in *.
      destruct (c_cls Prm c) eqn:Ecl; simpl in *; try congruence; intros; discriminate.
  Qed.

  Lemma ref_attr_exec : forall c ops s, c_cls Prm c <> IncrementalKSTest -> ref_attr c s -> ref_attr c (exec c s ops).
  Proof. induction ops; simpl; intros; auto. apply IHops; auto. apply ref_attr_step; auto. Qed.

  Lemma list_eqb_refl : forall l, list_eqb l l = true.
  Proof. induction l; simpl; auto. rewrite Nat.eqb_refl. auto. Qed.

  (* the code's test is exactly "same dimensionality", for any number of axes *)
  Lemma cmp_dims_exact : forall r X, a_attr P r = true -> a_attr P X = true ->
    chk_cmp_dims P (Some r) X = if same_dims P r X then Ok tt else Raise MismatchDimensionError.
  Proof.
    intros r X Hr HX. unfold chk_cmp_dims, same_dims. rewrite Hr, HX. simpl.
    destruct (ndim P r =? ndim P X); simpl; destruct (list_eqb _ _); reflexivity.
  Qed.

  Lemma dim_mismatch_state : forall c s r X, has_compare (c_cls Prm c) = true ->
    eff_ref P Prm c s = Some r -> a_attr P r = true -> a_attr P X = true -> same_dims P r X = false ->
    step c s (Cmp X) = (s, Raise MismatchDimensionError).
  Proof.
    intros c s r X Hc Hr Ha HX Hd.
    pose proof (cmp_dims_exact r X Ha HX) as Hm. rewrite Hd in Hm.
    unfold eff_ref, has_compare, Batch.step in *.
    destruct (c_cls Prm c) eqn:Ecl; simpl in *; try discriminate; unfold Batch.batch_cmp; simpl;
      rewrite Hr; simpl; rewrite Hm; reflexivity.
  Qed.

  Lemma dim_mismatch : forall c ops r X, has_compare (c_cls Prm c) = true ->
    let s := exec c init ops in
    eff_ref P Prm c s = Some r -> a_attr P X = true -> same_dims P r X = false ->
    step c s (Cmp X) = (s, Raise MismatchDimensionError).
  Proof.
    intros c ops r X Hc s Hr HX Hd. apply dim_mismatch_state with (r := r); auto.
    assert (Hn : c_cls Prm c <> IncrementalKSTest) by (intro E; rewrite E in Hc; discriminate).
    apply (ref_attr_exec c ops init Hn); [intros r0 H0; unfold eff_ref in H0; destruct (d_family _); discriminate|auto].
  Qed.

  (* ------------------------------------------------------------------ fit: number of axes, multi-column input *)

  Lemma fit_check_first : forall c s X e, (forall u, chk_fit_dims P u X = Raise e) ->
    step c s (Fit X) = (s, Raise e).
  Proof.
    intros c s X e Hd. unfold Batch.step. destruct (c_cls Prm c) eqn:Ecl; simpl in *;
      unfold Batch.batch_fit; simpl; rewrite Hd; simpl; try rewrite st_eta; reflexivity.
  Qed.

  Lemma more_than_two_axes_rejected : forall c s X, a_attr P X = true -> 2 < ndim P X ->
    step c s (Fit X) = (s, Raise DimensionError).
  Proof.
    intros c s X HX Hn. apply fit_check_first. intros u. unfold chk_fit_dims. rewrite HX. simpl.
    destruct (2 <? ndim P X) eqn:E; [reflexivity|apply Nat.ltb_ge in E; lia].
  Qed.

  Lemma univariate_rejects_axis1 : forall c s X k, univariate (c_cls Prm c) = true ->
    a_attr P X = true -> shape1 P X = Some k -> k <> 1 ->
    step c s (Fit X) = (s, Raise DimensionError).
  Proof.
    intros c s X k Hu HX Hk Hne.
    assert (Hd : chk_fit_dims P true X = Raise DimensionError).
    { unfold chk_fit_dims. rewrite HX, Hk. simpl. destruct (2 <? ndim P X); [reflexivity|].
      destruct (k =? 1) eqn:E; [apply Nat.eqb_eq in E; lia|reflexivity]. }
    unfold Batch.step. destruct (c_cls Prm c) eqn:Ecl; simpl in *; try discriminate;
      unfold Batch.batch_fit; simpl; rewrite Hd; simpl; try rewrite st_eta; reflexivity.
  Qed.

  Lemma univariate_rejects_multicolumn : forall c s X, univariate (c_cls Prm c) = true ->
    a_attr P X = true -> multi_column P X = true ->
    step c s (Fit X) = (s, Raise DimensionError).
  Proof.
    intros c s X Hu HX Hm.
    destruct (le_lt_dec (ndim P X) 2) as [Hn|Hn]; [|apply more_than_two_axes_rejected; auto].
    unfold multi_column, ndim in *.
    destruct (a_shape P X) as [|x0 [|x1 [|x2 xt]]] eqn:Es; simpl in *; try discriminate; try lia.
    apply univariate_rejects_axis1 with (k := x1); auto.
    - unfold shape1. rewrite Es. reflexivity.
    - intro E; subst. simpl in Hm. discriminate.
  Qed.

  (* a 0-d array (or NumPy scalar) is rejected by every class *)
  Lemma zero_dim_rejected : forall c s X, a_attr P X = true -> a_shape P X = [] ->
    step c s (Fit X) = (s, Raise DimensionError).
  Proof.
    intros c s X HX Hs. apply fit_check_first.
    intros u. unfold chk_fit_dims, shape1, ndim. rewrite HX, Hs. destruct u; reflexivity.
  Qed.

  (* ------------------------------------------------------------------ non-array input *)

  (* objects without .shape: lists, tuples, None, Python numbers *)
  Lemma plain_rejected_fit : forall c s X, a_attr P X = false -> step c s (Fit X) = (s, Raise AttributeError).
  Proof.
    intros c s X HX. apply fit_check_first. intros u. unfold chk_fit_dims. rewrite HX. reflexivity.
  Qed.

  Lemma plain_rejected_cmp : forall c s X, a_attr P X = false ->
    fst (step c s (Cmp X)) = s /\
    (snd (step c s (Cmp X)) = Raise MissingFitError \/ snd (step c s (Cmp X)) = Raise AttributeError).
  Proof.
    intros c s X HX. split; [apply compare_pure|].
    unfold Batch.step. destruct (c_cls Prm c) eqn:Ecl; simpl; unfold Batch.batch_cmp; simpl;
      unfold chk_fitted, chk_cmp_dims, chk_samples; rewrite ?HX; simpl; brk_all; auto.
  Qed.

  (* anything that is not an ndarray is rejected at fit by every class that stores X itself *)
  Lemma non_ndarray_rejected_fit : forall c s X, a_nd P X = false -> c_cls Prm c <> IncrementalKSTest ->
    fst (step c s (Fit X)) = s /\
    exists e, snd (step c s (Fit X)) = Raise e /\ (e = AttributeError \/ e = DimensionError \/ e = TypeError).
  Proof.
    intros c s X HX H2. unfold Batch.step.
    destruct (c_cls Prm c) eqn:Ecl; simpl; try congruence; unfold Batch.batch_fit; simpl;
      unfold chk_array; rewrite ?HX; simpl;
      repeat match goal with
      | |- context [chk_fit_dims P ?u ?X] =>
          let E := fresh "E" in destruct (chk_fit_dims P u X) as [[]|] eqn:E; simpl;
            [|unfold chk_fit_dims in E; brkh E; inversion E; subst]
      end; rewrite ?st_eta; split; eauto 6.
  Qed.

  (* whatever is stored as a reference is an ndarray: every class, every history *)
  Definition ref_nd (s : st) : Prop :=
    (forall r, s_ref P s = Some r -> a_nd P r = true) /\ (forall r, s_iref P s = Some r -> a_nd P r = true).

  Lemma chk_array_nd : forall X u, chk_array P X = Ok u -> a_nd P X = true.
  Proof. intros X u H. unfold chk_array in H. destruct (a_nd P X); [auto|discriminate]. Qed.

  Lemma ref_nd_step : forall c s o, ref_nd s -> ref_nd (fst (step c s o)).
  Proof.
    intros c s o [H1 H2]. destruct o as [X|X|v|]; [|rewrite compare_pure; split; auto| |].
    - unfold ref_nd, Batch.step.
      destruct (c_cls Prm c) eqn:Ecl; simpl; unfold Batch.batch_fit; simpl;
        split; intros r0 Hr0; brk_all; eauto using chk_array_nd.
    - unfold ref_nd, Batch.step. destruct (c_cls Prm c) eqn:Ecl; simpl; split; intros r0 Hr0; brk_all; auto.
    - unfold ref_nd, Batch.step. destruct (c_cls Prm c) eqn:Ecl; simpl; split; intros r0 Hr0; simpl in *;
        try discriminate; auto.
  Qed.

  Lemma ref_nd_exec : forall c ops s, ref_nd s -> ref_nd (exec c s ops).
  Proof. induction ops; simpl; intros; auto. apply IHops. apply ref_nd_step; auto. Qed.

  Lemma stored_reference_is_ndarray : forall c ops r,
    (s_ref P (exec c init ops) = Some r \/ s_iref P (exec c init ops) = Some r) -> a_nd P r = true.
  Proof.
    intros c ops.
    assert (H : ref_nd (exec c init ops)).
    { apply ref_nd_exec. split; intros r0 Hr0; discriminate. }
    intros r [Hr|Hr]; [apply (proj1 H)|apply (proj2 H)]; auto.
  Qed.

  (* ------------------------------------------------------------------ the chains before the repairs
     (fix commits 606a948, a5ac796, 422d589, 7265f6c), kept to document what they let through *)

  (* _check_fit_dimensions without the ndim > 2 test *)
  Definition chk_fit_dims_axis1 (univariate : bool) (X : arr) : res unit :=
    if negb (a_attr P X) then Raise AttributeError else
    match shape1 P X with
    | Some k => if dim_check univariate k then Ok tt else Raise DimensionError
    | None => if dim_check univariate (ndim P X) then Ok tt else Raise DimensionError
    end.

  (* _check_compare_dimensions comparing shape[1] only (ndim in the IndexError handler) *)
  Definition chk_cmp_dims_axis1 (r X : arr) : res unit :=
    let handler :=
      if negb (a_attr P X) then Raise AttributeError
      else if ndim P r =? ndim P X then Ok tt else Raise MismatchDimensionError in
    if negb (a_attr P r) then Raise AttributeError else
    match shape1 P r with
    | None => handler
    | Some r1 =>
      if negb (a_attr P X) then Raise AttributeError else
      match shape1 P X with
      | None => handler
      | Some x1 => if r1 =? x1 then Ok tt else Raise MismatchDimensionError
      end
    end.

  (* CVMTest's chains before 606a948 / a5ac796 *)
  Definition cvm_fit_old : list check := [ChkFitDims true; ChkSamples].
  Definition cvm_cmp_old : list check := [ChkFitted; ChkSamples].
End BatchR.

(* ---------------------------------------------------------------------- closed witnesses *)

Section Witness.
  Variables (P Prm V : Type) (p q : P) (prm : Prm).
  Variable lib_cmp : cfg Prm -> arr P -> option (arr P) -> arr P -> V.
  Variable lib_fit_fails : cfg Prm -> arr P -> bool.
  Variable lib_sort : arr P -> arr P.
  Variable lib_stack : list (arr P) -> option (arr P).
  Local Notation step := (step P Prm V lib_cmp lib_fit_fails lib_sort lib_stack).
  Local Notation exec := (exec P Prm V lib_cmp lib_fit_fails lib_sort lib_stack).

  Definition nd (sh : list nat) (i : P) : arr P := {| a_nd := true; a_attr := true; a_shape := sh; a_id := i |}.
  Definition duck (sh : list nat) (i : P) : arr P := {| a_nd := false; a_attr := true; a_shape := sh; a_id := i |}.
  Definition plain (i : P) : arr P := {| a_nd := false; a_attr := false; a_shape := []; a_id := i |}.
  Definition mk (k : cls) : cfg Prm := {| c_cls := k; c_prm := prm; c_win := 3 |}.

  (* compare never looks at the type of X: a non-ndarray exposing .shape reaches the library *)
  Lemma non_array_cmp_witness : forall k, has_compare k = true -> univariate k = true ->
    let c := mk k in let r := nd [6] p in let X := duck [5] q in
    a_nd P X = false /\ snd (step c (exec c init [Fit r]) (Cmp X)) = Ok (OLib (lib_cmp c r None X)).
  Proof. intros k H1 H2. destruct k; simpl in *; try discriminate; repeat split; auto. Qed.

  (* MMD.fit dying in the kernel computation has already replaced X_ref *)
  Lemma mmd_failed_fit_witness : lib_fit_fails (mk MMD) (nd [0; 2] p) = true ->
    let c := mk MMD in let X := nd [0; 2] p in
    snd (step c init (Fit X)) = Raise OtherError /\ s_ref P (fst (step c init (Fit X))) = Some X /\
    s_aux P (fst (step c init (Fit X))) = None.
  Proof. intros H. simpl. unfold Batch.step, Batch.batch_fit. simpl. rewrite H. simpl. auto. Qed.

  (* what the unrepaired checks let through, next to what the current ones do *)
  Lemma old_cvm_cmp_witness :
    let r := nd [6] p in let X := nd [6; 2] q in
    run_checks P cvm_cmp_old (Some r) X = Ok tt /\
    run_checks P (d_cmp (describe CVMTest)) (Some r) X = Raise MismatchDimensionError.
  Proof. simpl. auto. Qed.

  Lemma old_cvm_fit_witness :
    let X := duck [6] p in
    run_checks P cvm_fit_old None X = Ok tt /\ run_checks P (d_fit (describe CVMTest)) None X = Raise TypeError.
  Proof. simpl. auto. Qed.

  Lemma old_cmp_dims_witness :
    let r := nd [6; 1] p in let X := nd [5; 1; 2] q in
    chk_cmp_dims_axis1 P r X = Ok tt /\ chk_cmp_dims P (Some r) X = Raise MismatchDimensionError.
  Proof. simpl. auto. Qed.

  Lemma old_fit_dims_witness :
    let X := nd [6; 1; 2] p in
    chk_fit_dims_axis1 P true X = Ok tt /\ chk_fit_dims P true X = Raise DimensionError.
  Proof. simpl. auto. Qed.
End Witness.
