(* Proofs/RDDMR.v *)
(** C03 (RDDM part): RDDM gives DDM's verdicts until its first event; over the reals its
    error-rate estimate is always the running mean of a suffix of the stream. *)
From Coq Require Import ZArith List Bool Reals Lra Lia.
From FV Require Import NumSys RealA Py Sums Queue Stats Detector SPC QueueRef StatsR SPCSpec SPCR.
Import ListNotations.

Definition rddm_run {A : Arith} (c : rddm_cfg A) (vs : list (num A)) : rddm_st A := fold_left (rddm_step c) vs (rddm_init c).
Definition ddm_run' {A : Arith} (c : ddm_cfg A) (vs : list (num A)) : ddm_st A := fold_left (ddm_step c) vs (ddm_init c).
Definition ddm_of {A : Arith} (c : rddm_cfg A) : ddm_cfg A := {| dd_warn := rd_warn c; dd_drift := rd_drift c; dd_min := rd_min c |}.
(** an "event" (drift, warning limit, max concept size) is what sets the flag [rflag] (= rddm_drift in the code) *)
Definition no_event_before {A : Arith} (c : rddm_cfg A) (vs : list (num A)) : Prop :=
  forall k, (k < length vs)%nat -> rflag (rddm_run c (firstn k vs)) = false.

(** * Runs *)

Lemma rddm_run_snoc : forall (A : Arith) (c : rddm_cfg A) vs v,
  rddm_run c (vs ++ [v]) = rddm_step c (rddm_run c vs) v.
Proof. intros A c vs v. unfold rddm_run. rewrite fold_left_app. reflexivity. Qed.

Lemma ddm_run'_snoc : forall (A : Arith) (c : ddm_cfg A) vs v,
  ddm_run' c (vs ++ [v]) = ddm_step c (ddm_run' c vs) v.
Proof. intros A c vs v. unfold ddm_run'. rewrite fold_left_app. reflexivity. Qed.

Lemma no_event_snoc : forall (A : Arith) (c : rddm_cfg A) vs v,
  no_event_before c (vs ++ [v]) -> no_event_before c vs /\ rflag (rddm_run c vs) = false.
Proof.
  intros A c vs v H. split.
  - intros k Hk. specialize (H k). rewrite app_length in H. cbn [length] in H.
    rewrite firstn_app in H. replace (k - length vs)%nat with 0%nat in H by lia.
    cbn [firstn] in H. rewrite app_nil_r in H. apply H. lia.
  - specialize (H (length vs)). rewrite firstn_app, Nat.sub_diag, firstn_all in H.
    cbn [firstn] in H. rewrite app_nil_r in H. apply H. rewrite app_length. cbn [length]. lia.
Qed.

(** * (1) RDDM simulates DDM until its first event *)

Lemma rddm_ddm_step : forall (A : Arith) (c : rddm_cfg A) (s : rddm_st A) (d : ddm_st A) (v : num A),
  rflag s = false -> rn s = dn d -> rer s = der d -> rmins s = dmins d ->
  let r := rddm_step c s v in let d' := ddm_step (ddm_of c) d v in
  rn r = dn d' /\ rer r = der d' /\ rmins r = dmins d' /\
  ((rdrift r = ddrift d' /\ rwarning r = dwarning d') \/
   (rdrift r = true /\ rwarning r = false /\ ddrift d' = false /\ dwarning d' = true /\
    (rd_max_warn c <= rnum_warn s)%Z)).
Proof.
  intros A c s d v Hf Hn He Hm. cbv zeta. unfold rddm_step, ddm_step. cbv zeta.
  cbn [rflag rn rer rmins rdrift rwarning rnum_warn rpred ddm_of dd_warn dd_drift dd_min].
  rewrite Hf.
  cbn [rflag rn rer rmins rdrift rwarning rnum_warn rpred].
  rewrite <- Hn, <- He, <- Hm.
  destruct (rd_min c <=? rn s + 1)%Z.
  - destruct (eps_std (m_mean (mean_update (rer s) v)) (rn s + 1)) as [eps std].
    destruct (check_thr eps (update_mins (rmins s) (m_mean (mean_update (rer s) v)) eps std) (rd_drift c)).
    + cbn [rn rer rmins rdrift rwarning dn der dmins ddrift dwarning]. auto 6.
    + destruct (check_thr eps (update_mins (rmins s) (m_mean (mean_update (rer s) v)) eps std) (rd_warn c)).
      * destruct (rd_max_warn c <=? rnum_warn s)%Z eqn:Ew.
        -- apply Z.leb_le in Ew.
           cbn [rn rer rmins rdrift rwarning dn der dmins ddrift dwarning].
           repeat split. right. repeat split. exact Ew.
        -- cbn [rn rer rmins rdrift rwarning dn der dmins ddrift dwarning]. auto 6.
      * cbn [rn rer rmins rdrift rwarning dn der dmins ddrift dwarning]. auto 6.
  - cbn [rn rer rmins rdrift rwarning dn der dmins ddrift dwarning]. auto 6.
Qed.

Lemma rddm_ddm_state : forall (A : Arith) (c : rddm_cfg A) (vs : list (num A)),
  no_event_before c vs ->
  rn (rddm_run c vs) = dn (ddm_run' (ddm_of c) vs) /\
  rer (rddm_run c vs) = der (ddm_run' (ddm_of c) vs) /\
  rmins (rddm_run c vs) = dmins (ddm_run' (ddm_of c) vs).
Proof.
  intros A c vs; induction vs as [|v vs IH] using rev_ind; intros Hne.
  - cbn. auto.
  - destruct (no_event_snoc A c vs v Hne) as [Hne' Hf].
    destruct (IH Hne') as (Hn & He & Hm).
    rewrite rddm_run_snoc, ddm_run'_snoc.
    destruct (rddm_ddm_step A c _ _ v Hf Hn He Hm) as (H1 & H2 & H3 & _). auto.
Qed.

Theorem rddm_simulates_ddm : forall (A : Arith) (c : rddm_cfg A) (vs : list (num A)),
  no_event_before c vs ->
  let r := rddm_run c vs in let d := ddm_run' (ddm_of c) vs in
  rn r = dn d /\ rer r = der d /\ rmins r = dmins d /\
  ((rdrift r = ddrift d /\ rwarning r = dwarning d) \/
   (* the step at which the warning limit is reached: RDDM says drift where DDM says warning *)
   (vs <> [] /\ rdrift r = true /\ rwarning r = false /\ ddrift d = false /\ dwarning d = true /\
    (rd_max_warn c <= rnum_warn (rddm_run c (removelast vs)))%Z)).
Proof.
  intros A c vs Hne. cbv zeta.
  induction vs as [|v vs _] using rev_ind.
  - cbn. auto 6.
  - destruct (no_event_snoc A c vs v Hne) as [Hne' Hf].
    destruct (rddm_ddm_state A c vs Hne') as (Hn & He & Hm).
    rewrite removelast_last, rddm_run_snoc, ddm_run'_snoc.
    destruct (rddm_ddm_step A c _ _ v Hf Hn He Hm) as (H1 & H2 & H3 & [H4|H4]).
    + auto 6.
    + repeat split; try assumption. right. split; [|exact H4].
      intros Hnil. apply app_eq_nil in Hnil. destruct Hnil as [_ Hnil]. discriminate.
Qed.

(** * (2) The error rate is the running mean of a suffix of the stream *)

(** ** List helpers *)

Lemma lastn_snoc : forall {X} (k : nat) (l : list X) (v : X), (k <= length l)%nat ->
  lastn (S k) (l ++ [v]) = lastn k l ++ [v].
Proof.
  intros X k l v Hk. unfold lastn. rewrite app_length. cbn [length].
  replace (length l + 1 - S k)%nat with (length l - k)%nat by lia.
  rewrite skipn_app. replace (length l - k - length l)%nat with 0%nat by lia. reflexivity.
Qed.

Lemma lastn_0 : forall {X} (l : list X), lastn 0 l = [].
Proof. intros X l. unfold lastn. rewrite Nat.sub_0_r. apply skipn_all. Qed.

Lemma tl_skipn : forall {X} (n : nat) (l : list X), tl (skipn n l) = skipn (S n) l.
Proof.
  intros X n; induction n as [|n IH]; intros l.
  - destruct l; reflexivity.
  - destruct l as [|x t]; [reflexivity|].
    change (skipn (S n) (x :: t)) with (skipn n t).
    change (skipn (S (S n)) (x :: t)) with (skipn (S n) t). apply IH.
Qed.

Lemma lastn_tl : forall {X} (j : nat) (l : list X), (1 <= j <= length l)%nat ->
  tl (lastn j l) = lastn (j - 1) l.
Proof.
  intros X j l Hj. unfold lastn. rewrite tl_skipn. f_equal. lia.
Qed.

(** ** What a step does to the error rate and to the stored predictions *)

Definition rebuilt_er {A : Arith} (c : rddm_cfg A) (s : rddm_st A) : mean_st A :=
  snd (fst (fold_left (rebuild_one c (rdrift s)) (cq_abs (rpred s)) (0%Z, mean_init, None))).

Definition enq_pred {A : Arith} (s : rddm_st A) (v : num A) : cq (num A) :=
  match cq_enqueue (rpred s) v with Ok (q, _) => q | Raise _ => rpred s end.

Lemma rebuild_er : forall (A : Arith) (c : rddm_cfg A) (b : bool) (l : list (num A)) acc,
  snd (fst (fold_left (rebuild_one c b) (map Some l) acc)) = fold_left mean_update l (snd (fst acc)).
Proof.
  intros A c b l; induction l as [|x t IH]; intros acc; [reflexivity|].
  cbn [map fold_left]. rewrite IH. f_equal.
  destruct acc as [[n er] m]. unfold rebuild_one. destruct (eps_std _ _) as [eps std]. reflexivity.
Qed.

Lemma rddm_step_er_pred : forall (A : Arith) (c : rddm_cfg A) (s : rddm_st A) (v : num A),
  rer (rddm_step c s v) = mean_update (if rflag s then rebuilt_er c s else rer s) v /\
  (rpred (rddm_step c s v) = enq_pred s v \/ rpred (rddm_step c s v) = cq_keep_last (enq_pred s v)).
Proof.
  intros A c s v. unfold rddm_step, enq_pred, rebuilt_er. cbv zeta. cbn [rflag].
  destruct (rflag s).
  - unfold rdd_drift_case. cbn [rdrift rpred].
    destruct (fold_left (rebuild_one c (rdrift s)) (cq_abs (rpred s)) (0%Z, mean_init, None)) as [[n er] m].
    cbn [fst snd rn rer rmins rdrift rwarning rnum_warn rflag rpred].
    destruct (rd_min c <=? n)%Z;
      [destruct (eps_std _ _) as [eps std]; destruct (check_thr _ _ (rd_drift c));
        [destruct (0 =? 0)%Z|destruct (check_thr _ _ (rd_warn c)); [destruct (rd_max_warn c <=? 0)%Z|]]|];
      cbn [rer rpred]; auto.
  - cbn [fst snd rn rer rmins rdrift rwarning rnum_warn rflag rpred].
    destruct (rd_min c <=? rn s + 1)%Z;
      [destruct (eps_std _ _) as [eps std]; destruct (check_thr _ _ (rd_drift c));
        [destruct (rnum_warn s =? 0)%Z|destruct (check_thr _ _ (rd_warn c)); [destruct (rd_max_warn c <=? rnum_warn s)%Z|]]|];
      cbn [rer rpred]; auto.
Qed.

(** ** The invariant *)

Lemma rddm_suffix_step : forall (c : rddm_cfg RealA) (vs : list R) (s : rddm_st RealA) (v : R) (k j : nat),
  (1 <= rd_min_concept c)%Z ->
  (k <= length vs)%nat -> rer s = mean_run (A:=RealA) (lastn k vs) ->
  (j <= length vs)%nat -> cq_rel (rd_min_concept c) (rpred s) (lastn j vs) ->
  exists k2 j2 : nat,
    (k2 <= length (vs ++ [v]))%nat /\
    rer (rddm_step c s v) = mean_run (A:=RealA) (lastn k2 (vs ++ [v])) /\
    (j2 <= length (vs ++ [v]))%nat /\
    cq_rel (rd_min_concept c) (rpred (rddm_step c s v)) (lastn j2 (vs ++ [v])) /\
    (rflag s = false -> k2 = S k) /\
    (rflag s = true -> (Z.of_nat k2 <= rd_min_concept c + 1)%Z).
Proof.
  intros c vs s v k j HM Hk Her0 Hj Hrel.
  destruct (rddm_step_er_pred RealA c s v) as [Her Hpred].
  set (M := rd_min_concept c) in *.
  assert (Hlen : length (lastn j vs) = j) by (rewrite lastn_length; lia).
  pose proof (cq_rel_length_le _ _ _ Hrel) as HjM. change (num RealA) with R in HjM. rewrite Hlen in HjM.
  assert (Hlv : length (vs ++ [v]) = S (length vs)) by (rewrite app_length; cbn [length]; lia).
  (* the queue after the enqueue *)
  assert (Hq : exists j' : nat, (j' <= length vs)%nat /\ cq_rel M (enq_pred s v) (lastn j' vs ++ [v])).
  { destruct (cq_enqueue_rel M (rpred s) (lastn j vs) v HM Hrel) as (q' & He & Hrel').
    unfold enq_pred. rewrite He. unfold dq_enqueue in Hrel'.
    change (num RealA) with R in Hrel'. rewrite Hlen in Hrel'.
    destruct (Z.of_nat j =? M)%Z eqn:E; cbn [fst] in Hrel'.
    - apply Z.eqb_eq in E. exists (j - 1)%nat. split; [lia|].
      rewrite lastn_tl in Hrel' by lia. exact Hrel'.
    - exists j. split; [lia|]. exact Hrel'. }
  destruct Hq as (j' & Hj' & Hrelq).
  assert (Hq2 : exists j2 : nat, (j2 <= length (vs ++ [v]))%nat /\
                  cq_rel M (rpred (rddm_step c s v)) (lastn j2 (vs ++ [v]))).
  { destruct Hpred as [Hp|Hp]; rewrite Hp.
    - exists (S j'). split; [lia|]. rewrite lastn_snoc by lia. exact Hrelq.
    - exists 1%nat. split; [lia|]. apply cq_keep_rel in Hrelq.
      unfold dq_keep_last in Hrelq. rewrite rev_unit in Hrelq.
      rewrite lastn_snoc by lia. rewrite lastn_0. exact Hrelq. }
  destruct Hq2 as (j2 & Hj2 & Hrel2).
  destruct (rflag s) eqn:Ef.
  - unfold rebuilt_er in Her. rewrite (cq_rel_abs _ _ _ Hrel), rebuild_er in Her.
    cbn [fst snd] in Her.
    change (fold_left mean_update (lastn j vs) mean_init) with (mean_run (A:=RealA) (lastn j vs)) in Her.
    rewrite <- mean_run_snoc, <- lastn_snoc in Her by lia.
    exists (S j), j2. split; [lia|]. split; [exact Her|]. split; [exact Hj2|]. split; [exact Hrel2|].
    split; [discriminate|]. intros _. lia.
  - rewrite Her0 in Her. rewrite <- mean_run_snoc, <- lastn_snoc in Her by lia.
    exists (S k), j2. split; [lia|]. split; [exact Her|]. split; [exact Hj2|]. split; [exact Hrel2|].
    split; [reflexivity|]. discriminate.
Qed.

Definition RInv (c : rddm_cfg RealA) (vs : list R) (s : rddm_st RealA) : Prop :=
  exists k j : nat, (k <= length vs)%nat /\ rer s = mean_run (A:=RealA) (lastn k vs) /\
    (j <= length vs)%nat /\ cq_rel (rd_min_concept c) (rpred s) (lastn j vs).

Lemma rddm_run_RInv : forall (c : rddm_cfg RealA) (vs : list R), (1 <= rd_min_concept c)%Z ->
  RInv c vs (rddm_run c vs).
Proof.
  intros c vs HM; induction vs as [|v vs IH] using rev_ind.
  - exists 0%nat, 0%nat. cbn [length]. split; [lia|]. split; [reflexivity|]. split; [lia|].
    apply cq_init_rel. exact HM.
  - destruct IH as (k & j & Hk & Her & Hj & Hrel).
    destruct (rddm_suffix_step c vs _ v k j HM Hk Her Hj Hrel) as (k2 & j2 & H1 & H2 & H3 & H4 & _).
    rewrite rddm_run_snoc. exists k2, j2. auto.
Qed.

Theorem rddm_suffix_mean_weak : forall (c : rddm_cfg RealA) (vs : list R), (1 <= rd_min_concept c)%Z ->
  exists k : nat, (k <= length vs)%nat /\ rer (rddm_run c vs) = mean_run (A:=RealA) (lastn k vs).
Proof.
  intros c vs HM. destruct (rddm_run_RInv c vs HM) as (k & j & Hk & Her & _). exists k. auto.
Qed.

Theorem rddm_suffix_mean : forall (c : rddm_cfg RealA) (vs : list R), (1 <= rd_min_concept c)%Z ->
  exists k : nat, (k <= length vs)%nat /\
    rer (rddm_run c vs) = mean_run (A:=RealA) (lastn k vs) /\
    (vs <> [] ->
       let prev := rddm_run c (removelast vs) in
       exists k' : nat, rer prev = mean_run (A:=RealA) (lastn k' (removelast vs)) /\ (k' <= length (removelast vs))%nat /\
         ((rflag prev = false -> k = S k') /\
          (rflag prev = true -> (Z.of_nat k <= rd_min_concept c + 1)%Z))).
Proof.
  intros c vs HM. induction vs as [|v vs _] using rev_ind.
  - exists 0%nat. split; [cbn [length]; lia|]. split; [reflexivity|]. intros H. congruence.
  - destruct (rddm_run_RInv c vs HM) as (k' & j & Hk & Her & Hj & Hrel).
    destruct (rddm_suffix_step c vs _ v k' j HM Hk Her Hj Hrel) as (k2 & j2 & H1 & H2 & _ & _ & H5 & H6).
    exists k2. split; [exact H1|]. split; [rewrite rddm_run_snoc; exact H2|].
    intros _. cbv zeta. rewrite removelast_last. exists k'. auto.
Qed.

(** with [mean_closed]: the estimate is the batch mean of the last [k] values *)
Corollary rddm_suffix_Rmean : forall (c : rddm_cfg RealA) (vs : list R), (1 <= rd_min_concept c)%Z ->
  exists k : nat, (k <= length vs)%nat /\
    m_mean (rer (rddm_run c vs)) = Rmean (lastn k vs) /\ m_n (rer (rddm_run c vs)) = Z.of_nat k.
Proof.
  intros c vs HM. destruct (rddm_suffix_mean_weak c vs HM) as (k & Hk & Her).
  exists k. split; [exact Hk|]. rewrite Her.
  destruct (mean_run_inv (lastn k vs)) as [Hm Hn]. rewrite Hm, Hn, lastn_length.
  split; [reflexivity|]. f_equal. lia.
Qed.
