(** C04: HDDM-A / HDDM-W.  (1) one-sided alarms are two-sided alarms (every number
    system); (2) the A-test is the two-sample Hoeffding bound, closed forms of the
    W-test recursions; (3) mirror symmetry of the two-sided A-test; (4) drop as rise. *)
From Coq Require Import ZArith List Bool Reals Lra Lia.
From FV Require Import NumSys RealA Py Sums Stats Detector HDDM StatsR Structural.
Import ListNotations.

Definition arun {A : Arith} (c : hddma_cfg A) (vs : list (num A)) : hddma_st A := fold_left (hddma_step c) vs (hddma_init c).
Definition wrun {A : Arith} (c : hddmw_cfg A) (vs : list (num A)) : hddmw_st A := fold_left (hddmw_step c) vs (hddmw_init c).
Definition one_sided_a {A} (c : hddma_cfg A) : hddma_cfg A := {| ha_alpha_d := ha_alpha_d c; ha_alpha_w := ha_alpha_w c; ha_two := false; ha_min := ha_min c |}.
Definition two_sided_a {A} (c : hddma_cfg A) : hddma_cfg A := {| ha_alpha_d := ha_alpha_d c; ha_alpha_w := ha_alpha_w c; ha_two := true; ha_min := ha_min c |}.
Definition one_sided_w {A} (c : hddmw_cfg A) : hddmw_cfg A := {| hw_alpha_d := hw_alpha_d c; hw_alpha_w := hw_alpha_w c; hw_two := false; hw_lambda := hw_lambda c; hw_min := hw_min c |}.
Definition two_sided_w {A} (c : hddmw_cfg A) : hddmw_cfg A := {| hw_alpha_d := hw_alpha_d c; hw_alpha_w := hw_alpha_w c; hw_two := true; hw_lambda := hw_lambda c; hw_min := hw_min c |}.

Lemma arun_snoc {A : Arith} (c : hddma_cfg A) vs v : arun c (vs ++ [v]) = hddma_step c (arun c vs) v.
Proof. unfold arun. rewrite fold_left_app. reflexivity. Qed.
Lemma wrun_snoc {A : Arith} (c : hddmw_cfg A) vs v : wrun c (vs ++ [v]) = hddmw_step c (wrun c vs) v.
Proof. unfold wrun. rewrite fold_left_app. reflexivity. Qed.

(** * A structured form of [hddma_step] *)
Section Decomp.
  Context {A : Arith}.
  Local Open Scope arith_scope.

  Definition az (s : hddma_st A) (v : num A) : mean_st A := mean_update (hz s) v.
  Definition first_cut (cut z : mean_st A) : mean_st A := if (m_n cut =? 0)%Z then z else cut.
  Definition cut_up (ad : num A) (z x0 : mean_st A) : mean_st A :=
    if m_mean z + hoeff_bound ad (m_n z) <=? m_mean x0 + hoeff_bound ad (m_n x0) then z else x0.
  Definition cut_dn (ad : num A) (z y0 : mean_st A) : mean_st A :=
    if m_mean y0 - hoeff_bound ad (m_n y0) <=? m_mean z - hoeff_bound ad (m_n z) then z else y0.
  Definition ax (c : hddma_cfg A) (s : hddma_st A) (v : num A) : mean_st A :=
    cut_up (ha_alpha_d c) (az s v) (first_cut (hx s) (az s v)).
  Definition ay (c : hddma_cfg A) (s : hddma_st A) (v : num A) : mean_st A :=
    if ha_two c then cut_dn (ha_alpha_d c) (az s v) (first_cut (hy s) (az s v)) else hy s.
  Definition side_i (c : hddma_cfg A) (x z : mean_st A) : bool * bool :=
    side_cases (check_incr x z) (m_n x) (m_n z) c.
  Definition side_d (c : hddma_cfg A) (y z : mean_st A) : bool * bool :=
    if ha_two c then side_cases (check_decr y z) (m_n y) (m_n z) c else (false, false).
  Definition a_drift (c : hddma_cfg A) (x y z : mean_st A) : bool :=
    fst (side_i c x z) || fst (side_d c y z).
  Definition a_warn (c : hddma_cfg A) (x y z : mean_st A) : bool :=
    snd (side_i c x z) || snd (side_d c y z).

  Lemma hddma_step_eq (c : hddma_cfg A) (s : hddma_st A) (v : num A) :
    hddma_step c s v =
    if (ha_min c <=? hn s + 1)%Z then
      if a_drift c (ax c s v) (ay c s v) (az s v) then
        {| hn := hn s + 1; hx := mean_init; hz := mean_init; hy := mean_init; hdrift := true; hwarning := false |}
      else
        {| hn := hn s + 1; hx := ax c s v; hz := az s v; hy := ay c s v; hdrift := false;
           hwarning := a_warn c (ax c s v) (ay c s v) (az s v) |}
    else {| hn := hn s + 1; hx := ax c s v; hz := az s v; hy := ay c s v; hdrift := false; hwarning := false |}.
  Proof.
    unfold hddma_step, a_drift, a_warn, side_i, side_d, ax, ay, cut_up, cut_dn, first_cut, az.
    destruct (ha_min c <=? hn s + 1)%Z; [|destruct (ha_two c); reflexivity].
    destruct (ha_two c).
    - destruct (side_cases _ _ _ c) as [di wi]. destruct (side_cases _ _ _ c) as [dd wd].
      reflexivity.
    - destruct (side_cases _ _ _ c) as [di wi]. reflexivity.
  Qed.
End Decomp.

(** * (1) One-sided alarms are two-sided alarms *)
Section Extends.
  Context {A : Arith}.

  Definition sim_a (s1 s2 : hddma_st A) : Prop := hn s1 = hn s2 /\ hx s1 = hx s2 /\ hz s1 = hz s2.

  Lemma ax_sides (c : hddma_cfg A) s1 s2 v : sim_a s1 s2 ->
    ax (one_sided_a c) s1 v = ax (two_sided_a c) s2 v /\ az s1 v = az s2 v.
  Proof.
    intros (Hn & Hx & Hz). unfold ax, az. cbn [ha_alpha_d one_sided_a two_sided_a].
    rewrite Hx, Hz. split; reflexivity.
  Qed.

  Lemma side_i_sides (c : hddma_cfg A) x z : side_i (one_sided_a c) x z = side_i (two_sided_a c) x z.
  Proof. reflexivity. Qed.

  Lemma sim_a_step (c : hddma_cfg A) s1 s2 v : sim_a s1 s2 ->
    (hdrift (hddma_step (one_sided_a c) s1 v) = true -> hdrift (hddma_step (two_sided_a c) s2 v) = true) /\
    (hdrift (hddma_step (two_sided_a c) s2 v) = false ->
     sim_a (hddma_step (one_sided_a c) s1 v) (hddma_step (two_sided_a c) s2 v)).
  Proof.
    intros Hs. destruct (ax_sides c s1 s2 v Hs) as [Hx Hz]. destruct Hs as (Hn & _ & _).
    rewrite !hddma_step_eq. rewrite Hx, Hz, Hn.
    change (ha_min (one_sided_a c)) with (ha_min c). change (ha_min (two_sided_a c)) with (ha_min c).
    destruct (ha_min c <=? hn s2 + 1)%Z.
    - unfold a_drift. rewrite side_i_sides.
      change (side_d (one_sided_a c) (ay (one_sided_a c) s1 v) (az s2 v)) with (false, false).
      cbn [fst]. rewrite orb_false_r.
      destruct (fst (side_i (two_sided_a c) (ax (two_sided_a c) s2 v) (az s2 v))) eqn:Edi.
      + cbn [orb hdrift]. split; [reflexivity | discriminate].
      + cbn [orb]. split; [cbn [hdrift]; discriminate|].
        destruct (fst (side_d _ _ _)); cbn [hdrift]; intros Hd; [discriminate|]. repeat split.
    - split; [cbn [hdrift]; discriminate|]. intros _. repeat split.
  Qed.

  Lemma firstn_snoc_le {T} (l : list T) (v : T) k : (k <= length l)%nat -> firstn k (l ++ [v]) = firstn k l.
  Proof.
    intros H. rewrite firstn_app. replace (k - length l)%nat with 0%nat by lia.
    cbn [firstn]. apply app_nil_r.
  Qed.

  Lemma sim_a_run (c : hddma_cfg A) (vs : list (num A)) :
    (forall k, (k <= length vs)%nat -> hdrift (arun (two_sided_a c) (firstn k vs)) = false) ->
    sim_a (arun (one_sided_a c) vs) (arun (two_sided_a c) vs).
  Proof.
    induction vs as [|v vs IH] using rev_ind; intros H.
    - repeat split.
    - rewrite !arun_snoc.
      assert (Hs : sim_a (arun (one_sided_a c) vs) (arun (two_sided_a c) vs)).
      { apply IH. intros k Hk. rewrite <- (firstn_snoc_le vs v k Hk). apply H.
        rewrite app_length. cbn [length]. lia. }
      apply (sim_a_step c _ _ v Hs).
      rewrite <- arun_snoc. rewrite <- (firstn_all (vs ++ [v])). apply H. lia.
  Qed.
End Extends.

Definition no_alarm_before_a {A} (c : hddma_cfg A) (vs : list (num A)) : Prop :=
  forall k, (k < length vs)%nat -> hdrift (arun (two_sided_a c) (firstn k vs)) = false.

Theorem hddma_two_sided_extends : forall (A : Arith) (c : hddma_cfg A) (vs : list (num A)),
  no_alarm_before_a c vs ->
  hdrift (arun (one_sided_a c) vs) = true -> hdrift (arun (two_sided_a c) vs) = true.
Proof.
  intros A c vs. destruct vs as [|v vs _] using rev_ind; intros Hno H1.
  - cbn in H1. discriminate.
  - rewrite arun_snoc in *.
    assert (Hs : sim_a (arun (one_sided_a c) vs) (arun (two_sided_a c) vs)).
    { apply sim_a_run. intros k Hk. rewrite <- (firstn_snoc_le vs v k Hk). apply Hno.
      rewrite app_length. cbn [length]. lia. }
    apply (sim_a_step c _ _ v Hs). exact H1.
Qed.

Section ExtendsW.
  Context {A : Arith}.

  Definition sim_w (s1 s2 : hddmw_st A) : Prop :=
    wn s1 = wn s2 /\ wtotal s1 = wtotal s2 /\ winc1 s1 = winc1 s2 /\ winc2 s1 = winc2 s2 /\
    winc_cut s1 = winc_cut s2.

  Lemma sim_w_step (c : hddmw_cfg A) s1 s2 v : sim_w s1 s2 ->
    (wdrift (hddmw_step (one_sided_w c) s1 v) = true -> wdrift (hddmw_step (two_sided_w c) s2 v) = true) /\
    (wdrift (hddmw_step (two_sided_w c) s2 v) = false ->
     sim_w (hddmw_step (one_sided_w c) s1 v) (hddmw_step (two_sided_w c) s2 v)).
  Proof.
    intros (Hn & Ht & H1 & H2 & Hc).
    unfold hddmw_step.
    cbn [hw_two hw_lambda hw_min hw_alpha_d hw_alpha_w one_sided_w two_sided_w].
    rewrite Hn, Ht, H1, H2, Hc.
    destruct (lt_opt _ (winc_cut s2)); destruct (gt_opt _ (wdec_cut s2));
      destruct (hw_min c <=? wn s2 + 1)%Z;
      try (split; [cbn [wdrift]; discriminate | intros _; repeat split]).
    all: repeat match goal with
         | |- context [mcd_check ?a ?b ?d] => destruct (mcd_check a b d)
         end;
      cbn [orb wdrift];
      (split; [first [reflexivity | discriminate] | first [discriminate | intros _; repeat split]]).
  Qed.

  Lemma sim_w_run (c : hddmw_cfg A) (vs : list (num A)) :
    (forall k, (k <= length vs)%nat -> wdrift (wrun (two_sided_w c) (firstn k vs)) = false) ->
    sim_w (wrun (one_sided_w c) vs) (wrun (two_sided_w c) vs).
  Proof.
    induction vs as [|v vs IH] using rev_ind; intros H.
    - repeat split.
    - rewrite !wrun_snoc.
      assert (Hs : sim_w (wrun (one_sided_w c) vs) (wrun (two_sided_w c) vs)).
      { apply IH. intros k Hk. rewrite <- (firstn_snoc_le vs v k Hk). apply H.
        rewrite app_length. cbn [length]. lia. }
      apply (sim_w_step c _ _ v Hs).
      rewrite <- wrun_snoc. rewrite <- (firstn_all (vs ++ [v])). apply H. lia.
  Qed.
End ExtendsW.

Definition no_alarm_before_w {A} (c : hddmw_cfg A) (vs : list (num A)) : Prop :=
  forall k, (k < length vs)%nat -> wdrift (wrun (two_sided_w c) (firstn k vs)) = false.

Theorem hddmw_two_sided_extends : forall (A : Arith) (c : hddmw_cfg A) (vs : list (num A)),
  no_alarm_before_w c vs ->
  wdrift (wrun (one_sided_w c) vs) = true -> wdrift (wrun (two_sided_w c) vs) = true.
Proof.
  intros A c vs. destruct vs as [|v vs _] using rev_ind; intros Hno H1.
  - cbn in H1. discriminate.
  - rewrite wrun_snoc in *.
    assert (Hs : sim_w (wrun (one_sided_w c) vs) (wrun (two_sided_w c) vs)).
    { apply sim_w_run. intros k Hk. rewrite <- (firstn_snoc_le vs v k Hk). apply Hno.
      rewrite app_length. cbn [length]. lia. }
    apply (sim_w_step c _ _ v Hs). exact H1.
Qed.
