(** C04: HDDM-A / HDDM-W.  (1) one-sided alarms are two-sided alarms (every number
    system); (2) the A-test is the two-sample Hoeffding bound, closed forms of the
    W-test recursions; (3) mirror symmetry of the two-sided A-test; (4) drop as rise. *)
From Coq Require Import ZArith List Bool Reals Lra Lia.
From FV Require Import NumSys RealA Py Sums Stats Detector HDDM StatsR Structural.
Import ListNotations.

Definition arun {A : Arith} (c : hddma_cfg A) (vs : list (num A)) : hddma_st A := fold_left (hddma_step c) vs (hddma_init c).
Definition wrun {A : Arith} (c : hddmw_cfg A) (vs : list (num A)) : hddmw_st A := fold_left (hddmw_step c) vs (hddmw_init c).
Definition one_sided_a {A} (c : hddma_cfg A) : hddma_cfg A := {| ha_alpha_d := ha_alpha_d c; ha_alpha_w := ha_alpha_w c; ha_two := false; ha_min := ha_min c |}.
Definition two_sided_a {A} (c : hddma_cfg A) : hddma_cfg A := {| ha_alpha_d := ha_alpha_d c; ha_alpha_w := ha_alpha_w c; ha_two := true; ha_min := ha_min c |}.
Definition one_sided_w {A} (c : hddmw_cfg A) : hddmw_cfg A := {| hw_alpha_d := hw_alpha_d c; hw_alpha_w := hw_alpha_w c; hw_two := false; hw_lambda := hw_lambda c; hw_min := hw_min c |}.
Definition two_sided_w {A} (c : hddmw_cfg A) : hddmw_cfg A := {| hw_alpha_d := hw_alpha_d c; hw_alpha_w := hw_alpha_w c; hw_two := true; hw_lambda := hw_lambda c; hw_min := hw_min c |}.

Lemma arun_snoc {A : Arith} (c : hddma_cfg A) vs v : arun c (vs ++ [v]) = hddma_step c (arun c vs) v.
Proof. unfold arun. rewrite fold_left_app. reflexivity. Qed.
Lemma wrun_snoc {A : Arith} (c : hddmw_cfg A) vs v : wrun c (vs ++ [v]) = hddmw_step c (wrun c vs) v.
Proof. unfold wrun. rewrite fold_left_app. reflexivity. Qed.

(** * A structured form of [hddma_step] *)
Section Decomp.
  Context {A : Arith}.
  Local Open Scope arith_scope.

  Definition az (s : hddma_st A) (v : num A) : mean_st A := mean_update (hz s) v.
  Definition first_cut (cut z : mean_st A) : mean_st A := if (m_n cut =? 0)%Z then z else cut.
  Definition cut_up (ad : num A) (z x0 : mean_st A) : mean_st A :=
    if m_mean z + hoeff_bound ad (m_n z) <=? m_mean x0 + hoeff_bound ad (m_n x0) then z else x0.
  Definition cut_dn (ad : num A) (z y0 : mean_st A) : mean_st A :=
    if m_mean y0 - hoeff_bound ad (m_n y0) <=? m_mean z - hoeff_bound ad (m_n z) then z else y0.
  Definition ax (c : hddma_cfg A) (s : hddma_st A) (v : num A) : mean_st A :=
    cut_up (ha_alpha_d c) (az s v) (first_cut (hx s) (az s v)).
  Definition ay (c : hddma_cfg A) (s : hddma_st A) (v : num A) : mean_st A :=
    if ha_two c then cut_dn (ha_alpha_d c) (az s v) (first_cut (hy s) (az s v)) else hy s.
  Definition side_i (c : hddma_cfg A) (x z : mean_st A) : bool * bool :=
    side_cases (check_incr x z) (m_n x) (m_n z) c.
  Definition side_d (c : hddma_cfg A) (y z : mean_st A) : bool * bool :=
    if ha_two c then side_cases (check_decr y z) (m_n y) (m_n z) c else (false, false).
  Definition a_drift (c : hddma_cfg A) (x y z : mean_st A) : bool :=
    fst (side_i c x z) || fst (side_d c y z).
  Definition a_warn (c : hddma_cfg A) (x y z : mean_st A) : bool :=
    snd (side_i c x z) || snd (side_d c y z).

  Lemma hddma_step_eq (c : hddma_cfg A) (s : hddma_st A) (v : num A) :
    hddma_step c s v =
    if (ha_min c <=? hn s + 1)%Z then
      if a_drift c (ax c s v) (ay c s v) (az s v) then
        {| hn := hn s + 1; hx := mean_init; hz := mean_init; hy := mean_init; hdrift := true; hwarning := false |}
      else
        {| hn := hn s + 1; hx := ax c s v; hz := az s v; hy := ay c s v; hdrift := false;
           hwarning := a_warn c (ax c s v) (ay c s v) (az s v) |}
    else {| hn := hn s + 1; hx := ax c s v; hz := az s v; hy := ay c s v; hdrift := false; hwarning := false |}.
  Proof.
    unfold hddma_step, a_drift, a_warn, side_i, side_d, ax, ay, cut_up, cut_dn, first_cut, az.
    destruct (ha_min c <=? hn s + 1)%Z; [|destruct (ha_two c); reflexivity].
    destruct (ha_two c).
    - destruct (side_cases _ _ _ c) as [di wi]. destruct (side_cases _ _ _ c) as [dd wd].
      reflexivity.
    - destruct (side_cases _ _ _ c) as [di wi]. reflexivity.
  Qed.
End Decomp.

(** * (1) One-sided alarms are two-sided alarms *)
Section Extends.
  Context {A : Arith}.

  Definition sim_a (s1 s2 : hddma_st A) : Prop := hn s1 = hn s2 /\ hx s1 = hx s2 /\ hz s1 = hz s2.

  Lemma ax_sides (c : hddma_cfg A) s1 s2 v : sim_a s1 s2 ->
    ax (one_sided_a c) s1 v = ax (two_sided_a c) s2 v /\ az s1 v = az s2 v.
  Proof.
    intros (Hn & Hx & Hz). unfold ax, az. cbn [ha_alpha_d one_sided_a two_sided_a].
    rewrite Hx, Hz. split; reflexivity.
  Qed.

  Lemma side_i_sides (c : hddma_cfg A) x z : side_i (one_sided_a c) x z = side_i (two_sided_a c) x z.
  Proof. reflexivity. Qed.

  Lemma sim_a_step (c : hddma_cfg A) s1 s2 v : sim_a s1 s2 ->
    (hdrift (hddma_step (one_sided_a c) s1 v) = true -> hdrift (hddma_step (two_sided_a c) s2 v) = true) /\
    (hdrift (hddma_step (two_sided_a c) s2 v) = false ->
     sim_a (hddma_step (one_sided_a c) s1 v) (hddma_step (two_sided_a c) s2 v)).
  Proof.
    intros Hs. destruct (ax_sides c s1 s2 v Hs) as [Hx Hz]. destruct Hs as (Hn & _ & _).
    rewrite !hddma_step_eq. rewrite Hx, Hz, Hn.
    change (ha_min (one_sided_a c)) with (ha_min c). change (ha_min (two_sided_a c)) with (ha_min c).
    destruct (ha_min c <=? hn s2 + 1)%Z.
    - unfold a_drift. rewrite side_i_sides.
      change (side_d (one_sided_a c) (ay (one_sided_a c) s1 v) (az s2 v)) with (false, false).
      cbn [fst]. rewrite orb_false_r.
      destruct (fst (side_i (two_sided_a c) (ax (two_sided_a c) s2 v) (az s2 v))) eqn:Edi.
      + cbn [orb hdrift]. split; [reflexivity | discriminate].
      + cbn [orb]. split; [cbn [hdrift]; discriminate|].
        destruct (fst (side_d _ _ _)); cbn [hdrift]; intros Hd; [discriminate|]. repeat split.
    - split; [cbn [hdrift]; discriminate|]. intros _. repeat split.
  Qed.

  Lemma firstn_snoc_le {T} (l : list T) (v : T) k : (k <= length l)%nat -> firstn k (l ++ [v]) = firstn k l.
  Proof.
    intros H. rewrite firstn_app. replace (k - length l)%nat with 0%nat by lia.
    cbn [firstn]. apply app_nil_r.
  Qed.

  Lemma sim_a_run (c : hddma_cfg A) (vs : list (num A)) :
    (forall k, (k <= length vs)%nat -> hdrift (arun (two_sided_a c) (firstn k vs)) = false) ->
    sim_a (arun (one_sided_a c) vs) (arun (two_sided_a c) vs).
  Proof.
    induction vs as [|v vs IH] using rev_ind; intros H.
    - repeat split.
    - rewrite !arun_snoc.
      assert (Hs : sim_a (arun (one_sided_a c) vs) (arun (two_sided_a c) vs)).
      { apply IH. intros k Hk. rewrite <- (firstn_snoc_le vs v k Hk). apply H.
        rewrite app_length. cbn [length]. lia. }
      apply (sim_a_step c _ _ v Hs).
      rewrite <- arun_snoc. rewrite <- (firstn_all (vs ++ [v])). apply H. lia.
  Qed.
End Extends.

Definition no_alarm_before_a {A} (c : hddma_cfg A) (vs : list (num A)) : Prop :=
  forall k, (k < length vs)%nat -> hdrift (arun (two_sided_a c) (firstn k vs)) = false.

Theorem hddma_two_sided_extends : forall (A : Arith) (c : hddma_cfg A) (vs : list (num A)),
  no_alarm_before_a c vs ->
  hdrift (arun (one_sided_a c) vs) = true -> hdrift (arun (two_sided_a c) vs) = true.
Proof.
  intros A c vs. destruct vs as [|v vs _] using rev_ind; intros Hno H1.
  - cbn in H1. discriminate.
  - rewrite arun_snoc in *.
    assert (Hs : sim_a (arun (one_sided_a c) vs) (arun (two_sided_a c) vs)).
    { apply sim_a_run. intros k Hk. rewrite <- (firstn_snoc_le vs v k Hk). apply Hno.
      rewrite app_length. cbn [length]. lia. }
    apply (sim_a_step c _ _ v Hs). exact H1.
Qed.

Section ExtendsW.
  Context {A : Arith}.

  Definition sim_w (s1 s2 : hddmw_st A) : Prop :=
    wn s1 = wn s2 /\ wtotal s1 = wtotal s2 /\ winc1 s1 = winc1 s2 /\ winc2 s1 = winc2 s2 /\
    winc_cut s1 = winc_cut s2.

  Lemma sim_w_step (c : hddmw_cfg A) s1 s2 v : sim_w s1 s2 ->
    (wdrift (hddmw_step (one_sided_w c) s1 v) = true -> wdrift (hddmw_step (two_sided_w c) s2 v) = true) /\
    (wdrift (hddmw_step (two_sided_w c) s2 v) = false ->
     sim_w (hddmw_step (one_sided_w c) s1 v) (hddmw_step (two_sided_w c) s2 v)).
  Proof.
    intros (Hn & Ht & H1 & H2 & Hc).
    unfold hddmw_step.
    cbn [hw_two hw_lambda hw_min hw_alpha_d hw_alpha_w one_sided_w two_sided_w].
    rewrite Hn, Ht, H1, H2, Hc.
    destruct (lt_opt _ (winc_cut s2)); destruct (gt_opt _ (wdec_cut s2));
      destruct (hw_min c <=? wn s2 + 1)%Z;
      try (split; [cbn [wdrift]; discriminate | intros _; repeat split]).
    all: repeat match goal with
         | |- context [mcd_check ?a ?b ?d] => destruct (mcd_check a b d)
         end;
      cbn [orb wdrift];
      (split; [first [reflexivity | discriminate] | first [discriminate | intros _; repeat split]]).
  Qed.

  Lemma sim_w_run (c : hddmw_cfg A) (vs : list (num A)) :
    (forall k, (k <= length vs)%nat -> wdrift (wrun (two_sided_w c) (firstn k vs)) = false) ->
    sim_w (wrun (one_sided_w c) vs) (wrun (two_sided_w c) vs).
  Proof.
    induction vs as [|v vs IH] using rev_ind; intros H.
    - repeat split.
    - rewrite !wrun_snoc.
      assert (Hs : sim_w (wrun (one_sided_w c) vs) (wrun (two_sided_w c) vs)).
      { apply IH. intros k Hk. rewrite <- (firstn_snoc_le vs v k Hk). apply H.
        rewrite app_length. cbn [length]. lia. }
      apply (sim_w_step c _ _ v Hs).
      rewrite <- wrun_snoc. rewrite <- (firstn_all (vs ++ [v])). apply H. lia.
  Qed.
End ExtendsW.

Definition no_alarm_before_w {A} (c : hddmw_cfg A) (vs : list (num A)) : Prop :=
  forall k, (k < length vs)%nat -> wdrift (wrun (two_sided_w c) (firstn k vs)) = false.

Theorem hddmw_two_sided_extends : forall (A : Arith) (c : hddmw_cfg A) (vs : list (num A)),
  no_alarm_before_w c vs ->
  wdrift (wrun (one_sided_w c) vs) = true -> wdrift (wrun (two_sided_w c) vs) = true.
Proof.
  intros A c vs. destruct vs as [|v vs _] using rev_ind; intros Hno H1.
  - cbn in H1. discriminate.
  - rewrite wrun_snoc in *.
    assert (Hs : sim_w (wrun (one_sided_w c) vs) (wrun (two_sided_w c) vs)).
    { apply sim_w_run. intros k Hk. rewrite <- (firstn_snoc_le vs v k Hk). apply Hno.
      rewrite app_length. cbn [length]. lia. }
    apply (sim_w_step c _ _ v Hs). exact H1.
Qed.

(** * (2) The A-test is the two-sample Hoeffding bound *)
Local Open Scope R_scope.

Lemma ln_inv_alpha_nonneg : forall alpha, 0 < alpha <= 1 -> 0 <= ln (1 / alpha).
Proof.
  intros alpha [H0 H1]. unfold Rdiv. rewrite Rmult_1_l, ln_Rinv by exact H0.
  destruct H1 as [H1|H1].
  - pose proof (ln_increasing alpha 1 H0 H1) as H. rewrite ln_1 in H. lra.
  - subst alpha. rewrite ln_1. lra.
Qed.

Lemma hoeff_core : forall n1 n d L : R, 0 < n1 -> n1 < n -> 0 <= L ->
  (sqrt ((n - n1) / (2 * n1 * n) * L) <= d <->
   sqrt ((1 / n1 + 1 / (n - n1)) / 2 * L) <= n / (n - n1) * d).
Proof.
  intros n1 n d L H1 H2 HL.
  assert (Hk : 0 < n / (n - n1)) by (apply Rdiv_lt_0_compat; lra).
  assert (Ha : 0 <= (n - n1) / (2 * n1 * n) * L).
  { apply Rmult_le_pos; [|exact HL]. left. apply Rdiv_lt_0_compat; [lra|].
    apply Rmult_lt_0_compat; [|lra]. lra. }
  replace ((1 / n1 + 1 / (n - n1)) / 2 * L)
    with ((n / (n - n1) * (n / (n - n1))) * ((n - n1) / (2 * n1 * n) * L))
    by (field; repeat split; lra).
  rewrite (sqrt_mult (n / (n - n1) * (n / (n - n1)))); [|apply Rmult_le_pos; lra|exact Ha].
  rewrite sqrt_square by lra.
  split; intros H.
  - apply Rmult_le_compat_l; [lra|exact H].
  - apply Rmult_le_reg_l with (n / (n - n1)); [exact Hk|exact H].
Qed.

Theorem hddma_rule : forall (x z : mean_st RealA) (alpha : R),
  (0 < m_n x)%Z -> (m_n x < m_n z)%Z -> 0 < alpha <= 1 ->
  let n1 := IZR (m_n x) in let n := IZR (m_n z) in let n2 := (n - n1)%R in
  let ybar := ((n * m_mean z - n1 * m_mean x) / n2)%R in
  (check_incr x z alpha = true <->
   (sqrt ((1 / n1 + 1 / n2) / 2 * ln (1 / alpha)) <= ybar - m_mean x)%R).
Proof.
  intros x z alpha Hx Hxz Ha n1 n n2 ybar.
  assert (H1 : 0 < n1) by (apply IZR_lt; exact Hx).
  assert (H2 : n1 < n) by (apply IZR_lt; exact Hxz).
  unfold check_incr, hoeff_thr, one. cbn [leb sub mul div sqrt ln ofZ RealA num].
  rewrite Rleb_true, !mult_IZR, minus_IZR. fold n1 n.
  replace (ybar - m_mean x) with (n / (n - n1) * (m_mean z - m_mean x))
    by (unfold ybar, n2; field; lra).
  unfold n2. apply hoeff_core; [exact H1|exact H2|apply ln_inv_alpha_nonneg; exact Ha].
Qed.

Theorem hddma_rule_decr : forall (y z : mean_st RealA) (alpha : R),
  (0 < m_n y)%Z -> (m_n y < m_n z)%Z -> 0 < alpha <= 1 ->
  let n1 := IZR (m_n y) in let n := IZR (m_n z) in let n2 := (n - n1)%R in
  let rest := ((n * m_mean z - n1 * m_mean y) / n2)%R in
  (check_decr y z alpha = true <->
   (sqrt ((1 / n1 + 1 / n2) / 2 * ln (1 / alpha)) <= m_mean y - rest)%R).
Proof.
  intros y z alpha Hy Hyz Ha n1 n n2 rest.
  assert (H1 : 0 < n1) by (apply IZR_lt; exact Hy).
  assert (H2 : n1 < n) by (apply IZR_lt; exact Hyz).
  unfold check_decr, hoeff_thr, one. cbn [leb sub mul div sqrt ln ofZ RealA num].
  rewrite Rleb_true, !mult_IZR, minus_IZR. fold n1 n.
  replace (m_mean y - rest) with (n / (n - n1) * (m_mean y - m_mean z))
    by (unfold rest, n2; field; lra).
  unfold n2. apply hoeff_core; [exact H1|exact H2|apply ln_inv_alpha_nonneg; exact Ha].
Qed.

(** * (2b) closed forms of the W-test recursions *)
Definition sum_f_R0' (f : nat -> R) (t : nat) : R := fold_right Rplus 0 (map f (seq 0 t)).

Lemma sum_f_R0'_S : forall f t, sum_f_R0' f (S t) = sum_f_R0' f t + f t.
Proof.
  intros f t. unfold sum_f_R0'. rewrite seq_S, map_app. cbn [map plus].
  change (fold_right Rplus 0) with Rsum. rewrite Rsum_snoc. reflexivity.
Qed.

Lemma geom_shift : forall q t,
  sum_f_R0' (fun i => q ^ i) (S t) = 1 + q * sum_f_R0' (fun i => q ^ i) t.
Proof.
  intros q t. induction t as [|t IH].
  - unfold sum_f_R0'. cbn [seq map fold_right pow]. lra.
  - rewrite (sum_f_R0'_S _ (S t)). rewrite sum_f_R0'_S in IH |- *. cbn [pow]. lra.
Qed.

Lemma si_run_snoc : forall (lam : R) (vs : list R) v,
  fold_left (si_update (A:=RealA) lam) (vs ++ [v]) si_init =
  si_update (A:=RealA) lam (fold_left (si_update (A:=RealA) lam) vs si_init) v.
Proof. intros lam vs v. rewrite fold_left_app. reflexivity. Qed.

Theorem hddmw_ibc_closed : forall (lam : R) (vs : list R),
  si_ibc (fold_left (si_update (A:=RealA) lam) vs si_init) =
  (lam * lam * sum_f_R0' (fun i => ((1 - lam) * (1 - lam)) ^ i) (length vs) + ((1 - lam) * (1 - lam)) ^ (length vs))%R.
Proof.
  intros lam vs. induction vs as [|v vs IH] using rev_ind.
  - unfold sum_f_R0', si_init, one. cbn [fold_left si_ibc length seq map fold_right pow ofZ RealA]. lra.
  - rewrite si_run_snoc. unfold si_update at 1. cbn [si_ibc]. rewrite IH.
    rewrite app_length. cbn [length]. replace (length vs + 1)%nat with (S (length vs)) by lia.
    rewrite geom_shift. unfold one. cbn [add sub mul ofZ RealA num pow]. lra.
Qed.

Theorem hddmw_ewma_closed : forall (lam : R) (vs : list R),
  si_mean (fold_left (si_update (A:=RealA) lam) vs si_init) = wsum (fun k => lam * (1 - lam) ^ k) vs.
Proof.
  intros lam vs. induction vs as [|v vs IH] using rev_ind.
  - reflexivity.
  - rewrite si_run_snoc. unfold si_update at 1. cbn [si_mean]. rewrite IH.
    unfold one. cbn [add sub mul ofZ RealA num]. rewrite wsum_snoc.
    rewrite (wsum_ext (fun k => lam * (1 - lam) ^ S k)
                      (fun k => (1 - lam) * (lam * (1 - lam) ^ k)))
      by (intros j; cbn [pow]; lra).
    pose proof (wsum_scal (1 - lam) (fun k => lam * (1 - lam) ^ k) vs) as Hs.
    cbv beta in Hs. rewrite Hs.
    change ((1 - lam) ^ 0) with 1. lra.
Qed.

(** * (3) Mirror symmetry of the two-sided A-test *)
Definition mpos (m m' : mean_st RealA) : Prop :=
  (0 < m_n m)%Z /\ m_n m' = m_n m /\ m_mean m' = 1 - m_mean m.
Definition mrel (m m' : mean_st RealA) : Prop :=
  (m = mean_init /\ m' = mean_init) \/ mpos m m'.

Lemma mrel_update : forall m m' v, mrel m m' -> mpos (mean_update m v) (mean_update m' (1 - v)).
Proof.
  intros m m' v [[-> ->]|(Hn & En & Em)]; unfold mpos, mean_update, incr_op.
  - unfold mean_init, zero. cbn [m_n m_mean add sub div ofZ RealA num Z.add].
    split; [lia|]. split; [reflexivity|]. field.
  - cbn [m_n m_mean add sub div ofZ RealA num]. rewrite En, Em.
    split; [lia|]. split; [reflexivity|].
    assert (Hp : 0 < IZR (m_n m + 1)) by (apply IZR_lt; lia).
    field. lra.
Qed.

Lemma first_cut_rel : forall cut cut' z z' : mean_st RealA,
  mrel cut cut' -> mpos z z' -> mpos (first_cut cut z) (first_cut cut' z').
Proof.
  intros cut cut' z z' [[-> ->]|H] Hz; unfold first_cut.
  - cbn [mean_init m_n Z.eqb]. exact Hz.
  - destruct H as (Hn & En & Em). rewrite En.
    destruct (m_n cut =? 0)%Z eqn:E; [apply Z.eqb_eq in E; lia|].
    repeat split; assumption.
Qed.

Lemma cut_swap : forall ad (z z' x0 y0' : mean_st RealA),
  mpos z z' -> mpos x0 y0' -> mpos (cut_up ad z x0) (cut_dn ad z' y0').
Proof.
  intros ad z z' x0 y0' Hz Hx. unfold cut_up, cut_dn.
  pose proof Hz as (_ & Ezn & Ezm). pose proof Hx as (_ & Exn & Exm).
  rewrite Ezn, Exn, Ezm, Exm. cbn [leb add sub RealA num].
  destruct (Rleb_spec (m_mean z + hoeff_bound ad (m_n z)) (m_mean x0 + hoeff_bound ad (m_n x0))) as [H|H];
  destruct (Rleb_spec (1 - m_mean x0 - hoeff_bound ad (m_n x0)) (1 - m_mean z - hoeff_bound ad (m_n z))) as [H'|H'];
    try assumption; exfalso; lra.
Qed.

Lemma cut_swap' : forall ad (z z' y0 x0' : mean_st RealA),
  mpos z z' -> mpos y0 x0' -> mpos (cut_dn ad z y0) (cut_up ad z' x0').
Proof.
  intros ad z z' y0 x0' Hz Hy. unfold cut_up, cut_dn.
  pose proof Hz as (_ & Ezn & Ezm). pose proof Hy as (_ & Eyn & Eym).
  rewrite Ezn, Eyn, Ezm, Eym. cbn [leb add sub RealA num].
  destruct (Rleb_spec (m_mean y0 - hoeff_bound ad (m_n y0)) (m_mean z - hoeff_bound ad (m_n z))) as [H|H];
  destruct (Rleb_spec (1 - m_mean z + hoeff_bound ad (m_n z)) (1 - m_mean y0 + hoeff_bound ad (m_n y0))) as [H'|H'];
    try assumption; exfalso; lra.
Qed.

Lemma check_swap : forall (x y' z z' : mean_st RealA) a,
  mpos x y' -> mpos z z' -> check_decr y' z' a = check_incr x z a.
Proof.
  intros x y' z z' a (_ & Exn & Exm) (_ & Ezn & Ezm). unfold check_decr, check_incr.
  rewrite Exn, Ezn, Exm, Ezm. cbn [leb sub RealA num]. f_equal. lra.
Qed.

Lemma check_swap' : forall (y x' z z' : mean_st RealA) a,
  mpos y x' -> mpos z z' -> check_incr x' z' a = check_decr y z a.
Proof.
  intros y x' z z' a (_ & Eyn & Eym) (_ & Ezn & Ezm). unfold check_decr, check_incr.
  rewrite Eyn, Ezn, Eym, Ezm. cbn [leb sub RealA num]. f_equal. lra.
Qed.

Lemma side_swap : forall (c : hddma_cfg RealA) (x y' z z' : mean_st RealA), ha_two c = true ->
  mpos x y' -> mpos z z' -> side_d c y' z' = side_i c x z.
Proof.
  intros c x y' z z' Ht Hx Hz. unfold side_d, side_i, side_cases. rewrite Ht.
  rewrite !(check_swap x y' z z' _ Hx Hz).
  destruct Hx as (_ & -> & _). destruct Hz as (_ & -> & _). reflexivity.
Qed.

Lemma side_swap' : forall (c : hddma_cfg RealA) (y x' z z' : mean_st RealA), ha_two c = true ->
  mpos y x' -> mpos z z' -> side_i c x' z' = side_d c y z.
Proof.
  intros c y x' z z' Ht Hy Hz. unfold side_d, side_i, side_cases. rewrite Ht.
  rewrite !(check_swap' y x' z z' _ Hy Hz).
  destruct Hy as (_ & -> & _). destruct Hz as (_ & -> & _). reflexivity.
Qed.

Definition Mir (s s' : hddma_st RealA) : Prop :=
  hn s' = hn s /\ hdrift s' = hdrift s /\ hwarning s' = hwarning s /\
  mrel (hz s) (hz s') /\ mrel (hx s) (hy s') /\ mrel (hy s) (hx s').

Lemma Mir_init : forall c, Mir (hddma_init c) (hddma_init c).
Proof. intros c. unfold Mir, hddma_init. cbn [hn hx hy hz hdrift hwarning].
  repeat split; left; split; reflexivity. Qed.

Lemma Mir_step : forall (c : hddma_cfg RealA) s s' v, ha_two c = true ->
  Mir s s' -> Mir (hddma_step c s v) (hddma_step c s' (1 - v)).
Proof.
  intros c s s' v Ht (Hn & _ & _ & Hz & Hx & Hy).
  assert (Z : mpos (az s v) (az (A:=RealA) s' (1 - v))) by (apply mrel_update; exact Hz).
  assert (X : mpos (ax c s v) (ay (A:=RealA) c s' (1 - v))).
  { unfold ax, ay. rewrite Ht. apply cut_swap; [exact Z|]. apply first_cut_rel; assumption. }
  assert (Y : mpos (ay c s v) (ax (A:=RealA) c s' (1 - v))).
  { unfold ax, ay. rewrite Ht. apply cut_swap'; [exact Z|]. apply first_cut_rel; assumption. }
  rewrite !hddma_step_eq. rewrite Hn.
  unfold a_drift, a_warn.
  rewrite (side_swap c _ _ _ _ Ht X Z), (side_swap' c _ _ _ _ Ht Y Z).
  destruct (ha_min c <=? hn s + 1)%Z.
  - rewrite (orb_comm (fst (side_d c (ay c s v) (az s v)))).
    destruct (fst (side_i c (ax c s v) (az s v)) || fst (side_d c (ay c s v) (az s v))).
    + unfold Mir. cbn [hn hx hy hz hdrift hwarning].
      repeat split; left; split; reflexivity.
    + unfold Mir. cbn [hn hx hy hz hdrift hwarning].
      repeat split; try (right; assumption). apply orb_comm.
  - unfold Mir. cbn [hn hx hy hz hdrift hwarning]. repeat split; right; assumption.
Qed.

Lemma Mir_run : forall (c : hddma_cfg RealA) (vs : list R), ha_two c = true ->
  Mir (arun c vs) (arun c (map (fun x => 1 - x) vs)).
Proof.
  intros c vs Ht. induction vs as [|v vs IH] using rev_ind.
  - apply Mir_init.
  - rewrite map_app. cbn [map]. rewrite !arun_snoc. apply Mir_step; assumption.
Qed.

Theorem hddma_mirror : forall (c : hddma_cfg RealA) (vs : list R), ha_two c = true ->
  hdrift (arun c (map (fun x => 1 - x) vs)) = hdrift (arun c vs) /\
  hwarning (arun c (map (fun x => 1 - x) vs)) = hwarning (arun c vs).
Proof.
  intros c vs Ht. destruct (Mir_run c vs Ht) as (_ & Hd & Hw & _). split; assumption.
Qed.

(** * (4) A drop is detected exactly as the mirrored rise *)
Lemma map_repeat' : forall {X Y} (f : X -> Y) (x : X) n, map f (repeat x n) = repeat (f x) n.
Proof. intros X Y f x n. induction n as [|n IH]; cbn [repeat map]; [reflexivity|]. rewrite IH. reflexivity. Qed.

Lemma map_mirror_01 : forall n k : nat,
  map (fun x => 1 - x) (repeat 0 n ++ repeat 1 k) = repeat 1 n ++ repeat 0 k.
Proof.
  intros n k. rewrite map_app, !map_repeat'. rewrite Rminus_0_r.
  replace (1 - 1) with 0 by lra. reflexivity.
Qed.

Theorem hddma_drop_as_rise : forall (c : hddma_cfg RealA) (n k : nat), ha_two c = true ->
  hdrift (arun c (repeat 1 n ++ repeat 0 k)) = hdrift (arun c (repeat 0 n ++ repeat 1 k)) /\
  hwarning (arun c (repeat 1 n ++ repeat 0 k)) = hwarning (arun c (repeat 0 n ++ repeat 1 k)).
Proof.
  intros c n k Ht. rewrite <- map_mirror_01. apply hddma_mirror. exact Ht.
Qed.

(** * (5) A sustained rise is detected with an explicit delay bound *)
Definition drifted (c : hddma_cfg RealA) (vs : list R) : Prop :=
  exists j, (j <= length vs)%nat /\ hdrift (arun c (firstn j vs)) = true.

Lemma firstn_app_le : forall {T} (l w : list T) k, (k <= length l)%nat -> firstn k (l ++ w) = firstn k l.
Proof.
  intros T l w k H. rewrite firstn_app. replace (k - length l)%nat with 0%nat by lia.
  cbn [firstn]. apply app_nil_r.
Qed.

Lemma drifted_app : forall c vs ws, drifted c vs -> drifted c (vs ++ ws).
Proof.
  intros c vs ws (j & Hj & Hd). exists j. split.
  - rewrite app_length. lia.
  - rewrite firstn_app_le by exact Hj. exact Hd.
Qed.

Lemma drifted_last : forall c vs, hdrift (arun c vs) = true -> drifted c vs.
Proof. intros c vs H. exists (length vs). split; [apply Nat.le_refl|]. rewrite firstn_all. exact H. Qed.

Lemma repeat_snoc : forall {T} (x : T) n, repeat x (S n) = repeat x n ++ [x].
Proof.
  intros T x n. induction n as [|n IH]; cbn [repeat app] in *; [reflexivity|].
  f_equal. exact IH.
Qed.

Lemma hb_eq : forall (ad : R) (m : Z),
  hoeff_bound (A:=RealA) ad m = sqrt (ln (1 / ad) / (2 * IZR m)).
Proof.
  intros ad m. unfold hoeff_bound, one. cbn [sqrt ln div ofZ RealA num].
  rewrite mult_IZR. reflexivity.
Qed.

Lemma hb_mono : forall L (m : Z), 0 <= L -> (0 < m)%Z ->
  sqrt (L / (2 * IZR (m + 1))) <= sqrt (L / (2 * IZR m)).
Proof.
  intros L m HL Hm. assert (Hp : 0 < IZR m) by (apply IZR_lt; exact Hm).
  apply sqrt_le_1_alt. rewrite plus_IZR. unfold Rdiv.
  apply Rmult_le_compat_l; [exact HL|]. apply Rinv_le_contravar; lra.
Qed.

Lemma no_move : forall n d L, 0 < n -> 0 < d -> 0 <= L -> L / (2 * n) <= 1 ->
  sqrt (L / (2 * n)) < d / (n + d) + sqrt (L / (2 * (n + d))).
Proof.
  intros n d L Hn Hd HL H1.
  assert (Hq : 0 < d / (n + d)) by (apply Rdiv_lt_0_compat; lra).
  assert (Eq : n / (n + d) = 1 - d / (n + d)) by (field; lra).
  assert (Hq' : 0 < n / (n + d)) by (apply Rdiv_lt_0_compat; lra).
  assert (Hb : 0 <= L / (2 * n)) by (apply Rle_mult_inv_pos; lra).
  set (e := sqrt (L / (2 * n))). set (r := sqrt (n / (n + d))).
  assert (Hr0 : 0 < r) by (apply sqrt_lt_R0; exact Hq').
  assert (Hr1 : r < 1).
  { rewrite <- sqrt_1. apply sqrt_lt_1_alt. lra. }
  assert (He1 : e <= 1) by (rewrite <- sqrt_1; apply sqrt_le_1_alt; exact H1).
  assert (He0 : 0 <= e) by apply sqrt_pos.
  assert (Er : sqrt (L / (2 * (n + d))) = e * r).
  { unfold e, r. rewrite <- sqrt_mult; [|exact Hb|lra]. change (@sqrt RealA) with R_sqrt.sqrt. f_equal. field. lra. }
  assert (Ed : d / (n + d) = 1 - r * r).
  { unfold r. rewrite sqrt_sqrt by lra. lra. }
  rewrite Er, Ed.
  assert (Hm : 0 < (1 - r) * (1 + r - e)) by (apply Rmult_lt_0_compat; lra).
  lra.
Qed.

Lemma half_bound : forall n d L, 0 < n -> 0 < d -> 0 <= L ->
  (1 / n + 1 / d) / 2 * L <= 1 -> L / (2 * n) <= 1.
Proof.
  intros n d L Hn Hd HL H.
  assert (H0 : 0 <= 1 / d / 2 * L).
  { apply Rmult_le_pos; [|exact HL]. left. apply Rdiv_lt_0_compat; [|lra].
    apply Rdiv_lt_0_compat; lra. }
  replace (L / (2 * n)) with ((1 / n + 1 / d) / 2 * L - 1 / d / 2 * L) by (field; lra).
  lra.
Qed.

Section Rise.
  Variable c : hddma_cfg RealA.
  Hypothesis Ha : 0 < ha_alpha_d c <= 1.
  Let L := ln (1 / ha_alpha_d c).

  Let HL : 0 <= L.
  Proof. apply ln_inv_alpha_nonneg. exact Ha. Qed.

  (** during the zeros the cut follows the sample *)
  Definition Inv1 (j : nat) (s : hddma_st RealA) : Prop :=
    hn s = Z.of_nat j /\ m_n (hz s) = Z.of_nat j /\ m_mean (hz s) = 0 /\ hx s = hz s.

  Lemma inv1_step : forall j s, Inv1 j s ->
    hdrift (hddma_step c s 0) = true \/ Inv1 (S j) (hddma_step c s 0).
  Proof.
    intros j s (Hn & Hzn & Hzm & Hx).
    assert (Zn : m_n (az (A:=RealA) s 0) = (Z.of_nat j + 1)%Z).
    { unfold az, mean_update. cbn [m_n]. rewrite Hzn. reflexivity. }
    assert (Zm : m_mean (az (A:=RealA) s 0) = 0).
    { unfold az, mean_update, incr_op. cbn [m_mean add sub div ofZ RealA num]. rewrite Hzm.
      unfold Rdiv. ring. }
    assert (X : ax c s 0 = az s 0).
    { unfold ax, first_cut. rewrite Hx. destruct (m_n (hz s) =? 0)%Z eqn:E; unfold cut_up.
      - destruct (leb _ _); reflexivity.
      - destruct (leb _ _) eqn:El; [reflexivity|]. exfalso.
        cbn [leb add RealA num] in El. apply Rleb_false in El.
        rewrite Zm, Hzm, !hb_eq, Zn, Hzn in El.
        apply Z.eqb_neq in E.
        pose proof (hb_mono L (Z.of_nat j) HL ltac:(lia)) as Hm. fold L in El. lra. }
    rewrite hddma_step_eq, X.
    destruct (ha_min c <=? hn s + 1)%Z.
    - destruct (a_drift c (az s 0) (ay c s 0) (az s 0)); [left; reflexivity|right].
      unfold Inv1. cbn [hn hx hz]. rewrite Hn, Zn, Zm. repeat split; lia.
    - right. unfold Inv1. cbn [hn hx hz]. rewrite Hn, Zn, Zm. repeat split; lia.
  Qed.

  Lemma phase1 : forall j, drifted c (repeat 0 j) \/ Inv1 j (arun c (repeat 0 j)).
  Proof.
    induction j as [|j IH].
    - right. repeat split.
    - rewrite repeat_snoc. destruct IH as [D|I]; [left; apply drifted_app; exact D|].
      destruct (inv1_step j _ I) as [D|I'].
      + left. apply drifted_last. rewrite arun_snoc. exact D.
      + right. rewrite arun_snoc. exact I'.
  Qed.

  (** during the ones the cut stays at the [n] zeros *)
  Variable n : nat.
  Hypothesis Hn1 : (1 <= n)%nat.
  Hypothesis HLn : L / (2 * INR n) <= 1.

  Definition Inv2 (i : nat) (s : hddma_st RealA) : Prop :=
    hn s = Z.of_nat (n + i) /\ m_n (hz s) = Z.of_nat (n + i) /\
    m_mean (hz s) = INR i / INR (n + i) /\ m_n (hx s) = Z.of_nat n /\ m_mean (hx s) = 0.

  Lemma inv1_inv2 : forall s, Inv1 n s -> Inv2 0 s.
  Proof.
    intros s (Hn & Hzn & Hzm & Hx). unfold Inv2. rewrite Hx, Nat.add_0_r.
    repeat split; try assumption. rewrite Hzm. change (INR 0) with 0. unfold Rdiv.
    rewrite Rmult_0_l. reflexivity.
  Qed.

  Lemma az_inv2 : forall i s, Inv2 i s ->
    m_n (az (A:=RealA) s 1) = Z.of_nat (n + S i) /\
    m_mean (az (A:=RealA) s 1) = INR (S i) / INR (n + S i).
  Proof.
    intros i s (Hn & Hzn & Hzm & Hxn & Hxm). unfold az, mean_update, incr_op.
    cbn [m_n m_mean add sub div ofZ RealA num]. rewrite Hzn, Hzm. split; [lia|].
    rewrite plus_IZR, <- INR_IZR_INZ, Nat.add_succ_r, !S_INR.
    assert (Hp : 0 < INR (n + i)) by (apply lt_0_INR; lia).
    field. lra.
  Qed.

  Lemma ax_inv2 : forall i s, Inv2 i s -> ax c s 1 = hx s.
  Proof.
    intros i s I. destruct (az_inv2 i s I) as [Zn Zm].
    destruct I as (Hn & Hzn & Hzm & Hxn & Hxm).
    unfold ax, first_cut. rewrite Hxn.
    destruct (Z.of_nat n =? 0)%Z eqn:E; [apply Z.eqb_eq in E; lia|].
    unfold cut_up. destruct (leb _ _) eqn:El; [exfalso|reflexivity].
    cbn [leb add RealA num] in El. apply Rleb_true in El.
    rewrite Zm, Hxm, !hb_eq, Zn, Hxn, <- !INR_IZR_INZ, plus_INR in El. fold L in El.
    assert (Hp : 0 < INR n) by (apply lt_0_INR; lia).
    assert (Hd : 0 < INR (S i)) by (apply lt_0_INR; lia).
    pose proof (no_move (INR n) (INR (S i)) L Hp Hd HL HLn). lra.
  Qed.

  Lemma inv2_step : forall i s, Inv2 i s ->
    hdrift (hddma_step c s 1) = true \/ Inv2 (S i) (hddma_step c s 1).
  Proof.
    intros i s I. destruct (az_inv2 i s I) as [Zn Zm]. pose proof (ax_inv2 i s I) as X.
    destruct I as (Hn & Hzn & Hzm & Hxn & Hxm).
    rewrite hddma_step_eq, X.
    destruct (ha_min c <=? hn s + 1)%Z.
    - destruct (a_drift c (hx s) (ay c s 1) (az s 1)); [left; reflexivity|right].
      unfold Inv2. cbn [hn hx hz]. rewrite Hn, Zn, Zm. repeat split; try assumption; lia.
    - right. unfold Inv2. cbn [hn hx hz]. rewrite Hn, Zn, Zm. repeat split; try assumption; lia.
  Qed.

  Lemma phase2 : forall i,
    drifted c (repeat 0 n ++ repeat 1 i) \/ Inv2 i (arun c (repeat 0 n ++ repeat 1 i)).
  Proof.
    induction i as [|i IH].
    - cbn [repeat]. rewrite app_nil_r. destruct (phase1 n) as [D|I]; [left; exact D|right].
      apply inv1_inv2. exact I.
    - rewrite repeat_snoc, app_assoc. destruct IH as [D|I]; [left; apply drifted_app; exact D|].
      destruct (inv2_step i _ I) as [D|I'].
      + left. apply drifted_last. rewrite arun_snoc. exact D.
      + right. rewrite arun_snoc. exact I'.
  Qed.

  Lemma inv2_final : forall i s, Inv2 i s -> (ha_min c <= Z.of_nat (n + S i))%Z ->
    (1 / INR n + 1 / INR (S i)) / 2 * L <= 1 ->
    hdrift (hddma_step c s 1) = true.
  Proof.
    intros i s I Hmin Hb. destruct (az_inv2 i s I) as [Zn Zm]. pose proof (ax_inv2 i s I) as X.
    destruct I as (Hn & Hzn & Hzm & Hxn & Hxm).
    assert (C : check_incr (hx s) (az s 1) (ha_alpha_d c) = true).
    { pose proof (hddma_rule (hx s) (az s 1) (ha_alpha_d c)) as Rl. cbv zeta in Rl.
      apply Rl; clear Rl; [rewrite Hxn; lia|rewrite Hxn, Zn; lia|exact Ha|].
      rewrite Hxn, Hxm, Zn, Zm, <- !INR_IZR_INZ, plus_INR.
      assert (Hp : 0 < INR n) by (apply lt_0_INR; lia).
      assert (Hd : 0 < INR (S i)) by (apply lt_0_INR; lia).
      replace (INR n + INR (S i) - INR n) with (INR (S i)) by ring.
      replace (((INR n + INR (S i)) * (INR (S i) / (INR n + INR (S i))) - INR n * 0) / INR (S i) - 0)
        with 1 by (field; lra).
      apply Rle_trans with (R_sqrt.sqrt 1); [|rewrite sqrt_1; lra].
      apply sqrt_le_1_alt. exact Hb. }
    rewrite hddma_step_eq, X.
    replace (ha_min c <=? hn s + 1)%Z with true by (symmetry; apply Z.leb_le; lia).
    unfold a_drift, side_i, side_cases.
    replace (m_n (hx s) =? m_n (az s 1%R))%Z with false
      by (symmetry; apply Z.eqb_neq; rewrite Hxn, Zn; lia).
    rewrite C. reflexivity.
  Qed.
End Rise.

Theorem hddma_rise_detected : forall (c : hddma_cfg RealA) (n k : nat),
  0 < ha_alpha_d c <= 1 -> (1 <= n)%nat -> (1 <= k)%nat ->
  (1 / INR n + 1 / INR k) / 2 * ln (1 / ha_alpha_d c) <= 1 ->
  (ha_min c <= Z.of_nat (n + k))%Z ->
  exists j, (j <= n + k)%nat /\ hdrift (arun c (firstn j (repeat 0 n ++ repeat 1 k))) = true.
Proof.
  intros c n k Ha Hn Hk Hb Hmin.
  assert (HL : 0 <= ln (1 / ha_alpha_d c)) by (apply ln_inv_alpha_nonneg; exact Ha).
  assert (Hpn : 0 < INR n) by (apply lt_0_INR; lia).
  assert (Hpk : 0 < INR k) by (apply lt_0_INR; lia).
  pose proof (half_bound (INR n) (INR k) _ Hpn Hpk HL Hb) as HLn.
  assert (D : drifted c (repeat 0 n ++ repeat 1 k)).
  { destruct k as [|k']; [lia|].
    rewrite repeat_snoc, app_assoc.
    destruct (phase2 c Ha n Hn HLn k') as [D|I]; [apply drifted_app; exact D|].
    apply drifted_last. rewrite arun_snoc.
    apply (inv2_final c Ha n Hn HLn k' _ I Hmin Hb). }
  destruct D as (j & Hj & Hd). exists j. split; [|exact Hd].
  rewrite app_length, !repeat_length in Hj. exact Hj.
Qed.
