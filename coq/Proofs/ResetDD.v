(** reset() of the two streaming data-drift detectors: after reset (and re-fit) everything
    reported equals what a new instance reports.  Corollaries of the refinement theorems of
    Proofs/IKSR.v and Proofs/MMDR.v: both detectors' outputs are functions of the abstract state
    (fitted reference, values accepted since the last reset), and reset returns it to the initial one. *)
From Coq Require Import ZArith List Bool Reals.
From FV Require Import NumSys RealA Py Queue IKS IKSR MMD MMDR.
Import ListNotations.

Section IKSReset.
  Context {A : Arith}.

  Lemma iks_hist_after_reset : forall (pre post : list (@iop A)),
    iks_hist (pre ++ IRst :: post) = iks_hist post.
  Proof.
    intros pre post. unfold iks_hist. rewrite fold_left_app. cbn [fold_left iks_track]. reflexivity.
  Qed.

  (** IncrementalKSTest: whatever happened before a reset, every later update (after any
      further fits / updates / resets [post]) returns exactly what it returns on a new
      instance driven by [post] alone: MissingFitError while unfitted, else the same result. *)
  Theorem iks_reset_fresh : forall (w : Z) (pre post : list (@iop A)) (v : num A), (1 <= w)%Z ->
    match fst (iks_hist post) with
    | None => iks_update (iks_exec w (pre ++ IRst :: post)) v = Raise MissingFitError /\
              iks_update (iks_exec w post) v = Raise MissingFitError
    | Some ref => exists s1 s2 out,
        iks_update (iks_exec w (pre ++ IRst :: post)) v = Ok (s1, out) /\
        iks_update (iks_exec w post) v = Ok (s2, out)
    end.
  Proof.
    intros w pre post v Hw.
    pose proof (iks_total w (pre ++ IRst :: post) v Hw) as H1.
    pose proof (iks_total w post v Hw) as H2. cbv zeta in H1, H2.
    rewrite iks_hist_after_reset in H1.
    destruct (fst (iks_hist post)) as [ref|].
    - destruct H1 as (s1 & H1). destruct H2 as (s2 & H2). exists s1, s2. eexists. split; eassumption.
    - split; assumption.
  Qed.
End IKSReset.

(** streaming MMD *)
Lemma spec_run_app : forall k w a (h1 h2 : list (sev RealA)),
  spec_run k w a (h1 ++ h2) = spec_run k w a h1 ++ spec_run k w (fold_left (@abs_step RealA) h1 a) h2.
Proof.
  intros k w a h1. revert a. induction h1 as [|e r IH]; intros a h2; cbn [app spec_run fold_left]; [reflexivity|].
  rewrite IH. reflexivity.
Qed.

Lemma ms_run_length : forall k chunk (h : list (sev RealA)) s, length (snd (ms_run k chunk s h)) = length h.
Proof.
  intros k chunk h. induction h as [|e r IH]; intros s; cbn [ms_run]; [reflexivity|].
  destruct (ms_step k chunk s e) as [s1 o]. specialize (IH s1).
  destruct (ms_run k chunk s1 r) as [s2 os]. cbn [snd length] in *. rewrite IH. reflexivity.
Qed.

(** Whatever preceded a reset, the outputs of everything after it equal those of a new
    instance (kernel with k x x = 1, window_size >= 2, well-shaped calls). *)
Theorem mmd_streaming_reset_fresh : forall (k : pt RealA -> pt RealA -> R), (forall x, k x x = 1%R) ->
  forall (chunk : option Z) (w : Z), (2 <= w)%Z -> chunk_ok chunk ->
  forall (sh : shape) (pre post : list (sev RealA)),
  Forall (ev_good sh) pre -> Forall (ev_good sh) post ->
  exists s0, ms_new w chunk = Ok s0 /\
    skipn (S (length pre)) (snd (ms_run k chunk s0 (pre ++ SReset :: post))) = snd (ms_run k chunk s0 post).
Proof.
  intros k Hk chunk w Hw Hc sh pre post Hpre Hpost.
  assert (Hall : Forall (ev_good sh) (pre ++ SReset :: post)).
  { apply Forall_app. split; [exact Hpre|]. constructor; [exact I|exact Hpost]. }
  destruct (mmd_streaming k Hk chunk w Hw Hc sh _ Hall) as (s0 & E0 & H1).
  destruct (mmd_streaming k Hk chunk w Hw Hc sh _ Hpost) as (s0' & E0' & H2).
  rewrite E0 in E0'. injection E0' as <-.
  exists s0. split; [exact E0|]. rewrite H1, H2.
  change (pre ++ SReset :: post) with (pre ++ [SReset] ++ post). rewrite app_assoc, spec_run_app.
  rewrite fold_left_app. cbn [fold_left abs_step].
  assert (Hl : length (spec_run k w abs0 (pre ++ [SReset])) = S (length pre)).
  { clear. generalize (@abs0 RealA). induction pre as [|e r IH]; intros a; cbn [app spec_run length]; [reflexivity|]. rewrite IH. reflexivity. }
  rewrite <- Hl. rewrite skipn_app, skipn_all, Nat.sub_diag. cbn [app skipn]. reflexivity.
Qed.
