(** An exact identity of the Adams-MacKay posterior with a constant hazard, used by the C08 check on
    long runs: P(r_t = 0 | x_1..t) = H for every t >= 1 (the changepoint mass is H times the evidence). *)
From Coq Require Import ZArith List Bool Reals Lra.
From FV Require Import NumSys RealA Sums BOCD BOCDSpec BOCDR.
Import ListNotations.
Local Open Scope R_scope.

Theorem posterior_head_is_hazard : forall (c : bocd_cfg RealA) (x : R) (older : list R), cfg_ok c ->
  hd 0 (posterior c (x :: older)) = bo_hazard c.
Proof.
  intros c x older Hc.
  pose proof (evidence_pos c (x :: older) Hc) as He.
  unfold posterior, evidence in *. rewrite joint_cons in *.
  set (tm := terms c older x) in *.
  cbn [map hd]. rewrite Rsum_cons, Rsum_map_mul_r in He |- *.
  assert (Hs : Rsum tm <> 0).
  { intro E. rewrite E in He. lra. }
  field. intro E. apply Hs. nra.
Qed.

(** ... hence the model's log row starts with ln H after every update *)
Corollary bocd_row_head : forall (c : bocd_cfg RealA) (vs : list R) (v : R), cfg_ok c ->
  hd 0 (map exp (brow (brun c (vs ++ [v])))) = bo_hazard c.
Proof.
  intros c vs v Hc. pose proof (bocd_row_is_posterior c (vs ++ [v]) Hc) as E.
  etransitivity; [apply (f_equal (hd 0)); exact E|].
  rewrite rev_app_distr. cbn [rev app]. apply posterior_head_is_hazard. exact Hc.
Qed.
