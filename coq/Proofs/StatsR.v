(** C18 (statistics part): closed forms of Mean, EWMA, PrequentialError and
    CircularMean over the reals. *)
From Coq Require Import ZArith List Reals Lra Lia.
From FV Require Import NumSys RealA Py Sums Queue Stats QueueRef.
Import ListNotations.
Local Open Scope R_scope.

(** * Sums and means *)

Lemma Rsum_cons : forall x l, Rsum (x :: l) = x + Rsum l.
Proof. reflexivity. Qed.

Lemma Rsum_snoc : forall l v, Rsum (l ++ [v]) = Rsum l + v.
Proof.
  induction l as [|x t IH]; intros v.
  - unfold Rsum. cbn [app fold_right]. lra.
  - cbn [app]. rewrite !Rsum_cons, IH. lra.
Qed.

Lemma Rmean_nil : Rmean [] = 0.
Proof. unfold Rmean, Rsum. cbn [fold_right]. unfold Rdiv. apply Rmult_0_l. Qed.

Lemma INR_length_pos : forall {X} (l : list X), l <> [] -> 0 < INR (length l).
Proof.
  intros X l Hne. destruct l as [|x t]; [congruence|].
  apply lt_0_INR. cbn [length]. lia.
Qed.

Lemma snoc_length_INR : forall {X} (l : list X) v, INR (length (l ++ [v])) = INR (length l) + 1.
Proof.
  intros X l v. rewrite app_length, plus_INR. cbn [length]. change (INR 1) with 1. reflexivity.
Qed.

(** the incremental-mean step *)
Lemma mean_step_R : forall (l : list R) v,
  Rmean l + (v - Rmean l) / INR (length (l ++ [v])) = Rmean (l ++ [v]).
Proof.
  intros l v. destruct l as [|x t].
  - rewrite Rmean_nil. unfold Rmean, Rsum. cbn [app fold_right length].
    change (INR 1) with 1. field.
  - remember (x :: t) as l eqn:El.
    assert (Hpos : 0 < INR (length l)) by (apply INR_length_pos; subst; discriminate).
    clear El. unfold Rmean. rewrite Rsum_snoc, snoc_length_INR. field. lra.
Qed.

(** * Mean *)

Lemma mean_run_snoc : forall (vs : list R) v,
  mean_run (A:=RealA) (vs ++ [v]) = mean_update (mean_run (A:=RealA) vs) v.
Proof. intros vs v. unfold mean_run. rewrite fold_left_app. reflexivity. Qed.

Lemma mean_run_inv : forall vs : list R,
  m_mean (mean_run (A:=RealA) vs) = Rmean vs /\
  m_n (mean_run (A:=RealA) vs) = Z.of_nat (length vs).
Proof.
  intros vs; induction vs as [|x vs IH] using rev_ind.
  - split; [|reflexivity]. rewrite Rmean_nil. reflexivity.
  - destruct IH as [Hm Hn]. rewrite mean_run_snoc. unfold mean_update.
    cbn [m_mean m_n]. rewrite Hm, Hn. split.
    + unfold incr_op. cbn [add sub div ofZ RealA num].
      replace (Z.of_nat (length vs) + 1)%Z with (Z.of_nat (length (vs ++ [x])))
        by (rewrite app_length; cbn [length]; lia).
      rewrite <- INR_IZR_INZ. apply mean_step_R.
    + rewrite app_length. cbn [length]. lia.
Qed.

Lemma mean_closed : forall vs : list R, vs <> [] ->
  m_mean (mean_run (A:=RealA) vs) = Rmean vs /\ m_n (mean_run (A:=RealA) vs) = Z.of_nat (length vs).
Proof. intros vs _. apply mean_run_inv. Qed.

(** * Weighted sums *)

Lemma wsum_rev_shift : forall w l k, wsum_rev w l (S k) = wsum_rev (fun j => w (S j)) l k.
Proof.
  intros w l; induction l as [|x t IH]; intros k; cbn [wsum_rev]; [reflexivity|].
  rewrite IH. reflexivity.
Qed.

Lemma wsum_rev_ext : forall w w' l k, (forall j, w j = w' j) -> wsum_rev w l k = wsum_rev w' l k.
Proof.
  intros w w' l; induction l as [|x t IH]; intros k H; cbn [wsum_rev]; [reflexivity|].
  rewrite H, (IH (S k) H). reflexivity.
Qed.

Lemma wsum_rev_scal : forall c w l k, wsum_rev (fun j => c * w j) l k = c * wsum_rev w l k.
Proof.
  intros c w l; induction l as [|x t IH]; intros k; cbn [wsum_rev]; [lra|].
  rewrite IH. lra.
Qed.

Lemma wsum_nil : forall w, wsum w [] = 0.
Proof. reflexivity. Qed.

Lemma wsum_snoc : forall w vs v,
  wsum w (vs ++ [v]) = w 0%nat * v + wsum (fun k => w (S k)) vs.
Proof.
  intros w vs v. unfold wsum. rewrite rev_unit. cbn [wsum_rev].
  rewrite wsum_rev_shift. reflexivity.
Qed.

Lemma wsum_ext : forall w w' vs, (forall j, w j = w' j) -> wsum w vs = wsum w' vs.
Proof. intros w w' vs H. unfold wsum. apply wsum_rev_ext. exact H. Qed.

Lemma wsum_scal : forall c w vs, wsum (fun j => c * w j) vs = c * wsum w vs.
Proof. intros c w vs. unfold wsum. apply wsum_rev_scal. Qed.

Lemma wsum_pow_snoc : forall a vs v,
  wsum (fun k => a ^ k) (vs ++ [v]) = v + a * wsum (fun k => a ^ k) vs.
Proof.
  intros a vs v. rewrite wsum_snoc.
  rewrite (wsum_ext (fun k => a ^ S k) (fun k => a * a ^ k)) by (intros j; reflexivity).
  pose proof (wsum_scal a (fun k => a ^ k) vs) as Hs. cbv beta in Hs. rewrite Hs.
  change (a ^ 0) with 1. lra.
Qed.

(** * EWMA *)

Lemma ewma_run_snoc : forall alpha (vs : list R) v,
  ewma_run (A:=RealA) alpha (vs ++ [v]) = ewma_update (ewma_run (A:=RealA) alpha vs) v.
Proof. intros alpha vs v. unfold ewma_run. rewrite fold_left_app. reflexivity. Qed.

Lemma ewma_run_inv : forall (alpha : R) (vs : list R),
  e_alpha (ewma_run (A:=RealA) alpha vs) = alpha /\
  e_1ma (ewma_run (A:=RealA) alpha vs) = 1 - alpha /\
  e_mean (ewma_run (A:=RealA) alpha vs) = wsum (fun k => alpha * (1 - alpha) ^ k) vs.
Proof.
  intros alpha vs; induction vs as [|x vs IH] using rev_ind.
  - repeat split; reflexivity.
  - destruct IH as (Ha & Hb & Hm). rewrite ewma_run_snoc. unfold ewma_update.
    cbn [e_alpha e_1ma e_mean]. rewrite Ha, Hb, Hm. repeat split.
    cbn [add mul RealA num]. rewrite wsum_snoc.
    rewrite (wsum_ext (fun k => alpha * (1 - alpha) ^ S k)
                      (fun k => (1 - alpha) * (alpha * (1 - alpha) ^ k)))
      by (intros j; cbn [pow]; lra).
    pose proof (wsum_scal (1 - alpha) (fun k => alpha * (1 - alpha) ^ k) vs) as Hs.
    cbv beta in Hs. rewrite Hs.
    change ((1 - alpha) ^ 0) with 1. lra.
Qed.

Lemma ewma_closed : forall (alpha : R) (vs : list R),
  e_mean (ewma_run (A:=RealA) alpha vs) = wsum (fun k => alpha * (1 - alpha) ^ k) vs.
Proof. intros alpha vs. apply ewma_run_inv. Qed.

(** * PrequentialError *)

Definition preq_run (alpha : R) (es : list R) : preq_st RealA * R :=
  fold_left (fun (sv : preq_st RealA * R) e => preq_call (A:=RealA) alpha (fst sv) e) es (preq_init, 0).

Lemma preq_run_snoc : forall alpha es e,
  preq_run alpha (es ++ [e]) = preq_call (A:=RealA) alpha (fst (preq_run alpha es)) e.
Proof. intros alpha es e. unfold preq_run. rewrite fold_left_app. reflexivity. Qed.

Lemma preq_run_inv : forall alpha es,
  p_err (fst (preq_run alpha es)) = wsum (fun k => alpha ^ k) es /\
  p_inst (fst (preq_run alpha es)) = wsum (fun k => alpha ^ k) (map (fun _ => 1) es).
Proof.
  intros alpha es; induction es as [|e es IH] using rev_ind.
  - split; reflexivity.
  - destruct IH as [He Hi]. rewrite preq_run_snoc. unfold preq_call. cbn [fst p_err p_inst].
    rewrite He, Hi. rewrite map_app. cbn [map]. rewrite !wsum_pow_snoc.
    unfold one. cbn [add mul ofZ RealA num]. split; lra.
Qed.

Lemma wsum_ones_nonneg : forall alpha (es : list R), 0 <= alpha ->
  0 <= wsum (fun k => alpha ^ k) (map (fun _ => 1) es).
Proof.
  intros alpha es Ha; induction es as [|e es IH] using rev_ind.
  - cbn [map]. rewrite wsum_nil. lra.
  - rewrite map_app. cbn [map]. rewrite wsum_pow_snoc.
    pose proof (Rmult_le_pos _ _ Ha IH). lra.
Qed.

Lemma prequential_closed : forall (alpha : R) (es : list R), 0 < alpha <= 1 -> es <> [] ->
  0 < wsum (fun k => alpha ^ k) (map (fun _ => 1) es) /\
  snd (preq_run alpha es) = wsum (fun k => alpha ^ k) es / wsum (fun k => alpha ^ k) (map (fun _ => 1) es).
Proof.
  intros alpha es Ha Hne.
  destruct (exists_last Hne) as (es' & e & ->).
  split.
  - rewrite map_app. cbn [map]. rewrite wsum_pow_snoc.
    assert (H0 : 0 <= alpha) by lra.
    pose proof (Rmult_le_pos _ _ H0 (wsum_ones_nonneg alpha es' H0)). lra.
  - rewrite preq_run_snoc. unfold preq_call. cbn [snd].
    destruct (preq_run_inv alpha es') as [He Hi]. rewrite He, Hi.
    rewrite map_app. cbn [map]. rewrite !wsum_pow_snoc.
    unfold one. cbn [add mul div ofZ RealA num]. f_equal; lra.
Qed.

(** * CircularMean *)

Definition cmean_rel (size : Z) (s : cmean_st RealA) (d : list R) : Prop :=
  cq_rel (T:=R) size (c_q s) d /\ c_mean s = Rmean d /\ c_n s = Z.of_nat (length d).

Lemma cmean_update_rel : forall size (s : cmean_st RealA) (d : list R) (v : R),
  (1 <= size)%Z -> cmean_rel size s d ->
  exists s', cmean_update (A:=RealA) s v = Ok s' /\
             cmean_rel size s' (fst (dq_enqueue size d v)).
Proof.
  intros size s d v Hs (Hq & Hm & Hn).
  destruct (cq_enqueue_rel (T:=R) size (c_q s) d v Hs Hq) as (q' & He & Hrel').
  unfold cmean_update. cbn [num RealA] in *. rewrite He. cbn [bind].
  eexists. split; [reflexivity|].
  unfold cmean_rel. cbn [c_q c_mean c_n]. split; [exact Hrel'|].
  unfold cq_len. rewrite (cq_rel_count _ _ _ Hrel'). split; [|reflexivity].
  rewrite Hm. unfold incr_op. cbn [add sub div ofZ RealA num].
  rewrite <- INR_IZR_INZ.
  unfold dq_enqueue. destruct (Z.of_nat (length d) =? size)%Z eqn:E; cbn [fst snd].
  - apply Z.eqb_eq in E. destruct d as [|x t]; [cbn [length] in E; lia|].
    cbn [tl hd_error].
    assert (Hpos : 0 < INR (length (x :: t))) by (apply INR_length_pos; discriminate).
    unfold Rmean. rewrite Rsum_snoc, Rsum_cons.
    replace (length (t ++ [v])) with (length (x :: t))
      by (rewrite app_length; cbn [length]; lia).
    field. lra.
  - apply mean_step_R.
Qed.

Lemma cmean_run_rel : forall size (vs : list R) (s : cmean_st RealA) (d : list R),
  (1 <= size)%Z -> (length d <= Z.to_nat size)%nat -> cmean_rel size s d ->
  exists s', cmean_run (A:=RealA) s vs = Ok s' /\
             cmean_rel size s' (lastn (Z.to_nat size) (d ++ vs)).
Proof.
  intros size vs; induction vs as [|v r IH]; intros s d Hs Hd Hrel.
  - exists s. split; [reflexivity|]. rewrite app_nil_r, lastn_all by exact Hd. exact Hrel.
  - cbn [cmean_run].
    destruct (cmean_update_rel size s d v Hs Hrel) as (s1 & He & Hrel1).
    rewrite He. cbn [bind].
    destruct (IH s1 _ Hs (dq_enqueue_length size d v Hs Hd) Hrel1) as (s' & Hr & Hrel').
    exists s'. split; [exact Hr|]. rewrite <- lastn_enq by assumption. exact Hrel'.
Qed.

Lemma circular_mean_closed : forall (size : Z) (vs : list R), (1 <= size)%Z -> vs <> [] ->
  exists s, cmean_run (A:=RealA) (cmean_init size) vs = Ok s /\
    c_mean s = Rmean (lastn (Z.to_nat size) vs) /\
    c_n s = Z.of_nat (Nat.min (length vs) (Z.to_nat size)).
Proof.
  intros size vs Hs _.
  assert (H0 : cmean_rel size (cmean_init (A:=RealA) size) []).
  { split; [apply cq_init_rel; exact Hs|]. split; [|reflexivity].
    rewrite Rmean_nil. reflexivity. }
  destruct (cmean_run_rel size vs _ [] Hs ltac:(cbn [length]; lia) H0) as (s & Hr & Hrel).
  cbn [app] in Hrel. destruct Hrel as (_ & Hm & Hn).
  exists s. split; [exact Hr|]. split; [exact Hm|].
  rewrite Hn, lastn_length. reflexivity.
Qed.
