(** "No alarm on a constant stream" for the streaming detector models over the reals. *)
From Coq Require Import ZArith List Bool Reals Lra Lia.
From FV Require Import NumSys RealA Py Sums Queue Stats Detector Cusum SPC HDDM KS Window ADWIN StatsR Structural.
Import ListNotations.
Local Open Scope R_scope.

(** every operation is a reset or an update with the same value k *)
Definition const_ops {I} (k : I) (ops : list (op I)) : Prop := Forall (fun o => o = Rst \/ o = Upd k) ops.

(* ====================================================================== generic part *)

Lemma const_invariant (D : Detector) (c : d_cfg D) (k : d_in D) (Inv : d_st D -> Prop) :
  Inv (d_init D c) -> (forall s, Inv s -> Inv (d_step D c s k)) -> (forall s, d_reset D c s = d_init D c) ->
  forall ops, const_ops k ops -> Inv (exec D c ops).
Proof.
  intros H0 Hs Hreset.
  assert (G : forall ops s, const_ops k ops -> Inv s -> Inv (exec_from D c s ops)).
  { induction ops as [|o r IH]; intros s Hc Hi.
    - exact Hi.
    - rewrite exec_from_cons. inversion Hc as [|o' r' Ho Hr']; subst.
      apply IH; [exact Hr'|].
      destruct Ho as [-> | ->]; cbn [apply].
      + rewrite Hreset. exact H0.
      + apply Hs. exact Hi. }
  intros ops Hc. unfold exec. apply G; assumption.
Qed.

(** the running mean of a constant stream *)
Definition mean_const (k : R) (m : mean_st RealA) : Prop :=
  (0 <= m_n m)%Z /\ ((0 < m_n m)%Z -> m_mean m = k).

Lemma mean_const_init k : mean_const k (mean_init (A:=RealA)).
Proof. split; cbn [mean_init m_n]; lia. Qed.

Lemma mean_update_const k (m : mean_st RealA) :
  mean_const k m ->
  m_mean (mean_update m k) = k /\ m_n (mean_update m k) = (m_n m + 1)%Z.
Proof.
  intros [Hn Hm]. unfold mean_update, incr_op.
  cbn [m_mean m_n add sub div ofZ RealA num]. split; [|reflexivity].
  destruct (Z.eq_dec (m_n m) 0) as [E|E].
  - rewrite E. change (IZR (0 + 1)) with 1. field.
  - rewrite Hm by lia.
    assert (Hnz : IZR (m_n m + 1) <> 0) by (apply not_0_IZR; lia).
    field. exact Hnz.
Qed.

Lemma mean_const_update k (m : mean_st RealA) :
  mean_const k m -> mean_const k (mean_update m k).
Proof.
  intros H. destruct (mean_update_const k m H) as [Hm Hn]. destruct H as [H0 _].
  split; [rewrite Hn; lia | intros _; exact Hm].
Qed.

(* ====================================================================== CUSUM family *)

Definition cusum_CInv (k : R) (s : cusum_st RealA) : Prop :=
  mean_const k (cs_mean s) /\ cs_sum s <= 0 /\ cs_drift s = false.

Lemma update_sum_const (c : cusum_cfg RealA) (g k : R) :
  0 <= ck_delta c -> 0 <= ck_alpha c <= 1 -> g <= 0 -> update_sum c g k k <= 0.
Proof.
  intros Hd Ha Hg. unfold update_sum. destruct (ck_kind c).
  - unfold max0, zero. cbn [add sub ltb ofZ RealA num].
    destruct (Rltb 0 (g + k - k - ck_delta c)) eqn:E.
    + apply Rltb_true in E. lra.
    + lra.
  - cbn [add sub mul RealA num]. nra.
  - unfold one. cbn [add sub mul ofZ RealA num]. nra.
Qed.

Lemma cusum_constant : forall (c : cusum_cfg RealA) (k : R) ops,
  0 <= ck_delta c -> 0 <= ck_lambda c -> 0 <= ck_alpha c <= 1 -> const_ops k ops ->
  cs_drift (exec (CusumD RealA) c ops) = false.
Proof.
  intros c k ops Hd Hl Ha Hc.
  assert (H : cusum_CInv k (exec (CusumD RealA) c ops)).
  { apply (const_invariant (CusumD RealA) c k (cusum_CInv k)); [| | reflexivity | exact Hc].
    - split; [apply mean_const_init|]. split; [|reflexivity].
      cbn [d_init CusumD cusum_init cs_sum]. unfold zero. cbn [ofZ RealA]. lra.
    - intros s (Hm & Hg & _). cbn [d_step CusumD]. unfold cusum_step. cbv zeta.
      unfold cusum_CInv. cbn [cs_mean cs_sum cs_drift].
      destruct (mean_update_const k _ Hm) as [Hm' _].
      split; [apply mean_const_update; exact Hm|].
      rewrite Hm'.
      pose proof (update_sum_const c (cs_sum s) k Hd Ha Hg) as Hg'.
      split; [exact Hg'|].
      cbn [ltb RealA].
      replace (Rltb (ck_lambda c) (update_sum c (cs_sum s) k k)) with false
        by (symmetry; apply Rltb_false; lra).
      apply andb_false_r. }
  destruct H as (_ & _ & H). exact H.
Qed.

(* ====================================================================== DDM *)

Lemma eps_std_const (k : R) n : (k = 0 \/ k = 1) -> eps_std (A:=RealA) k n = (k + 0, 0).
Proof.
  intros Hk. unfold eps_std, one. cbn [add sub mul div sqrt ofZ RealA num].
  replace (k * (1 - k) / IZR n) with 0 by (destruct Hk; subst; unfold Rdiv; ring).
  rewrite sqrt_0. reflexivity.
Qed.

Definition ddm_CInv (k : R) (s : ddm_st RealA) : Prop :=
  mean_const k (der s) /\ (dmins s = None \/ dmins s = Some (k, 0)) /\
  ddrift s = false /\ dwarning s = false.

Lemma update_mins_const (k : R) (m : mins (A:=RealA)) :
  (m = None \/ m = Some (k, 0)) -> update_mins m k (k + 0) 0 = Some (k, 0).
Proof.
  intros [-> | ->]; unfold update_mins; [reflexivity|].
  destruct (ltb _ _); reflexivity.
Qed.

Lemma check_thr_const (k level : R) : check_thr (A:=RealA) (k + 0) (Some (k, 0)) level = false.
Proof.
  unfold check_thr. cbn [add mul ltb RealA num]. apply Rltb_false. lra.
Qed.

Lemma ddm_constant : forall (c : ddm_cfg RealA) (k : R) ops,
  (k = 0 \/ k = 1) -> 0 < dd_warn c -> 0 < dd_drift c -> const_ops k ops ->
  ddrift (exec (DDMD RealA) c ops) = false /\ dwarning (exec (DDMD RealA) c ops) = false.
Proof.
  intros c k ops Hk Hw Hd Hc.
  assert (H : ddm_CInv k (exec (DDMD RealA) c ops)).
  { apply (const_invariant (DDMD RealA) c k (ddm_CInv k)); [| | reflexivity | exact Hc].
    - split; [apply mean_const_init|]. split; [left; reflexivity|]. split; reflexivity.
    - intros s (Hm & Hmin & _ & _). cbn [d_step DDMD]. unfold ddm_step. cbv zeta.
      destruct (mean_update_const k _ Hm) as [Hm' _].
      pose proof (mean_const_update k _ Hm) as Hmc.
      rewrite Hm'. rewrite (eps_std_const k _ Hk). cbv beta iota.
      rewrite (update_mins_const k _ Hmin). rewrite !check_thr_const.
      destruct (dd_min c <=? dn s + 1)%Z; unfold ddm_CInv; cbn [der dmins ddrift dwarning].
      + split; [exact Hmc|]. split; [right; reflexivity|]. split; reflexivity.
      + split; [exact Hmc|]. split; [exact Hmin|]. split; reflexivity. }
  destruct H as (_ & _ & H1 & H2). split; assumption.
Qed.

(* ====================================================================== EDDM *)

(** constant 0: no error ever, flags cleared at every step *)
Definition eddm_CInv0 (s : eddm_st RealA) : Prop := edrift s = false /\ ewarning s = false.

(** constant 1: every step is an error at distance 1 from the previous one *)
Definition eddm_CInv1 (s : eddm_st RealA) : Prop :=
  (0 <= en s)%Z /\ elast s = IZR (en s) /\ enmis s = en s /\ ((0 < en s)%Z -> emean s = 1) /\
  evar s = 0 /\ (emax s = None \/ emax s = Some 1) /\ edrift s = false /\ ewarning s = false.

Lemma eddm_step1 (c : eddm_cfg RealA) (s : eddm_st RealA) :
  ed_beta c < ed_alpha c -> ed_alpha c <= 1 ->
  eddm_CInv1 s -> eddm_CInv1 (eddm_step c s 1).
Proof.
  intros Hba Ha1 (Hn & Hlast & Hmis & Hmean & Hvar & Hmax & Hd & Hw).
  assert (E : @eqb RealA 1 one = true) by (apply Reqb_true; reflexivity).
  unfold eddm_step. rewrite E. cbv zeta.
  cbn [sub add mul div ofZ sqrt ltb RealA num].
  rewrite Hmis, Hlast, Hvar.
  replace (IZR (en s + 1) - IZR (en s)) with 1 by (rewrite plus_IZR; ring).
  assert (Hnz : IZR (en s + 1) <> 0) by (apply not_0_IZR; lia).
  assert (Hmean' : emean s + (1 - emean s) / IZR (en s + 1) = 1).
  { destruct (Z.eq_dec (en s) 0) as [E0|E0].
    - rewrite E0. change (IZR (0 + 1)) with 1. field.
    - rewrite Hmean by lia. field. exact Hnz. }
  rewrite Hmean'.
  replace (0 + (1 - 1) * (1 - emean s)) with 0 by ring.
  replace (0 / IZR (en s + 1)) with 0 by (unfold Rdiv; ring).
  rewrite sqrt_0.
  assert (Hn' : (0 <= en s + 1)%Z) by lia.
  assert (Hthr : 1 + ed_level c * 0 = 1) by ring.
  rewrite Hthr.
  destruct (ed_min c <=? en s + 1)%Z.
  - destruct Hmax as [Hx | Hx]; rewrite Hx; cbn [gt_opt ltb RealA].
    + unfold eddm_CInv1. cbn [en elast emax emean enmis evar edrift ewarning].
      repeat split; auto.
    + replace (Rltb 1 1) with false by (symmetry; apply Rltb_false; lra).
      replace (1 / 1) with 1 by field.
      replace (Rltb 1 (ed_beta c)) with false by (symmetry; apply Rltb_false; lra).
      replace (Rltb 1 (ed_alpha c)) with false by (symmetry; apply Rltb_false; lra).
      unfold eddm_CInv1. cbn [en elast emax emean enmis evar edrift ewarning].
      repeat split; auto.
  - unfold eddm_CInv1. cbn [en elast emax emean enmis evar edrift ewarning].
    repeat split; auto.
Qed.

Lemma eddm_constant : forall (c : eddm_cfg RealA) (k : R) ops,
  (k = 0 \/ k = 1) -> 0 < ed_beta c -> ed_beta c < ed_alpha c -> ed_alpha c <= 1 -> 0 < ed_level c ->
  const_ops k ops ->
  edrift (exec (EDDMD RealA) c ops) = false /\ ewarning (exec (EDDMD RealA) c ops) = false.
Proof.
  intros c k ops [-> | ->] Hb Hba Ha1 Hl Hc.
  - assert (H : eddm_CInv0 (exec (EDDMD RealA) c ops)).
    { apply (const_invariant (EDDMD RealA) c 0 eddm_CInv0); [| | reflexivity | exact Hc].
      - split; reflexivity.
      - intros s _. cbn [d_step EDDMD]. unfold eddm_step.
        assert (E : @eqb RealA 0 one = false)
          by (apply Reqb_false; unfold one; cbn [ofZ RealA]; lra).
        rewrite E. cbv zeta. split; reflexivity. }
    exact H.
  - assert (H : eddm_CInv1 (exec (EDDMD RealA) c ops)).
    { apply (const_invariant (EDDMD RealA) c 1 eddm_CInv1); [| | reflexivity | exact Hc].
      - unfold eddm_CInv1. cbn [d_init EDDMD eddm_init en elast emax emean enmis evar edrift ewarning].
        unfold zero. cbn [ofZ RealA].
        repeat split; auto; lia.
      - intros s Hs. apply eddm_step1; assumption. }
    destruct H as (_ & _ & _ & _ & _ & _ & H1 & H2). split; assumption.
Qed.

(* ====================================================================== ECDD *)

Definition ecdd_CInv (c : ecdd_cfg RealA) (k : R) (s : ecdd_st RealA) : Prop :=
  mean_const k (cp s) /\ e_alpha (cz s) = ec_lambda c /\ e_1ma (cz s) = 1 - ec_lambda c /\
  e_mean (cz s) <= k /\ cdrift s = false /\ cwarning s = false.

Lemma ecdd_zvar_const (c : ecdd_cfg RealA) (a : R) n (k : R) :
  (k = 0 \/ k = 1) -> ecdd_zvar c a n k = 0.
Proof.
  intros Hk. unfold ecdd_zvar, one. cbn [sub mul div sqrt ofZ RealA num].
  replace (k * (1 - k)) with 0 by (destruct Hk; subst; ring).
  rewrite Rmult_0_r. apply sqrt_0.
Qed.

Lemma ecdd_check_const (zm k cl wl : R) : zm <= k -> ecdd_check (A:=RealA) zm k cl 0 wl = false.
Proof.
  intros H. unfold ecdd_check. cbn [add mul ltb RealA num]. apply Rltb_false. lra.
Qed.

Lemma ecdd_constant : forall (c : ecdd_cfg RealA) (k : R) ops,
  (k = 0 \/ k = 1) -> 0 <= ec_lambda c <= 1 -> 0 < ec_warn c -> const_ops k ops ->
  cdrift (exec (ECDDD RealA) c ops) = false /\ cwarning (exec (ECDDD RealA) c ops) = false.
Proof.
  intros c k ops Hk Hl Hw Hc.
  assert (H : ecdd_CInv c k (exec (ECDDD RealA) c ops)).
  { apply (const_invariant (ECDDD RealA) c k (ecdd_CInv c k)); [| | reflexivity | exact Hc].
    - unfold ecdd_CInv. cbn [d_init ECDDD ecdd_init cp cz cdrift cwarning ewma_init e_alpha e_1ma e_mean].
      split; [apply mean_const_init|]. unfold zero, one. cbn [sub ofZ RealA num].
      repeat split; auto. destruct Hk; subst; lra.
    - intros s (Hm & Hea & He1 & Hz & _ & _). cbn [d_step ECDDD]. unfold ecdd_step. cbv zeta.
      destruct (mean_update_const k _ Hm) as [Hm' _].
      pose proof (mean_const_update k _ Hm) as Hmc.
      rewrite Hm'. rewrite (ecdd_zvar_const c _ _ k Hk).
      assert (Hz' : e_mean (ewma_update (cz s) k) <= k).
      { unfold ewma_update. cbn [e_mean add mul RealA num]. rewrite Hea, He1. nra. }
      rewrite !(ecdd_check_const _ k _ _ Hz').
      destruct (ec_min c <=? cn s + 1)%Z; unfold ecdd_CInv; cbn [cp cz cdrift cwarning];
        (split; [exact Hmc|]); unfold ewma_update at 1 2; cbn [e_alpha e_1ma];
        repeat split; auto. }
  destruct H as (_ & _ & _ & _ & H1 & H2). split; assumption.
Qed.

(* ====================================================================== STEPD *)

Lemma stepd_stat_none (n ct nw cw : Z) :
  (ct = 0%Z \/ (ct = n /\ n <> 0%Z)) -> stepd_stat (A:=RealA) n ct nw cw = None.
Proof.
  intros H. unfold stepd_stat. cbv zeta. unfold one, zero.
  cbn [add sub mul div sqrt eqb ofZ RealA num].
  replace (IZR ct / IZR n * (1 - IZR ct / IZR n)) with 0.
  - rewrite Rmult_0_l, sqrt_0.
    replace (Reqb 0 0) with true by (symmetry; apply Reqb_true; reflexivity). reflexivity.
  - destruct H as [-> | [-> Hn]].
    + unfold Rdiv. ring.
    + assert (IZR n <> 0) by (apply not_0_IZR; exact Hn).
      replace (IZR n / IZR n) with 1 by (field; assumption). ring.
Qed.

Definition stepd_CInv (k : R) (s : stepd_st) : Prop :=
  (0 <= sn s)%Z /\ scorrect s = (if Reqb k 0 then 0%Z else sn s) /\
  sdrift s = false /\ swarning s = false.

Lemma stepd_constant : forall (c : stepd_cfg RealA) (k : R) ops,
  (k = 0 \/ k = 1) -> (1 <= sp_min c)%Z -> const_ops k ops ->
  sdrift (exec (STEPDD RealA) c ops) = false /\ swarning (exec (STEPDD RealA) c ops) = false.
Proof.
  intros c k ops Hk Hmin Hc.
  assert (H : stepd_CInv k (exec (STEPDD RealA) c ops)).
  { apply (const_invariant (STEPDD RealA) c k (stepd_CInv k)); [| | reflexivity | exact Hc].
    - unfold stepd_CInv. cbn [d_init STEPDD stepd_init sn scorrect sdrift swarning].
      repeat split; auto; [lia | destruct (Reqb k 0); reflexivity].
    - intros s (Hn & Hct & _ & _). cbn [d_step STEPDD]. unfold stepd_step. cbv zeta.
      assert (Hct' : (scorrect s + b2z (truthy (A:=RealA) k))%Z
                     = (if Reqb k 0 then 0%Z else (sn s + 1)%Z)).
      { rewrite Hct. unfold truthy, zero. cbn [eqb ofZ RealA].
        destruct (Reqb k 0); cbn [negb b2z]; lia. }
      assert (Hnone : forall nw cw,
                 stepd_stat (A:=RealA) (sn s + 1) (scorrect s + b2z (truthy (A:=RealA) k)) nw cw = None).
      { intros nw cw. apply stepd_stat_none. rewrite Hct'.
        destruct (Reqb k 0) eqn:E; [left; reflexivity | right; split; [reflexivity | lia]]. }
      rewrite Hnone.
      destruct (2 * sp_min c <=? sn s + 1)%Z; unfold stepd_CInv; cbn [sn scorrect sdrift swarning];
        (split; [lia|]); (split; [exact Hct'|]); split; reflexivity. }
  destruct H as (_ & _ & H1 & H2). split; assumption.
Qed.
