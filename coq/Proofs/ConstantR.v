(** "No alarm on a constant stream" for the streaming detector models over the reals. *)
From Coq Require Import ZArith List Bool Reals Lra Lia.
From FV Require Import NumSys RealA Py Sums Queue Stats Detector Cusum SPC HDDM KS Window ADWIN StatsR Structural.
Import ListNotations.
Local Open Scope R_scope.

(** every operation is a reset or an update with the same value k *)
Definition const_ops {I} (k : I) (ops : list (op I)) : Prop := Forall (fun o => o = Rst \/ o = Upd k) ops.

(* ====================================================================== generic part *)

Lemma const_invariant (D : Detector) (c : d_cfg D) (k : d_in D) (Inv : d_st D -> Prop) :
  Inv (d_init D c) -> (forall s, Inv s -> Inv (d_step D c s k)) -> (forall s, d_reset D c s = d_init D c) ->
  forall ops, const_ops k ops -> Inv (exec D c ops).
Proof.
  intros H0 Hs Hreset.
  assert (G : forall ops s, const_ops k ops -> Inv s -> Inv (exec_from D c s ops)).
  { induction ops as [|o r IH]; intros s Hc Hi.
    - exact Hi.
    - rewrite exec_from_cons. inversion Hc as [|o' r' Ho Hr']; subst.
      apply IH; [exact Hr'|].
      destruct Ho as [-> | ->]; cbn [apply].
      + rewrite Hreset. exact H0.
      + apply Hs. exact Hi. }
  intros ops Hc. unfold exec. apply G; assumption.
Qed.

(** the running mean of a constant stream *)
Definition mean_const (k : R) (m : mean_st RealA) : Prop :=
  (0 <= m_n m)%Z /\ ((0 < m_n m)%Z -> m_mean m = k).

Lemma mean_const_init k : mean_const k (mean_init (A:=RealA)).
Proof. split; cbn [mean_init m_n]; lia. Qed.

Lemma mean_update_const k (m : mean_st RealA) :
  mean_const k m ->
  m_mean (mean_update m k) = k /\ m_n (mean_update m k) = (m_n m + 1)%Z.
Proof.
  intros [Hn Hm]. unfold mean_update, incr_op.
  cbn [m_mean m_n add sub div ofZ RealA num]. split; [|reflexivity].
  destruct (Z.eq_dec (m_n m) 0) as [E|E].
  - rewrite E. change (IZR (0 + 1)) with 1. field.
  - rewrite Hm by lia.
    assert (Hnz : IZR (m_n m + 1) <> 0) by (apply not_0_IZR; lia).
    field. exact Hnz.
Qed.

Lemma mean_const_update k (m : mean_st RealA) :
  mean_const k m -> mean_const k (mean_update m k).
Proof.
  intros H. destruct (mean_update_const k m H) as [Hm Hn]. destruct H as [H0 _].
  split; [rewrite Hn; lia | intros _; exact Hm].
Qed.

(* ====================================================================== CUSUM family *)

Definition cusum_CInv (k : R) (s : cusum_st RealA) : Prop :=
  mean_const k (cs_mean s) /\ cs_sum s <= 0 /\ cs_drift s = false.

Lemma update_sum_const (c : cusum_cfg RealA) (g k : R) :
  0 <= ck_delta c -> 0 <= ck_alpha c <= 1 -> g <= 0 -> update_sum c g k k <= 0.
Proof.
  intros Hd Ha Hg. unfold update_sum. destruct (ck_kind c).
  - unfold max0, zero. cbn [add sub ltb ofZ RealA num].
    destruct (Rltb 0 (g + k - k - ck_delta c)) eqn:E.
    + apply Rltb_true in E. lra.
    + lra.
  - cbn [add sub mul RealA num]. nra.
  - unfold one. cbn [add sub mul ofZ RealA num]. nra.
Qed.

Lemma cusum_constant : forall (c : cusum_cfg RealA) (k : R) ops,
  0 <= ck_delta c -> 0 <= ck_lambda c -> 0 <= ck_alpha c <= 1 -> const_ops k ops ->
  cs_drift (exec (CusumD RealA) c ops) = false.
Proof.
  intros c k ops Hd Hl Ha Hc.
  assert (H : cusum_CInv k (exec (CusumD RealA) c ops)).
  { apply (const_invariant (CusumD RealA) c k (cusum_CInv k)); [| | reflexivity | exact Hc].
    - split; [apply mean_const_init|]. split; [|reflexivity].
      cbn [d_init CusumD cusum_init cs_sum]. unfold zero. cbn [ofZ RealA]. lra.
    - intros s (Hm & Hg & _). cbn [d_step CusumD]. unfold cusum_step. cbv zeta.
      unfold cusum_CInv. cbn [cs_mean cs_sum cs_drift].
      destruct (mean_update_const k _ Hm) as [Hm' _].
      split; [apply mean_const_update; exact Hm|].
      rewrite Hm'.
      pose proof (update_sum_const c (cs_sum s) k Hd Ha Hg) as Hg'.
      split; [exact Hg'|].
      cbn [ltb RealA].
      replace (Rltb (ck_lambda c) (update_sum c (cs_sum s) k k)) with false
        by (symmetry; apply Rltb_false; lra).
      apply andb_false_r. }
  destruct H as (_ & _ & H). exact H.
Qed.

(* ====================================================================== DDM *)

Lemma eps_std_const (k : R) n : (k = 0 \/ k = 1) -> eps_std (A:=RealA) k n = (k + 0, 0).
Proof.
  intros Hk. unfold eps_std, one. cbn [add sub mul div sqrt ofZ RealA num].
  replace (k * (1 - k) / IZR n) with 0 by (destruct Hk; subst; unfold Rdiv; ring).
  rewrite sqrt_0. reflexivity.
Qed.

Definition ddm_CInv (k : R) (s : ddm_st RealA) : Prop :=
  mean_const k (der s) /\ (dmins s = None \/ dmins s = Some (k, 0)) /\
  ddrift s = false /\ dwarning s = false.

Lemma update_mins_const (k : R) (m : mins (A:=RealA)) :
  (m = None \/ m = Some (k, 0)) -> update_mins m k (k + 0) 0 = Some (k, 0).
Proof.
  intros [-> | ->]; unfold update_mins; [reflexivity|].
  destruct (ltb _ _); reflexivity.
Qed.

Lemma check_thr_const (k level : R) : check_thr (A:=RealA) (k + 0) (Some (k, 0)) level = false.
Proof.
  unfold check_thr. cbn [add mul ltb RealA num]. apply Rltb_false. lra.
Qed.

Lemma ddm_constant : forall (c : ddm_cfg RealA) (k : R) ops,
  (k = 0 \/ k = 1) -> 0 < dd_warn c -> 0 < dd_drift c -> const_ops k ops ->
  ddrift (exec (DDMD RealA) c ops) = false /\ dwarning (exec (DDMD RealA) c ops) = false.
Proof.
  intros c k ops Hk Hw Hd Hc.
  assert (H : ddm_CInv k (exec (DDMD RealA) c ops)).
  { apply (const_invariant (DDMD RealA) c k (ddm_CInv k)); [| | reflexivity | exact Hc].
    - split; [apply mean_const_init|]. split; [left; reflexivity|]. split; reflexivity.
    - intros s (Hm & Hmin & _ & _). cbn [d_step DDMD]. unfold ddm_step. cbv zeta.
      destruct (mean_update_const k _ Hm) as [Hm' _].
      pose proof (mean_const_update k _ Hm) as Hmc.
      rewrite Hm'. rewrite (eps_std_const k _ Hk). cbv beta iota.
      rewrite (update_mins_const k _ Hmin). rewrite !check_thr_const.
      destruct (dd_min c <=? dn s + 1)%Z; unfold ddm_CInv; cbn [der dmins ddrift dwarning].
      + split; [exact Hmc|]. split; [right; reflexivity|]. split; reflexivity.
      + split; [exact Hmc|]. split; [exact Hmin|]. split; reflexivity. }
  destruct H as (_ & _ & H1 & H2). split; assumption.
Qed.

(* ====================================================================== EDDM *)

(** constant 0: no error ever, flags cleared at every step *)
Definition eddm_CInv0 (s : eddm_st RealA) : Prop := edrift s = false /\ ewarning s = false.

(** constant 1: every step is an error at distance 1 from the previous one *)
Definition eddm_CInv1 (s : eddm_st RealA) : Prop :=
  (0 <= en s)%Z /\ elast s = IZR (en s) /\ enmis s = en s /\ ((0 < en s)%Z -> emean s = 1) /\
  evar s = 0 /\ (emax s = None \/ emax s = Some 1) /\ edrift s = false /\ ewarning s = false.

Lemma eddm_step1 (c : eddm_cfg RealA) (s : eddm_st RealA) :
  ed_beta c < ed_alpha c -> ed_alpha c <= 1 ->
  eddm_CInv1 s -> eddm_CInv1 (eddm_step c s 1).
Proof.
  intros Hba Ha1 (Hn & Hlast & Hmis & Hmean & Hvar & Hmax & Hd & Hw).
  assert (E : @eqb RealA 1 one = true) by (apply Reqb_true; reflexivity).
  unfold eddm_step. rewrite E. cbv zeta.
  cbn [sub add mul div ofZ sqrt ltb RealA num].
  rewrite Hmis, Hlast, Hvar.
  replace (IZR (en s + 1) - IZR (en s)) with 1 by (rewrite plus_IZR; ring).
  assert (Hnz : IZR (en s + 1) <> 0) by (apply not_0_IZR; lia).
  assert (Hmean' : emean s + (1 - emean s) / IZR (en s + 1) = 1).
  { destruct (Z.eq_dec (en s) 0) as [E0|E0].
    - rewrite E0. change (IZR (0 + 1)) with 1. field.
    - rewrite Hmean by lia. field. exact Hnz. }
  rewrite Hmean'.
  replace (0 + (1 - 1) * (1 - emean s)) with 0 by ring.
  replace (0 / IZR (en s + 1)) with 0 by (unfold Rdiv; ring).
  rewrite sqrt_0.
  assert (Hn' : (0 <= en s + 1)%Z) by lia.
  assert (Hthr : 1 + ed_level c * 0 = 1) by ring.
  rewrite Hthr.
  destruct (ed_min c <=? en s + 1)%Z.
  - destruct Hmax as [Hx | Hx]; rewrite Hx; cbn [gt_opt ltb RealA].
    + unfold eddm_CInv1. cbn [en elast emax emean enmis evar edrift ewarning].
      repeat split; auto.
    + replace (Rltb 1 1) with false by (symmetry; apply Rltb_false; lra).
      replace (1 / 1) with 1 by field.
      replace (Rltb 1 (ed_beta c)) with false by (symmetry; apply Rltb_false; lra).
      replace (Rltb 1 (ed_alpha c)) with false by (symmetry; apply Rltb_false; lra).
      unfold eddm_CInv1. cbn [en elast emax emean enmis evar edrift ewarning].
      repeat split; auto.
  - unfold eddm_CInv1. cbn [en elast emax emean enmis evar edrift ewarning].
    repeat split; auto.
Qed.

Lemma eddm_constant : forall (c : eddm_cfg RealA) (k : R) ops,
  (k = 0 \/ k = 1) -> 0 < ed_beta c -> ed_beta c < ed_alpha c -> ed_alpha c <= 1 -> 0 < ed_level c ->
  const_ops k ops ->
  edrift (exec (EDDMD RealA) c ops) = false /\ ewarning (exec (EDDMD RealA) c ops) = false.
Proof.
  intros c k ops [-> | ->] Hb Hba Ha1 Hl Hc.
  - assert (H : eddm_CInv0 (exec (EDDMD RealA) c ops)).
    { apply (const_invariant (EDDMD RealA) c 0 eddm_CInv0); [| | reflexivity | exact Hc].
      - split; reflexivity.
      - intros s _. cbn [d_step EDDMD]. unfold eddm_step.
        assert (E : @eqb RealA 0 one = false)
          by (apply Reqb_false; unfold one; cbn [ofZ RealA]; lra).
        rewrite E. cbv zeta. split; reflexivity. }
    exact H.
  - assert (H : eddm_CInv1 (exec (EDDMD RealA) c ops)).
    { apply (const_invariant (EDDMD RealA) c 1 eddm_CInv1); [| | reflexivity | exact Hc].
      - unfold eddm_CInv1. cbn [d_init EDDMD eddm_init en elast emax emean enmis evar edrift ewarning].
        unfold zero. cbn [ofZ RealA].
        repeat split; auto; lia.
      - intros s Hs. apply eddm_step1; assumption. }
    destruct H as (_ & _ & _ & _ & _ & _ & H1 & H2). split; assumption.
Qed.

(* ====================================================================== ECDD *)

Definition ecdd_CInv (c : ecdd_cfg RealA) (k : R) (s : ecdd_st RealA) : Prop :=
  mean_const k (cp s) /\ e_alpha (cz s) = ec_lambda c /\ e_1ma (cz s) = 1 - ec_lambda c /\
  e_mean (cz s) <= k /\ cdrift s = false /\ cwarning s = false.

Lemma ecdd_zvar_const (c : ecdd_cfg RealA) (a : R) n (k : R) :
  (k = 0 \/ k = 1) -> ecdd_zvar c a n k = 0.
Proof.
  intros Hk. unfold ecdd_zvar, one. cbn [sub mul div sqrt ofZ RealA num].
  replace (k * (1 - k)) with 0 by (destruct Hk; subst; ring).
  rewrite Rmult_0_r. apply sqrt_0.
Qed.

Lemma ecdd_check_const (zm k cl wl : R) : zm <= k -> ecdd_check (A:=RealA) zm k cl 0 wl = false.
Proof.
  intros H. unfold ecdd_check. cbn [add mul ltb RealA num]. apply Rltb_false. lra.
Qed.

Lemma ecdd_constant : forall (c : ecdd_cfg RealA) (k : R) ops,
  (k = 0 \/ k = 1) -> 0 <= ec_lambda c <= 1 -> 0 < ec_warn c -> const_ops k ops ->
  cdrift (exec (ECDDD RealA) c ops) = false /\ cwarning (exec (ECDDD RealA) c ops) = false.
Proof.
  intros c k ops Hk Hl Hw Hc.
  assert (H : ecdd_CInv c k (exec (ECDDD RealA) c ops)).
  { apply (const_invariant (ECDDD RealA) c k (ecdd_CInv c k)); [| | reflexivity | exact Hc].
    - unfold ecdd_CInv. cbn [d_init ECDDD ecdd_init cp cz cdrift cwarning ewma_init e_alpha e_1ma e_mean].
      split; [apply mean_const_init|]. unfold zero, one. cbn [sub ofZ RealA num].
      repeat split; auto. destruct Hk; subst; lra.
    - intros s (Hm & Hea & He1 & Hz & _ & _). cbn [d_step ECDDD]. unfold ecdd_step. cbv zeta.
      destruct (mean_update_const k _ Hm) as [Hm' _].
      pose proof (mean_const_update k _ Hm) as Hmc.
      rewrite Hm'. rewrite (ecdd_zvar_const c _ _ k Hk).
      assert (Hz' : e_mean (ewma_update (cz s) k) <= k).
      { unfold ewma_update. cbn [e_mean add mul RealA num]. rewrite Hea, He1. nra. }
      rewrite !(ecdd_check_const _ k _ _ Hz').
      destruct (ec_min c <=? cn s + 1)%Z; unfold ecdd_CInv; cbn [cp cz cdrift cwarning];
        (split; [exact Hmc|]); unfold ewma_update at 1 2; cbn [e_alpha e_1ma];
        repeat split; auto. }
  destruct H as (_ & _ & _ & _ & H1 & H2). split; assumption.
Qed.

(* ====================================================================== STEPD *)

Lemma stepd_stat_none (n ct nw cw : Z) :
  (ct = 0%Z \/ (ct = n /\ n <> 0%Z)) -> stepd_stat (A:=RealA) n ct nw cw = None.
Proof.
  intros H. unfold stepd_stat. cbv zeta. unfold one, zero.
  cbn [add sub mul div sqrt eqb ofZ RealA num].
  replace (IZR ct / IZR n * (1 - IZR ct / IZR n)) with 0.
  - rewrite Rmult_0_l, sqrt_0.
    replace (Reqb 0 0) with true by (symmetry; apply Reqb_true; reflexivity). reflexivity.
  - destruct H as [-> | [-> Hn]].
    + unfold Rdiv. ring.
    + assert (IZR n <> 0) by (apply not_0_IZR; exact Hn).
      replace (IZR n / IZR n) with 1 by (field; assumption). ring.
Qed.

Definition stepd_CInv (k : R) (s : stepd_st) : Prop :=
  (0 <= sn s)%Z /\ scorrect s = (if Reqb k 0 then 0%Z else sn s) /\
  sdrift s = false /\ swarning s = false.

Lemma stepd_constant : forall (c : stepd_cfg RealA) (k : R) ops,
  (k = 0 \/ k = 1) -> (1 <= sp_min c)%Z -> const_ops k ops ->
  sdrift (exec (STEPDD RealA) c ops) = false /\ swarning (exec (STEPDD RealA) c ops) = false.
Proof.
  intros c k ops Hk Hmin Hc.
  assert (H : stepd_CInv k (exec (STEPDD RealA) c ops)).
  { apply (const_invariant (STEPDD RealA) c k (stepd_CInv k)); [| | reflexivity | exact Hc].
    - unfold stepd_CInv. cbn [d_init STEPDD stepd_init sn scorrect sdrift swarning].
      repeat split; auto; [lia | destruct (Reqb k 0); reflexivity].
    - intros s (Hn & Hct & _ & _). cbn [d_step STEPDD]. unfold stepd_step. cbv zeta.
      assert (Hct' : (scorrect s + b2z (truthy (A:=RealA) k))%Z
                     = (if Reqb k 0 then 0%Z else (sn s + 1)%Z)).
      { rewrite Hct. unfold truthy, zero. cbn [eqb ofZ RealA].
        destruct (Reqb k 0); cbn [negb b2z]; lia. }
      assert (Hnone : forall nw cw,
                 stepd_stat (A:=RealA) (sn s + 1) (scorrect s + b2z (truthy (A:=RealA) k)) nw cw = None).
      { intros nw cw. apply stepd_stat_none. rewrite Hct'.
        destruct (Reqb k 0) eqn:E; [left; reflexivity | right; split; [reflexivity | lia]]. }
      rewrite Hnone.
      destruct (2 * sp_min c <=? sn s + 1)%Z; unfold stepd_CInv; cbn [sn scorrect sdrift swarning];
        (split; [lia|]); (split; [exact Hct'|]); split; reflexivity. }
  destruct H as (_ & _ & H1 & H2). split; assumption.
Qed.

(* ====================================================================== HDDM-W (constant 0) *)

Definition si0 (s : sinfo RealA) : Prop := si_mean s = 0.

Lemma si_init0 : si0 si_init.
Proof. reflexivity. Qed.

Lemma si_update0 (lam : R) (s : sinfo RealA) : si0 s -> si0 (si_update lam s 0).
Proof.
  unfold si0, si_update. intros H. cbn [si_mean add sub mul RealA num]. rewrite H. ring.
Qed.

Lemma mcd_check0 (s1 s2 : sinfo RealA) (a : R) : si0 s1 -> si0 s2 -> mcd_check s1 s2 a = false.
Proof.
  unfold si0, mcd_check, mcd_bound. intros H1 H2.
  cbn [add sub mul div sqrt ltb RealA num]. rewrite H1, H2. apply Rltb_false.
  match goal with |- _ <= R_sqrt.sqrt ?x => pose proof (sqrt_pos x) end. lra.
Qed.

Definition hddmw_CInv (s : hddmw_st RealA) : Prop :=
  si0 (wtotal s) /\ si0 (winc1 s) /\ si0 (winc2 s) /\ si0 (wdec1 s) /\ si0 (wdec2 s) /\
  wdrift s = false /\ wwarning s = false.

Ltac si0_tac := first [assumption | apply si_init0 | apply si_update0; assumption].

Lemma hddmw_constant_zero : forall (c : hddmw_cfg RealA) ops,
  0 < hw_alpha_d c <= 1 -> 0 < hw_alpha_w c <= 1 -> 0 <= hw_lambda c <= 1 -> const_ops 0 ops ->
  wdrift (exec (HDDMWD RealA) c ops) = false /\ wwarning (exec (HDDMWD RealA) c ops) = false.
Proof.
  intros c ops Hd Hw Hl Hc.
  assert (H : hddmw_CInv (exec (HDDMWD RealA) c ops)).
  { apply (const_invariant (HDDMWD RealA) c 0 hddmw_CInv); [| | reflexivity | exact Hc].
    - unfold hddmw_CInv. cbn [d_init HDDMWD hddmw_init wtotal winc1 winc2 wdec1 wdec2 wdrift wwarning].
      repeat split; apply si_init0.
    - intros s (Ht & Hi1 & Hi2 & Hd1 & Hd2 & _ & _). cbn [d_step HDDMWD].
      unfold hddmw_step. cbv zeta.
      destruct (lt_opt _ (winc_cut s)); destruct (hw_two c); try destruct (gt_opt _ (wdec_cut s));
        cbv beta iota;
        repeat rewrite mcd_check0 by si0_tac; cbn [orb];
        destruct (hw_min c <=? wn s + 1)%Z; unfold hddmw_CInv;
        cbn [wtotal winc1 winc2 wdec1 wdec2 wdrift wwarning];
        repeat split; si0_tac. }
  destruct H as (_ & _ & _ & _ & _ & H1 & H2). split; assumption.
Qed.

(* ====================================================================== HDDM-A *)

Lemma ln_inv_alpha_nonneg (alpha : R) : 0 < alpha <= 1 -> 0 <= Rpower.ln (1 / alpha).
Proof.
  intros [H0 H1].
  assert (H : 1 <= 1 / alpha).
  { unfold Rdiv. rewrite Rmult_1_l. rewrite <- Rinv_1 at 1. apply Rinv_le_contravar; lra. }
  destruct H as [H | H].
  - rewrite <- ln_1. left. apply ln_increasing; lra.
  - rewrite <- H, ln_1. lra.
Qed.

Lemma hoeff_mono (alpha : R) (n : Z) : 0 < alpha <= 1 -> (1 <= n)%Z ->
  hoeff_bound (A:=RealA) alpha (n + 1) <= hoeff_bound (A:=RealA) alpha n.
Proof.
  intros Ha Hn. unfold hoeff_bound, one. cbn [div sqrt ln ofZ RealA num].
  apply sqrt_le_1_alt. pose proof (ln_inv_alpha_nonneg alpha Ha) as Hln.
  unfold Rdiv at 1 3. apply Rmult_le_compat_l; [exact Hln|].
  apply Rinv_le_contravar; [apply IZR_lt; lia | apply IZR_le; lia].
Qed.

Lemma cut_x_const (alpha k : R) (m : mean_st RealA) :
  0 < alpha <= 1 -> mean_const k m ->
  (if @leb RealA
        (@add RealA (m_mean (mean_update m k)) (hoeff_bound alpha (m_n (mean_update m k))))
        (@add RealA (m_mean (if (m_n m =? 0)%Z then mean_update m k else m))
             (hoeff_bound alpha (m_n (if (m_n m =? 0)%Z then mean_update m k else m))))
   then mean_update m k else (if (m_n m =? 0)%Z then mean_update m k else m)) = mean_update m k.
Proof.
  intros Ha Hm. destruct (mean_update_const k m Hm) as [Hz Hzn]. destruct Hm as [Hn Hmk].
  destruct (m_n m =? 0)%Z eqn:E.
  - destruct (leb _ _); reflexivity.
  - apply Z.eqb_neq in E. rewrite Hz, Hzn, Hmk by lia.
    cbn [add leb RealA num].
    replace (Rleb _ _) with true; [reflexivity|].
    symmetry. apply Rleb_true. pose proof (hoeff_mono alpha (m_n m) Ha ltac:(lia)). lra.
Qed.

Lemma cut_y_const (alpha k : R) (m : mean_st RealA) :
  0 < alpha <= 1 -> mean_const k m ->
  (if @leb RealA
        (@sub RealA (m_mean (if (m_n m =? 0)%Z then mean_update m k else m))
             (hoeff_bound alpha (m_n (if (m_n m =? 0)%Z then mean_update m k else m))))
        (@sub RealA (m_mean (mean_update m k)) (hoeff_bound alpha (m_n (mean_update m k))))
   then mean_update m k else (if (m_n m =? 0)%Z then mean_update m k else m)) = mean_update m k.
Proof.
  intros Ha Hm. destruct (mean_update_const k m Hm) as [Hz Hzn]. destruct Hm as [Hn Hmk].
  destruct (m_n m =? 0)%Z eqn:E.
  - destruct (leb _ _); reflexivity.
  - apply Z.eqb_neq in E. rewrite Hz, Hzn, Hmk by lia.
    cbn [sub leb RealA num].
    replace (Rleb _ _) with true; [reflexivity|].
    symmetry. apply Rleb_true. pose proof (hoeff_mono alpha (m_n m) Ha ltac:(lia)). lra.
Qed.

Lemma side_cases_same (chk : R -> bool) n (c : hddma_cfg RealA) :
  side_cases (A:=RealA) chk n n c = (false, false).
Proof. unfold side_cases. rewrite Z.eqb_refl. reflexivity. Qed.

Definition hddma_CInv (c : hddma_cfg RealA) (k : R) (s : hddma_st RealA) : Prop :=
  mean_const k (hz s) /\ hx s = hz s /\ hy s = (if ha_two c then hz s else mean_init) /\
  hdrift s = false /\ hwarning s = false.

Lemma hddma_constant : forall (c : hddma_cfg RealA) (k : R) ops,
  0 < ha_alpha_d c <= 1 -> 0 < ha_alpha_w c <= 1 -> const_ops k ops ->
  hdrift (exec (HDDMAD RealA) c ops) = false /\ hwarning (exec (HDDMAD RealA) c ops) = false.
Proof.
  intros c k ops Hd Hw Hc.
  assert (H : hddma_CInv c k (exec (HDDMAD RealA) c ops)).
  { apply (const_invariant (HDDMAD RealA) c k (hddma_CInv c k)); [| | reflexivity | exact Hc].
    - unfold hddma_CInv. cbn [d_init HDDMAD hddma_init hx hz hy hdrift hwarning].
      split; [apply mean_const_init|]. repeat split; auto. destruct (ha_two c); reflexivity.
    - intros s (Hm & Hx & Hy & _ & _). cbn [d_step HDDMAD]. unfold hddma_step. cbv zeta.
      pose proof (mean_const_update k _ Hm) as Hmc.
      rewrite Hx. rewrite (cut_x_const (ha_alpha_d c) k (hz s) Hd Hm).
      rewrite side_cases_same.
      destruct (ha_two c) eqn:E2.
      + rewrite Hy. rewrite (cut_y_const (ha_alpha_d c) k (hz s) Hd Hm).
        rewrite side_cases_same. cbv beta iota. cbn [orb].
        destruct (ha_min c <=? hn s + 1)%Z; unfold hddma_CInv; cbn [hx hz hy hdrift hwarning];
          rewrite E2; repeat split; auto; apply Hmc.
      + cbv beta iota. cbn [orb].
        destruct (ha_min c <=? hn s + 1)%Z; unfold hddma_CInv; cbn [hx hz hy hdrift hwarning];
          rewrite E2; repeat split; auto; apply Hmc. }
  destruct H as (_ & _ & _ & H1 & H2). split; assumption.
Qed.

(* ====================================================================== KSWIN *)

Section KSWIN.
Local Open Scope Z_scope.

Lemma in_band_0 n m i j : in_band n m 0 i j = false.
Proof. unfold in_band. apply Z.ltb_ge. apply Z.abs_nonneg. Qed.

Lemma row_next_0 n m i : forall prev j left,
  row_next n m 0 i prev j left = repeat 0 (length prev).
Proof.
  induction prev as [|up r IH]; intros j left; cbn [row_next length repeat]; [reflexivity|].
  cbv zeta. rewrite in_band_0. rewrite IH. reflexivity.
Qed.

Lemma rows_0 n m : forall k i L, rows n m 0 k i (repeat 0 L) = repeat 0 L.
Proof.
  induction k as [|k IH]; intros i L; cbn [rows]; [reflexivity|].
  rewrite row_next_0, repeat_length. apply IH.
Qed.

Lemma last_repeat_0 : forall L, last (repeat 0 L) 0 = 0.
Proof.
  induction L as [|L IH]; [reflexivity|]. destruct L as [|L]; [reflexivity|].
  change (last (repeat 0 (S (S L))) 0) with (last (repeat 0 (S L)) 0). exact IH.
Qed.

Lemma paths_inside_0 n m : paths_inside n m 0 = 0.
Proof.
  unfold paths_inside. cbn [rows]. rewrite row_next_0. rewrite rows_0. apply last_repeat_0.
Qed.

Lemma in_band_total n m i j : 0 <= i <= n -> 0 <= j <= m -> in_band n m (n * m + 1) i j = true.
Proof.
  intros Hi Hj. unfold in_band. apply Z.ltb_lt.
  assert (0 <= i * m <= n * m) by nia.
  assert (0 <= j * n <= n * m) by nia. lia.
Qed.

Lemma row_next_length n m H i : forall prev j left,
  length (row_next n m H i prev j left) = length prev.
Proof.
  induction prev as [|up r IH]; intros j left; cbn [row_next length]; [reflexivity|].
  cbv zeta. cbn [length]. rewrite IH. reflexivity.
Qed.

Lemma row_next_pos n m i : 0 <= i <= n ->
  forall prev j left, 0 <= j -> j + Z.of_nat (length prev) <= m + 1 ->
    Forall (fun x => 0 <= x) prev -> 0 <= left -> (1 <= left \/ 1 <= hd 0 prev) ->
    Forall (fun x => 1 <= x) (row_next n m (n * m + 1) i prev j left).
Proof.
  intros Hi. induction prev as [|up r IH]; intros j left Hj Hlen Hnn Hl Hone; cbn [row_next].
  - constructor.
  - cbv zeta. cbn [length] in Hlen. rewrite in_band_total by lia.
    inversion Hnn as [|? ? Hup Hr]; subst. cbn [hd] in Hone.
    constructor; [lia|].
    apply IH; [lia | lia | exact Hr | lia | left; lia].
Qed.

Lemma rows_pos n m : 0 <= m -> forall k i prev, 0 <= i -> i + Z.of_nat k <= n + 1 ->
  Z.of_nat (length prev) = m + 1 -> Forall (fun x => 1 <= x) prev ->
  Forall (fun x => 1 <= x) (rows n m (n * m + 1) k i prev) /\
  Z.of_nat (length (rows n m (n * m + 1) k i prev)) = m + 1.
Proof.
  intros Hm. induction k as [|k IH]; intros i prev Hi Hik Hlen HF; cbn [rows].
  - split; assumption.
  - apply IH; [lia | lia | rewrite row_next_length; exact Hlen |].
    apply row_next_pos; [lia | lia | lia | | lia |].
    + eapply Forall_impl; [|exact HF]. cbv beta. intros; lia.
    + right. destruct prev as [|a r]; [cbn [length] in Hlen; lia|].
      inversion HF; subst. cbn [hd]. assumption.
Qed.

Lemma Forall_last {T} (P : T -> Prop) : forall l d, l <> [] -> Forall P l -> P (last l d).
Proof.
  induction l as [|a l IH]; intros d Hne HF; [congruence|].
  inversion HF as [|? ? Ha Hl]; subst. destruct l as [|b l']; [exact Ha|].
  apply (IH d); [discriminate | exact Hl].
Qed.

Lemma Forall_repeat {T} (P : T -> Prop) x n : P x -> Forall P (repeat x n).
Proof. intros H. induction n; cbn [repeat]; constructor; assumption. Qed.

Lemma paths_total_pos n m : 0 <= n -> 0 <= m -> 0 < paths_total n m.
Proof.
  intros Hn Hm. unfold paths_total, paths_inside. cbn [rows].
  set (r0 := row_next n m (n * m + 1) 0 (1 :: repeat 0 (Z.to_nat m)) 0 0).
  assert (Hlen0 : Z.of_nat (length (1 :: repeat 0 (Z.to_nat m))) = m + 1).
  { cbn [length]. rewrite repeat_length. lia. }
  assert (HF0 : Forall (fun x => 1 <= x) r0).
  { unfold r0. apply row_next_pos; [lia | lia | lia | | lia | right; cbn [hd]; lia].
    constructor; [lia|]. apply Forall_repeat. lia. }
  assert (Hl0 : Z.of_nat (length r0) = m + 1).
  { unfold r0. rewrite row_next_length. exact Hlen0. }
  destruct (rows_pos n m Hm (Z.to_nat n) (0 + 1) r0 ltac:(lia) ltac:(lia) Hl0 HF0) as [HF Hl].
  assert (Hne : rows n m (n * m + 1) (Z.to_nat n) (0 + 1) r0 <> []).
  { intros E. rewrite E in Hl. cbn [length] in Hl. lia. }
  pose proof (Forall_last (fun x => 1 <= x) _ 0 Hne HF) as HL. cbv beta in HL. lia.
Qed.

Lemma count_le_const (k : R) (l : list R) :
  Forall (fun x => x = k) l -> count_le (A:=RealA) k l = len (A:=RealA) l.
Proof.
  intros HF. unfold count_le, len.
  assert (G : forall acc,
    fold_left (fun acc (x : num RealA) => if @leb RealA x k then acc + 1 else acc) l acc
    = acc + Z.of_nat (length l)).
  { induction HF as [|x l Hx HF IH]; intros acc; cbn [fold_left length].
    - lia.
    - subst x. cbn [leb RealA].
      replace (Rleb k k) with true by (symmetry; apply Rleb_true; apply Rle_refl).
      rewrite IH. lia. }
  rewrite G. apply Z.add_0_l.
Qed.

Lemma ks_H_const (k : R) (X Y : list R) :
  Forall (fun x => x = k) X -> Forall (fun x => x = k) Y -> ks_H (A:=RealA) X Y = 0.
Proof.
  intros HX HY. unfold ks_H.
  assert (G : forall l : list R, Forall (fun x => x = k) l ->
    fold_left (fun acc (z : num RealA) =>
       Z.max acc (Z.abs (count_le (A:=RealA) z X * len (A:=RealA) Y
                         - count_le (A:=RealA) z Y * len (A:=RealA) X))) l 0 = 0).
  { intros l HF. induction HF as [|z l Hz HF IH]; cbn [fold_left]; [reflexivity|].
    subst z. rewrite !(count_le_const k) by assumption.
    replace (len X * len Y - len Y * len X) with 0 by ring.
    cbn [Z.abs Z.max Z.compare]. exact IH. }
  apply G. apply Forall_app; split; assumption.
Qed.

Lemma len_nonneg (l : list R) : 0 <= len (A:=RealA) l.
Proof. unfold len. lia. Qed.

Lemma ks_p_le_const (k : R) (X Y : list R) a b :
  Forall (fun x => x = k) X -> Forall (fun x => x = k) Y -> a < b ->
  ks_p_le (A:=RealA) X Y a b = false.
Proof.
  intros HX HY Hab. unfold ks_p_le, ks_p_frac. cbv zeta beta iota.
  rewrite (ks_H_const k) by assumption. rewrite paths_inside_0.
  pose proof (paths_total_pos _ _ (len_nonneg X) (len_nonneg Y)) as Hpos.
  apply Z.leb_gt. nia.
Qed.

Lemma Forall_skipn {T} (P : T -> Prop) : forall n l, Forall P l -> Forall P (skipn n l).
Proof.
  induction n as [|n IH]; intros l HF; [exact HF|].
  destruct l as [|a l]; [constructor|]. inversion HF; subst. cbn [skipn]. apply IH. assumption.
Qed.

Lemma Forall_lastn {T} (P : T -> Prop) n (l : list T) : Forall P l -> Forall P (lastn n l).
Proof. unfold lastn. apply Forall_skipn. Qed.

Definition kswin_CInv (k : R) (s : kswin_st RealA) : Prop :=
  Forall (fun x => x = k) (kwin s) /\ kdrift s = false.

Lemma kswin_constant : forall (c : kswin_cfg) (k : R) (ops : list (op (R * list R))),
  (0 < kw_alpha_num c)%Z -> (kw_alpha_num c < kw_alpha_den c)%Z -> (1 <= kw_test c)%Z ->
  Forall (fun o => o = Rst \/ exists sample, o = Upd (k, sample) /\
            (sample = [] \/ (length sample = Z.to_nat (kw_test c) /\ Forall (fun x => x = k) sample))) ops ->
  kdrift (exec (KSWIND RealA) c ops) = false.
Proof.
  intros c k ops Hnum Hden Htest Hops.
  assert (G : forall ops s,
    Forall (fun o => o = Rst \/ exists sample, o = Upd (k, sample) /\
            (sample = [] \/ (length sample = Z.to_nat (kw_test c) /\ Forall (fun x => x = k) sample))) ops ->
    kswin_CInv k s -> kswin_CInv k (exec_from (KSWIND RealA) c s ops)).
  { clear ops Hops. induction ops as [|o r IH]; intros s Hc Hi.
    - exact Hi.
    - rewrite exec_from_cons. inversion Hc as [|o' r' Ho Hr']; subst.
      apply IH; [exact Hr'|].
      destruct Ho as [-> | (sample & -> & Hsample)]; cbn [apply].
      + split; [constructor | reflexivity].
      + destruct Hi as [Hwin _]. cbn [d_step KSWIND]. unfold kswin_step. cbv zeta.
        assert (HS : Forall (fun x => x = k) sample).
        { destruct Hsample as [-> | [_ HS]]; [constructor | exact HS]. }
        assert (HW : Forall (fun x : R => x = k) (lastn (Z.to_nat (kw_min c)) (kwin s ++ [k]))).
        { apply Forall_lastn. apply Forall_app. split; [exact Hwin|]. constructor; [reflexivity|constructor]. }
        unfold kswin_CInv. cbn [kwin kdrift]. split; [exact HW|].
        rewrite (ks_p_le_const k); [apply andb_false_r | exact HS | apply Forall_lastn; exact HW | exact Hden]. }
  destruct (G ops (d_init (KSWIND RealA) c) Hops) as [_ H].
  - split; [constructor | reflexivity].
  - exact H.
Qed.

End KSWIN.

(* ====================================================================== RDDM *)

(** every slot of the prediction queue is empty or holds the constant *)
Definition slot_ok (k : R) (o : option R) : Prop := o = None \/ o = Some k.
Definition slots_ok (k : R) (q : cq R) : Prop := Forall (slot_ok k) (q_slots q).

Lemma slots_ok_init k n : slots_ok k (cq_init n).
Proof. unfold slots_ok, cq_init. cbn [q_slots]. apply Forall_repeat. left. reflexivity. Qed.

Lemma Forall_set_nth {T} (P : T -> Prop) (x : T) : forall l n, P x -> Forall P l -> Forall P (set_nth n x l).
Proof.
  induction l as [|a l IH]; intros n Hx HF; cbn [set_nth].
  - destruct n; constructor.
  - inversion HF; subst. destruct n; constructor; auto.
Qed.

Lemma slots_ok_enqueue k (q q' : cq R) el :
  slots_ok k q -> cq_enqueue q k = Ok (q', el) -> slots_ok k q'.
Proof.
  unfold slots_ok, cq_enqueue, cq_dequeue. intros Hq He.
  destruct (cq_is_full q).
  - destruct (cq_is_empty q); [discriminate|]. destruct (q_max q =? 0)%Z eqn:E0; [discriminate|].
    cbn [bind q_max q_last q_slots q_count q_first] in He. rewrite E0 in He.
    inversion He; subst. cbn [q_slots]. apply Forall_set_nth; [right; reflexivity | exact Hq].
  - cbn [bind] in He. destruct (q_max q =? 0)%Z; [discriminate|].
    inversion He; subst. cbn [q_slots]. apply Forall_set_nth; [right; reflexivity | exact Hq].
Qed.

Lemma slots_ok_enqueue_or k (q : cq R) :
  slots_ok k q -> slots_ok k (match cq_enqueue q k with Ok (q', _) => q' | Raise _ => q end).
Proof.
  intros Hq. destruct (cq_enqueue q k) as [[q' el]|e] eqn:E; [|exact Hq].
  eapply slots_ok_enqueue; eauto.
Qed.

Lemma slots_ok_keep_last k (q : cq R) : slots_ok k q -> slots_ok k (cq_keep_last q).
Proof. unfold slots_ok, cq_keep_last. intros H. destruct (cq_is_empty q); exact H. Qed.

Lemma read_from_ok k (q : cq R) : slots_ok k q -> forall n pos, Forall (slot_ok k) (read_from q pos n).
Proof.
  intros Hq. induction n as [|n IH]; intros pos; cbn [read_from]; constructor; [|apply IH].
  unfold slot. destruct (nth_in_or_default (Z.to_nat pos) (q_slots q) None) as [Hin | ->].
  - unfold slots_ok in Hq. rewrite Forall_forall in Hq. apply Hq. exact Hin.
  - left. reflexivity.
Qed.

Lemma cq_abs_ok k (q : cq R) : slots_ok k q -> Forall (slot_ok k) (cq_abs q).
Proof. intros Hq. unfold cq_abs. apply read_from_ok. exact Hq. Qed.

Definition mins_ok (k : R) (m : mins (A:=RealA)) : Prop := m = None \/ m = Some (k, 0).

Definition rebuild_good (k : R) (acc : Z * mean_st RealA * mins (A:=RealA)) : Prop :=
  mean_const k (snd (fst acc)) /\ mins_ok k (snd acc).

Lemma rebuild_one_good (c : rddm_cfg RealA) (k : R) (d : bool) acc ov :
  (k = 0 \/ k = 1) -> rebuild_good k acc -> slot_ok k ov -> rebuild_good k (rebuild_one c d acc ov).
Proof.
  intros Hk Hacc Hov. destruct acc as [[n er] m]. destruct Hacc as [Hm Hmin]. cbn [fst snd] in Hm, Hmin.
  unfold rebuild_one. destruct Hov as [-> | ->]; [split; assumption|].
  cbv zeta. destruct (mean_update_const k _ Hm) as [Hm' _].
  rewrite Hm'. rewrite (eps_std_const k _ Hk). cbv beta iota.
  split; cbn [fst snd]; [apply mean_const_update; exact Hm|].
  destruct (d && (rd_min c <=? n + 1)%Z); [|exact Hmin].
  right. apply update_mins_const. exact Hmin.
Qed.

Lemma rebuild_good_fold (c : rddm_cfg RealA) (k : R) (d : bool) :
  (k = 0 \/ k = 1) -> forall l acc, Forall (slot_ok k) l -> rebuild_good k acc ->
  rebuild_good k (fold_left (rebuild_one c d) l acc).
Proof.
  intros Hk. induction l as [|ov l IH]; intros acc HF Hacc; cbn [fold_left]; [exact Hacc|].
  inversion HF; subst. apply IH; [assumption|]. apply rebuild_one_good; assumption.
Qed.

Definition rddm_CInv (k : R) (s : rddm_st RealA) : Prop :=
  mean_const k (rer s) /\ mins_ok k (rmins s) /\ rdrift s = false /\ rwarning s = false /\
  slots_ok k (rpred s).

Lemma rdd_drift_case_inv (c : rddm_cfg RealA) (k : R) (s : rddm_st RealA) :
  (k = 0 \/ k = 1) -> rddm_CInv k s -> rddm_CInv k (rdd_drift_case c s).
Proof.
  intros Hk (Hm & Hmin & Hd & Hw & Hq). unfold rdd_drift_case.
  pose proof (rebuild_good_fold c k (rdrift s) Hk (cq_abs (rpred s)) (0%Z, mean_init, None)
                (cq_abs_ok k _ Hq)) as HG.
  destruct (fold_left (rebuild_one c (rdrift s)) (cq_abs (rpred s)) (0%Z, mean_init, None))
    as [[n er] m].
  destruct HG as [HG1 HG2].
  { split; cbn [fst snd]; [apply mean_const_init | left; reflexivity]. }
  cbn [fst snd] in HG1, HG2.
  unfold rddm_CInv. cbn [rer rmins rdrift rwarning rpred]. repeat split; auto; apply HG1.
Qed.

Lemma rddm_constant : forall (c : rddm_cfg RealA) (k : R) ops,
  (k = 0 \/ k = 1) -> 0 < rd_warn c -> 0 < rd_drift c -> (1 <= rd_min_concept c)%Z ->
  const_ops k ops ->
  rdrift (exec (RDDMD RealA) c ops) = false /\ rwarning (exec (RDDMD RealA) c ops) = false.
Proof.
  intros c k ops Hk Hw Hd Hmc Hc.
  assert (H : rddm_CInv k (exec (RDDMD RealA) c ops)).
  { apply (const_invariant (RDDMD RealA) c k (rddm_CInv k)); [| | reflexivity | exact Hc].
    - unfold rddm_CInv. cbn [d_init RDDMD rddm_init rer rmins rdrift rwarning rpred].
      split; [apply mean_const_init|]. split; [left; reflexivity|].
      split; [reflexivity|]. split; [reflexivity|]. apply slots_ok_init.
    - intros s0 Hs0. cbn [d_step RDDMD]. unfold rddm_step. cbv zeta.
      match goal with
      | |- context [if ?b then rdd_drift_case c ?s1 else ?s1] =>
          assert (Hs' : rddm_CInv k (if b then rdd_drift_case c s1 else s1));
          [ assert (Hs1 : rddm_CInv k s1) by exact Hs0;
            destruct b; [apply rdd_drift_case_inv; assumption | exact Hs1]
          | revert Hs'; generalize (if b then rdd_drift_case c s1 else s1); intros s' Hs' ]
      end.
      destruct Hs' as (Hm & Hmin & _ & _ & Hq).
      set (pred := match cq_enqueue (rpred s') k with Ok (q, _) => q | Raise _ => rpred s' end).
      assert (Hpred : slots_ok k pred) by (apply slots_ok_enqueue_or; exact Hq).
      clearbody pred.
      destruct (mean_update_const k _ Hm) as [Hm' _].
      pose proof (mean_const_update k _ Hm) as Hmcu.
      rewrite Hm'. rewrite (eps_std_const k _ Hk). cbv beta iota.
      rewrite (update_mins_const k _ Hmin). rewrite !check_thr_const. cbv beta iota.
      destruct (rd_min c <=? rn s')%Z; unfold rddm_CInv; cbn [rer rmins rdrift rwarning rpred].
      + split; [exact Hmcu|]. split; [right; reflexivity|]. repeat split; auto.
      + split; [exact Hmcu|]. split; [exact Hmin|]. repeat split; auto. }
  destruct H as (_ & _ & H1 & H2 & _). split; assumption.
Qed.

(* ====================================================================== ADWIN *)

(** every bucket of a row of level [lvl + i] holds [2^(lvl+i)] copies of k *)
Definition bkt_ok (k : R) (lvl : Z) (b : bkt (A:=RealA)) : Prop := fst b = k * IZR (pow2 lvl).

Fixpoint rows_ok (k : R) (lvl : Z) (rows : list (row (A:=RealA))) : Prop :=
  match rows with
  | [] => True
  | r :: rest => Forall (bkt_ok k lvl) r /\ rows_ok k (lvl + 1) rest
  end.

Lemma pow2_succ lvl : (0 <= lvl)%Z -> pow2 (lvl + 1) = (2 * pow2 lvl)%Z.
Proof. intros H. unfold pow2. rewrite Z.pow_add_r by lia. rewrite Z.pow_1_r. lia. Qed.

Lemma merge2_ok k lvl (b1 b2 : bkt (A:=RealA)) : (0 <= lvl)%Z ->
  bkt_ok k lvl b1 -> bkt_ok k lvl b2 -> bkt_ok k (lvl + 1) (merge2 lvl b1 b2).
Proof.
  unfold bkt_ok. intros Hl H1 H2. unfold merge2. cbv zeta. cbn [fst].
  rewrite H1, H2, pow2_succ by exact Hl. cbn [add RealA num]. rewrite mult_IZR. ring.
Qed.

Lemma compress_ok (k : R) (m : Z) : forall rows lvl carry, (0 <= lvl)%Z ->
  rows_ok k lvl rows ->
  match carry with None => True | Some b => bkt_ok k lvl b end ->
  rows_ok k lvl (compress m lvl carry rows).
Proof.
  induction rows as [|r rest IH]; intros lvl carry Hl Hrows Hcarry; cbn [compress].
  - destruct carry as [b|]; cbn [rows_ok]; [|exact I]. split; [|exact I].
    constructor; [exact Hcarry | constructor].
  - destruct Hrows as [Hr Hrest].
    set (r1 := match carry with None => r | Some b => r ++ [b] end).
    assert (Hr1 : Forall (bkt_ok k lvl) r1).
    { unfold r1. destruct carry as [b|]; [|exact Hr].
      apply Forall_app. split; [exact Hr|]. constructor; [exact Hcarry | constructor]. }
    clearbody r1.
    destruct (Z.of_nat (length r1) =? m + 1)%Z.
    + destruct r1 as [|b1 [|b2 r2]].
      * cbn [rows_ok]. split; assumption.
      * cbn [rows_ok]. split; assumption.
      * inversion Hr1 as [|? ? Hb1 Hr1']; subst. inversion Hr1' as [|? ? Hb2 Hr2]; subst.
        cbn [rows_ok]. split; [exact Hr2|].
        apply IH; [lia | exact Hrest |]. apply merge2_ok; assumption.
    + cbn [rows_ok]. split; assumption.
Qed.

Definition sized_ok (k : R) (sb : Z * bkt (A:=RealA)) : Prop := fst (snd sb) = k * IZR (fst sb).

Lemma flat_from_ok (k : R) : forall rows lvl, rows_ok k lvl rows -> Forall (sized_ok k) (flat_from lvl rows).
Proof.
  induction rows as [|r rest IH]; intros lvl Hrows; cbn [flat_from]; [constructor|].
  destruct Hrows as [Hr Hrest]. apply Forall_app. split; [apply IH; exact Hrest|].
  apply Forall_map. eapply Forall_impl; [|exact Hr].
  intros b Hb. unfold sized_ok. cbn [fst snd]. exact Hb.
Qed.

Definition adwin_CInv (k : R) (s : adwin_st RealA) : Prop :=
  rows_ok k 0 (arows s) /\ atotal s = k * IZR (awidth s).

Lemma adwin_insert_inv (c : adwin_cfg RealA) (k : R) (s : adwin_st RealA) :
  adwin_CInv k s -> adwin_CInv k (adwin_insert c s k).
Proof.
  intros [Hrows Htot]. unfold adwin_insert. cbv zeta. unfold adwin_CInv. cbn [arows atotal awidth].
  split.
  - assert (Hb : bkt_ok k 0 (k, zero)).
    { unfold bkt_ok. cbn [fst]. replace (pow2 0) with 1%Z by reflexivity.
      change (k = k * 1). ring. }
    apply compress_ok; [lia | | exact I].
    destruct (arows s) as [|r0 rest].
    + cbn [rows_ok]. split; [|exact I]. constructor; [exact Hb | constructor].
    + destruct Hrows as [Hr0 Hrest]. cbn [rows_ok]. split; [|exact Hrest].
      apply Forall_app. split; [exact Hr0|]. constructor; [exact Hb | constructor].
  - cbn [add RealA num]. rewrite Htot, plus_IZR. ring.
Qed.

Lemma absA_0 : absA (A:=RealA) 0 = 0.
Proof.
  unfold absA, zero. cbn [ltb sub ofZ RealA num].
  replace (Rltb 0 0) with false by (symmetry; apply Rltb_false; lra). reflexivity.
Qed.

Lemma dp_nonneg (W delta : R) : 0 < delta < 1 -> 2 <= W ->
  0 <= Rpower.ln (2 * Rpower.ln W / delta).
Proof.
  intros Hd HW.
  assert (Hln : / 2 < Rpower.ln W).
  { pose proof ln_lt_2 as H2. destruct HW as [HW | <-]; [|exact H2].
    pose proof (ln_increasing 2 W ltac:(lra) HW). lra. }
  assert (Hinv : 1 < / delta).
  { rewrite <- Rinv_1. apply Rinv_lt_contravar; lra. }
  assert (Hx : 1 < 2 * Rpower.ln W / delta).
  { unfold Rdiv. nra. }
  rewrite <- ln_1. left. apply ln_increasing; lra.
Qed.

Lemma split_exceeds_const (c : adwin_cfg RealA) (k : R) (s : adwin_st RealA) (w0 w1 : Z) (t0 t1 : R) :
  0 < ad_delta c < 1 -> (1 <= ad_mws c)%Z -> (w0 + w1 = awidth s)%Z ->
  t0 = k * IZR w0 -> t1 = k * IZR w1 -> split_exceeds c s w0 w1 t0 t1 = false.
Proof.
  intros Hd Hmws Hw Ht0 Ht1. unfold split_exceeds.
  destruct (ad_mws c <? w1)%Z eqn:E1; [|reflexivity].
  destruct (ad_mws c <? w0)%Z eqn:E0; [|reflexivity].
  cbn [andb]. unfold eps_cut. cbv zeta.
  destruct ((w0 =? ad_mws c + 1) || (w1 =? ad_mws c + 1))%Z eqn:E; [reflexivity|].
  apply Z.ltb_lt in E1, E0. apply orb_false_iff in E. destruct E as [Ea Eb].
  apply Z.eqb_neq in Ea, Eb.
  unfold two, one. cbn [add sub mul div sqrt ln ltb ofZ RealA num].
  assert (Hw0 : IZR w0 <> 0) by (apply not_0_IZR; lia).
  assert (Hw1 : IZR w1 <> 0) by (apply not_0_IZR; lia).
  replace (t0 / IZR w0 - t1 / IZR w1) with 0 by (rewrite Ht0, Ht1; field; split; assumption).
  rewrite absA_0. apply Rltb_false.
  assert (HW : 2 <= IZR (awidth s)) by (apply IZR_le; lia).
  pose proof (dp_nonneg _ _ Hd HW) as Hdp.
  assert (Ha : 0 < 1 / IZR (w0 - (ad_mws c + 1))).
  { apply Rdiv_lt_0_compat; [lra|]. apply IZR_lt. lia. }
  assert (Hb : 0 < 1 / IZR (w1 - (ad_mws c + 1))).
  { apply Rdiv_lt_0_compat; [lra|]. apply IZR_lt. lia. }
  match goal with |- 0 <= R_sqrt.sqrt ?x + _ => pose proof (sqrt_pos x) as Hs end.
  match goal with |- 0 <= _ + ?a * ?b => assert (0 <= a * b) by (apply Rmult_le_pos; lra) end.
  lra.
Qed.

Lemma scan_const (c : adwin_cfg RealA) (k : R) (s : adwin_st RealA) :
  0 < ad_delta c < 1 -> (1 <= ad_mws c)%Z ->
  forall bs w0 w1 t0 t1, Forall (sized_ok k) bs -> (w0 + w1 = awidth s)%Z ->
    t0 = k * IZR w0 -> t1 = k * IZR w1 -> scan c s bs w0 w1 t0 t1 = false.
Proof.
  intros Hd Hmws. induction bs as [|[size b] r IH]; intros w0 w1 t0 t1 HF Hw Ht0 Ht1; cbn [scan].
  - reflexivity.
  - cbv zeta. inversion HF as [|? ? Hb Hr]; subst. unfold sized_ok in Hb. cbn [fst snd] in Hb.
    assert (H0 : @add RealA (k * IZR w0) (fst b) = k * IZR (w0 + size)).
    { rewrite Hb. cbn [add RealA num]. rewrite plus_IZR. ring. }
    assert (H1 : @sub RealA (k * IZR w1) (fst b) = k * IZR (w1 - size)).
    { rewrite Hb. cbn [sub RealA num]. rewrite minus_IZR. ring. }
    rewrite (split_exceeds_const c k s) by (first [assumption | lia]).
    apply IH; first [assumption | lia].
Qed.

Lemma found_cut_const (c : adwin_cfg RealA) (k : R) (s : adwin_st RealA) :
  0 < ad_delta c < 1 -> (1 <= ad_mws c)%Z -> adwin_CInv k s -> found_cut c s = false.
Proof.
  intros Hd Hmws [Hrows Htot]. unfold found_cut.
  apply (scan_const c k s Hd Hmws).
  - unfold flat. apply flat_from_ok. exact Hrows.
  - lia.
  - unfold zero. cbn [ofZ RealA]. ring.
  - exact Htot.
Qed.

Lemma adwin_constant : forall (c : adwin_cfg RealA) (k : R) ops,
  0 <= k -> 0 < ad_delta c < 1 -> (1 <= ad_m c)%Z -> (1 <= ad_mws c)%Z -> (1 <= ad_clock c)%Z ->
  const_ops k ops -> adrift (exec (ADWIND RealA) c ops) = false.
Proof.
  intros c k ops Hk Hd Hm Hmws Hclk Hc.
  assert (H : adwin_CInv k (exec (ADWIND RealA) c ops) /\ adrift (exec (ADWIND RealA) c ops) = false).
  { apply (const_invariant (ADWIND RealA) c k (fun s => adwin_CInv k s /\ adrift s = false));
      [| | reflexivity | exact Hc].
    - split; [|reflexivity]. unfold adwin_CInv.
      cbn [d_init ADWIND adwin_init arows atotal awidth rows_ok].
      split; [split; [constructor | exact I]|]. change (0 = k * 0). ring.
    - intros s [Hs _]. cbn [d_step ADWIND]. unfold adwin_step. cbv zeta.
      pose proof (adwin_insert_inv c k s Hs) as Hs1.
      destruct (is_check c (an s + 1) (awidth (adwin_insert c s k))).
      + cbn [shrink]. rewrite (found_cut_const c k _ Hd Hmws Hs1). cbv beta iota.
        unfold adwin_CInv. cbn [arows atotal awidth adrift]. split; [exact Hs1 | reflexivity].
      + unfold adwin_CInv. cbn [arows atotal awidth adrift]. split; [exact Hs1 | reflexivity]. }
  destruct H as [_ H]. exact H.
Qed.
