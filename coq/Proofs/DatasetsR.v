(** Lemmas about Model/Datasets.v (property C20). *)
From Coq Require Import ZArith List Bool Reals Lia Lra.
From FV Require Import NumSys RealA Py Datasets.
Import ListNotations.

(* ====================================================================== *)
(** * Generators: closed form of draining the lazy iterator (every Arith)   *)
(* ====================================================================== *)

Section GenAny.
  Context {A : Arith}.

  Lemma sea_drain_closed : forall fuel (g : sea_gen A) rng,
    sea_drain fuel g rng =
    map (fun i => sea_sample (g_thr g) (g_noise g) (rng i))
        (seq (g_pos g) (Nat.min fuel (Z.to_nat (g_n g) - g_pos g))).
  Proof.
    induction fuel as [|k IH]; intros g rng; [reflexivity|].
    cbn [sea_drain]. unfold sea_next.
    destruct (Z.of_nat (g_pos g) <? g_n g)%Z eqn:E.
    - apply Z.ltb_lt in E.
      assert (Hs : (Z.to_nat (g_n g) - g_pos g = S (Z.to_nat (g_n g) - S (g_pos g)))%nat) by lia.
      rewrite Hs. cbn [Nat.min seq map]. f_equal. rewrite IH. reflexivity.
    - apply Z.ltb_ge in E.
      assert (Hs : (Z.to_nat (g_n g) - g_pos g = 0)%nat) by lia.
      rewrite Hs. reflexivity.
  Qed.

  Lemma dummy_drain_closed : forall fuel (g : dummy_gen) (rng : nat -> dummy_draw A),
    dummy_drain fuel g rng =
    map (fun i => dummy_sample (h_cls g) (rng i))
        (seq (h_pos g) (Nat.min fuel (Z.to_nat (h_n g) - h_pos g))).
  Proof.
    induction fuel as [|k IH]; intros g rng; [reflexivity|].
    cbn [dummy_drain]. unfold dummy_next.
    destruct (Z.of_nat (h_pos g) <? h_n g)%Z eqn:E.
    - apply Z.ltb_lt in E.
      assert (Hs : (Z.to_nat (h_n g) - h_pos g = S (Z.to_nat (h_n g) - S (h_pos g)))%nat) by lia.
      rewrite Hs. cbn [Nat.min seq map]. f_equal. rewrite IH. reflexivity.
    - apply Z.ltb_ge in E.
      assert (Hs : (Z.to_nat (h_n g) - h_pos g = 0)%nat) by lia.
      rewrite Hs. reflexivity.
  Qed.

  (** inversion of the argument checks *)
  Lemma sea_generate_inv : forall block noise ns (g : sea_gen A),
    sea_generate block noise ns = Ok g ->
    block_lookup block = Ok (g_thr g) /\ n_lt1 ns = Ok false /\
    noise_check noise = Ok (g_noise g) /\ n_range ns = Ok (g_n g) /\ g_pos g = 0%nat.
  Proof.
    intros block noise ns g. unfold sea_generate, bind.
    destruct (block_lookup block) as [thr|e]; [|discriminate].
    destruct (n_lt1 ns) as [[|]|e]; try discriminate.
    destruct (noise_check noise) as [nz|e]; [|discriminate].
    destruct (n_range ns) as [n|e]; [|discriminate].
    intros H. injection H as <-. cbn. auto.
  Qed.

  Lemma dummy_generate_inv : forall (cls ns : pyval A) (g : dummy_gen),
    dummy_generate cls ns = Ok g ->
    class_check cls = Ok (h_cls g) /\ n_lt1 ns = Ok false /\ n_range ns = Ok (h_n g) /\ h_pos g = 0%nat.
  Proof.
    intros cls ns g. unfold dummy_generate, bind.
    destruct (class_check cls) as [c|e]; [|discriminate].
    destruct (n_lt1 ns) as [[|]|e]; try discriminate.
    destruct (n_range ns) as [n|e]; [|discriminate].
    intros H. injection H as <-. cbn. auto.
  Qed.

  (** accepted [num_samples]: an int / bool >= 1 *)
  Lemma n_checks_pos : forall (ns : pyval A) n, n_lt1 ns = Ok false -> n_range ns = Ok n -> (1 <= n)%Z.
  Proof.
    intros [z|[|]|x| | | |] n H1 H2; cbn in *; try discriminate.
    - injection H1 as H1. injection H2 as <-. apply Z.ltb_ge in H1. exact H1.
    - injection H2 as <-. lia.
  Qed.

  (** [list(generate_dataset(...))] in closed form: sample i is a function of draw i only *)
  Lemma sea_dataset_closed : forall block noise ns rng (l : list (@sample A)),
    sea_dataset block noise ns rng = Ok l ->
    exists g, sea_generate block noise ns = Ok g /\ (1 <= g_n g)%Z /\
      l = map (fun i => sea_sample (g_thr g) (g_noise g) (rng i)) (seq 0 (Z.to_nat (g_n g))).
  Proof.
    intros block noise ns rng l. unfold sea_dataset, bind.
    destruct (sea_generate block noise ns) as [g|e] eqn:G; [|discriminate].
    intros H.
    assert (Hl : sea_drain (S (Z.to_nat (g_n g))) g rng = l) by (injection H; intros E; exact E).
    clear H. subst l. exists g. split; [reflexivity|].
    destruct (sea_generate_inv _ _ _ _ G) as (_ & H1 & _ & H2 & Hp).
    split; [exact (n_checks_pos _ _ H1 H2)|].
    rewrite sea_drain_closed, Hp. f_equal. f_equal. lia.
  Qed.

  Lemma dummy_dataset_closed : forall cls ns rng (l : list (@sample A)),
    dummy_dataset cls ns rng = Ok l ->
    exists g, dummy_generate cls ns = Ok g /\ (1 <= h_n g)%Z /\
      l = map (fun i => dummy_sample (h_cls g) (rng i)) (seq 0 (Z.to_nat (h_n g))).
  Proof.
    intros cls ns rng l. unfold dummy_dataset, bind.
    destruct (dummy_generate cls ns) as [g|e] eqn:G; [|discriminate].
    intros H.
    assert (Hl : dummy_drain (S (Z.to_nat (h_n g))) g rng = l) by (injection H; intros E; exact E).
    clear H. subst l. exists g. split; [reflexivity|].
    destruct (dummy_generate_inv _ _ _ G) as (_ & H1 & H2 & Hp).
    split; [exact (n_checks_pos _ _ H1 H2)|].
    rewrite dummy_drain_closed, Hp. f_equal. f_equal. lia.
  Qed.

  (** gen_count: exactly [num_samples] samples, and the iterator then raises StopIteration *)
  Lemma sea_count : forall block noise ns rng (l : list (@sample A)),
    sea_dataset block noise ns rng = Ok l ->
    exists n, n_range ns = Ok n /\ (1 <= n)%Z /\ Z.of_nat (length l) = n.
  Proof.
    intros block noise ns rng l H.
    destruct (sea_dataset_closed _ _ _ _ _ H) as (g & G & Hn & ->).
    destruct (sea_generate_inv _ _ _ _ G) as (_ & _ & _ & H2 & _).
    exists (g_n g). repeat split; auto. rewrite map_length, seq_length. lia.
  Qed.

  Lemma dummy_count : forall cls ns rng (l : list (@sample A)),
    dummy_dataset cls ns rng = Ok l ->
    exists n, n_range ns = Ok n /\ (1 <= n)%Z /\ Z.of_nat (length l) = n.
  Proof.
    intros cls ns rng l H.
    destruct (dummy_dataset_closed _ _ _ _ H) as (g & G & Hn & ->).
    destruct (dummy_generate_inv _ _ _ G) as (_ & _ & H2 & _).
    exists (h_n g). repeat split; auto. rewrite map_length, seq_length. lia.
  Qed.

  Lemma firstn_seq' : forall k s n, firstn k (seq s n) = seq s (Nat.min k n).
  Proof.
    induction k as [|k IH]; intros s n; [reflexivity|].
    destruct n as [|n]; [reflexivity|]. cbn [seq firstn Nat.min]. f_equal. apply IH.
  Qed.

  (** lazy consumption: [k] calls of [next] give the first [k] samples of the full list *)
  Lemma sea_prefix : forall block noise ns rng (g : sea_gen A) k,
    sea_generate block noise ns = Ok g ->
    sea_drain k g rng = firstn k (sea_drain (S (Z.to_nat (g_n g))) g rng).
  Proof.
    intros block noise ns rng g k G.
    destruct (sea_generate_inv _ _ _ _ G) as (_ & _ & _ & _ & Hp).
    rewrite !sea_drain_closed, Hp, firstn_map. f_equal.
    rewrite firstn_seq'. f_equal. lia.
  Qed.

  Lemma sea_stop : forall (g : sea_gen A) d, (g_n g <= Z.of_nat (g_pos g))%Z -> sea_next g d = None.
  Proof. intros g d H. unfold sea_next. apply Z.ltb_ge in H. rewrite H. reflexivity. Qed.

  (** gen_deterministic: the data set is a function of the arguments and of the draws
      consumed; two runs that see the same draws (same seed, nobody else using the global
      generator) give the same list *)
  Lemma sea_deterministic : forall block noise ns rng rng' (l : list (@sample A)),
    sea_dataset block noise ns rng = Ok l ->
    (forall i, (i < length l)%nat -> rng i = rng' i) ->
    sea_dataset block noise ns rng' = Ok l.
  Proof.
    intros block noise ns rng rng' l H Heq.
    destruct (sea_dataset_closed _ _ _ _ _ H) as (g & G & Hn & Hl).
    unfold sea_dataset, bind. rewrite G. f_equal.
    destruct (sea_generate_inv _ _ _ _ G) as (_ & _ & _ & _ & Hp).
    rewrite sea_drain_closed, Hp.
    replace (Nat.min (S (Z.to_nat (g_n g))) (Z.to_nat (g_n g) - 0)) with (Z.to_nat (g_n g)) by lia.
    rewrite Hl. apply map_ext_in. intros i Hi. apply in_seq in Hi.
    rewrite Hl, map_length, seq_length in Heq. rewrite (Heq i); [reflexivity|lia].
  Qed.

  Lemma dummy_deterministic : forall cls ns rng rng' (l : list (@sample A)),
    dummy_dataset cls ns rng = Ok l ->
    (forall i, (i < length l)%nat -> rng i = rng' i) ->
    dummy_dataset cls ns rng' = Ok l.
  Proof.
    intros cls ns rng rng' l H Heq.
    destruct (dummy_dataset_closed _ _ _ _ H) as (g & G & Hn & Hl).
    unfold dummy_dataset, bind. rewrite G. f_equal.
    destruct (dummy_generate_inv _ _ _ G) as (_ & _ & _ & Hp).
    rewrite dummy_drain_closed, Hp.
    replace (Nat.min (S (Z.to_nat (h_n g))) (Z.to_nat (h_n g) - 0)) with (Z.to_nat (h_n g)) by lia.
    rewrite Hl. apply map_ext_in. intros i Hi. apply in_seq in Hi.
    rewrite Hl, map_length, seq_length in Heq. rewrite (Heq i); [reflexivity|lia].
  Qed.

  (** features are the uniform draws, untouched *)
  Lemma sea_nth : forall block noise ns rng (l : list (@sample A)) g i,
    sea_dataset block noise ns rng = Ok l -> sea_generate block noise ns = Ok g ->
    (i < length l)%nat ->
    nth_error l i = Some (sea_sample (g_thr g) (g_noise g) (rng i)).
  Proof.
    intros block noise ns rng l g i H G Hi.
    destruct (sea_dataset_closed _ _ _ _ _ H) as (g' & G' & Hn & Hl).
    rewrite G in G'. injection G' as <-. subst l.
    rewrite map_length, seq_length in Hi.
    rewrite nth_error_map, nth_error_nth' with (d := 0%nat) by (rewrite seq_length; exact Hi).
    rewrite seq_nth by exact Hi. reflexivity.
  Qed.

  Lemma dummy_nth : forall cls ns rng (l : list (@sample A)) g i,
    dummy_dataset cls ns rng = Ok l -> dummy_generate cls ns = Ok g ->
    (i < length l)%nat ->
    nth_error l i = Some (dummy_sample (h_cls g) (rng i)).
  Proof.
    intros cls ns rng l g i H G Hi.
    destruct (dummy_dataset_closed _ _ _ _ H) as (g' & G' & Hn & Hl).
    rewrite G in G'. injection G' as <-. subst l.
    rewrite map_length, seq_length in Hi.
    rewrite nth_error_map, nth_error_nth' with (d := 0%nat) by (rewrite seq_length; exact Hi).
    rewrite seq_nth by exact Hi. reflexivity.
  Qed.
End GenAny.

(* ====================================================================== *)
(** * Generators over the reals: the labelling rule and the accepted inputs *)
(* ====================================================================== *)

Local Open Scope R_scope.

(** the concept thresholds of the property, as real numbers *)
Definition sea_threshold (k : Z) : option R :=
  match k with 1%Z => Some 8 | 2%Z => Some 9 | 3%Z => Some 7 | 4%Z => Some (19 / 2) | _ => None end.

(** numeric denotation of an argument (Python's numeric tower: bool < int < float) *)
Definition pyreal (v : pyval RealA) : option R :=
  match v with
  | PInt z => Some (IZR z) | PBool b => Some (IZR (zbool b)) | PFloat x => Some x
  | _ => None
  end.
Definition pyint (v : pyval RealA) : option Z :=
  match v with PInt z => Some z | PBool b => Some (zbool b) | _ => None end.

Definition valid_block (v : pyval RealA) : Prop := exists k, pyreal v = Some (IZR k) /\ (1 <= k <= 4)%Z.
Definition valid_noise (v : pyval RealA) : Prop := exists x, pyreal v = Some x /\ 0 <= x <= 1.
Definition valid_n (v : pyval RealA) : Prop := exists n, pyint v = Some n /\ (1 <= n)%Z.
Definition valid_class (v : pyval RealA) : Prop := exists c, pyreal v = Some (IZR c) /\ (c = 0 \/ c = 1)%Z.

Ltac rcmp :=
  unfold Reqb, Rleb, Rltb in *;
  repeat match goal with
  | H : context [Req_EM_T ?x ?y] |- _ => destruct (Req_EM_T x y)
  | |- context [Req_EM_T ?x ?y] => destruct (Req_EM_T x y)
  | H : context [Rle_dec ?x ?y] |- _ => destruct (Rle_dec x y)
  | |- context [Rle_dec ?x ?y] => destruct (Rle_dec x y)
  | H : context [Rlt_dec ?x ?y] |- _ => destruct (Rlt_dec x y)
  | |- context [Rlt_dec ?x ?y] => destruct (Rlt_dec x y)
  end.

Lemma block_map_real : forall k, @block_map RealA k = sea_threshold k.
Proof.
  intros k. unfold block_map, sea_threshold.
  destruct k as [|p|p]; try reflexivity.
Qed.

Lemma sea_threshold_some : forall k t, sea_threshold k = Some t -> (1 <= k <= 4)%Z.
Proof.
  intros k t. unfold sea_threshold.
  destruct k as [|p|p]; try discriminate.
  repeat (destruct p as [p|p|]; try discriminate); lia.
Qed.

Lemma sea_threshold_range : forall k, (1 <= k <= 4)%Z -> exists t, sea_threshold k = Some t.
Proof.
  intros k H. assert (k = 1 \/ k = 2 \/ k = 3 \/ k = 4)%Z as [-> | [-> | [-> | ->]]] by lia; cbn; eauto.
Qed.

(** the dict lookup succeeds exactly on a value equal to 1, 2, 3 or 4 *)
Lemma block_lookup_ok : forall (v : pyval RealA) t,
  block_lookup v = Ok t <-> exists k, pyreal v = Some (IZR k) /\ sea_threshold k = Some t.
Proof.
  intros v t. unfold block_lookup, bind. split.
  - destruct v as [z|b|x| | | |]; cbn [block_key pyreal]; try discriminate.
    + rewrite block_map_real. destruct (sea_threshold z) eqn:E; [|discriminate].
      intros H; injection H as <-. eauto.
    + rewrite block_map_real. destruct (sea_threshold (zbool b)) eqn:E; [|discriminate].
      intros H; injection H as <-. eauto.
    + cbn [eqb ofZ RealA]. intros H. rcmp; subst;
        try discriminate; rewrite block_map_real in H;
        [exists 1%Z|exists 2%Z|exists 3%Z|exists 4%Z]; (split; [reflexivity|]);
        cbn in *; injection H as <-; reflexivity.
  - intros (k & Hv & Hk).
    destruct v as [z|b|x| | | |]; cbn [block_key pyreal] in *; try discriminate.
    + injection Hv as Hv. apply eq_IZR in Hv. subst. rewrite block_map_real, Hk. reflexivity.
    + injection Hv as Hv. apply eq_IZR in Hv. rewrite Hv, block_map_real, Hk. reflexivity.
    + injection Hv as ->. pose proof (sea_threshold_some _ _ Hk) as Hr.
      cbn [eqb ofZ RealA].
      assert (k = 1 \/ k = 2 \/ k = 3 \/ k = 4)%Z as [-> | [-> | [-> | ->]]] by lia;
        rcmp; try lra; rewrite block_map_real, Hk; reflexivity.
Qed.

Lemma block_lookup_valid : forall v : pyval RealA, (exists t, block_lookup v = Ok t) <-> valid_block v.
Proof.
  intros v. split.
  - intros (t & H). apply block_lookup_ok in H. destruct H as (k & Hv & Hk).
    exists k. split; [exact Hv|]. eapply sea_threshold_some; eauto.
  - intros (k & Hv & Hk). destruct (sea_threshold_range k Hk) as (t & Ht).
    exists t. apply block_lookup_ok. eauto.
Qed.

Lemma block_lookup_error : forall (v : pyval RealA) e,
  block_lookup v = Raise e -> e = InvalidBlockError \/ e = TypeError.
Proof.
  intros v e. unfold block_lookup, bind.
  destruct (block_key v) as [[k|]|e'] eqn:E.
  - destruct (block_map k); [discriminate|]. intros H; injection H as <-; auto.
  - intros H; injection H as <-; auto.
  - destruct v; cbn in E; try discriminate. injection E as <-. intros H; injection H as <-; auto.
Qed.

Lemma noise_check_valid : forall (v : pyval RealA) x,
  noise_check v = Ok x <-> (pyreal v = Some x /\ 0 <= x <= 1).
Proof.
  intros v x. split.
  - destruct v as [z|[|]|y| | | |]; cbn [noise_check pyreal zbool ofZ leb RealA]; try discriminate.
    + destruct ((0 <=? z) && (z <=? 1))%Z eqn:E; [|discriminate].
      intros H; injection H as <-. apply andb_prop in E as [E1 E2].
      apply Z.leb_le in E1, E2. split; [reflexivity|]. split; apply IZR_le; assumption.
    + intros H; injection H as <-. split; [reflexivity|lra].
    + intros H; injection H as <-. split; [reflexivity|lra].
    + intros H. rcmp; cbn in H; try discriminate. injection H as <-. split; [reflexivity|lra].
  - intros (Hv & H0 & H1).
    destruct v as [z|[|]|y| | | |]; cbn [noise_check pyreal zbool ofZ leb RealA] in *; try discriminate.
    + injection Hv as <-. apply le_IZR in H0, H1.
      destruct ((0 <=? z) && (z <=? 1))%Z eqn:E; [reflexivity|].
      apply andb_false_iff in E as [E|E]; apply Z.leb_gt in E; lia.
    + injection Hv as <-. reflexivity.
    + injection Hv as <-. reflexivity.
    + injection Hv as <-. rcmp; try lra. reflexivity.
Qed.

Lemma n_checks_valid : forall (v : pyval RealA) n,
  (n_lt1 v = Ok false /\ n_range v = Ok n) <-> (pyint v = Some n /\ (1 <= n)%Z).
Proof.
  intros v n. split.
  - intros [H1 H2]. split; [|exact (n_checks_pos _ _ H1 H2)].
    destruct v as [z|b|y| | | |]; cbn in *; try discriminate; injection H2 as <-; reflexivity.
  - intros [Hv Hn]. destruct v as [z|[|]|y| | | |]; cbn in *; try discriminate; injection Hv as <-.
    + split; [|reflexivity]. f_equal. apply Z.ltb_ge. exact Hn.
    + auto.
    + lia.
Qed.

Lemma class_check_valid : forall (v : pyval RealA) c,
  class_check v = Ok c <-> (pyreal v = Some (IZR c) /\ (c = 0 \/ c = 1)%Z).
Proof.
  intros v c. split.
  - destruct v as [z|[|]|y| | | |]; cbn [class_check pyreal zbool ofZ eqb RealA]; try discriminate.
    + destruct ((z =? 1) || (z =? 0))%Z eqn:E; [|discriminate].
      intros H; injection H as <-. split; [reflexivity|].
      apply orb_prop in E as [E|E]; apply Z.eqb_eq in E; lia.
    + intros H; injection H as <-. auto.
    + intros H; injection H as <-. auto.
    + intros H. rcmp; try discriminate; injection H as <-; subst; auto.
  - intros (Hv & Hc).
    destruct v as [z|[|]|y| | | |]; cbn [class_check pyreal zbool ofZ eqb RealA] in *; try discriminate.
    + injection Hv as Hv. apply eq_IZR in Hv. subst z.
      destruct Hc as [->| ->]; reflexivity.
    + injection Hv as Hv. apply eq_IZR in Hv. subst c. reflexivity.
    + injection Hv as Hv. apply eq_IZR in Hv. subst c. reflexivity.
    + injection Hv as ->. destruct Hc as [->| ->]; rcmp; try lra; reflexivity.
Qed.

(** gen_rejects, as an equivalence: [generate_dataset] returns a generator exactly on valid
    arguments; anything else raises InvalidBlockError / ValueError / TypeError *)
Lemma sea_accepts_iff : forall block noise ns : pyval RealA,
  (exists g, sea_generate block noise ns = Ok g) <-> (valid_block block /\ valid_noise noise /\ valid_n ns).
Proof.
  intros block noise ns. split.
  - intros (g & G). destruct (sea_generate_inv _ _ _ _ G) as (Hb & H1 & Hz & H2 & _).
    split; [apply block_lookup_valid; eauto|]. split.
    + apply noise_check_valid in Hz. exists (g_noise g). exact Hz.
    + exists (g_n g). apply n_checks_valid. auto.
  - intros (Hb & (x & Hx) & (n & Hn)).
    apply block_lookup_valid in Hb. destruct Hb as (t & Ht).
    apply noise_check_valid in Hx. apply n_checks_valid in Hn. destruct Hn as [H1 H2].
    unfold sea_generate, bind. rewrite Ht, H1, Hx, H2. eauto.
Qed.

Lemma dummy_accepts_iff : forall cls ns : pyval RealA,
  (exists g, dummy_generate cls ns = Ok g) <-> (valid_class cls /\ valid_n ns).
Proof.
  intros cls ns. split.
  - intros (g & G). destruct (dummy_generate_inv _ _ _ G) as (Hc & H1 & H2 & _).
    split.
    + apply class_check_valid in Hc. exists (h_cls g). exact Hc.
    + exists (h_n g). apply n_checks_valid. auto.
  - intros ((c & Hc) & (n & Hn)).
    apply class_check_valid in Hc. apply n_checks_valid in Hn. destruct Hn as [H1 H2].
    unfold dummy_generate, bind. rewrite Hc, H1, H2. eauto.
Qed.

Lemma res_cases : forall {T} (r : res T), (exists a, r = Ok a) \/ (exists e, r = Raise e).
Proof. intros T [a|e]; eauto. Qed.

Lemma sea_error_classes : forall (block noise ns : pyval RealA) e,
  sea_generate block noise ns = Raise e -> e = InvalidBlockError \/ e = ValueError \/ e = TypeError.
Proof.
  intros block noise ns e. unfold sea_generate, bind.
  destruct (block_lookup block) as [t|e0] eqn:B.
  - destruct ns as [z|[|]|y| | | |]; cbn [n_lt1 n_range];
      try (intros H; injection H as <-; auto; fail);
      try (destruct (_ <? 1)%Z); try (destruct (ltb _ _));
      try (intros H; injection H as <-; auto; fail);
      destruct noise as [z'|[|]|y'| | | |]; cbn [noise_check];
      try (destruct (_ && _)); intros H; try discriminate; injection H as <-; auto.
  - intros H; injection H as <-. destruct (block_lookup_error _ _ B); auto.
Qed.

Lemma sea_rejects : forall block noise ns : pyval RealA,
  ~ (valid_block block /\ valid_noise noise /\ valid_n ns) ->
  exists e, sea_generate block noise ns = Raise e /\
            (e = InvalidBlockError \/ e = ValueError \/ e = TypeError).
Proof.
  intros block noise ns Hn.
  destruct (res_cases (sea_generate block noise ns)) as [(g & G)|(e & E)].
  - exfalso. apply Hn. apply sea_accepts_iff. eauto.
  - exists e. split; [exact E|]. eapply sea_error_classes; eauto.
Qed.

Lemma dummy_error_classes : forall (cls ns : pyval RealA) e,
  dummy_generate cls ns = Raise e -> e = ValueError \/ e = TypeError.
Proof.
  intros cls ns e. unfold dummy_generate, bind.
  destruct (class_check cls) as [c|e0] eqn:C.
  - destruct ns as [z|[|]|y| | | |]; cbn [n_lt1 n_range];
      try (destruct (_ <? 1)%Z); try (destruct (ltb _ _));
      intros H; try discriminate; injection H as <-; auto.
  - intros H; injection H as <-.
    destruct cls as [z|[|]|y| | | |]; cbn [class_check] in C;
      try (destruct (_ || _)); try (destruct (eqb _ _)); try (destruct (eqb _ _));
      try discriminate; injection C as <-; auto.
Qed.

Lemma dummy_rejects : forall cls ns : pyval RealA,
  ~ (valid_class cls /\ valid_n ns) ->
  exists e, dummy_generate cls ns = Raise e /\ (e = ValueError \/ e = TypeError).
Proof.
  intros cls ns Hn.
  destruct (res_cases (dummy_generate cls ns)) as [(g & G)|(e & E)].
  - exfalso. apply Hn. apply dummy_accepts_iff. eauto.
  - exists e. split; [exact E|]. eapply dummy_error_classes; eauto.
Qed.

(** sea_labels: at noise 0 (given [np.random.random() >= 0]) sample i carries the three
    uniform draws unchanged and label 1 iff x0 + x1 <= threshold(block), else 0 *)
Lemma sea_labels_lemma : forall (block noise ns : pyval RealA) rng l,
  (forall i, 0 <= d_u (rng i)) ->
  noise_check noise = Ok 0 ->
  sea_dataset block noise ns rng = Ok l ->
  exists k thr, pyreal block = Some (IZR k) /\ sea_threshold k = Some thr /\
  forall i, (i < length l)%nat ->
    exists y, nth_error l i = Some ([d_x0 (rng i); d_x1 (rng i); d_x2 (rng i)], y) /\
      (y = 1%Z <-> d_x0 (rng i) + d_x1 (rng i) <= thr) /\
      (y = 0%Z <-> thr < d_x0 (rng i) + d_x1 (rng i)).
Proof.
  intros block noise ns rng l Hu Hz H.
  destruct (sea_dataset_closed _ _ _ _ _ H) as (g & G & Hn & Hl).
  destruct (sea_generate_inv _ _ _ _ G) as (Hb & _ & Hz' & _ & _).
  rewrite Hz in Hz'. injection Hz' as Hz'.
  apply block_lookup_ok in Hb. destruct Hb as (k & Hk & Ht).
  exists k, (g_thr g). split; [exact Hk|]. split; [exact Ht|].
  intros i Hi. rewrite (sea_nth _ _ _ _ _ _ _ H G Hi).
  unfold sea_sample. rewrite <- Hz'. cbn [ltb leb add RealA].
  specialize (Hu i).
  destruct (Rltb (d_u (rng i)) 0) eqn:E0; [apply Rltb_true in E0; lra|].
  destruct (Rleb (d_x0 (rng i) + d_x1 (rng i)) (g_thr g)) eqn:E1.
  - apply Rleb_true in E1. exists 1%Z. split; [reflexivity|]. split; split; intros; auto; try lra; discriminate.
  - apply Rleb_false in E1. exists 0%Z. split; [reflexivity|]. split; split; intros; auto; try lra; discriminate.
Qed.

(** at noise 1 (given [np.random.random() < 1]) every label is the random bit *)
Lemma sea_noise_one_lemma : forall (block noise ns : pyval RealA) rng l,
  (forall i, d_u (rng i) < 1) ->
  noise_check noise = Ok 1 ->
  sea_dataset block noise ns rng = Ok l ->
  forall i, (i < length l)%nat ->
    nth_error l i = Some ([d_x0 (rng i); d_x1 (rng i); d_x2 (rng i)], d_bit (rng i)).
Proof.
  intros block noise ns rng l Hu Hz H i Hi.
  destruct (sea_dataset_closed _ _ _ _ _ H) as (g & G & Hn & Hl).
  destruct (sea_generate_inv _ _ _ _ G) as (_ & _ & Hz' & _ & _).
  rewrite Hz in Hz'. injection Hz' as Hz'.
  rewrite (sea_nth _ _ _ _ _ _ _ H G Hi). unfold sea_sample. rewrite <- Hz'. cbn [ltb RealA].
  specialize (Hu i). destruct (Rltb (d_u (rng i)) 1) eqn:E0; [reflexivity|].
  apply Rltb_false in E0. lra.
Qed.

(** dummy_labels: label = class_ iff x0 + x1 < 10, else the other class *)
Lemma dummy_labels_lemma : forall (cls ns : pyval RealA) rng l,
  dummy_dataset cls ns rng = Ok l ->
  exists c, pyreal cls = Some (IZR c) /\ (c = 0 \/ c = 1)%Z /\
  forall i, (i < length l)%nat ->
    exists y, nth_error l i = Some ([e_x0 (rng i); e_x1 (rng i)], y) /\
      (y = c <-> e_x0 (rng i) + e_x1 (rng i) < 10) /\
      (y = (1 - c)%Z <-> 10 <= e_x0 (rng i) + e_x1 (rng i)).
Proof.
  intros cls ns rng l H.
  destruct (dummy_dataset_closed _ _ _ _ H) as (g & G & Hn & Hl).
  destruct (dummy_generate_inv _ _ _ G) as (Hc & _ & _ & _).
  apply class_check_valid in Hc. destruct Hc as [Hc Hc01].
  exists (h_cls g). split; [exact Hc|]. split; [exact Hc01|].
  intros i Hi. rewrite (dummy_nth _ _ _ _ _ _ H G Hi).
  unfold dummy_sample. cbn [ltb add ofZ RealA].
  destruct (Rltb (e_x0 (rng i) + e_x1 (rng i)) 10) eqn:E.
  - apply Rltb_true in E. exists (h_cls g). split; [reflexivity|].
    split; split; intros; auto; try lra; lia.
  - apply Rltb_false in E. exists (1 - h_cls g)%Z. split; [reflexivity|].
    split; split; intros; auto; try lra; lia.
Qed.

(** range of the features: they ARE the draws, so they inherit the oracle's range *)
Lemma sea_features_range : forall (block noise ns : pyval RealA) rng l,
  (forall i, 0 <= d_x0 (rng i) < 10 /\ 0 <= d_x1 (rng i) < 10 /\ 0 <= d_x2 (rng i) < 10) ->
  sea_dataset block noise ns rng = Ok l ->
  forall X y x, In (X, y) l -> In x X -> 0 <= x < 10.
Proof.
  intros block noise ns rng l Hr H X y x Hin Hx.
  destruct (sea_dataset_closed _ _ _ _ _ H) as (g & G & Hn & ->).
  apply in_map_iff in Hin. destruct Hin as (i & Hs & _).
  unfold sea_sample in Hs. injection Hs as <- _.
  specialize (Hr i). cbn in Hx. destruct Hx as [<-|[<-|[<-|[]]]]; tauto.
Qed.

Close Scope R_scope.

(* ====================================================================== *)
(** * Download                                                              *)
(* ====================================================================== *)

(** mirrors [ms] numbered from [i]: the transport calls made when every one is tried *)
Fixpoint calls_seq (i : nat) (ms : list mirror) : list call :=
  match ms with
  | [] => []
  | m :: r => snd (attempt_mirror i m) ++ calls_seq (S i) r
  end.

Lemma attempt_class_indep : forall i j m, fst (attempt_mirror i m) = fst (attempt_mirror j m).
Proof.
  intros i j m. unfold attempt_mirror.
  destruct (m_head m) as [e|s]; [reflexivity|].
  destruct (http_error s); [reflexivity|].
  destruct (m_get m) as [e|s' body]; [reflexivity|].
  destruct (http_error s'); [reflexivity|].
  destruct body; reflexivity.
Qed.

Lemma classify_attempt : forall i m,
  fst (attempt_mirror i m) = match classify m with Reach b => AGot b | Fail => AFail | Abort => AAbort end.
Proof.
  intros i m. unfold classify. rewrite (attempt_class_indep i 0).
  destruct (fst (attempt_mirror 0 m)); reflexivity.
Qed.

Lemma download_from_first : forall ms k st i m b,
  nth_error ms i = Some m -> classify m = Reach b ->
  (forall j mj, (j < i)%nat -> nth_error ms j = Some mj -> classify mj = Fail) ->
  download_from k ms st =
    (match write_file st b with DOk st' => (DOk tt, st') | DRaise e => (DRaise e, st) end,
     calls_seq k (firstn (S i) ms)).
Proof.
  induction ms as [|m0 ms IH]; intros k st i m b Hn Hc Hf.
  - destruct i; discriminate.
  - destruct i as [|i].
    + cbn in Hn. injection Hn as ->. cbn [download_from firstn calls_seq].
      pose proof (classify_attempt k m) as Ha. rewrite Hc in Ha.
      destruct (attempt_mirror k m) as [a calls]. cbn in Ha. subst a. cbn [snd].
      rewrite app_nil_r. destruct (write_file st b); reflexivity.
    + cbn [download_from]. pose proof (classify_attempt k m0) as Ha.
      rewrite (Hf 0%nat m0) in Ha by (try lia; reflexivity).
      destruct (attempt_mirror k m0) as [a calls] eqn:Ea. cbn in Ha. subst a.
      rewrite (IH (S k) st i m b Hn Hc).
      * change (firstn (S (S i)) (m0 :: ms)) with (m0 :: firstn (S i) ms).
        cbn [calls_seq]. rewrite Ea. cbn [snd]. destruct (write_file st b); reflexivity.
      * intros j mj Hj Hnj. apply (Hf (S j) mj); [lia|exact Hnj].
Qed.

Lemma download_from_all_fail : forall ms k st,
  (forall m, In m ms -> classify m = Fail) ->
  download_from k ms st = (DRaise ExDownloadError, st, calls_seq k ms).
Proof.
  induction ms as [|m0 ms IH]; intros k st Hf; [reflexivity|].
  cbn [download_from calls_seq]. pose proof (classify_attempt k m0) as Ha.
  rewrite (Hf m0 (or_introl eq_refl)) in Ha.
  destruct (attempt_mirror k m0) as [a calls]. cbn in Ha. subst a.
  rewrite IH by (intros m Hm; apply Hf; right; exact Hm). reflexivity.
Qed.

Lemma download_from_error_all_fail : forall ms k st,
  fst (fst (download_from k ms st)) = DRaise ExDownloadError ->
  forall m, In m ms -> classify m = Fail.
Proof.
  induction ms as [|m0 ms IH]; intros k st H m Hm; [destruct Hm|].
  cbn [download_from] in H. pose proof (classify_attempt k m0) as Ha.
  destruct (attempt_mirror k m0) as [a calls]. cbn in Ha.
  destruct a as [| |b].
  - assert (H0 : classify m0 = Fail) by (destruct (classify m0); congruence).
    destruct Hm as [<-|Hm]; [exact H0|].
    destruct (download_from (S k) ms st) as [[r st'] tr] eqn:E. cbn in H.
    apply (IH (S k) st); [rewrite E; exact H|exact Hm].
  - cbn in H. discriminate.
  - unfold write_file in H. destruct (dl_path st); cbn in H; discriminate.
Qed.

Lemma download_from_abort : forall ms k st i m,
  nth_error ms i = Some m -> classify m = Abort ->
  (forall j mj, (j < i)%nat -> nth_error ms j = Some mj -> classify mj = Fail) ->
  download_from k ms st = (DRaise ExPropagated, st, calls_seq k (firstn (S i) ms)).
Proof.
  induction ms as [|m0 ms IH]; intros k st i m Hn Hc Hf.
  - destruct i; discriminate.
  - destruct i as [|i].
    + cbn in Hn. injection Hn as ->. cbn [download_from firstn calls_seq].
      pose proof (classify_attempt k m) as Ha. rewrite Hc in Ha.
      destruct (attempt_mirror k m) as [a calls]. cbn in Ha. subst a. cbn [snd].
      rewrite app_nil_r. reflexivity.
    + cbn [download_from]. pose proof (classify_attempt k m0) as Ha.
      rewrite (Hf 0%nat m0) in Ha by (try lia; reflexivity).
      destruct (attempt_mirror k m0) as [a calls] eqn:Ea. cbn in Ha. subst a.
      rewrite (IH (S k) st i m Hn Hc).
      * change (firstn (S (S i)) (m0 :: ms)) with (m0 :: firstn (S i) ms).
        cbn [calls_seq]. rewrite Ea. reflexivity.
      * intros j mj Hj Hnj. apply (Hf (S j) mj); [lia|exact Hnj].
Qed.

(** the trace is always: mirrors 0..k-1 each tried once, in list order, HEAD before GET *)
Lemma download_from_trace_prefix : forall ms k st,
  exists n, (n <= length ms)%nat /\ snd (download_from k ms st) = calls_seq k (firstn n ms).
Proof.
  induction ms as [|m0 ms IH]; intros k st.
  - exists 0%nat. split; [apply le_n|reflexivity].
  - cbn [download_from]. destruct (attempt_mirror k m0) as [a calls] eqn:Ea.
    destruct a as [| |b].
    + destruct (IH (S k) st) as (n & Hn & Ht).
      destruct (download_from (S k) ms st) as [[r st'] tr]. cbn in Ht. subst tr.
      exists (S n). split; [cbn; lia|]. cbn [firstn calls_seq snd]. rewrite Ea. reflexivity.
    + exists 1%nat. split; [cbn; lia|]. cbn [firstn calls_seq snd]. rewrite Ea, app_nil_r. reflexivity.
    + exists 1%nat. split; [cbn; lia|]. cbn [firstn calls_seq]. rewrite Ea, app_nil_r.
      destruct (write_file st b); reflexivity.
Qed.

Lemma calls_of_shape : forall i m,
  snd (attempt_mirror i m) = [CHead i] \/ snd (attempt_mirror i m) = [CHead i; CGet i].
Proof.
  intros i m. unfold attempt_mirror.
  destruct (m_head m) as [e|s]; [auto|].
  destruct (http_error s); [auto|].
  destruct (m_get m) as [e|s' body]; [auto|].
  destruct (http_error s'); [auto|].
  destruct body; auto.
Qed.

(** the file is never touched unless the call returns normally *)
Lemma download_from_state : forall ms k st,
  match fst (fst (download_from k ms st)) with
  | DOk _ => exists b, snd (fst (download_from k ms st)) = {| dl_path := true; dl_file := Some b |}
  | DRaise _ => snd (fst (download_from k ms st)) = st
  end.
Proof.
  induction ms as [|m0 ms IH]; intros k st; [reflexivity|].
  cbn [download_from]. destruct (attempt_mirror k m0) as [a calls].
  destruct a as [| |b].
  - specialize (IH (S k) st). destruct (download_from (S k) ms st) as [[r st'] tr]. exact IH.
  - reflexivity.
  - unfold write_file. destruct (dl_path st); cbn; eauto.
Qed.

(** load *)
Lemma load_ok : forall D (parse : bytes -> parse_out D) st c d,
  dl_path st = true -> dl_file st = Some c -> parse c = PData d ->
  load parse st = (DOk d, {| dl_path := false; dl_file := None |}).
Proof. intros D parse st c d Hp Hf Hd. unfold load. rewrite Hp, Hf, Hd. reflexivity. Qed.

Lemma load_ok_inv : forall D (parse : bytes -> parse_out D) st d st',
  load parse st = (DOk d, st') ->
  exists c, dl_path st = true /\ dl_file st = Some c /\ parse c = PData d /\
            st' = {| dl_path := false; dl_file := None |}.
Proof.
  intros D parse st d st'. unfold load.
  destruct (dl_path st); cbn; [|discriminate].
  destruct (dl_file st) as [c|]; [|discriminate].
  destruct (parse c) as [d'| |] eqn:E; try discriminate.
  intros H. injection H as <- <-. eauto.
Qed.

Lemma load_fail_keeps : forall D (parse : bytes -> parse_out D) st e st',
  load parse st = (DRaise e, st') -> st' = st.
Proof.
  intros D parse st e st'. unfold load.
  destruct (dl_path st); cbn; [|intros H; injection H; auto].
  destruct (dl_file st) as [c|]; [|intros H; injection H; auto].
  destruct (parse c); try discriminate; intros H; injection H; auto.
Qed.
